package main

// C11 — the file store never writes outside its working directory.
//
// R1 sanitiser dominance (value flow + success-edge dominance), R2 the
// sanitisers reject (path rules on the three sanitiser roles), R3 sinks that
// follow a symbolic link in the final component / hard-link old name.
//
// Sanitisers are located by role, never by name:
//   write-path sanitiser (today resolveWritePath): method reading the exported option
//       Store.AllowPathTraversalOnWrite and returning (string, error);
//   archive-entry sanitiser (today resolveRelToBase): plain function returning (string, error)
//       that calls filepath.Rel and os.Lstat and mutates nothing;
//   link-target sanitiser (today ensureLinkPath): plain function returning (string, error)
//       that calls the archive-entry sanitiser and mutates nothing.

import (
	"fmt"
	"go/constant"
	"go/token"
	"go/types"
	"sort"
	"strings"

	"golang.org/x/tools/go/ssa"
)

func init() {
	register(&propDef{
		ID: "C11",
		Explain: "Decided: (R1) every path argument of every file-system mutator in content/file is built only from the store's working directory, constants, " +
			"API arguments, the system temp directory, and results of the write-path / archive-entry / link-target sanitisers taken on the success edge of the " +
			"sanitiser call (interprocedural backward slice; descriptor fields and tar header fields are the taint sources; unknown os functions fail closed); " +
			"(R2) the three sanitisers reject: filepath.Rel plus the '../'-prefix and '..' tests lie on every successful return, the ancestor walk Lstats every " +
			"parent on every iteration and a symlink ancestor never leads to success, a relative link target is resolved against the link's directory before validation; " +
			"(R2, added) the write-path sanitiser must also cover symbolic links in the *parent* components of a name (ancestor Lstat walk, delegation to the archive-entry sanitiser, or EvalSymlinks before Rel) — " +
			"today it does not (new genuine defect, failing input in checker/c11_demo_symlinked_parent.txt); " +
			"(R3) sinks that follow a symbolic link in the last component (Create, OpenFile without O_EXCL/O_NOFOLLOW, Chmod, …) on a sanitised-but-attacker-named path need a " +
			"dominating no-follow guard on the same value, and os.Link's old name must be the validated path itself (known genuine defects D6, D7 are reported here). " +
			"NOT decided (not applicable to static analysis): completeness of the lexical check over all entry sequences, races between check and use, behaviour of the OS path resolution.",
		Run:     runC11,
		Mutants: c11Mutants,
	})
}

const (
	c11Pkg        = "content/file"
	c11AllowField = "~/content/file.Store.AllowPathTraversalOnWrite"
	c11WorkDir    = "~/content/file.Store.workingDir"
)

// path-taking mutators of package os: indices of the path arguments.
var c11PathArgs = map[string][]int{
	"os.Create": {0}, "os.OpenFile": {0}, "os.WriteFile": {0}, "os.Rename": {0, 1}, "os.Remove": {0}, "os.RemoveAll": {0},
	"os.Mkdir": {0}, "os.MkdirAll": {0}, "os.MkdirTemp": {0}, "os.CreateTemp": {0}, "os.Chmod": {0}, "os.Chown": {0}, "os.Lchown": {0},
	"os.Chtimes": {0}, "os.Link": {0, 1}, "os.Symlink": {0, 1}, "os.Truncate": {0},
	"io/ioutil.WriteFile": {0}, "io/ioutil.TempFile": {0}, "io/ioutil.TempDir": {0},
}

// os functions taking a string that do not mutate the file system.
var c11ReadOnlyOS = map[string]bool{
	"os.Open": true, "os.Stat": true, "os.Lstat": true, "os.Readlink": true, "os.ReadFile": true, "os.ReadDir": true,
	"os.Getenv": true, "os.LookupEnv": true, "os.DirFS": true, "os.ExpandEnv": true, "os.IsPathSeparator": true,
	"io/ioutil.ReadFile": true, "io/ioutil.ReadDir": true,
}

// sinks that follow a symbolic link found in the last path component.
var c11Followers = map[string]bool{
	"os.Create": true, "os.OpenFile": true, "os.WriteFile": true, "io/ioutil.WriteFile": true,
	"os.Chmod": true, "os.Chown": true, "os.Truncate": true,
}

// pure string/path combinators: the result is built from the arguments.
var c11Combinators = map[string]bool{
	"path/filepath.Join": true, "path/filepath.Clean": true, "path/filepath.Dir": true, "path/filepath.Abs": true,
	"path/filepath.Rel": true, "path/filepath.ToSlash": true, "path/filepath.FromSlash": true, "path/filepath.Base": true,
	"path/filepath.VolumeName": true, "path.Join": true, "path.Clean": true, "path.Dir": true, "path.Base": true,
	"strings.TrimPrefix": true, "strings.TrimSuffix": true, "strings.TrimSpace": true, "strings.Trim": true,
	"strings.TrimLeft": true, "strings.TrimRight": true, "strings.ReplaceAll": true, "strings.Replace": true,
	"strings.ToLower": true, "strings.ToUpper": true, "strings.Join": true, "fmt.Sprintf": true, "fmt.Sprint": true,
}

type c11Roles struct {
	SW, SR, SL []*ssa.Function
	role       map[*ssa.Function]string // "write-path" | "archive-entry" | "link-target"
	// linkReturnsValidated: link-target sanitisers whose result is the validated path itself
	linkReturnsValidated map[*ssa.Function]bool
}

// c11Reaches: f, or an in-package function it statically calls (depth), calls name directly.
func c11Reaches(f *ssa.Function, name string, depth int) bool {
	if len(CallsTo(f, name)) > 0 {
		return true
	}
	for _, a := range Anons(f) { // closures, incl. the bodies of range-over-func loops
		if len(CallsTo(a, name)) > 0 {
			return true
		}
	}
	if depth <= 0 {
		return false
	}
	for _, call := range Calls(f, func(string) bool { return true }) {
		if g := StaticCallee(call); g != nil && g != f && len(g.Blocks) > 0 && fnPkgPath(g) == fnPkgPath(f) && c11Reaches(g, name, depth-1) {
			return true
		}
	}
	return false
}

// c11PkgFns: the functions of content/file of the program being analysed (set by runC11 / the C12 rules that reuse the roles).
var c11PkgFns []*ssa.Function

// c11FuncsOfPkg: FuncsOfPkg plus every nested function literal, including the
// synthesized yield closures of range-over-func loops (which carry a Synthetic
// tag and are therefore dropped by the shared FuncsOfPkg).
func c11FuncsOfPkg(p *Prog, rel string) []*ssa.Function {
	base := p.FuncsOfPkg(rel)
	seen := map[*ssa.Function]bool{}
	var out []*ssa.Function
	var add func(f *ssa.Function)
	add = func(f *ssa.Function) {
		if seen[f] || len(f.Blocks) == 0 {
			return
		}
		seen[f] = true
		out = append(out, f)
		for _, a := range f.AnonFuncs {
			add(a)
		}
	}
	for _, f := range base {
		add(f)
	}
	return out
}

func c11IsPathMutator(n string) bool { _, ok := c11PathArgs[n]; return ok }

func c11HasStringErrResults(f *ssa.Function) bool {
	r := f.Signature.Results()
	if r.Len() != 2 || !isErrorType(r.At(1).Type()) {
		return false
	}
	b, ok := r.At(0).Type().Underlying().(*types.Basic)
	return ok && b.Kind() == types.String
}

func c11FieldReads(fn *ssa.Function, field string) map[ssa.Value]bool {
	out := map[ssa.Value]bool{}
	AllInstrs(fn, func(in ssa.Instruction) {
		switch u := in.(type) {
		case *ssa.UnOp:
			if fa, ok := u.X.(*ssa.FieldAddr); ok && u.Op == token.MUL && fieldName(fa.X.Type(), fa.Field) == field {
				for a := range Aliases(u) {
					out[a] = true
				}
			}
		case *ssa.Field:
			if fieldName(u.X.Type(), u.Field) == field {
				for a := range Aliases(u) {
					out[a] = true
				}
			}
		}
	})
	return out
}

func c11ResolveRoles(c *Ctx, fns []*ssa.Function) *c11Roles {
	r := &c11Roles{role: map[*ssa.Function]string{}, linkReturnsValidated: map[*ssa.Function]bool{}}
	mutates := func(f *ssa.Function) bool { return len(Calls(f, c11IsPathMutator)) > 0 }
	for _, f := range fns {
		if f.Parent() != nil || !c11HasStringErrResults(f) {
			continue
		}
		switch {
		case len(c11FieldReads(f, c11AllowField)) > 0:
			r.SW = append(r.SW, f)
			r.role[f] = "write-path"
		}
	}
	// archive-entry sanitiser: computes filepath.Rel and Lstats (itself or through in-package helpers), and
	// is minimal with that property (the link-target sanitiser reaches both only through it)
	var cand []*ssa.Function
	for _, f := range fns {
		if f.Parent() != nil || !c11HasStringErrResults(f) || r.role[f] != "" || f.Signature.Recv() != nil || mutates(f) {
			continue
		}
		if c11Reaches(f, "path/filepath.Rel", 2) && c11Reaches(f, "os.Lstat", 2) {
			cand = append(cand, f)
		}
	}
	for _, f := range cand {
		minimal := true
		for _, call := range Calls(f, func(string) bool { return true }) {
			for _, g := range cand {
				if g != f && StaticCallee(call) == g {
					minimal = false
				}
			}
		}
		if minimal {
			r.SR = append(r.SR, f)
			r.role[f] = "archive-entry"
		}
	}
	for _, f := range fns {
		if f.Parent() != nil || !c11HasStringErrResults(f) || r.role[f] != "" || mutates(f) {
			continue
		}
		// ... whose result becomes the old name (link content) of an os.Symlink / os.Link:
		// other helpers wrapping the archive-entry sanitiser are ordinary functions
		// (the value flow looks through them)
		feedsLink := false
		for _, h := range fns {
			for _, lk := range CallsTo(h, "os.Symlink", "os.Link") {
				for _, rt := range Roots(lk.Common().Args[0]) {
					if ex, ok := rt.(*ssa.Extract); ok && ex.Index == 0 {
						if call, ok := ex.Tuple.(*ssa.Call); ok && StaticCallee(call) == f {
							feedsLink = true
						}
					}
				}
			}
		}
		if !feedsLink {
			continue
		}
		calls := Calls(f, func(string) bool { return true })
		for _, call := range calls {
			if g := StaticCallee(call); g != nil && r.role[g] == "archive-entry" {
				r.SL = append(r.SL, f)
				r.role[f] = "link-target"
				break
			}
		}
	}
	ok := true
	if len(r.SW) == 0 {
		c.LostAnchor("C11.R2.sanitisers-reject", "write-path sanitiser: a method of ~/content/file returning (string, error) that reads Store.AllowPathTraversalOnWrite")
		ok = false
	}
	if len(r.SR) == 0 {
		c.LostAnchor("C11.R2.sanitisers-reject", "archive-entry sanitiser: a function of ~/content/file returning (string, error) that calls filepath.Rel and os.Lstat")
		ok = false
	}
	if len(r.SL) == 0 {
		c.LostAnchor("C11.R2.sanitisers-reject", "link-target sanitiser: a function of ~/content/file returning (string, error) that calls the archive-entry sanitiser and whose result is the old name of os.Symlink/os.Link")
		ok = false
	}
	if !ok {
		return nil
	}
	return r
}

// ---------- provenance (E9) ----------

type c11Leaf struct {
	Kind string // const | trusted | api | tempdir | san | taint | unknown
	What string
	San  *ssa.Call       // Kind == san: the sanitiser call
	Use  ssa.Instruction // where the value is consumed on its way to the sink, in San's function
}

type c11Flow struct {
	c       *Ctx
	roles   *c11Roles
	fns     []*ssa.Function
	callers map[*ssa.Function][]ssa.CallInstruction
	escapes map[*ssa.Function]bool
}

func c11NewFlow(c *Ctx, roles *c11Roles, fns []*ssa.Function) *c11Flow {
	f := &c11Flow{c: c, roles: roles, fns: fns, callers: map[*ssa.Function][]ssa.CallInstruction{}, escapes: map[*ssa.Function]bool{}}
	for _, fn := range fns {
		AllInstrs(fn, func(in ssa.Instruction) {
			var callee ssa.Value
			if call, ok := in.(ssa.CallInstruction); ok {
				if g := StaticCallee(call); g != nil {
					f.callers[g] = append(f.callers[g], call)
				}
				callee = call.Common().Value
			}
			for _, op := range in.Operands(nil) {
				if *op == nil || *op == callee {
					continue
				}
				if g, ok := (*op).(*ssa.Function); ok {
					f.escapes[g] = true
				}
			}
		})
	}
	return f
}

func c11TaintStruct(t types.Type) string {
	for {
		p, ok := t.Underlying().(*types.Pointer)
		if !ok {
			break
		}
		t = p.Elem()
	}
	n, ok := t.(*types.Named)
	if !ok || n.Obj().Pkg() == nil {
		return ""
	}
	switch n.Obj().Pkg().Path() + "." + n.Obj().Name() {
	case "github.com/opencontainers/image-spec/specs-go/v1.Descriptor":
		return "descriptor"
	case "archive/tar.Header":
		return "tar header"
	}
	return ""
}

// c11CarrierStruct: an unexported named struct type of content/file other than Store.
func c11CarrierStruct(t types.Type) bool {
	for {
		p, ok := t.Underlying().(*types.Pointer)
		if !ok {
			break
		}
		t = p.Elem()
	}
	n, ok := t.(*types.Named)
	if !ok || n.Obj().Pkg() == nil || n.Obj().Exported() || n.Obj().Pkg().Path() != pkgPath(c11Pkg) {
		return false
	}
	_, isStruct := n.Underlying().(*types.Struct)
	return isStruct
}

func c11IsExportedAPI(fn *ssa.Function) bool {
	o := fn.Object()
	if o == nil || !o.Exported() {
		return false
	}
	return fn.Signature.Recv() == nil || isExportedRecv(fn)
}

func (f *c11Flow) prov(v ssa.Value, use ssa.Instruction, depth int, seen map[ssa.Value]bool, out *[]c11Leaf) {
	if v == nil {
		return
	}
	if depth > 14 {
		*out = append(*out, c11Leaf{Kind: "unknown", What: "value-flow depth budget exceeded at " + describe(v)})
		return
	}
	for _, r := range Roots(v) {
		if seen[r] {
			continue
		}
		seen[r] = true
		f.provRoot(r, use, depth, seen, out)
	}
}

func (f *c11Flow) provRoot(r ssa.Value, use ssa.Instruction, depth int, seen map[ssa.Value]bool, out *[]c11Leaf) {
	add := func(kind, what string) { *out = append(*out, c11Leaf{Kind: kind, What: what}) }
	if k := c11TaintStruct(r.Type()); k != "" {
		if _, isParamOrLoad := r.(*ssa.Alloc); !isParamOrLoad {
			add("taint", k+" value "+describe(r))
			return
		}
	}
	classifyField := func(base types.Type, idx int) {
		fname := fieldName(base, idx)
		switch {
		case c11TaintStruct(base) != "":
			add("taint", c11TaintStruct(base)+" field "+fname)
		case fname == c11WorkDir:
			add("trusted", "Store.workingDir")
		default:
			// a field of an unexported in-package struct that merely carries a value (closure state turned into a
			// struct): everything ever stored into that field
			n := 0
			if c11CarrierStruct(base) {
				for _, g := range f.fns {
					AllInstrs(g, func(in ssa.Instruction) {
						st, ok := in.(*ssa.Store)
						if !ok {
							return
						}
						fa, ok := st.Addr.(*ssa.FieldAddr)
						if ok && fa.Field == idx && fieldName(fa.X.Type(), fa.Field) == fname {
							n++
							f.prov(st.Val, st, depth+1, seen, out)
						}
					})
				}
			}
			if n == 0 {
				add("unknown", "field "+fname+" (not classified as trusted or attacker-controlled)")
			}
		}
	}
	switch u := r.(type) {
	case *ssa.Const:
		if s, ok := constString(u); ok && strings.Contains(s, "..") {
			add("unknown", fmt.Sprintf("string constant %q contains a parent-directory component", s))
			return
		}
		add("const", "constant")
	case *ssa.Parameter:
		f.provParam(u, depth, seen, out)
	case *ssa.FreeVar:
		for _, b := range freeVarBindings(u) {
			f.prov(b, nil, depth+1, seen, out)
		}
	case *ssa.UnOp:
		if u.Op != token.MUL {
			add("unknown", describe(u))
			return
		}
		switch x := u.X.(type) {
		case *ssa.FieldAddr:
			classifyField(x.X.Type(), x.Field)
		case *ssa.FreeVar:
			bs := freeVarBindings(x)
			if len(bs) == 0 {
				add("unknown", "free variable "+x.Name()+" without binding")
			}
			for _, b := range bs {
				a, ok := b.(*ssa.Alloc)
				if !ok {
					f.prov(b, nil, depth+1, seen, out)
					continue
				}
				for _, s := range storesTo(a) {
					f.prov(s.Val, nil, depth+1, seen, out)
				}
			}
		case *ssa.Alloc:
			add("const", "zero value") // Roots keeps the load only when no store reaches
		case *ssa.IndexAddr:
			f.prov(x.X, use, depth+1, seen, out)
		default:
			add("unknown", "load "+describe(u))
		}
	case *ssa.Field:
		classifyField(u.X.Type(), u.Field)
	case *ssa.Lookup:
		if fld := fieldOfFuncValue(u.X); fld != "" {
			var base types.Type
			switch x := u.X.(type) {
			case *ssa.UnOp:
				base = x.X.(*ssa.FieldAddr).X.Type()
			case *ssa.Field:
				base = x.X.Type()
			}
			if base != nil && c11TaintStruct(base) != "" {
				add("taint", c11TaintStruct(base)+" "+fld+"[…]")
				return
			}
		}
		add("unknown", "map element "+describe(u))
	case *ssa.Extract:
		switch t := u.Tuple.(type) {
		case *ssa.Call:
			f.provCall(t, u.Index, use, depth, seen, out)
		case *ssa.TypeAssert:
			f.prov(t.X, use, depth+1, seen, out)
		case *ssa.Lookup:
			f.provRoot(t, use, depth, seen, out)
		default:
			add("unknown", describe(u))
		}
	case *ssa.Call:
		f.provCall(u, 0, use, depth, seen, out)
	case *ssa.BinOp:
		if u.Op == token.ADD {
			f.prov(u.X, use, depth+1, seen, out)
			f.prov(u.Y, use, depth+1, seen, out)
			return
		}
		add("unknown", describe(u))
	case *ssa.Slice:
		f.prov(u.X, use, depth+1, seen, out)
	case *ssa.Alloc:
		n := 0
		for _, ref := range *u.Referrers() {
			switch a := ref.(type) {
			case *ssa.IndexAddr:
				for _, r2 := range *a.Referrers() {
					if s, ok := r2.(*ssa.Store); ok && s.Addr == a {
						n++
						f.prov(s.Val, use, depth+1, seen, out)
					}
				}
			case *ssa.FieldAddr:
				for _, r2 := range *a.Referrers() {
					if s, ok := r2.(*ssa.Store); ok && s.Addr == a {
						n++
						f.prov(s.Val, use, depth+1, seen, out)
					}
				}
			case *ssa.Store:
				if a.Addr == u {
					n++
					f.prov(a.Val, use, depth+1, seen, out)
				}
			}
		}
		if n == 0 {
			add("const", "zero value")
		}
	case *ssa.TypeAssert:
		f.prov(u.X, use, depth+1, seen, out)
	default:
		add("unknown", describe(r))
	}
}

func (f *c11Flow) provParam(p *ssa.Parameter, depth int, seen map[ssa.Value]bool, out *[]c11Leaf) {
	add := func(kind, what string) { *out = append(*out, c11Leaf{Kind: kind, What: what}) }
	fn := p.Parent()
	idx := -1
	for i, q := range fn.Params {
		if q == p {
			idx = i
		}
	}
	if fn.Parent() != nil {
		f.provClosureParam(fn, idx, depth, seen, out)
		return
	}
	if c11IsExportedAPI(fn) {
		add("api", "argument "+p.Name()+" of exported "+FnName(fn))
		return
	}
	if f.escapes[fn] {
		add("unknown", FnName(fn)+" is used as a function value; its callers cannot be enumerated")
	}
	cs := f.callers[fn]
	if len(cs) == 0 {
		add("unknown", "parameter "+p.Name()+" of "+FnName(fn)+", which has no static caller")
	}
	for _, call := range cs {
		args := call.Common().Args
		if idx < 0 || idx >= len(args) {
			add("unknown", "argument mismatch at call of "+FnName(fn))
			continue
		}
		f.prov(args[idx], call.(ssa.Instruction), depth+1, seen, out)
	}
}

// provClosureParam understands one idiom: the callback of (*sync.Map).Range on
// a struct field; its parameters are the keys / values stored into that field.
func (f *c11Flow) provClosureParam(fn *ssa.Function, idx int, depth int, seen map[ssa.Value]bool, out *[]c11Leaf) {
	add := func(kind, what string) { *out = append(*out, c11Leaf{Kind: kind, What: what}) }
	found := false
	AllInstrs(fn.Parent(), func(in ssa.Instruction) {
		mc, ok := in.(*ssa.MakeClosure)
		if !ok || mc.Fn != fn {
			return
		}
		for _, ref := range *mc.Referrers() {
			call, ok := ref.(*ssa.Call)
			if !ok {
				continue
			}
			var mapArg ssa.Value
			switch {
			case CalleeName(call) == "(*sync.Map).Range" && len(call.Call.Args) == 2 && call.Call.Args[1] == ssa.Value(mc):
				mapArg = call.Call.Args[0]
			case len(call.Call.Args) == 1 && call.Call.Args[0] == ssa.Value(mc):
				// `for k, v := range m.Range`: the bound method value m.Range called with the loop body
				if bm, isMC := call.Call.Value.(*ssa.MakeClosure); isMC && len(bm.Bindings) == 1 {
					if g := bm.Fn.(*ssa.Function); strings.HasPrefix(g.Synthetic, "bound method") && strings.HasPrefix(fnFullName(g), "(*sync.Map).Range") {
						mapArg = bm.Bindings[0]
					}
				}
			}
			if mapArg == nil {
				continue // other uses are judged by provClosureViaDynamicCalls
			}
			fa, ok := mapArg.(*ssa.FieldAddr)
			if !ok {
				add("unknown", "sync.Map.Range over a map that is not a struct field")
				found = true
				continue
			}
			field := fieldName(fa.X.Type(), fa.Field)
			found = true
			n := 0
			for _, g := range f.fns {
				for _, st := range CallsTo(g, "(*sync.Map).Store", "(*sync.Map).LoadOrStore", "(*sync.Map).Swap", "(*sync.Map).CompareAndSwap") {
					a := st.Common().Args
					fa2, ok := a[0].(*ssa.FieldAddr)
					if !ok || fieldName(fa2.X.Type(), fa2.Field) != field {
						continue
					}
					if idx+1 < len(a) {
						n++
						f.prov(a[idx+1], st.(ssa.Instruction), depth+1, seen, out)
					}
				}
			}
			if n == 0 {
				add("unknown", "nothing is ever stored into "+field)
			}
		}
	})
	if !found {
		f.provClosureViaDynamicCalls(fn, idx, depth, seen, out)
	}
}

// provClosureViaDynamicCalls: the closure is kept as a function value (in a
// map / slice / local used as a dispatch table) and invoked through a dynamic
// call in the enclosing function.  Every dynamic call of the enclosing function
// (and its other closures) whose signature is identical may be that invocation;
// its argument is a possible value of the parameter.  The closure value must
// not escape otherwise.
func (f *c11Flow) provClosureViaDynamicCalls(fn *ssa.Function, idx int, depth int, seen map[ssa.Value]bool, out *[]c11Leaf) {
	add := func(kind, what string) { *out = append(*out, c11Leaf{Kind: kind, What: what}) }
	par := fn.Parent()
	escapes := ""
	nmc := 0
	AllInstrs(par, func(in ssa.Instruction) {
		mc, ok := in.(*ssa.MakeClosure)
		if !ok || mc.Fn != fn {
			return
		}
		nmc++
		var follow func(v ssa.Value, d int)
		follow = func(v ssa.Value, d int) {
			if v.Referrers() == nil || d > 3 {
				return
			}
			for _, ref := range *v.Referrers() {
				switch u := ref.(type) {
				case *ssa.DebugRef:
				case *ssa.MapUpdate:
					if u.Value != v {
						escapes = "used as a map key"
					}
				case *ssa.Store:
					if u.Val != v {
						escapes = "used as an address"
					}
				case *ssa.ChangeType, *ssa.MakeInterface, *ssa.Phi:
					if _, isIface := u.(*ssa.MakeInterface); isIface {
						escapes = "converted to an interface"
					} else {
						follow(u.(ssa.Value), d+1)
					}
				case ssa.CallInstruction:
					if u.Common().Value != v {
						escapes = "passed to " + CalleeName(u)
					}
				default:
					escapes = "used by " + fmt.Sprintf("%T", ref)
				}
			}
		}
		follow(mc, 0)
	})
	// a literal without free variables is a plain function value (no MakeClosure): look at the instructions using it
	AllInstrs(par, func(in ssa.Instruction) {
		for _, op := range in.Operands(nil) {
			if *op != ssa.Value(fn) {
				continue
			}
			nmc++
			switch u := in.(type) {
			case *ssa.MapUpdate:
				if u.Value != ssa.Value(fn) {
					escapes = "used as a map key"
				}
			case *ssa.Store:
				if u.Val != ssa.Value(fn) {
					escapes = "used as an address"
				}
			case *ssa.MakeClosure:
				nmc-- // its own closure creation, handled above
			case *ssa.ChangeType, *ssa.Phi, *ssa.DebugRef:
			case ssa.CallInstruction:
				if u.Common().Value != ssa.Value(fn) {
					escapes = "passed to " + CalleeName(u)
				}
			default:
				escapes = "used by " + fmt.Sprintf("%T", in)
			}
		}
	})
	if nmc == 0 {
		add("unknown", "parameter of closure "+FnName(fn)+" (no binding site found)")
		return
	}
	if escapes != "" {
		add("unknown", "parameter of closure "+FnName(fn)+", whose function value is "+escapes)
		return
	}
	n := 0
	scope := append([]*ssa.Function{par}, Anons(par)...)
	for _, g := range scope {
		for _, call := range Calls(g, func(string) bool { return true }) {
			cc := call.Common()
			if cc.IsInvoke() || StaticCallee(call) != nil {
				continue
			}
			if _, isBuiltin := cc.Value.(*ssa.Builtin); isBuiltin {
				continue
			}
			sig, ok := cc.Value.Type().Underlying().(*types.Signature)
			if !ok || !types.Identical(sig, fn.Signature) || idx >= len(cc.Args) {
				continue
			}
			n++
			f.prov(cc.Args[idx], call.(ssa.Instruction), depth+1, seen, out)
		}
	}
	if n == 0 {
		add("unknown", "parameter of closure "+FnName(fn)+": it is stored as a function value but no dynamic call with its signature is found")
	}
}

func (f *c11Flow) provCall(call *ssa.Call, idx int, use ssa.Instruction, depth int, seen map[ssa.Value]bool, out *[]c11Leaf) {
	add := func(kind, what string) { *out = append(*out, c11Leaf{Kind: kind, What: what}) }
	name := CalleeName(call)
	callee := StaticCallee(call)
	args := call.Call.Args
	if callee != nil && f.roles.role[callee] != "" {
		if idx == 0 {
			*out = append(*out, c11Leaf{Kind: "san", What: f.roles.role[callee] + " sanitiser " + FnName(callee), San: call, Use: use})
		} else {
			add("unknown", "non-path result of "+name)
		}
		return
	}
	switch {
	case c11Combinators[name]:
		if idx != 0 {
			add("unknown", "non-string result of "+name)
			return
		}
		for _, a := range args {
			f.prov(a, use, depth+1, seen, out)
		}
	case name == "(*os.File).Name":
		f.prov(args[0], use, depth+1, seen, out)
	case name == "os.CreateTemp" || name == "os.MkdirTemp" || name == "io/ioutil.TempFile" || name == "io/ioutil.TempDir":
		if s, ok := constString(args[0]); ok && s == "" {
			add("tempdir", "system temp directory ("+name+" with dir \"\")")
			return
		}
		f.prov(args[0], use, depth+1, seen, out)
	case name == "os.Create" || name == "os.Open" || name == "os.OpenFile":
		f.prov(args[0], use, depth+1, seen, out)
	case callee != nil && inModule(callee) && len(callee.Blocks) > 0:
		for _, ret := range Returns(callee) {
			if idx < len(ret.Results) {
				f.prov(ret.Results[idx], ret, depth+1, seen, out)
			}
		}
	default:
		add("unknown", "result of "+name)
	}
}

// c11SuccessDominates: the consumption point lies behind the err==nil edge of
// the sanitiser call on every path.
func c11SuccessDominates(san *ssa.Call, use ssa.Instruction) (bool, string) {
	if use == nil || use.Parent() != san.Parent() {
		return false, "the use of the sanitised value cannot be related to the sanitiser call (crosses a closure capture)"
	}
	e := ErrOf(san)
	if e == nil {
		return false, "the sanitiser's error result is discarded"
	}
	nilE, _, _ := NilTests(san.Parent(), Aliases(e))
	if len(nilE) == 0 {
		return false, "the sanitiser's error is never tested against nil"
	}
	if !MustPass(use, newCut().Edges(nilE...)) {
		return false, "a path reaches the use without taking the err==nil edge of the sanitiser call"
	}
	return true, ""
}

type c11Site struct {
	Fn    *ssa.Function
	Call  ssa.CallInstruction
	Name  string
	Key   string
	Leafs map[int][]c11Leaf // per path-argument index
}

func c11Summary(ls []c11Leaf) string {
	set := map[string]bool{}
	for _, l := range ls {
		set[l.Kind+": "+l.What] = true
	}
	var out []string
	for s := range set {
		out = append(out, s)
	}
	sort.Strings(out)
	return strings.Join(out, "; ")
}

func c11OSConst(p *Prog, name string) (int64, bool) {
	for _, pk := range []string{"os", "syscall"} {
		if tp := p.TypesPkg(pk); tp != nil {
			if k, ok := tp.Scope().Lookup(name).(*types.Const); ok {
				if v, ok := constant.Int64Val(constant.ToInt(k.Val())); ok {
					return v, true
				}
			}
		}
	}
	return 0, false
}

// c11OpenFlags: (writes, followsFinalLink, known)
func c11OpenFlags(p *Prog, call ssa.CallInstruction) (writes, follows, known bool) {
	fl, ok := constInt(call.Common().Args[1])
	if !ok {
		return true, true, false
	}
	bit := func(n string) int64 { v, _ := c11OSConst(p, n); return v }
	writes = fl&(bit("O_WRONLY")|bit("O_RDWR")|bit("O_APPEND")|bit("O_CREATE")|bit("O_TRUNC")) != 0
	follows = true
	if fl&bit("O_CREATE") != 0 && fl&bit("O_EXCL") != 0 {
		follows = false
	}
	if nf := bit("O_NOFOLLOW"); nf != 0 && fl&nf != 0 {
		follows = false
	}
	return writes, follows, true
}

func runC11(c *Ctx) {
	fns := c11FuncsOfPkg(c.P, c11Pkg)
	if len(fns) == 0 {
		c.LostAnchor("C11.R1.sanitiser-dominance", "package ~/"+c11Pkg)
		return
	}
	if c.P.Named(c11Pkg, "Store") == nil {
		c.LostAnchor("C11.R1.sanitiser-dominance", "type ~/content/file.Store")
		return
	}
	hasWD := false
	if st, ok := c.P.Named(c11Pkg, "Store").Underlying().(*types.Struct); ok {
		for i := 0; i < st.NumFields(); i++ {
			if st.Field(i).Name() == "workingDir" {
				hasWD = true
			}
		}
	}
	if !hasWD {
		c.LostAnchor("C11.R1.sanitiser-dominance", "field ~/content/file.Store.workingDir (the root all writes must stay under)")
	}
	c11PkgFns = fns
	roles := c11ResolveRoles(c, fns)
	if roles == nil {
		return
	}
	c11R2(c, roles)
	flow := c11NewFlow(c, roles, fns)
	sites := c11R1(c, flow)
	c11R3(c, flow, sites)
	c11R4(c, fns)
}

// ---------- R4 ----------

// c11R4: "with default options" — the property is about stores on which the
// caller did not ask for path traversal.  The package itself must therefore
// never switch the option on: every store into Store.AllowPathTraversalOnWrite
// made by package code (constructors, composite literals, option helpers) is the
// constant false, and the field's address does not leave the accessors.
func c11R4(c *Ctx, fns []*ssa.Function) {
	const R4 = "C11.R4.traversal-off-by-default"
	ok, why, pos := true, "", token.NoPos
	n := 0
	for _, f := range fns {
		AllInstrs(f, func(in ssa.Instruction) {
			fa, isFA := in.(*ssa.FieldAddr)
			if !isFA || fieldName(fa.X.Type(), fa.Field) != c11AllowField {
				return
			}
			for _, ref := range *fa.Referrers() {
				switch u := ref.(type) {
				case *ssa.UnOp:
					n++ // a read
				case *ssa.Store:
					if u.Addr != ssa.Value(fa) {
						ok, why, pos = false, "the address of the option is stored away in "+FnName(f), u.Pos()
						continue
					}
					k, isK := u.Val.(*ssa.Const)
					if !isK || k.Value == nil || constant.BoolVal(k.Value) {
						ok, why, pos = false, FnName(f)+" sets Store.AllowPathTraversalOnWrite to "+describe(u.Val)+": a store the caller left at its defaults accepts names and entries resolving outside the working directory", u.Pos()
					}
				case *ssa.DebugRef:
				default:
					ok, why, pos = false, "the address of the option escapes in "+FnName(f)+" ("+describe(ref.(ssa.Value))+")", ref.Pos()
				}
			}
		})
	}
	if n == 0 {
		c.LostAnchor(R4, "a read of ~/content/file.Store.AllowPathTraversalOnWrite in the package")
		return
	}
	c.Check(R4, "package|never-enables-traversal", pos, ok, ifelse(ok, "no package code writes the option; it is only read (by the write-path sanitiser)", why))
}

// ---------- R1 ----------

func c11R1(c *Ctx, flow *c11Flow) []*c11Site {
	const R1 = "C11.R1.sanitiser-dominance"
	c.Expect(R1, 8)
	// closed world: every os function taking a path is either a known mutator or known read-only
	for _, fn := range flow.fns {
		for _, call := range Calls(fn, func(n string) bool { return strings.HasPrefix(n, "os.") || strings.HasPrefix(n, "io/ioutil.") }) {
			n := CalleeName(call)
			if c11IsPathMutator(n) || c11ReadOnlyOS[n] {
				continue
			}
			takesString := false
			for _, a := range call.Common().Args {
				if b, ok := a.Type().Underlying().(*types.Basic); ok && b.Kind() == types.String {
					takesString = true
				}
			}
			if takesString {
				c.Undecided(R1, FnName(fn)+"|"+n, call.Pos(), "call of an os function taking a string that is neither in the mutator table nor in the read-only table; classify it")
			}
		}
		for _, call := range Calls(fn, func(n string) bool { return strings.HasPrefix(n, "(*os.Root).") }) {
			c.Undecided(R1, FnName(fn)+"|"+CalleeName(call), call.Pos(), "os.Root operation: not modelled; review and classify")
		}
	}
	var sites []*c11Site
	count := map[string]int{}
	for _, s := range Inventory(flow.fns, c11IsPathMutator) {
		if s.Callee == "os.OpenFile" {
			if w, _, known := c11OpenFlags(c.P, s.Call); known && !w {
				continue // read-only open
			}
		}
		k := FnName(s.Fn) + "|" + s.Callee
		count[k]++
		if count[k] > 1 {
			k = fmt.Sprintf("%s#%d", k, count[k])
		}
		site := &c11Site{Fn: s.Fn, Call: s.Call, Name: s.Callee, Key: k, Leafs: map[int][]c11Leaf{}}
		for _, idx := range c11PathArgs[s.Callee] {
			var ls []c11Leaf
			flow.prov(s.Call.Common().Args[idx], s.Call.(ssa.Instruction), 0, map[ssa.Value]bool{}, &ls)
			site.Leafs[idx] = ls
		}
		sites = append(sites, site)
	}
	for _, s := range sites {
		var unknown, bad []string
		var all []c11Leaf
		for _, idx := range c11PathArgs[s.Name] {
			for _, l := range s.Leafs[idx] {
				all = append(all, l)
				switch l.Kind {
				case "unknown":
					unknown = append(unknown, l.What)
				case "taint":
					if s.Name == "os.Symlink" && idx == 0 && c11ValidatedLinkContent(flow, s, idx) {
						continue
					}
					bad = append(bad, fmt.Sprintf("argument %d derives from %s without passing a sanitiser", idx, l.What))
				case "san":
					if ok, why := c11SuccessDominates(l.San, l.Use); !ok {
						bad = append(bad, fmt.Sprintf("argument %d uses the result of %s, but %s", idx, l.What, why))
					}
				}
			}
		}
		switch {
		case len(bad) > 0:
			c.Violation(R1, s.Key, s.Call.Pos(), strings.Join(bad, "; ")+" — an attacker-chosen title or archive entry can direct this "+s.Name+" outside the working directory")
		case len(unknown) > 0:
			c.Undecided(R1, s.Key, s.Call.Pos(), "cannot establish where the path comes from: "+strings.Join(unknown, "; "))
		default:
			c.OK(R1, s.Key, s.Call.Pos(), "path built only from: "+c11Summary(all))
		}
	}
	return sites
}

// c11ValidatedLinkContent: the raw link content handed to os.Symlink was the
// `target` argument of a link-target sanitiser call whose success edge
// dominates the sink (the sanitiser validates, it need not transform).
func c11ValidatedLinkContent(flow *c11Flow, s *c11Site, idx int) bool {
	arg := s.Call.Common().Args[idx]
	for _, call := range Calls(s.Fn, func(string) bool { return true }) {
		g := StaticCallee(call)
		cv, isCall := call.(*ssa.Call)
		if g == nil || !isCall || flow.roles.role[g] != "link-target" {
			continue
		}
		// only the argument that is the link content: the parameter the sanitiser tests with IsAbs / returns
		content := map[int]bool{}
		for i, prm := range g.Params {
			t, _, _ := CallTests(g, "path/filepath.IsAbs", func(call *ssa.Call) bool { return SameValue(call.Call.Args[0], prm) })
			if len(t) > 0 {
				content[i] = true
			}
			for _, a := range RetAtoms(g, 0) {
				for _, rt := range Roots(a.Val) {
					if rt == ssa.Value(prm) {
						content[i] = true
					}
				}
			}
		}
		for i, a := range cv.Call.Args {
			if content[i] && c11SameLoc(a, arg) {
				if ok, _ := c11SuccessDominates(cv, s.Call.(ssa.Instruction)); ok {
					return true
				}
			}
		}
	}
	return false
}

// c11SameLoc: the same value, or two loads of the same field of the same
// object with no store to that field in the function.
func c11SameLoc(a, b ssa.Value) bool {
	if c11SameRoots(a, b) {
		return true
	}
	ra, rb := Roots(a), Roots(b)
	if len(ra) != 1 || len(rb) != 1 {
		return false
	}
	la, ok1 := ra[0].(*ssa.UnOp)
	lb, ok2 := rb[0].(*ssa.UnOp)
	if !ok1 || !ok2 || la.Op != token.MUL || lb.Op != token.MUL {
		return false
	}
	if fva, isA := la.X.(*ssa.FreeVar); isA {
		// two loads of the same captured variable that the closure itself never assigns
		if fvb, isB := lb.X.(*ssa.FreeVar); isB && fva == fvb && !freeVarWritten(fva.Parent(), fva) {
			return true
		}
	}
	fa, ok1 := la.X.(*ssa.FieldAddr)
	fb, ok2 := lb.X.(*ssa.FieldAddr)
	if !ok1 || !ok2 || fa.Field != fb.Field || !c11SameRoots(fa.X, fb.X) {
		return false
	}
	written := false
	AllInstrs(la.Parent(), func(in ssa.Instruction) {
		if st, ok := in.(*ssa.Store); ok {
			if f, ok := st.Addr.(*ssa.FieldAddr); ok && f.Field == fa.Field && c11SameRoots(f.X, fa.X) {
				written = true
			}
		}
	})
	return !written
}

func c11SameRoots(a, b ssa.Value) bool {
	ra, rb := Roots(a), Roots(b)
	if len(ra) != len(rb) || len(ra) == 0 {
		return false
	}
	set := map[ssa.Value]bool{}
	for _, x := range ra {
		set[x] = true
	}
	for _, x := range rb {
		if !set[x] {
			return false
		}
	}
	return true
}

// ---------- R2 ----------

// c11PassThroughFilter: g is an in-module function taking an error and
// returning a single error that is, on every return, either the constant nil or
// that very parameter (ignoreNotFound(err) / tolerateX(err)): its result is
// non-nil only if the argument is, and then it IS the argument.  Returns the
// parameter index, or -1.
func c11PassThroughFilter(g *ssa.Function) int {
	if g == nil || !inModule(g) || len(g.Blocks) == 0 || g.Signature.Results().Len() != 1 || !isErrorType(g.Signature.Results().At(0).Type()) {
		return -1
	}
	idx := -1
	for i, prm := range g.Params {
		if isErrorType(prm.Type()) {
			if idx >= 0 {
				return -1
			}
			idx = i
		}
	}
	if idx < 0 {
		return -1
	}
	prm := g.Params[idx]
	for _, a := range RetAtoms(g, 0) {
		if k, isK := a.Val.(*ssa.Const); isK && k.IsNil() {
			continue
		}
		if _, z := a.Val.(zeroMarker); z {
			continue
		}
		if strip(a.Val) != ssa.Value(prm) {
			return -1
		}
	}
	return idx
}

// c11FilterCalls: calls in fn of a pass-through filter applied to a member of al.
func c11FilterCalls(fn *ssa.Function, al map[ssa.Value]bool) []*ssa.Call {
	var out []*ssa.Call
	for _, call := range Calls(fn, func(string) bool { return true }) {
		cv, ok := call.(*ssa.Call)
		if !ok {
			continue
		}
		g := StaticCallee(call)
		if i := c11PassThroughFilter(g); i >= 0 && i < len(cv.Call.Args) && (al[cv.Call.Args[i]] || al[strip(cv.Call.Args[i])]) {
			out = append(out, cv)
		}
	}
	return out
}

// c11SuccessAtoms: the ways fn can return a nil error.
func c11SuccessAtoms(fn *ssa.Function) []RetAtom {
	idx := ErrResultIndex(fn.Signature)
	var out []RetAtom
	for _, a := range RetAtoms(fn, idx) {
		if ErrNilStatus(a.Val, 0) == NonNil {
			continue
		}
		if _, z := a.Val.(zeroMarker); !z {
			if _, k := a.Val.(*ssa.Const); !k {
				al := Aliases(a.Val)
				_, nonNil, _ := NilTests(fn, al)
				// T(err) != nil implies err != nil when T only ever returns nil or its argument (a tolerance helper)
				for _, fc := range c11FilterCalls(fn, al) {
					if r := fc.Value(); r != nil {
						_, nn, _ := NilTests(fn, Aliases(r))
						nonNil = append(nonNil, nn...)
					}
				}
				if len(nonNil) > 0 {
					ct := newCut().Edges(nonNil...)
					ct.Edges(c11InfeasibleInto(fn, a.Ret, ct)...)
					if AtomMustPass(a, ct) {
						continue // returned on the non-nil side of its own test
					}
				}
			}
		}
		out = append(out, a)
	}
	return out
}

// c11ConjunctOf: cond is the value of `a && b` evaluated as an expression (go/ssa
// emits a phi "&&" of the constant false and b when the expression is not itself
// a branch condition, e.g. in a tagless switch case): returns b.
func c11ConjunctOf(cond ssa.Value) (ssa.Value, bool) {
	phi, ok := cond.(*ssa.Phi)
	if !ok || len(phi.Edges) < 2 {
		return nil, false
	}
	var rest ssa.Value
	for _, e := range phi.Edges {
		if k, isConst := e.(*ssa.Const); isConst && k.Value != nil && k.Value.Kind() == constant.Bool && !constant.BoolVal(k.Value) {
			continue
		}
		if rest != nil {
			return nil, false
		}
		rest = e
	}
	if rest == nil {
		return nil, false
	}
	for {
		u, isNot := rest.(*ssa.UnOp)
		if !isNot || u.Op != token.NOT {
			break
		}
		return nil, false // polarity would flip; not needed by the callers
	}
	return rest, true
}

func c11OtherSucc(e Edge) *ssa.BasicBlock {
	for _, s := range e.From.Succs {
		if s != e.To {
			return s
		}
	}
	return e.To
}

// c11InfeasibleInto: CFG edges that only infeasible paths to `target` use.  For
// `if a && b` computed as a value (phi of false from block A and b from block
// B, tested in block D) the path A→D→true-edge cannot happen; when `target` is
// not reachable from the false edge of D (avoiding cut), every path to it
// through A→D is infeasible and the edge A→D may be cut.  Dually for `||`.
func c11InfeasibleInto(fn *ssa.Function, target ssa.Instruction, ct *cut) []Edge {
	type cand struct {
		e     Edge
		taken Edge
	}
	var cs []cand
	for _, i := range Ifs(fn) {
		phi, ok := i.Cond.(*ssa.Phi)
		if !ok || phi.Block() != i.Block() {
			continue
		}
		D := i.Block()
		for pi, e := range phi.Edges {
			k, isConst := e.(*ssa.Const)
			if !isConst || k.Value == nil || k.Value.Kind() != constant.Bool {
				continue
			}
			taken := Edge{D, D.Succs[1]}
			if constant.BoolVal(k.Value) {
				taken = Edge{D, D.Succs[0]}
			}
			cs = append(cs, cand{Edge{D.Preds[pi], D}, taken})
		}
	}
	// greatest fixpoint: an edge stays when, with all remaining candidates cut as well, the target cannot be reached from
	// the branch that is actually taken after it (induction on the last traversal of a candidate edge on a feasible path)
	for changed := true; changed; {
		changed = false
		for k := 0; k < len(cs); k++ {
			c2 := newCut()
			for in := range ct.instrs {
				c2.instrs[in] = true
			}
			for e := range ct.edges {
				c2.edges[e] = true
			}
			for _, o := range cs {
				c2.edges[o.e] = true
			}
			if reach(cs[k].taken.To, 0, target, c2) {
				cs = append(cs[:k], cs[k+1:]...)
				k--
				changed = true
			}
		}
	}
	var out []Edge
	for _, c := range cs {
		out = append(out, c.e)
	}
	return out
}

// c11DotDotTests finds the edges on which a value satisfying subject is known
// not to start with "../" and not to equal "..".
func c11DotDotTests(fn *ssa.Function, subject func(ssa.Value) bool) (prefixPass, eqPass []Edge) {
	return c11DotDotTestsIn(fn, subject, true)
}

func c11DotDotTestsIn(fn *ssa.Function, subject func(ssa.Value) bool, helpers bool) (prefixPass, eqPass []Edge) {
	for _, i := range Ifs(fn) {
		cond, t, f := ifEdges(i)
		switch x := cond.(type) {
		case *ssa.Call:
			if P := StaticCallee(x); helpers && P != nil && inModule(P) && P.Signature.Results().Len() == 1 {
				if b, ok := P.Signature.Results().At(0).Type().Underlying().(*types.Basic); ok && b.Kind() == types.Bool {
					for k, a := range x.Call.Args {
						if !subject(a) {
							continue
						}
						pfx, eq := c11PredicateImplies(P, k)
						for pol, e := range map[bool]Edge{true: t, false: f} {
							if pfx[pol] {
								prefixPass = append(prefixPass, e)
							}
							if eq[pol] {
								eqPass = append(eqPass, e)
							}
						}
					}
					continue
				}
			}
			switch CalleeName(x) {
			case "strings.HasPrefix":
				if k, ok := constString(x.Call.Args[1]); ok && subject(x.Call.Args[0]) {
					switch k {
					case "../", `..\`:
						prefixPass = append(prefixPass, f)
					case "..": // broader test: rejects "..", "../x" (and "..x")
						prefixPass = append(prefixPass, f)
						eqPass = append(eqPass, f)
					}
				}
			case "path/filepath.IsLocal":
				if subject(x.Call.Args[0]) {
					prefixPass = append(prefixPass, t)
					eqPass = append(eqPass, t)
				}
			}
		case *ssa.BinOp:
			if x.Op != token.EQL && x.Op != token.NEQ {
				continue
			}
			var other ssa.Value
			if k, ok := constString(x.Y); ok && k == ".." {
				other = x.X
			} else if k, ok := constString(x.X); ok && k == ".." {
				other = x.Y
			} else {
				continue
			}
			if !subject(other) {
				continue
			}
			pass := f
			if x.Op == token.NEQ {
				pass = t
			}
			eqPass = append(eqPass, pass)
			if c11IsFirstComponent(other) {
				// first, _, _ := strings.Cut(rel, "/"); first == ".."  ⇔  rel == ".." || HasPrefix(rel, "../")
				prefixPass = append(prefixPass, pass)
			}
		}
	}
	// rest, ok := strings.CutPrefix(rel, ".."): not ok ⇒ both pass; rest != "" ⇒ not "..";
	// rest does not start with a separator ⇒ not below "../"
	for _, cp := range CallsTo(fn, "strings.CutPrefix") {
		k, isK := constString(cp.Common().Args[1])
		if !isK || k != ".." || !subject(cp.Common().Args[0]) {
			continue
		}
		rest, okv := ResultOf(cp, 0), ResultOf(cp, 1)
		if okv != nil {
			_, fe := BoolTests(fn, Aliases(okv))
			prefixPass = append(prefixPass, fe...)
			eqPass = append(eqPass, fe...)
		}
		if rest == nil {
			continue
		}
		ra := Aliases(rest)
		for _, i := range Ifs(fn) {
			cond, t, f := ifEdges(i)
			switch x := cond.(type) {
			case *ssa.BinOp:
				if x.Op != token.EQL && x.Op != token.NEQ {
					continue
				}
				uneq := f
				if x.Op == token.NEQ {
					uneq = t
				}
				if s0, isS := constString(x.Y); isS && s0 == "" && ra[x.X] {
					eqPass = append(eqPass, uneq)
				}
				if ix, isIx := x.X.(*ssa.Index); isIx && ra[ix.X] {
					if i0, isI := constInt(ix.Index); isI && i0 == 0 {
						if sep, isSep := constInt(x.Y); isSep && (sep == '/' || sep == '\\') {
							prefixPass = append(prefixPass, uneq)
						}
					}
				}
			case *ssa.Call:
				if CalleeName(x) == "strings.HasPrefix" && ra[x.Call.Args[0]] {
					if sep, isSep := constString(x.Call.Args[1]); isSep && (sep == "/" || sep == `\\`) {
						prefixPass = append(prefixPass, f)
					}
				}
			}
		}
	}
	return
}

// c11IsFirstComponent: v is the part before the first separator: result #0 of strings.Cut(x, "/").
func c11IsFirstComponent(v ssa.Value) bool {
	for _, r := range Roots(v) {
		ex, ok := r.(*ssa.Extract)
		if !ok || ex.Index != 0 {
			return false
		}
		call, ok := ex.Tuple.(*ssa.Call)
		if !ok || CalleeName(call) != "strings.Cut" {
			return false
		}
		if sep, isSep := constString(call.Call.Args[1]); !isSep || (sep != "/" && sep != `\\`) {
			return false
		}
	}
	return len(Roots(v)) > 0
}

func c11AllAtomsPass(atoms []RetAtom, cutOf func() *cut) bool {
	for _, a := range atoms {
		if !AtomMustPass(a, cutOf()) {
			return false
		}
	}
	return true
}

func c11R2(c *Ctx, roles *c11Roles) {
	const R2 = "C11.R2.sanitisers-reject"
	c.Expect(R2, 14)
	for _, fn := range roles.SW {
		c11R2Lexical(c, R2, fn, true)
		c11R2WritePathAncestors(c, fn, roles)
	}
	for _, fn := range roles.SR {
		c11R2Lexical(c, R2, fn, false)
		c11R2AncestorWalk(c, R2, fn)
	}
	for _, fn := range roles.SL {
		c11R2Link(c, R2, fn, roles)
	}
}

// c11R2Lexical: filepath.Rel + "../" prefix + ".." tests on every successful
// return (for the write-path sanitiser: on the traversal-not-allowed side).
// c11Link is one static call on the way from a sanitiser to the helper that
// holds a check ("unit"): extracting a check into an unexported helper, or
// inlining it back, does not change any verdict.
type c11Link struct {
	Caller *ssa.Function
	Call   *ssa.Call
}

// c11FindUnit returns the function that directly satisfies has: S itself, or
// an in-package static callee of S (depth <= 3), with the chain of calls.
func c11FindUnit(S *ssa.Function, has func(*ssa.Function) bool, depth int, seen map[*ssa.Function]bool) (*ssa.Function, []c11Link) {
	if has(S) {
		return S, nil
	}
	if depth <= 0 || seen[S] {
		return nil, nil
	}
	seen[S] = true
	for _, call := range Calls(S, func(string) bool { return true }) {
		cv, ok := call.(*ssa.Call)
		g := StaticCallee(call)
		if !ok || g == nil || len(g.Blocks) == 0 || fnPkgPath(g) != fnPkgPath(S) {
			continue
		}
		if F, links := c11FindUnit(g, has, depth-1, seen); F != nil {
			return F, append([]c11Link{{S, cv}}, links...)
		}
	}
	return nil, nil
}

func c11AllowEdges(fn *ssa.Function) []Edge {
	t, _ := BoolTests(fn, c11FieldReads(fn, c11AllowField))
	return t
}

// c11LinksPass: along the chain, every successful return of the caller lies
// behind the success of the call to the helper (or simply returns its error).
func c11LinksPass(links []c11Link) bool {
	for _, l := range links {
		e := ErrOf(l.Call)
		if e == nil {
			return false
		}
		al := Aliases(e)
		ne, _, _ := NilTests(l.Caller, al)
		allow := c11AllowEdges(l.Caller)
		for _, a := range c11SuccessAtoms(l.Caller) {
			if al[a.Val] || al[strip(a.Val)] {
				continue // `return helper(...)`: nil exactly when the helper succeeded
			}
			if len(ne) == 0 || !AtomMustPass(a, newCut().Edges(allow...).Edges(ne...)) {
				return false
			}
		}
	}
	return true
}

// c11Lift maps values of the unit up the chain to values of the sanitiser:
// parameters of a helper become the arguments at its call.
func c11Lift(vals []ssa.Value, links []c11Link) []ssa.Value {
	for i := len(links) - 1; i >= 0; i-- {
		g := StaticCallee(links[i].Call)
		var next []ssa.Value
		for _, v := range vals {
			var leaves []ssa.Value
			c11Operands(v, &leaves, map[ssa.Value]bool{}, 0)
			for _, lf := range leaves {
				if prm, ok := lf.(*ssa.Parameter); ok && prm.Parent() == g {
					for k, q := range g.Params {
						if q == prm && k < len(links[i].Call.Call.Args) {
							next = append(next, links[i].Call.Call.Args[k])
						}
					}
				}
			}
		}
		vals = next
	}
	return vals
}

// c11R2Lexical: filepath.Rel + "../" prefix + ".." tests on every successful
// return (for the write-path sanitiser: on the traversal-not-allowed side).
// The tests may live in the sanitiser or in a helper it calls.
func c11R2Lexical(c *Ctx, R2 string, S *ssa.Function, hasAllow bool) {
	tn := FnName(S)
	fn, links := c11FindUnit(S, func(f *ssa.Function) bool { return len(CallsTo(f, "path/filepath.Rel")) > 0 }, 3, map[*ssa.Function]bool{})
	if fn == nil {
		c.Violation(R2, tn+"|rel-on-every-success-path", S.Pos(), "no filepath.Rel(base, target) left in the sanitiser (or a helper it calls): containment is not computed")
		return
	}
	atoms := c11SuccessAtoms(fn)
	if len(atoms) == 0 || len(c11SuccessAtoms(S)) == 0 {
		c.Undecided(R2, tn+"|success-returns", fn.Pos(), "no successful return found")
		return
	}
	linkOK := c11LinksPass(links)
	var allowT []Edge
	if hasAllow {
		allowT = c11AllowEdges(fn)
	}
	rels := CallsTo(fn, "path/filepath.Rel")
	relRes := map[ssa.Value]bool{}
	var relNil []Edge
	for _, r := range rels {
		if v := ResultOf(r, 0); v != nil {
			relRes[v] = true
		}
		if e := ErrOf(r); e != nil {
			ne, _, _ := NilTests(fn, Aliases(e))
			relNil = append(relNil, ne...)
		}
	}
	via := ""
	if fn != S {
		via = " (in helper " + FnName(fn) + ", whose success every successful return of the sanitiser lies behind)"
	}
	ok := linkOK && len(relNil) > 0 && c11AllAtomsPass(atoms, func() *cut { return newCut().Edges(allowT...).Edges(relNil...) })
	c.Check(R2, tn+"|rel-on-every-success-path", rels[0].Pos(), ok,
		ifelse(ok, "every successful return (with traversal not allowed) lies behind a successful filepath.Rel(base, target)"+via,
			"a successful return is reachable without a successful filepath.Rel(base, target): an outside path is accepted"))
	subject := func(v ssa.Value) bool { return c11DerivesFrom(v, relRes) }
	pfx, eq := c11DotDotTests(fn, subject)
	if len(pfx) == 0 {
		c.Undecided(R2, tn+"|dotdot-prefix-rejected", fn.Pos(), "no test of the relative path against the \"../\" prefix in a recognised form (strings.HasPrefix(rel, \"../\"), filepath.IsLocal, or a boolean helper doing so)")
	} else {
		ok := linkOK && c11AllAtomsPass(atoms, func() *cut { return newCut().Edges(allowT...).Edges(pfx...) })
		c.Check(R2, tn+"|dotdot-prefix-rejected", fn.Pos(), ok,
			ifelse(ok, "every successful return passes the not-prefixed-by-\"../\" edge"+via, "a successful return is reachable although the relative path starts with \"../\" (name resolves outside the base)"))
	}
	if len(eq) == 0 {
		c.Undecided(R2, tn+"|dotdot-rejected", fn.Pos(), "no test of the relative path against \"..\" in a recognised form")
	} else {
		ok := linkOK && c11AllAtomsPass(atoms, func() *cut { return newCut().Edges(allowT...).Edges(eq...) })
		c.Check(R2, tn+"|dotdot-rejected", fn.Pos(), ok,
			ifelse(ok, "every successful return passes the rel != \"..\" edge"+via, "a successful return is reachable although the relative path is \"..\" (the parent of the base)"))
	}
	// what is validated is what is returned / what was given (judged at the sanitiser's level)
	retRoots := map[ssa.Value]bool{}
	for _, a := range RetAtoms(S, 0) {
		if s, isStr := constString(a.Val); isStr && s == "" {
			continue
		}
		if _, isZero := a.Val.(zeroMarker); isZero {
			continue // result variable captured by a closure (range-over-func body) that sets it next to an error
		}
		for _, r := range Roots(a.Val) {
			retRoots[r] = true
		}
	}
	okArgs := true
	for _, r := range rels {
		tgts := c11Lift([]ssa.Value{r.Common().Args[1]}, links)
		if len(tgts) == 0 {
			okArgs = false
		}
		if hasAllow {
			// returned path and validated path share their origin; base comes from workingDir
			for _, tgt := range tgts {
				if !c11DerivesFrom(tgt, retRoots) {
					okArgs = false
				}
			}
			baseOK := c11DerivesFrom(r.Common().Args[0], c11FieldReads(fn, c11WorkDir))
			for _, bv := range c11Lift([]ssa.Value{r.Common().Args[0]}, links) {
				if fn != S && c11DerivesFrom(bv, c11FieldReads(S, c11WorkDir)) {
					baseOK = true
				}
			}
			if !baseOK {
				okArgs = false
			}
		} else {
			// validated value is a parameter of the sanitiser; returned value is the Rel result
			for _, tgt := range tgts {
				isParam := false
				for _, rt := range Roots(tgt) {
					if prm, ok := rt.(*ssa.Parameter); ok && prm.Parent() == S {
						isParam = true
					}
				}
				if !isParam {
					okArgs = false
				}
			}
			relS := relRes
			if fn != S {
				relS = map[ssa.Value]bool{}
				if v := ResultOf(links[0].Call, 0); v != nil {
					relS[v] = true
				}
				for _, a := range RetAtoms(fn, 0) {
					if s, isStr := constString(a.Val); isStr && s == "" {
						continue
					}
					if !c11DerivesFrom(a.Val, relRes) {
						okArgs = false
					}
				}
			}
			derives := len(retRoots) > 0
			for rt := range retRoots {
				if !c11DerivesFrom(rt, relS) {
					derives = false
				}
			}
			if !derives {
				okArgs = false
			}
		}
	}
	c.Check(R2, tn+"|validates-what-it-returns", rels[0].Pos(), okArgs,
		ifelse(okArgs, "the path handed to filepath.Rel and the path returned to the caller have the same origin",
			"the path that is validated is not the path that is returned (or the base is not the working directory): the check does not cover the value the caller writes to"))
}

// c11PredicateImplies analyses an in-module boolean helper P(x): for which
// result polarity does "P(x) == pol" imply that x passed the "../"-prefix test
// resp. the ".." test?  (pointsToParent(rel) == false ⇒ both.)
func c11PredicateImplies(P *ssa.Function, argIdx int) (prefix, eq map[bool]bool) {
	prefix, eq = map[bool]bool{}, map[bool]bool{}
	if argIdx >= len(P.Params) || len(P.Blocks) == 0 {
		return
	}
	subj := func(v ssa.Value) bool { return c11DerivesFrom(v, map[ssa.Value]bool{P.Params[argIdx]: true}) }
	pfxE, eqE := c11DotDotTestsIn(P, subj, false)
	// test expressions whose own value decides the test
	exprPfx, exprEq := map[ssa.Value]bool{}, map[ssa.Value]bool{} // value -> polarity of the expression on which the test PASSES
	AllInstrs(P, func(in ssa.Instruction) {
		switch x := in.(type) {
		case *ssa.Call:
			switch CalleeName(x) {
			case "strings.HasPrefix":
				if k, ok := constString(x.Call.Args[1]); ok && subj(x.Call.Args[0]) {
					switch k {
					case "../", `..\`:
						exprPfx[x] = false
					case "..":
						exprPfx[x], exprEq[x] = false, false
					}
				}
			case "path/filepath.IsLocal":
				if subj(x.Call.Args[0]) {
					exprPfx[x], exprEq[x] = true, true
				}
			}
		case *ssa.BinOp:
			if x.Op != token.EQL && x.Op != token.NEQ {
				return
			}
			var other ssa.Value
			if k, ok := constString(x.Y); ok && k == ".." {
				other = x.X
			} else if k, ok := constString(x.X); ok && k == ".." {
				other = x.Y
			}
			if other != nil && subj(other) {
				exprEq[x] = x.Op == token.NEQ
				if c11IsFirstComponent(other) {
					exprPfx[x] = x.Op == token.NEQ
				}
			}
		}
	})
	decide := func(edges []Edge, expr map[ssa.Value]bool, out map[bool]bool) {
		for _, pol := range []bool{false, true} {
			ok, any := true, false
			for _, a := range RetAtoms(P, 0) {
				if k, isConst := a.Val.(*ssa.Const); isConst && k.Value != nil {
					if constant.BoolVal(k.Value) != pol {
						continue // this return never yields pol
					}
				} else if pp, isExpr := expr[a.Val]; isExpr && pp == pol {
					any = true
					continue // the returned value is the test itself
				}
				any = true
				if len(edges) == 0 || !AtomMustPass(a, newCut().Edges(edges...)) {
					ok = false
				}
			}
			if ok && any {
				out[pol] = true
			}
		}
	}
	decide(pfxE, exprPfx, prefix)
	decide(eqE, exprEq, eq)
	return
}

// c11ProbeBaseCallers: the base the ancestors are probed under (parameters kIdx
// of sanitiser S) is the very value the callers join S's result with.
func c11ProbeBaseCallers(c *Ctx, R2, tn string, S *ssa.Function, kIdx map[int]bool, pos token.Pos) {
	okBase, evidence := len(kIdx) > 0, 0
	why := "the probed path is not built from a parameter of the sanitiser"
	if okBase {
		for _, g := range c11PkgFns {
			for _, call := range Calls(g, func(string) bool { return true }) {
				if StaticCallee(call) != S {
					continue
				}
				res := ResultOf(call, 0)
				if res == nil {
					continue
				}
				for _, j := range CallsTo(g, "path/filepath.Join") {
					var jels []ssa.Value
					for _, a := range j.Common().Args {
						c11SliceElems(a, &jels)
					}
					usesRes, usesBase := false, false
					for _, e := range jels {
						if c11SameRoots(e, res) {
							usesRes = true
						}
						for k := range kIdx {
							if k < len(call.Common().Args) && c11SameLoc(e, call.Common().Args[k]) {
								usesBase = true
							}
						}
					}
					if usesRes {
						evidence++
						if !usesBase {
							okBase = false
							why = "the caller " + FnName(g) + " joins the sanitised relative path with a base that is not the one the ancestors were probed under"
						}
					}
				}
			}
		}
	}
	if okBase && evidence == 0 {
		c.Undecided(R2, tn+"|ancestor-probe-uses-write-base", pos, "no caller joins the sanitiser's result with a base: cannot tell which base the ancestors must be probed under")
		return
	}
	c.Check(R2, tn+"|ancestor-probe-uses-write-base", pos, okBase,
		ifelse(okBase, "the ancestors are Lstat'ed under the same base value the callers join the result with", why+
			": the probe is resolved against another directory (e.g. the process working directory), finds nothing, and a symlinked ancestor under the real base goes unnoticed"))
}

// ---------- step tables ----------

// c11StepLoop is `for _, step := range []func() error{a, b, c} { if err :=
// step(); err != nil { return err } }`: the straight-line sequence a; b; c with
// early return.  Call is the dynamic call of the loop, Steps the elements of the
// literal table, Done the "table exhausted" edge (every step ran).
type c11StepLoop struct {
	Call  *ssa.Call
	Steps []ssa.Value
	Done  Edge
	Loop  *Loop
}

func c11StepLoops(fn *ssa.Function) []c11StepLoop {
	var out []c11StepLoop
	for _, l := range Loops(fn) {
		r, _, _, done, ok := l.RangeIndex()
		if !ok {
			continue
		}
		var els []ssa.Value
		for _, rr := range Roots(r) {
			c11SliceElems(rr, &els)
		}
		if len(els) == 0 {
			continue
		}
		allFn := true
		for _, e := range els {
			if _, isSig := e.Type().Underlying().(*types.Signature); !isSig {
				allFn = false
			}
		}
		if !allFn {
			continue
		}
		for _, call := range Calls(fn, func(string) bool { return true }) {
			cv, isCall := call.(*ssa.Call)
			if !isCall || !l.Contains(cv) || cv.Call.IsInvoke() || StaticCallee(call) != nil {
				continue
			}
			ld, isLoad := cv.Call.Value.(*ssa.UnOp)
			if !isLoad || ld.Op != token.MUL {
				continue
			}
			ia, isIA := ld.X.(*ssa.IndexAddr)
			if !isIA || !c11SameRoots(ia.X, r) {
				continue
			}
			out = append(out, c11StepLoop{Call: cv, Steps: els, Done: done, Loop: l})
		}
	}
	return out
}

// c11BoundMethodStep: step is the method value recv.<name> (bound-method closure); returns recv.
func c11BoundMethodStep(step ssa.Value, name string) ssa.Value {
	mc, ok := step.(*ssa.MakeClosure)
	if !ok || len(mc.Bindings) != 1 {
		return nil
	}
	g, ok := mc.Fn.(*ssa.Function)
	if !ok || !strings.HasPrefix(g.Synthetic, "bound method") || g.Name() != name+"$bound" {
		return nil
	}
	return mc.Bindings[0]
}

// ---------- range-over-func loops ----------

// c11RangeFunc is one `for x := range seq` over a function iterator, as lowered
// by go/ssa: seq(yield) with a synthesized yield closure holding the body.
type c11RangeFunc struct {
	Call  *ssa.Call     // seq(yield) in the consuming function
	Yield *ssa.Function // the loop body
	PCall *ssa.Call     // the call producing seq (nil if seq is not the result of an in-module call)
	PC    *ssa.Function // the producer closure func(yield) (nil if unknown)
}

func c11RangeFuncs(fn *ssa.Function) []c11RangeFunc {
	var out []c11RangeFunc
	for _, call := range Calls(fn, func(string) bool { return true }) {
		cv, ok := call.(*ssa.Call)
		if !ok || cv.Call.IsInvoke() || StaticCallee(call) != nil || len(cv.Call.Args) != 1 {
			continue
		}
		mc, ok := cv.Call.Args[0].(*ssa.MakeClosure)
		if !ok {
			continue
		}
		Y := mc.Fn.(*ssa.Function)
		if Y.Signature.Results().Len() != 1 || len(Y.Blocks) == 0 {
			continue
		}
		rf := c11RangeFunc{Call: cv, Yield: Y}
		for _, r := range Roots(cv.Call.Value) {
			pc, ok := r.(*ssa.Call)
			if !ok {
				continue
			}
			P := StaticCallee(pc)
			if P == nil || !inModule(P) || len(P.Blocks) == 0 {
				continue
			}
			for _, ret := range Returns(P) {
				for _, rr := range Roots(ret.Results[0]) {
					if pmc, ok := rr.(*ssa.MakeClosure); ok {
						rf.PCall, rf.PC = pc, pmc.Fn.(*ssa.Function)
					}
				}
			}
		}
		out = append(out, rf)
	}
	return out
}

func c11YieldReturns(Y *ssa.Function) (cont, stop []*ssa.Return) {
	for _, ret := range Returns(Y) {
		if len(ret.Results) != 1 {
			continue
		}
		if k, ok := ret.Results[0].(*ssa.Const); ok && k.Value != nil && constant.BoolVal(k.Value) {
			cont = append(cont, ret)
		} else {
			stop = append(stop, ret)
		}
	}
	return
}

// c11R2AncestorWalkIter: the ancestor walk written as a range-over-func loop:
// a producer yields Dir(rel), Dir(Dir(rel)), … until "."; the body Lstats
// base+dir and rejects symbolic links.  Same obligations as the plain loop.
func c11R2AncestorWalkIter(c *Ctx, R2 string, S *ssa.Function) bool {
	tn := FnName(S)
	pick := func(f *ssa.Function) *c11RangeFunc {
		for _, rf := range c11RangeFuncs(f) {
			if len(CallsTo(rf.Yield, "os.Lstat")) > 0 {
				r := rf
				return &r
			}
		}
		return nil
	}
	fn, links := c11FindUnit(S, func(f *ssa.Function) bool { return pick(f) != nil }, 3, map[*ssa.Function]bool{})
	if fn == nil {
		return false
	}
	rf := pick(fn)
	Y := rf.Yield
	L := CallsTo(Y, "os.Lstat")[0]
	linkOK := c11LinksPass(links)
	atoms := c11SuccessAtoms(fn)
	relRes := c11RelLike(S, links)
	cont, stop := c11YieldReturns(Y)
	var elem ssa.Value
	if len(Y.Params) > 0 {
		elem = Y.Params[0]
	}
	// (a) not bypassed
	ok := linkOK && len(atoms) > 0 && c11AllAtomsPass(atoms, func() *cut { return newCut().Instr(rf.Call) })
	c.Check(R2, tn+"|ancestor-walk-not-bypassed", L.Pos(), ok,
		ifelse(ok, "every successful return lies behind the iteration over the ancestors", "a successful return is reachable without running the ancestor symlink walk"))
	// (b) the producer yields every parent: starts at Dir(rel), steps with Dir(dir), yields each one
	okWalk := elem != nil && c11DerivesFrom(L.Common().Args[0], map[ssa.Value]bool{elem: true}) && rf.PC != nil && rf.PCall != nil
	okExit := okWalk
	if okWalk {
		PC, P := rf.PC, StaticCallee(rf.PCall)
		var loop *Loop
		var phi *ssa.Phi
		var ycall *ssa.Call
		for _, l := range Loops(PC) {
			for _, call := range Calls(PC, func(string) bool { return true }) {
				cv, isCall := call.(*ssa.Call)
				if !isCall || len(PC.Params) == 0 || cv.Call.Value != ssa.Value(PC.Params[0]) || !l.Contains(cv) || len(cv.Call.Args) == 0 {
					continue
				}
				for _, in := range l.Header.Instrs {
					if p, isPhi := in.(*ssa.Phi); isPhi && c11DerivesFrom(cv.Call.Args[0], map[ssa.Value]bool{p: true}) {
						loop, phi, ycall = l, p, cv
					}
				}
			}
		}
		if loop == nil {
			okWalk, okExit = false, false
		} else {
			pparams := map[ssa.Value]bool{}
			for _, q := range P.Params {
				pparams[q] = true
			}
			for i, e := range phi.Edges {
				dc, isCall := strip(e).(*ssa.Call)
				if !isCall || CalleeName(dc) != "path/filepath.Dir" {
					okWalk = false
					continue
				}
				if loop.Blocks[loop.Header.Preds[i]] {
					if !c11DerivesFrom(dc.Call.Args[0], map[ssa.Value]bool{phi: true}) {
						okWalk = false
					}
				} else if !c11DerivesFrom(dc.Call.Args[0], pparams) {
					okWalk = false
				}
			}
			// what the producer is given is the relative path
			given := false
			for _, a := range rf.PCall.Call.Args {
				if c11DerivesFrom(a, relRes) {
					given = true
				}
			}
			if !given {
				okWalk = false
			}
			// every iteration yields
			for _, sc := range loop.Header.Succs {
				if loop.Blocks[sc] && reach(sc, 0, loop.Header.Instrs[0], newCut().Instr(ycall)) {
					okWalk = false
				}
			}
			// the producer stops only at the base test or when the body asked to stop
			for _, e := range loop.Exits {
				ifi, isIf := e.From.Instrs[len(e.From.Instrs)-1].(*ssa.If)
				if !isIf {
					okExit = false
					continue
				}
				cond, _, f := ifEdges(ifi)
				if cond == ssa.Value(ycall) && e == f {
					continue // yield returned false
				}
				if bo, isBin := cond.(*ssa.BinOp); isBin && (bo.Op == token.EQL || bo.Op == token.NEQ) {
					cur := map[ssa.Value]bool{phi: true}
					_, kx := strip(bo.X).(*ssa.Const)
					_, ky := strip(bo.Y).(*ssa.Const)
					if (ky && c11DerivesFrom(bo.X, cur)) || (kx && c11DerivesFrom(bo.Y, cur)) {
						continue
					}
				}
				okExit = false
			}
		}
	}
	c.Check(R2, tn+"|ancestor-walk-covers-every-parent", L.Pos(), okWalk,
		ifelse(okWalk, "the producer yields Dir(rel), Dir(Dir(rel)), … and the body Lstats base+dir for each", "the ancestor iteration does not start at the entry's parent, does not step to each parent, or the body does not probe base+ancestor: some ancestor is never checked"))
	// the body stops the iteration only with an error recorded in the enclosing function's result
	for _, ret := range stop {
		var errStores []ssa.Instruction
		AllInstrs(Y, func(in ssa.Instruction) {
			if st, isStore := in.(*ssa.Store); isStore {
				if _, isFV := st.Addr.(*ssa.FreeVar); isFV && isErrorType(st.Val.Type()) && ErrNilStatus(st.Val, 0) != IsNil {
					errStores = append(errStores, st)
				}
			}
		})
		if len(errStores) == 0 || !MustPass(ret, newCut().Instr(errStores...)) {
			okExit = false
		}
	}
	c.Check(R2, tn+"|ancestor-walk-left-only-at-base", L.Pos(), okExit,
		ifelse(okExit, "the iteration ends only when the cursor reaches the base or the body stops it with an error", "the ancestor walk can be left early before the cursor reaches the base without an error: "+
			"a symbolic link higher up is never examined, later entries are written through it"))
	// probe base
	if elem != nil {
		var els []ssa.Value
		if rs := Roots(L.Common().Args[0]); len(rs) == 1 {
			if jc, isCall := rs[0].(*ssa.Call); isCall {
				for _, a := range jc.Call.Args {
					c11SliceElems(a, &els)
				}
			}
		}
		kIdx := map[int]bool{}
		for _, e := range els {
			if c11DerivesFrom(e, map[ssa.Value]bool{elem: true}) {
				continue
			}
			for i, q := range fn.Params {
				if c11DerivesFrom(e, map[ssa.Value]bool{q: true}) {
					for _, v := range c11Lift([]ssa.Value{q}, links) {
						for _, rt := range Roots(v) {
							if prm, isP := rt.(*ssa.Parameter); isP && prm.Parent() == S {
								for k, sq := range S.Params {
									if sq == prm {
										kIdx[k] = true
									}
								}
							}
						}
					}
					if fn == S {
						kIdx[i] = true
					}
				}
			}
		}
		c11ProbeBaseCallers(c, R2, tn, S, kIdx, L.Pos())
	}
	// (c) every iteration Lstats
	okIter := len(cont) > 0
	for _, ret := range cont {
		if reach(Y.Blocks[0], 0, ret, newCut().Instr(L.(ssa.Instruction))) {
			okIter = false
		}
	}
	c.Check(R2, tn+"|ancestor-lstat-every-iteration", L.Pos(), okIter,
		ifelse(okIter, "every iteration of the walk executes os.Lstat", "an iteration of the ancestor walk can skip os.Lstat"))
	// (d) symlink => error
	info := ResultOf(L, 0)
	if info == nil {
		c.Violation(R2, tn+"|ancestor-symlink-rejected", L.Pos(), "the FileInfo of the ancestor is discarded: symbolic links are not detected")
		return true
	}
	sym, notSym := c11SymlinkEdges(c.P, Y, Aliases(info))
	if len(sym) == 0 {
		c.Undecided(R2, tn+"|ancestor-symlink-rejected", L.Pos(), "no ModeSymlink test on the ancestor's FileInfo in a recognised form (info.Mode()&os.ModeSymlink compared with 0)")
		return true
	}
	okSym := okExit
	for _, e := range sym {
		for _, ret := range cont {
			if reach(e.To, 0, ret, nil) {
				okSym = false
			}
		}
	}
	if e := ErrOf(L); e != nil {
		nilE, _, _ := NilTests(Y, Aliases(e))
		if len(nilE) == 0 {
			okSym = false
		}
		for _, ne := range nilE {
			for _, ret := range cont {
				if reach(ne.To, 0, ret, newCut().Edges(sym...).Edges(notSym...)) {
					okSym = false
				}
			}
		}
	} else {
		okSym = false
	}
	c.Check(R2, tn+"|ancestor-symlink-rejected", L.Pos(), okSym,
		ifelse(okSym, "a symbolic-link ancestor always stops the iteration with an error; the test follows every successful Lstat",
			"an ancestor that is a symbolic link does not (always) make the sanitiser fail: entries can be written through a planted link"))
	return true
}

// c11R2WritePathAncestors: a name whose *parent* components pass through a
// symbolic link (planted by an earlier unpack, or pre-existing) resolves
// outside the working directory although it is lexically inside.  The
// write-path sanitiser therefore needs what the archive-entry sanitiser has:
// an Lstat walk over the ancestors (own loop, or delegation to the
// archive-entry sanitiser), or a containment check on the symlink-resolved
// path (filepath.EvalSymlinks feeding filepath.Rel).
// Not in DESIGN §4 — added after the concrete failing input in
// checker/c11_demo_symlinked_parent.txt was observed on the pinned tree.
func c11R2WritePathAncestors(c *Ctx, fn *ssa.Function, roles *c11Roles) {
	const R = "C11.R2.write-path-ancestor-symlinks"
	tn := FnName(fn)
	atoms := c11SuccessAtoms(fn)
	allowT, _ := BoolTests(fn, c11FieldReads(fn, c11AllowField))
	pass := func(edges []Edge) bool {
		return len(edges) > 0 && len(atoms) > 0 && c11AllAtomsPass(atoms, func() *cut { return newCut().Edges(allowT...).Edges(edges...) })
	}
	// (a) delegation to the archive-entry sanitiser
	for _, call := range Calls(fn, func(string) bool { return true }) {
		if g := StaticCallee(call); g != nil && roles.role[g] == "archive-entry" {
			if e := ErrOf(call); e != nil {
				ne, _, _ := NilTests(fn, Aliases(e))
				if pass(ne) {
					c.OK(R, "write-path-sanitiser|ancestor-walk", call.Pos(), "["+tn+"] every successful return (traversal not allowed) lies behind a successful call of the archive-entry sanitiser, which walks the ancestors")
					return
				}
			}
		}
	}
	// (b) own Lstat loop rejecting symlinks
	for _, l := range Loops(fn) {
		for _, L := range CallsTo(fn, "os.Lstat") {
			if !l.Contains(L.(ssa.Instruction)) {
				continue
			}
			info := ResultOf(L, 0)
			if info == nil {
				continue
			}
			sym, _ := c11SymlinkEdges(c.P, fn, Aliases(info))
			okSym := len(sym) > 0
			for _, e := range sym {
				if reach(e.To, 0, l.Header.Instrs[0], nil) || findNilReturnFrom(fn, e, ErrResultIndex(fn.Signature), newCut(), map[ssa.Value]bool{}) != nil {
					okSym = false
				}
			}
			if okSym && pass(l.Exits) {
				c.OK(R, "write-path-sanitiser|ancestor-walk", L.Pos(), "["+tn+"] every successful return (traversal not allowed) leaves through the ancestor Lstat loop, in which a symlink ancestor ends in an error")
				return
			}
		}
	}
	// (c) containment computed on the symlink-resolved path
	for _, r := range CallsTo(fn, "path/filepath.Rel") {
		for _, ev := range CallsTo(fn, "path/filepath.EvalSymlinks") {
			if v := ResultOf(ev, 0); v != nil && c11DerivesFrom(r.Common().Args[1], map[ssa.Value]bool{v: true}) {
				c.OK(R, "write-path-sanitiser|ancestor-walk", r.Pos(), "["+tn+"] filepath.Rel is applied to the symlink-resolved (EvalSymlinks) path")
				return
			}
		}
	}
	c.Violation(R, "write-path-sanitiser|ancestor-walk", fn.Pos(), "the write-path sanitiser ("+tn+") is lexical only: it neither walks the ancestors of the name with Lstat (as the archive-entry sanitiser does) nor resolves symbolic links before "+
		"filepath.Rel. A named blob titled \"<dir>/<link>/evil.txt\", where <link> is a symbolic link inside the working directory that points outside (planted by an earlier unpacked archive via "+
		"up -> ../.. ; x -> up/../../outside, or pre-existing), passes the check and os.MkdirAll/os.Create then write outside the working directory; Push returns nil "+
		"(demo: checker/c11_demo_symlinked_parent.txt)")
}

func c11ModeSymlinkBit(p *Prog) int64 {
	if tp := p.TypesPkg("io/fs"); tp != nil {
		if k, ok := tp.Scope().Lookup("ModeSymlink").(*types.Const); ok {
			if v, ok := constant.Int64Val(constant.ToInt(k.Val())); ok {
				return v
			}
		}
	}
	return 1 << 27
}

// c11SymlinkEdges: for a FileInfo value, the edges on which it is known to be
// / not to be a symbolic link.
func c11SymlinkEdges(p *Prog, fn *ssa.Function, info map[ssa.Value]bool) (sym, notSym []Edge) {
	bit := c11ModeSymlinkBit(p)
	modes := map[ssa.Value]bool{}
	AllInstrs(fn, func(in ssa.Instruction) {
		if call, ok := in.(*ssa.Call); ok && call.Call.IsInvoke() && call.Call.Method.Name() == "Mode" && info[call.Call.Value] {
			for a := range Aliases(call) {
				modes[a] = true
			}
		}
	})
	masked := map[ssa.Value]bool{}
	AllInstrs(fn, func(in ssa.Instruction) {
		switch u := in.(type) {
		case *ssa.BinOp:
			if u.Op == token.AND {
				if k, ok := constInt(u.Y); ok && k&bit != 0 && modes[u.X] {
					masked[u] = true
				}
				if k, ok := constInt(u.X); ok && k&bit != 0 && modes[u.Y] {
					masked[u] = true
				}
			}
		case *ssa.Call:
			if n := CalleeName(u); (n == "(io/fs.FileMode).Type") && len(u.Call.Args) == 1 && modes[u.Call.Args[0]] {
				masked[u] = true
			}
		}
	})
	for _, i := range Ifs(fn) {
		cond, t, f := ifEdges(i)
		if conj, ok := c11ConjunctOf(cond); ok {
			// `case err == nil && info.Mode()&os.ModeSymlink != 0:` evaluated as a value (phi of false and the test):
			// the true edge means the test held; the false edge tells nothing more than "the test was evaluated or moot"
			cond = conj
			f = Edge{}
		}
		switch x := cond.(type) {
		case *ssa.BinOp:
			if x.Op != token.EQL && x.Op != token.NEQ {
				continue
			}
			var k int64
			var ok bool
			switch {
			case masked[x.X]:
				k, ok = constInt(x.Y)
			case masked[x.Y]:
				k, ok = constInt(x.X)
			}
			if !ok {
				continue
			}
			isSymOnEq := k != 0 // (m & bit) == bit  → symlink ; (m & bit) == 0 → not symlink
			var se, ne Edge
			if (x.Op == token.EQL) == isSymOnEq {
				se, ne = t, f
			} else {
				se, ne = f, t
			}
			if se.From != nil {
				sym = append(sym, se)
			}
			if ne.From != nil {
				notSym = append(notSym, ne)
			}
			if f.From == nil && se == t {
				// conjunction: on the other edge of the If either an earlier conjunct failed or this is not a symlink
				notSym = append(notSym, Edge{t.From, c11OtherSucc(t)})
			}
		case *ssa.Call:
			n := CalleeName(x)
			if (n == "(io/fs.FileMode).IsRegular" || n == "(io/fs.FileMode).IsDir") && len(x.Call.Args) == 1 && modes[x.Call.Args[0]] {
				notSym = append(notSym, t) // regular / directory (from Lstat) ⇒ not a symlink
			}
		}
	}
	return
}

// c11RelLike: the values of fn that denote the relative path computed by
// filepath.Rel — Rel results in fn, results of in-package helpers that compute
// Rel, and (down a chain of links) parameters that receive such a value.
func c11RelLike(S *ssa.Function, links []c11Link) map[ssa.Value]bool {
	level := func(fn *ssa.Function) map[ssa.Value]bool {
		out := map[ssa.Value]bool{}
		for _, call := range Calls(fn, func(string) bool { return true }) {
			if CalleeName(call) == "path/filepath.Rel" {
				if v := ResultOf(call, 0); v != nil {
					out[v] = true
				}
			} else if g := StaticCallee(call); g != nil && g != fn && fnPkgPath(g) == fnPkgPath(fn) && len(g.Blocks) > 0 && c11Reaches(g, "path/filepath.Rel", 1) {
				if res := g.Signature.Results(); res.Len() > 0 {
					if b, ok := res.At(0).Type().Underlying().(*types.Basic); ok && b.Kind() == types.String {
						if v := ResultOf(call, 0); v != nil {
							out[v] = true
						}
					}
				}
			}
		}
		return out
	}
	cur := level(S)
	for _, l := range links {
		g := StaticCallee(l.Call)
		next := level(g)
		for i, prm := range g.Params {
			if i < len(l.Call.Call.Args) && c11DerivesFrom(l.Call.Call.Args[i], cur) {
				next[prm] = true
			}
		}
		cur = next
	}
	return cur
}

func c11R2AncestorWalk(c *Ctx, R2 string, S *ssa.Function) {
	tn := FnName(S)
	// the walk may live in the sanitiser or in a helper it calls
	fn, links := c11FindUnit(S, func(f *ssa.Function) bool {
		for _, l := range Loops(f) {
			for _, call := range CallsTo(f, "os.Lstat") {
				if l.Contains(call.(ssa.Instruction)) {
					return true
				}
			}
		}
		return false
	}, 3, map[*ssa.Function]bool{})
	if fn == nil {
		if c11R2AncestorWalkIter(c, R2, S) {
			return
		}
		c.Violation(R2, tn+"|ancestor-walk", S.Pos(), "no loop that Lstats the ancestors of the entry: a symbolic link planted by an earlier entry redirects later writes outside")
		return
	}
	linkOK := c11LinksPass(links)
	atoms := c11SuccessAtoms(fn)
	errIdx := ErrResultIndex(fn.Signature)
	relRes := c11RelLike(S, links)
	var L ssa.CallInstruction
	var loop *Loop
	for _, l := range Loops(fn) {
		for _, call := range CallsTo(fn, "os.Lstat") {
			if l.Contains(call.(ssa.Instruction)) {
				L, loop = call, l
			}
		}
	}
	if L == nil {
		c.Violation(R2, tn+"|ancestor-walk", fn.Pos(), "no loop that Lstats the ancestors of the entry: a symbolic link planted by an earlier entry redirects later writes outside")
		return
	}
	header := loop.Header.Instrs[0]
	// (a) not bypassed
	ok := linkOK && c11AllAtomsPass(atoms, func() *cut { return newCut().Edges(loop.Exits...) })
	c.Check(R2, tn+"|ancestor-walk-not-bypassed", L.Pos(), ok,
		ifelse(ok, "every successful return leaves through an exit edge of the ancestor loop", "a successful return is reachable without running the ancestor symlink walk"))
	// (b) the walk starts at Dir(rel) and steps with Dir(dir)
	var phi *ssa.Phi
	for _, in := range loop.Header.Instrs {
		p, isPhi := in.(*ssa.Phi)
		if !isPhi {
			break
		}
		if c11DerivesFrom(L.Common().Args[0], map[ssa.Value]bool{p: true}) {
			phi = p
		}
	}
	okWalk := phi != nil
	if okWalk {
		for i, e := range phi.Edges {
			pred := loop.Header.Preds[i]
			if loop.Blocks[pred] {
				call, isCall := strip(e).(*ssa.Call)
				if !isCall || CalleeName(call) != "path/filepath.Dir" || !c11DerivesFrom(call.Call.Args[0], map[ssa.Value]bool{phi: true}) {
					okWalk = false
				}
			} else {
				call, isCall := strip(e).(*ssa.Call)
				if !isCall || CalleeName(call) != "path/filepath.Dir" || !c11DerivesFrom(call.Call.Args[0], relRes) {
					okWalk = false
				}
			}
		}
		// the probed path is base + ancestor
		hasParam := false
		var leaves []ssa.Value
		c11Operands(L.Common().Args[0], &leaves, map[ssa.Value]bool{}, 0)
		for _, v := range leaves {
			if _, isP := v.(*ssa.Parameter); isP {
				hasParam = true
			}
		}
		if !hasParam {
			okWalk = false
		}
	}
	// (b'') the probe is built on the very base the entry is written under: the base operand of the probed path
	// is (a parameter lifted to) the sanitiser's argument that its callers join the result with
	if phi != nil {
		var baseVals []ssa.Value
		var els []ssa.Value
		if jc, ok := Roots(L.Common().Args[0])[0].(*ssa.Call); ok && len(Roots(L.Common().Args[0])) == 1 {
			for _, a := range jc.Call.Args {
				c11SliceElems(a, &els)
			}
		} else {
			els = append(els, L.Common().Args[0])
		}
		for _, e := range els {
			if !c11DerivesFrom(e, map[ssa.Value]bool{phi: true}) {
				baseVals = append(baseVals, e)
			}
		}
		lifted := c11Lift(baseVals, links)
		if fn == S {
			lifted = baseVals
		}
		kIdx := map[int]bool{}
		for _, v := range lifted {
			for _, rt := range Roots(v) {
				if prm, ok := rt.(*ssa.Parameter); ok && prm.Parent() == S {
					for i, q := range S.Params {
						if q == prm {
							kIdx[i] = true
						}
					}
				}
			}
		}
		c11ProbeBaseCallers(c, R2, tn, S, kIdx, L.Pos())
	}
	c.Check(R2, tn+"|ancestor-walk-covers-every-parent", L.Pos(), okWalk,
		ifelse(okWalk, "the walk starts at Dir(rel), steps with Dir(dir) and Lstats base+dir", "the ancestor walk does not start at the entry's parent, does not step to each parent, or does not probe base+ancestor: some ancestor is never checked"))
	// (b') the loop is left only when the cursor has reached the base (the exit test on the
	// loop-carried cursor) or with an error: a break / return nil on "exists and is not a
	// symlink" stops the walk below a symlinked grand-parent
	var baseExits, otherExits []Edge
	for _, e := range loop.Exits {
		isBase := false
		if ifi, ok := e.From.Instrs[len(e.From.Instrs)-1].(*ssa.If); ok && phi != nil {
			if bo, ok := ifi.Cond.(*ssa.BinOp); ok && (bo.Op == token.EQL || bo.Op == token.NEQ) {
				cur := map[ssa.Value]bool{phi: true}
				_, kx := strip(bo.X).(*ssa.Const)
				_, ky := strip(bo.Y).(*ssa.Const)
				if (ky && c11DerivesFrom(bo.X, cur)) || (kx && c11DerivesFrom(bo.Y, cur)) {
					isBase = true
				}
			}
		}
		if isBase {
			baseExits = append(baseExits, e)
		} else {
			otherExits = append(otherExits, e)
		}
	}
	okExit := len(baseExits) > 0 && c11AllAtomsPass(atoms, func() *cut { return newCut().Edges(baseExits...) })
	for _, e := range otherExits {
		// (success atoms exclude errors returned on the non-nil side of their own test)
		for _, a := range atoms {
			ab, ai := a.anchor()
			if reach(e.To, 0, ab.Instrs[ai], nil) {
				okExit = false
			}
		}
	}
	c.Check(R2, tn+"|ancestor-walk-left-only-at-base", L.Pos(), okExit,
		ifelse(okExit, "the walk is left only through the cursor-reached-the-base test or with an error", "the ancestor walk can be left early (break / successful return) before the cursor reaches the base: "+
			"a symbolic link higher up is never examined, later entries are written through it"))
	// (c) every iteration Lstats
	okIter := true
	for _, s := range loop.Header.Succs {
		if loop.Blocks[s] && reach(s, 0, header, newCut().Instr(L.(ssa.Instruction))) {
			okIter = false
		}
	}
	c.Check(R2, tn+"|ancestor-lstat-every-iteration", L.Pos(), okIter,
		ifelse(okIter, "every iteration of the walk executes os.Lstat", "an iteration of the ancestor walk can skip os.Lstat"))
	// (d) symlink ⇒ error
	info := ResultOf(L, 0)
	if info == nil {
		c.Violation(R2, tn+"|ancestor-symlink-rejected", L.Pos(), "the FileInfo of the ancestor is discarded: symbolic links are not detected")
		return
	}
	sym, notSym := c11SymlinkEdges(c.P, fn, Aliases(info))
	if len(sym) == 0 {
		c.Undecided(R2, tn+"|ancestor-symlink-rejected", L.Pos(), "no ModeSymlink test on the ancestor's FileInfo in a recognised form (info.Mode()&os.ModeSymlink compared with 0)")
		return
	}
	okSym := true
	for _, e := range sym {
		if reach(e.To, 0, header, nil) {
			okSym = false
		}
		if a := findNilReturnFrom(fn, e, errIdx, newCut(), map[ssa.Value]bool{}); a != nil {
			okSym = false
		}
	}
	// after a successful Lstat the test is not skipped
	if e := ErrOf(L); e != nil {
		nilE, _, _ := NilTests(fn, Aliases(e))
		for _, ne := range nilE {
			cutT := newCut().Edges(notSym...).Edges(sym...)
			if reach(ne.To, 0, header, cutT) {
				okSym = false
			}
			for _, a := range atoms {
				if reach(ne.To, 0, a.Ret, cutT) {
					okSym = false
				}
			}
		}
		if len(nilE) == 0 {
			okSym = false
		}
	} else {
		okSym = false
	}
	c.Check(R2, tn+"|ancestor-symlink-rejected", L.Pos(), okSym,
		ifelse(okSym, "a symbolic-link ancestor always ends in a non-nil error; the test follows every successful Lstat",
			"an ancestor that is a symbolic link does not (always) make the sanitiser fail: entries can be written through a planted link"))
}

// c11DerivesFrom: v is computed from a member of set (membership is tested on
// the raw value before phi/cell expansion, then through calls, tuples,
// variadic slices and string concatenation).
func c11DerivesFrom(v ssa.Value, set map[ssa.Value]bool) bool {
	seen := map[ssa.Value]bool{}
	var rec func(v ssa.Value, d int) bool
	rec = func(v ssa.Value, d int) bool {
		if v == nil || d > 12 {
			return false
		}
		if set[v] || set[strip(v)] {
			return true
		}
		if seen[v] {
			return false
		}
		seen[v] = true
		if phi, ok := v.(*ssa.Phi); ok {
			for _, e := range phi.Edges {
				if rec(e, d+1) {
					return true
				}
			}
			return false
		}
		for _, r := range Roots(v) {
			if set[r] {
				return true
			}
			if r != v && !seen[r] {
				if _, isPhi := r.(*ssa.Phi); isPhi {
					if rec(r, d+1) {
						return true
					}
					continue
				}
			}
			switch u := r.(type) {
			case *ssa.Call:
				for _, a := range u.Call.Args {
					if rec(a, d+1) {
						return true
					}
				}
			case *ssa.UnOp:
				// load of a local struct value (e.g. struct{ io.Reader }{f}): what was stored into its fields
				if al, ok := u.X.(*ssa.Alloc); ok && u.Op == token.MUL {
					for _, ref := range *al.Referrers() {
						if fa, isFA := ref.(*ssa.FieldAddr); isFA {
							for _, r2 := range *fa.Referrers() {
								if st, isSt := r2.(*ssa.Store); isSt && st.Addr == fa && rec(st.Val, d+1) {
									return true
								}
							}
						}
					}
				}
				// load of a variable captured by reference: the values stored into it by the parent
				if fv, ok := u.X.(*ssa.FreeVar); ok && u.Op == token.MUL {
					for _, b := range freeVarBindings(fv) {
						if set[b] {
							return true
						}
						if a, ok := b.(*ssa.Alloc); ok {
							for _, st := range storesTo(a) {
								if rec(st.Val, d+1) {
									return true
								}
							}
						}
					}
				}
			case *ssa.Extract:
				if rec(u.Tuple, d+1) {
					return true
				}
			case *ssa.Slice:
				if rec(u.X, d+1) {
					return true
				}
			case *ssa.BinOp:
				if rec(u.X, d+1) || rec(u.Y, d+1) {
					return true
				}
			case *ssa.TypeAssert:
				if rec(u.X, d+1) {
					return true
				}
			case *ssa.Alloc:
				for _, ref := range *u.Referrers() {
					switch a := ref.(type) {
					case *ssa.IndexAddr:
						for _, r2 := range *a.Referrers() {
							if s, ok := r2.(*ssa.Store); ok && s.Addr == a && rec(s.Val, d+1) {
								return true
							}
						}
					case *ssa.Store:
						if a.Addr == u && rec(a.Val, d+1) {
							return true
						}
					}
				}
			}
		}
		return false
	}
	return rec(v, 0)
}

// c11Operands collects the non-call leaves a value is computed from.
func c11Operands(v ssa.Value, out *[]ssa.Value, seen map[ssa.Value]bool, depth int) {
	if depth > 8 {
		return
	}
	for _, r := range Roots(v) {
		if seen[r] {
			continue
		}
		seen[r] = true
		switch u := r.(type) {
		case *ssa.Call:
			for _, a := range u.Call.Args {
				c11Operands(a, out, seen, depth+1)
			}
		case *ssa.Extract:
			c11Operands(u.Tuple, out, seen, depth+1)
		case *ssa.Slice:
			c11Operands(u.X, out, seen, depth+1)
		case *ssa.Alloc:
			for _, ref := range *u.Referrers() {
				if ia, ok := ref.(*ssa.IndexAddr); ok {
					for _, r2 := range *ia.Referrers() {
						if s, ok := r2.(*ssa.Store); ok && s.Addr == ia {
							c11Operands(s.Val, out, seen, depth+1)
						}
					}
				}
			}
		case *ssa.BinOp:
			c11Operands(u.X, out, seen, depth+1)
			c11Operands(u.Y, out, seen, depth+1)
		default:
			*out = append(*out, r)
		}
	}
}

// c11R2Link: the link-target sanitiser.
func c11R2Link(c *Ctx, R2 string, fn *ssa.Function, roles *c11Roles) {
	tn := FnName(fn)
	atoms := c11SuccessAtoms(fn)
	var srCalls []*ssa.Call
	for _, call := range Calls(fn, func(string) bool { return true }) {
		if g := StaticCallee(call); g != nil && roles.role[g] == "archive-entry" {
			if cv, ok := call.(*ssa.Call); ok {
				srCalls = append(srCalls, cv)
			}
		}
	}
	if len(srCalls) != 1 {
		c.Undecided(R2, tn+"|validates-resolved-target", fn.Pos(), fmt.Sprintf("%d calls of the archive-entry sanitiser (expected one)", len(srCalls)))
		return
	}
	sr := srCalls[0]
	g := StaticCallee(sr)
	// which argument of the archive-entry sanitiser is the validated path: the
	// parameter that reaches filepath.Rel's target
	tIdx := -1
	if relFn, relLinks := c11FindUnit(g, func(f *ssa.Function) bool { return len(CallsTo(f, "path/filepath.Rel")) > 0 }, 3, map[*ssa.Function]bool{}); relFn != nil {
		for _, r := range CallsTo(relFn, "path/filepath.Rel") {
			for _, v := range c11Lift([]ssa.Value{r.Common().Args[1]}, relLinks) {
				for _, rt := range Roots(v) {
					if p, ok := rt.(*ssa.Parameter); ok {
						for i, q := range g.Params {
							if q == p {
								tIdx = i
							}
						}
					}
				}
			}
		}
	}
	if tIdx < 0 {
		c.Undecided(R2, tn+"|validates-resolved-target", sr.Pos(), "cannot tell which argument of the archive-entry sanitiser is validated")
		return
	}
	validated := sr.Call.Args[tIdx]
	// success ⇒ validated
	okSucc := false
	if e := ErrOf(sr); e != nil {
		nilE, _, _ := NilTests(fn, Aliases(e))
		okSucc = len(nilE) > 0 && c11AllAtomsPass(atoms, func() *cut { return newCut().Edges(nilE...) })
	}
	c.Check(R2, tn+"|success-implies-validated", sr.Pos(), okSucc,
		ifelse(okSucc, "every successful return lies behind the err==nil edge of the containment check", "the link-target sanitiser can succeed although the containment check failed or was skipped"))
	// shape of the validated value: target if absolute, Join(Dir(link), target) otherwise
	var joins []ssa.Instruction
	var rawParams []*ssa.Parameter
	okShape := true
	for _, rt := range Roots(validated) {
		switch u := rt.(type) {
		case *ssa.Parameter:
			rawParams = append(rawParams, u)
		case *ssa.Call:
			if CalleeName(u) != "path/filepath.Join" {
				okShape = false
				break
			}
			var ops []ssa.Value
			c11Operands(u, &ops, map[ssa.Value]bool{}, 0)
			// operands: Dir(link) contributes `link`, plus target
			hasDir := false
			for _, a := range u.Call.Args {
				var els []ssa.Value
				c11SliceElems(a, &els)
				for _, el := range els {
					if d, ok := strip(el).(*ssa.Call); ok && CalleeName(d) == "path/filepath.Dir" {
						hasDir = true
					}
				}
			}
			nParams := 0
			for _, o := range ops {
				if _, ok := o.(*ssa.Parameter); ok {
					nParams++
				}
			}
			if !hasDir || nParams < 2 {
				okShape = false
			}
			joins = append(joins, u)
		default:
			okShape = false
		}
	}
	if len(joins) == 0 {
		okShape = false
	}
	var absT []Edge
	for _, p := range rawParams {
		t, _, _ := CallTests(fn, "path/filepath.IsAbs", func(call *ssa.Call) bool { return SameValue(call.Call.Args[0], p) })
		absT = append(absT, t...)
	}
	if okShape {
		okShape = MustPass(sr, newCut().Instr(joins...).Edges(absT...))
	}
	c.Check(R2, tn+"|relative-target-resolved-against-link-dir", sr.Pos(), okShape,
		ifelse(okShape, "the validated value is the target itself only on the IsAbs edge, otherwise Join(Dir(link), target)",
			"a relative link target is validated without first resolving it against the directory of the link (\"../x\" inside a sub-directory is judged against the wrong base)"))
	// what does it return: the link content (fine for symlinks) or the validated path
	same := true
	for _, a := range RetAtoms(fn, 0) {
		if s, isStr := constString(a.Val); isStr && s == "" { // the value returned next to an error
			continue
		}
		if !c11SameRoots(a.Val, validated) {
			same = false
		}
	}
	roles.linkReturnsValidated[fn] = same
}

func c11SliceElems(v ssa.Value, out *[]ssa.Value) {
	sl, ok := v.(*ssa.Slice)
	if !ok {
		*out = append(*out, v)
		return
	}
	a, ok := sl.X.(*ssa.Alloc)
	if !ok {
		*out = append(*out, v)
		return
	}
	for _, ref := range *a.Referrers() {
		if ia, ok := ref.(*ssa.IndexAddr); ok {
			for _, r2 := range *ia.Referrers() {
				if s, ok := r2.(*ssa.Store); ok && s.Addr == ia {
					*out = append(*out, s.Val)
				}
			}
		}
	}
}

// ---------- R3 ----------

// c11OriginRole names where a sink's path comes from; together with the callee
// it identifies a sink independently of the unexported function that happens
// to contain it (extracting or inlining helpers keeps known-finding keys).
func c11OriginRole(flow *c11Flow, s *c11Site) string {
	role := "unsanitised"
	for _, idx := range c11PathArgs[s.Name] {
		for _, l := range s.Leafs[idx] {
			if l.Kind != "san" {
				continue
			}
			switch flow.roles.role[StaticCallee(l.San)] {
			case "archive-entry", "link-target":
				role = "archive-entry"
			case "write-path":
				if role == "unsanitised" {
					role = "named-blob"
				}
			}
		}
	}
	return role
}

func c11R3(c *Ctx, flow *c11Flow, sites []*c11Site) {
	const RF, RL = "C11.R3.final-component-follow", "C11.R3.hardlink-oldname-validated"
	// no minimum count: a repair legitimately removes these sinks (fd-based chmod, os.Root …); the
	// sites come from R1's inventory, whose own count guards against vacuity
	nf := 0
	for _, s := range sites {
		if c11Followers[s.Name] || s.Name == "os.Link" {
			nf++
		}
	}
	c.Exists(RF, "sinks-scanned", token.NoPos, true, fmt.Sprintf("%d link-following / hard-link sinks among %d mutator sites examined", nf, len(sites)))
	roleCount := map[string]int{}
	for _, s := range sites {
		// role-based construct key: origin of the path + callee (+ ordinal among equals)
		rk := c11OriginRole(flow, s) + "|" + s.Name
		roleCount[rk]++
		if roleCount[rk] > 1 {
			rk = fmt.Sprintf("%s#%d", rk, roleCount[rk])
		}
		where := " [in " + FnName(s.Fn) + "]"
		if c11Followers[s.Name] {
			follows, known := true, true
			if s.Name == "os.OpenFile" {
				_, follows, known = c11OpenFlags(c.P, s.Call)
			}
			influenced := false
			for _, l := range s.Leafs[0] {
				if l.Kind == "san" || l.Kind == "taint" || l.Kind == "unknown" {
					influenced = true
				}
			}
			switch {
			case !influenced:
				// path not attacker-named (temp files, constants): nothing to guard
			case !known:
				c.Undecided(RF, rk, s.Call.Pos(), "open flags are not constant: cannot tell whether the final component is followed")
			case !follows:
				c.OK(RF, rk, s.Call.Pos(), "exclusive create / O_NOFOLLOW: the final component is not followed")
			default:
				ok, how := c11NoFollowGuard(c.P, flow, s.Fn, s.Call, 0, 0)
				c.Check(RF, rk, s.Call.Pos(), ok,
					ifelse(ok, how+where, s.Name+where+" follows a symbolic link in the last component of an archive-/name-controlled path and no no-follow guard "+
						"(Lstat+ModeSymlink test, prior Remove, exclusive create) dominates it on the same path value: an earlier entry can plant a link whose target is lexically inside "+
						"but really outside the working directory, and this call then writes/re-modes the outside file"))
			}
		}
		if s.Name == "os.Link" {
			var bad []string
			for _, l := range s.Leafs[0] {
				switch l.Kind {
				case "san":
					g := StaticCallee(l.San)
					if flow.roles.role[g] == "link-target" && !flow.roles.linkReturnsValidated[g] {
						bad = append(bad, "old name is the raw link name returned by "+FnName(g)+" (validated only after resolving it against the link's directory; the OS resolves it against the process working directory)")
					}
				case "taint", "unknown":
					bad = append(bad, "old name derives from "+l.What)
				}
			}
			c.Check(RL, rk, s.Call.Pos(), len(bad) == 0,
				ifelse(len(bad) == 0, "the hard link's old name is the validated path itself"+where, strings.Join(bad, "; ")+where+
					" — a hard-link entry can name a file outside the working directory (relative to the process CWD) and a following regular entry rewrites it"))
		}
	}
}

// c11NoFollowGuard looks for a guard on the same path value that dominates
// the sink: in the sink's function, or (path is a parameter) in every caller.
func c11NoFollowGuard(p *Prog, flow *c11Flow, fn *ssa.Function, sink ssa.CallInstruction, argIdx int, depth int) (bool, string) {
	arg := sink.Common().Args[argIdx]
	at := sink.(ssa.Instruction)
	// (1) prior removal of the same path
	var removes []ssa.CallInstruction
	for _, r := range CallsTo(fn, "os.Remove", "os.RemoveAll") {
		if r != sink && c11SameRoots(r.Common().Args[0], arg) {
			removes = append(removes, r)
		}
	}
	if len(removes) > 0 && MustPass(at, newCut().Calls(removes)) {
		return true, "the same path is removed before on every path"
	}
	// (2) Lstat + not-a-symlink edge
	var pass []Edge
	for _, l := range CallsTo(fn, "os.Lstat") {
		if !c11SameRoots(l.Common().Args[0], arg) {
			continue
		}
		if info := ResultOf(l, 0); info != nil {
			_, notSym := c11SymlinkEdges(p, fn, Aliases(info))
			pass = append(pass, notSym...)
		}
		// a failed Lstat with IsNotExist also means "no link there"
		if e := ErrOf(l); e != nil {
			t, _, _ := CallTests(fn, "os.IsNotExist", func(call *ssa.Call) bool { return Aliases(e)[call.Call.Args[0]] })
			pass = append(pass, t...)
		}
	}
	if len(pass) > 0 && MustPass(at, newCut().Edges(pass...)) {
		return true, "an Lstat of the same path with a not-a-symlink test dominates the sink"
	}
	// (3) parameter: every caller guards
	if depth < 2 {
		for _, rt := range Roots(arg) {
			prm, ok := rt.(*ssa.Parameter)
			if !ok || len(Roots(arg)) != 1 || fn.Parent() != nil || c11IsExportedAPI(fn) {
				continue
			}
			idx := -1
			for i, q := range fn.Params {
				if q == prm {
					idx = i
				}
			}
			cs := flow.callers[fn]
			if len(cs) == 0 || flow.escapes[fn] || idx < 0 {
				return false, ""
			}
			for _, call := range cs {
				if ok, _ := c11NoFollowGuard(p, flow, call.Parent(), call, idx, depth+1); !ok {
					return false, ""
				}
			}
			return true, "every caller guards the path before the call"
		}
	}
	return false, ""
}

var c11Mutants = []Mutant{
	// R4
	{Name: "constructor-enables-traversal", File: "content/file/file.go",
		Old: "\t\tworkingDir:      workingDirAbs,\n", New: "\t\tworkingDir:      workingDirAbs,\n\t\tAllowPathTraversalOnWrite: fallbackStorage != nil,\n",
		Expect: "C11.R4.traversal-off-by-default|package|never-enables-traversal"},
	// R1
	{Name: "writepath-error-conditionally-ignored", File: "content/file/file.go",
		Old:    "\ttarget, err := s.resolveWritePath(name)\n\tif err != nil {",
		New:    "\ttarget, err := s.resolveWritePath(name)\n\tif err != nil && !s.IgnoreNoName {",
		Expect: "C11.R1"},
	{Name: "entry-name-check-error-dropped", File: "content/file/utils.go",
		Old:    "\t\tfilePathRel, err := resolveRelToBase(dirPath, dirName, filename)\n\t\tif err != nil {\n\t\t\treturn err\n\t\t}\n",
		New:    "\t\tfilePathRel, _ := resolveRelToBase(dirPath, dirName, filename)\n",
		Expect: "C11.R1"},
	{Name: "mkdir-on-raw-entry-name", File: "content/file/utils.go",
		Old:    "\t\t\terr = os.MkdirAll(filePath, header.FileInfo().Mode())",
		New:    "\t\t\terr = os.MkdirAll(filepath.Join(dirPath, filename), header.FileInfo().Mode())",
		Expect: "C11.R1.sanitiser-dominance|~/content/file.extractTarDirectory|os.MkdirAll"},
	{Name: "symlink-target-check-dropped", File: "content/file/utils.go",
		Old:    "\t\t\ttarget, err = ensureLinkPath(dirPath, dirName, filePath, header.Linkname)\n\t\t\tif err != nil {\n\t\t\t\treturn err\n\t\t\t}\n",
		New:    "\t\t\ttarget, _ = ensureLinkPath(dirPath, dirName, filePath, header.Linkname)\n",
		Expect: "C11.R1.sanitiser-dominance|~/content/file.extractTarDirectory|os.Symlink"},
	{Name: "pushfile-recomputes-path-from-title", File: "content/file/file.go",
		Old:    "\t\terr = s.pushFile(target, expected, content)",
		New:    "\t\terr = s.pushFile(filepath.Join(s.workingDir, name), expected, content)",
		Expect: "C11.R1"},
	// R2
	{Name: "writepath-dotdot-equal-dropped", File: "content/file/file.go",
		Old:    "\t\tif strings.HasPrefix(rel, \"../\") || rel == \"..\" {",
		New:    "\t\tif strings.HasPrefix(rel, \"../\") {",
		Expect: "C11.R2.sanitisers-reject|(*~/content/file.Store).resolveWritePath|dotdot-rejected"},
	{Name: "entry-prefix-test-dropped", File: "content/file/utils.go",
		Old:    "\tif cleanPath == \"..\" || strings.HasPrefix(cleanPath, \"../\") {",
		New:    "\tif cleanPath == \"..\" || strings.HasPrefix(cleanPath, \"../../\") {",
		Expect: "C11.R2.sanitisers-reject|~/content/file.resolveRelToBase|dotdot-prefix-rejected"},
	{Name: "ancestor-symlink-test-dead", File: "content/file/utils.go",
		Old:    "\t\t} else if info.Mode()&os.ModeSymlink != 0 {",
		New:    "\t\t} else if info.Mode()&os.ModeSymlink != 0 && info.IsDir() {",
		Expect: "C11.R2.sanitisers-reject|~/content/file.resolveRelToBase|ancestor-symlink-rejected"},
	{Name: "ancestor-walk-one-level-only", File: "content/file/utils.go",
		Old:    "\t\tdir = filepath.Dir(dir)\n\t}",
		New:    "\t\tdir = \".\"\n\t}",
		Expect: "C11.R2.sanitisers-reject|~/content/file.resolveRelToBase|ancestor-walk-covers-every-parent"},
	{Name: "ancestor-walk-stops-at-first-real-dir", File: "content/file/utils.go",
		Old:    "\t\t} else if info.Mode()&os.ModeSymlink != 0 {\n\t\t\treturn \"\", fmt.Errorf(\"no symbolic link allowed between %q and %q\", baseRel, target)\n\t\t}\n",
		New:    "\t\t} else if info.Mode()&os.ModeSymlink != 0 {\n\t\t\treturn \"\", fmt.Errorf(\"no symbolic link allowed between %q and %q\", baseRel, target)\n\t\t} else if info.IsDir() {\n\t\t\tbreak\n\t\t}\n",
		Expect: "C11.R2.sanitisers-reject|~/content/file.resolveRelToBase|ancestor-walk-left-only-at-base"},
	{Name: "ancestor-probe-under-relative-base", File: "content/file/utils.go",
		Old: "os.Lstat(filepath.Join(baseAbs, dir))", New: "os.Lstat(filepath.Join(baseRel, dir))",
		Expect: "C11.R2.sanitisers-reject|~/content/file.resolveRelToBase|ancestor-probe-uses-write-base"},
	{Name: "link-target-validated-unresolved", File: "content/file/utils.go",
		Old:    "\tif _, err := resolveRelToBase(baseAbs, baseRel, path); err != nil {",
		New:    "\t_ = path\n\tif _, err := resolveRelToBase(baseAbs, baseRel, target); err != nil {",
		Expect: "C11.R2.sanitisers-reject|~/content/file.ensureLinkPath|relative-target-resolved-against-link-dir"},
	{Name: "writepath-validates-other-value", File: "content/file/file.go",
		Old:    "\t\ttarget, err := filepath.Abs(path)",
		New:    "\t\ttarget, err := filepath.Abs(s.workingDir)",
		Expect: "C11.R2.sanitisers-reject|(*~/content/file.Store).resolveWritePath|validates-what-it-returns"},
	// R2, plain-return idiom: the tests are all still there but an early successful return bypasses them
	{Name: "writepath-absolute-names-bypass-check", File: "content/file/file.go",
		Old:    "\tif !s.AllowPathTraversalOnWrite {\n\t\tbase, err := filepath.Abs(s.workingDir)",
		New:    "\tif !s.AllowPathTraversalOnWrite && !filepath.IsAbs(name) {\n\t\tbase, err := filepath.Abs(s.workingDir)",
		Expect: "C11.R2.sanitisers-reject|(*~/content/file.Store).resolveWritePath|rel-on-every-success-path"},
	{Name: "entry-early-success-before-dotdot-tests", File: "content/file/utils.go",
		Old:    "\tcleanPath := filepath.ToSlash(filepath.Clean(path))\n",
		New:    "\tif !strings.Contains(path, \"/\") {\n\t\treturn path, nil\n\t}\n\tcleanPath := filepath.ToSlash(filepath.Clean(path))\n",
		Expect: "C11.R2.sanitisers-reject|~/content/file.resolveRelToBase|dotdot-rejected"},
	{Name: "entry-early-success-before-ancestor-walk", File: "content/file/utils.go",
		Old:    "\t// No symbolic link allowed in the relative path\n",
		New:    "\tif baseRel == \"\" {\n\t\treturn path, nil\n\t}\n",
		Expect: "C11.R2.sanitisers-reject|~/content/file.resolveRelToBase|ancestor-walk-not-bypassed"},
	{Name: "link-early-success-for-absolute-target", File: "content/file/utils.go",
		Old:    "\t// ensure path is under baseAbs or baseRel\n",
		New:    "\tif filepath.IsAbs(target) && strings.HasPrefix(target, baseAbs) {\n\t\treturn target, nil\n\t}\n",
		Expect: "C11.R2.sanitisers-reject|~/content/file.ensureLinkPath|success-implies-validated"},
	// R3: a different unguarded sink must produce a different key
	{Name: "new-chmod-after-create", File: "content/file/file.go",
		Old:    "\tfp, err := os.Create(target)\n\tif err != nil {\n\t\treturn fmt.Errorf(\"failed to create file %s: %w\", target, err)\n\t}\n",
		New:    "\tfp, err := os.Create(target)\n\tif err != nil {\n\t\treturn fmt.Errorf(\"failed to create file %s: %w\", target, err)\n\t}\n\t_ = os.Chmod(target, 0644)\n",
		Expect: "C11.R3.final-component-follow|named-blob|os.Chmod"},
	{Name: "new-marker-file-in-unpack-dir", File: "content/file/file.go",
		Old:    "\tgz, err := s.tempFile()\n\tif err != nil {\n\t\treturn err\n\t}\n\n\tgzPath := gz.Name()",
		New:    "\tif mf, err := os.Create(filepath.Join(target, name)); err == nil {\n\t\tmf.Close()\n\t}\n\tgz, err := s.tempFile()\n\tif err != nil {\n\t\treturn err\n\t}\n\n\tgzPath := gz.Name()",
		Expect: "C11.R"},
}
