package main

// Coverage-review additions for C01 (author A): rules R6..R8.
//   R6 node-copied-or-present : a claimed node's traversal reports success only after the node was found present or copied
//   R7 root-resolution        : Copy's root is what src resolves srcRef to; WithTargetPlatform selects on the mapped root;
//                               SelectManifest answers only with a platform match taken from the root / its manifest list
//   R8 transfers-own-node     : the fetch/push pair of a node copy is about the function's own node descriptor

import (
	"go/constant"
	"go/token"
	"go/types"
	"sort"
	"strings"

	"golang.org/x/tools/go/ssa"
)

func runC01Coverage(c *Ctx) {
	c01R6(c)
	c01R7(c)
	c01R8(c)
}

// c01DstExistsEdges: the edges of f on which dst.Exists(ctx, <f's own node>) answered true / false, for the existence
// test that precedes the dispatch of the successors (the later cache-existence test is not one).
func c01DstExistsEdges(f *ssa.Function, tr c01Traversal) (t, fl []Edge) {
	for _, call := range Calls(f, func(n string) bool { return n == "(~/content.ReadOnlyStorage).Exists" }) {
		args := call.Common().Args
		prm := c01ParamOf(args[len(args)-1])
		if prm == nil || prm.Parent() != f {
			continue
		}
		// asked of the destination: a store that can be pushed to (the source side is read-only)
		if cc := call.Common(); !cc.IsInvoke() || types.NewMethodSet(cc.Value.Type()).Lookup(nil, "Push") == nil {
			continue
		}
		var dispatch []ssa.CallInstruction
		for _, d := range c01DispatchCalls(f, tr.Entry) {
			dispatch = append(dispatch, d.Call)
		}
		for _, dc := range Calls(f, func(string) bool { return true }) {
			callee := StaticCallee(dc)
			if callee == nil && !dc.Common().IsInvoke() {
				callee, _ = c01FuncOfValue(dc.Common().Value)
			}
			if callee != nil && callee != f && callee == tr.Body {
				dispatch = append(dispatch, dc)
			}
		}
		if len(dispatch) > 0 && !Dominates(call.(ssa.Instruction), dispatch[0].(ssa.Instruction)) {
			continue
		}
		if v := ResultOf(call, 0); v != nil {
			te, fe := BoolTests(f, Aliases(v))
			t, fl = append(t, te...), append(fl, fe...)
		}
	}
	return
}

// c01StructRoots: Roots, looking additionally through struct-typed local cells (a descriptor variable captured by a
// closure lives in an Alloc) when the cell is only stored whole, loaded, read field-wise, or captured by closures that
// do not write it.  A path on which no store reaches keeps the load itself.
func c01StructRoots(v ssa.Value) []ssa.Value {
	var out []ssa.Value
	seen := map[ssa.Value]bool{}
	var rec func(v ssa.Value, depth int)
	rec = func(v ssa.Value, depth int) {
		for _, r := range Roots(v) {
			if seen[r] {
				continue
			}
			seen[r] = true
			a := cellOf(r)
			if a == nil || depth > 4 || !c01PlainCell(a) {
				out = append(out, r)
				continue
			}
			for _, st := range ReachingStores(a, r.(*ssa.UnOp)) {
				if st == nil {
					out = append(out, r)
				} else {
					rec(st.Val, depth+1)
				}
			}
		}
	}
	rec(v, 0)
	return out
}

func c01PlainCell(a *ssa.Alloc) bool {
	if len(closureWriters(a)) > 0 {
		return false
	}
	for _, r := range *a.Referrers() {
		switch u := r.(type) {
		case *ssa.Store:
			if u.Addr != a {
				return false
			}
		case *ssa.UnOp, *ssa.MakeClosure, *ssa.DebugRef:
		case *ssa.FieldAddr:
			for _, r2 := range *u.Referrers() {
				if ld, ok := r2.(*ssa.UnOp); !ok || ld.Op != token.MUL {
					return false
				}
			}
		default:
			return false
		}
	}
	return true
}

// c01OwnNodeArg: descriptor argument a of a call in f denotes the node f works on — f's own descriptor parameter, or,
// when f (a closure) has none, the descriptor parameter of the nearest enclosing function that has one.
func c01OwnNodeArg(p *Prog, f *ssa.Function, a ssa.Value) bool {
	hasOwn := false
	for _, q := range f.Params {
		if c01IsOCIDescriptor(q.Type()) {
			hasOwn = true
		}
	}
	if hasOwn {
		q := c01ParamOf(a)
		return q != nil && q.Parent() == f
	}
	for o := f.Parent(); o != nil; o = o.Parent() {
		found := false
		for _, q := range o.Params {
			if c01IsOCIDescriptor(q.Type()) {
				found = true
				if c01CarriedFrom(p, a, q) {
					return true
				}
			}
		}
		if found {
			return false
		}
	}
	return false
}

// ---------- R6 ----------

func c01R6(c *Ctx) {
	const R = "C01.R6.node-copied-or-present"
	c.Expect(R, 1)
	trs := c01Traversals(c.P)
	if len(trs) == 0 {
		c.LostAnchor(R, "copy traversal (function handed to syncutil.Go that claims its node with TryCommit)")
		return
	}
	preCopy := c01FieldOf(c.P, "", "CopyGraphOptions", "PreCopy")
	// paramMayPush: the func-typed parameter #idx of g is, at every call site of g, a function that pushes
	paramMayPush := func(g *ssa.Function, idx int) bool {
		n := 0
		for _, F := range c.P.FuncsOfPkg("") {
			for _, cs := range Calls(F, func(string) bool { return true }) {
				if StaticCallee(cs) != g || idx >= len(cs.Common().Args) {
					continue
				}
				n++
				h, _ := c01FuncOfValue(cs.Common().Args[idx])
				if h == nil || len(h.Blocks) == 0 || !reachesCall(h, 3, func(n string, _ ssa.CallInstruction) bool { return pushInvokes[n] }) {
					return false
				}
			}
		}
		return n > 0
	}
	for _, tr := range trs {
		memo := map[*ssa.Function]int{} // 1 = every successful return follows "present" or a copy effect, 2 = not, 3 = in progress
		var why string
		var okFn func(f *ssa.Function, depth int) bool
		okFn = func(f *ssa.Function, depth int) bool {
			if v, ok := memo[f]; ok {
				return v == 1
			}
			if depth > 6 || f == nil || len(f.Blocks) == 0 {
				return false
			}
			memo[f] = 3
			present, _ := c01DstExistsEdges(f, tr)
			effects := newCut().Edges(present...)
			// PreCopy answering SkipNode: the hook has taken care of the node itself
			if preCopy != nil {
				sites, _ := c01CallbackSites(f, preCopy)
				for _, s := range sites {
					if e := ErrOf(s); e != nil {
						effects.Edges(toleratedEdges(f, Aliases(e), []string{"~.SkipNode"})...)
					}
				}
			}
			dispatch := map[ssa.CallInstruction]bool{}
			for _, d := range c01DispatchCalls(f, tr.Entry) {
				dispatch[d.Call] = true // dispatching the successors is not copying this node
			}
			for _, call := range Calls(f, func(string) bool { return true }) {
				if _, isDefer := call.(*ssa.Defer); isDefer || dispatch[call] {
					continue
				}
				if pushInvokes[CalleeName(call)] {
					effects.Instr(call.(ssa.Instruction))
					continue
				}
				cc := call.Common()
				if cc.IsInvoke() {
					continue
				}
				if prm, isPrm := cc.Value.(*ssa.Parameter); isPrm && prm.Parent() == f {
					for k, q := range f.Params {
						if q == prm && paramMayPush(f, k) {
							effects.Instr(call.(ssa.Instruction))
						}
					}
					continue
				}
				callee := StaticCallee(call)
				if callee == nil {
					callee, _ = c01FuncOfValue(cc.Value)
				}
				if callee == nil || !inModule(callee) || callee == f {
					continue
				}
				if fnPkgPath(callee) == Mod && len(callee.Blocks) > 0 {
					if memo[callee] != 3 && okFn(callee, depth+1) {
						effects.Instr(call.(ssa.Instruction))
					}
				} else if isPushEffect(call) {
					effects.Instr(call.(ssa.Instruction))
				}
			}
			// a loop over candidates whose every iteration starts with an effect cannot be left without one once the
			// candidates are known to be non-empty
			guarded := map[Edge][]Edge{} // first-evaluation exit edge of a loop -> edges proving the ranged list non-empty
			inLoop := map[Edge]*Loop{}
			for _, l := range Loops(f) {
				X, _, _, exit, isElem := c01ElemLoop(l)
				if !isElem {
					continue
				}
				if _, nz := c03LenEdges(f, X); len(nz) > 0 {
					guarded[exit], inLoop[exit] = nz, l
				}
			}
			// start: the edges on which this goroutine owns the node (or the entry when f does not claim)
			var starts []Edge
			for _, tc := range CallsTo(f, nTryCommit) {
				args := tc.Common().Args
				if prm := c01ParamOf(args[len(args)-1]); prm != nil && prm.Parent() == f {
					if cv := ResultOf(tc, 1); cv != nil {
						te, _ := BoolTests(f, Aliases(cv))
						starts = append(starts, te...)
					}
				}
			}
			if len(starts) == 0 {
				starts = []Edge{{nil, f.Blocks[0]}} // f works for a node its caller claimed
			}
			ok := true
			for _, e := range starts {
				if c01R6Walk(f, e, effects, guarded, inLoop) != nil {
					ok = false
					if why == "" {
						why = FnName(f) + " can report its node as done although it was neither found in the destination nor copied"
					}
				}
			}
			if ok {
				memo[f] = 1
			} else {
				memo[f] = 2
			}
			return ok
		}
		ok := okFn(tr.Entry, 0)
		c.Check(R, c01TraversalKey(tr)+"|claimed-node-present-or-copied", tr.Entry.Pos(), ok,
			ifelse(ok, "every successful return for a claimed node follows dst.Exists == true, a copy effect (push / mount / push-with-reference) or PreCopy's SkipNode, in the traversal and in the node-copy helpers it returns through", why+": the copy succeeds with the node missing in the destination"))
	}
}

// c01R6Walk: like c01SuccessReturnFrom (path-sensitive over materialised booleans), additionally knowing that a loop
// over a list cannot be left at its first test once an edge proving the list non-empty was passed.
func c01R6Walk(fn *ssa.Function, from Edge, c *cut, guarded map[Edge][]Edge, inLoop map[Edge]*Loop) *ssa.Return {
	errIdx := ErrResultIndex(fn.Signature)
	type state struct {
		b, pred *ssa.BasicBlock
		ne      string
	}
	proves := map[Edge][]Edge{} // non-empty edge -> guarded exits it disables
	for ex, nzs := range guarded {
		for _, nz := range nzs {
			proves[nz] = append(proves[nz], ex)
		}
	}
	visited := map[state]bool{}
	var bad *ssa.Return
	var walk func(b, pred *ssa.BasicBlock, known map[Edge]bool)
	walk = func(b, pred *ssa.BasicBlock, known map[Edge]bool) {
		var ks []string
		for e := range known {
			ks = append(ks, e.String())
		}
		sort.Strings(ks)
		st := state{b, pred, strings.Join(ks, ",")}
		if bad != nil || visited[st] {
			return
		}
		visited[st] = true
		for _, in := range b.Instrs {
			if c != nil && c.instrs[in] {
				return
			}
			r, ok := in.(*ssa.Return)
			if !ok {
				continue
			}
			if errIdx < 0 {
				bad = r
				return
			}
			for _, v := range resolveAt(r.Results[errIdx], b, pred, r, map[ssa.Value]bool{}) {
				if !c01CertainErr(r, v, 0) {
					bad = r
					return
				}
			}
			return
		}
		for _, s := range c01FeasibleSuccs(b, pred, c, nil) {
			e := Edge{b, s}
			if known[e] {
				if l := inLoop[e]; l != nil && (pred == nil || !l.Blocks[pred]) {
					continue // first test of the loop with the list known non-empty: the body is entered
				}
			}
			k2 := known
			if exs := proves[e]; len(exs) > 0 {
				k2 = map[Edge]bool{}
				for x := range known {
					k2[x] = true
				}
				for _, x := range exs {
					k2[x] = true
				}
			}
			walk(s, b, k2)
		}
	}
	walk(from.To, from.From, map[Edge]bool{})
	return bad
}

// ---------- R7 ----------

func c01R7(c *Ctx) {
	const R = "C01.R7.root-resolution"
	c.Expect(R, 3)
	Copy := c.P.Fn("", "Copy")
	if Copy == nil || len(Copy.Params) != 6 {
		c.LostAnchor(R, "~.Copy(ctx, src, srcRef, dst, dstRef, opts)")
		return
	}
	srcRef := Copy.Params[2]
	// (a) the root is src.Resolve(srcRef) / FetchReference(srcRef), possibly through resolver helpers
	var resolved func(v ssa.Value, ref *ssa.Parameter, depth int) bool
	resolved = func(v ssa.Value, ref *ssa.Parameter, depth int) bool {
		if depth > 3 {
			return false
		}
		rs := c01StructRoots(v)
		if len(rs) == 0 {
			return false
		}
		for _, r := range rs {
			ex, isEx := r.(*ssa.Extract)
			if !isEx || ex.Index != 0 {
				return false
			}
			call, isCall := ex.Tuple.(*ssa.Call)
			if !isCall {
				return false
			}
			n := CalleeName(call)
			if strings.HasSuffix(n, ").Resolve") || strings.HasSuffix(n, ").FetchReference") {
				args := call.Call.Args
				if p := c01ParamOf(args[len(args)-1]); p == nil || p != ref {
					return false
				}
				continue
			}
			if strings.HasPrefix(n, "field:~.CopyOptions.MapRoot") || strings.HasPrefix(n, "dyn:") {
				continue // the mapped root: its input is checked by R4 / maproot-chaining
			}
			g := StaticCallee(call)
			if g == nil || !inModule(g) || len(g.Blocks) == 0 {
				return false
			}
			// a module helper: MapRoot helper (receives the option) or a resolver (receives the reference)
			var gref *ssa.Parameter
			for i, a := range call.Call.Args {
				if p := c01ParamOf(a); p != nil && p == ref && i < len(g.Params) {
					gref = g.Params[i]
				}
			}
			if gref == nil {
				// e.g. mapRoot(ctx, proxy, root, opts.MapRoot): its root argument must itself be resolved
				okArg := false
				for _, a := range call.Call.Args {
					if c01IsOCIDescriptor(a.Type()) && resolved(a, ref, depth+1) {
						okArg = true
					}
				}
				if !okArg {
					return false
				}
				continue
			}
			for _, ret := range Returns(g) {
				if ret.Block() == g.Recover || c01IsErrorReturn(ret, ErrResultIndex(g.Signature)) {
					continue // the recover block re-reads the result cells after a panic: not a resolution path
				}
				if !resolved(ret.Results[0], gref, depth+1) {
					return false
				}
			}
		}
		return true
	}
	okA, n := true, 0
	for _, r := range Returns(Copy) {
		if r.Block() == Copy.Recover || c01IsErrorReturn(r, 1) {
			continue
		}
		n++
		if !resolved(r.Results[0], srcRef, 0) {
			okA = false
		}
	}
	c.Check(R, "~.Copy|root-resolved-from-srcRef", Copy.Pos(), okA && n > 0,
		ifelse(okA, "the root Copy works on and returns is what the source resolves / fetches for srcRef (optionally mapped by MapRoot)", "the root Copy returns is not the descriptor the source resolves srcRef to"))
	// (b) WithTargetPlatform: the installed MapRoot answers with SelectManifest(ctx, src, <mapped or own root>, p)
	WTP := c.P.Fn("", "CopyOptions.WithTargetPlatform")
	SM := c.P.Fn("internal/platform", "SelectManifest")
	mrVar := c01FieldOf(c.P, "", "CopyOptions", "MapRoot")
	if WTP == nil || SM == nil || mrVar == nil {
		c.LostAnchor(R, "(*~.CopyOptions).WithTargetPlatform / ~/internal/platform.SelectManifest")
		return
	}
	okB, nW := true, 0
	for _, st := range c04FieldStores(WTP, mrVar) {
		W, _ := c01FuncOfValue(st.Val)
		if W == nil || len(W.Blocks) == 0 {
			okB = false
			continue
		}
		nW++
		// the selecting step may be a local function value (selectPlatform) — follow one level
		var selects func(v ssa.Value, f *ssa.Function, depth int) bool
		selects = func(v ssa.Value, f *ssa.Function, depth int) bool {
			for _, r := range Roots(v) {
				ex, isEx := r.(*ssa.Extract)
				if !isEx || ex.Index != 0 {
					return false
				}
				call, isCall := ex.Tuple.(*ssa.Call)
				if !isCall {
					return false
				}
				if StaticCallee(call) == SM {
					// the root handed to SelectManifest: the wrapper's own root or the previous MapRoot's result
					var rootArg ssa.Value
					for _, a := range call.Call.Args {
						if c01IsOCIDescriptor(a.Type()) {
							rootArg = a
						}
					}
					sawPrev := false
					for _, rr := range Roots(rootArg) {
						if c01ParamOf(rr) != nil {
							continue
						}
						if e2, ok := rr.(*ssa.Extract); ok && e2.Index == 0 {
							if c2, ok := e2.Tuple.(*ssa.Call); ok && StaticCallee(c2) == nil && !c2.Call.IsInvoke() {
								sawPrev = true
								continue // result of the wrapped MapRoot
							}
						}
						return false
					}
					// when the wrapper consults a previous MapRoot, the selection must be applied to its answer: the
					// wrapper's own root may reach SelectManifest only on paths that did not call it
					for _, pc := range Calls(f, func(string) bool { return true }) {
						pcc := pc.Common()
						if pcc.IsInvoke() || StaticCallee(pc) != nil || !c01IsCallbackValue(pcc.Value, mrVar) {
							continue
						}
						if !sawPrev {
							return false
						}
						if phi, isPhi := rootArg.(*ssa.Phi); isPhi {
							for i, ev := range phi.Edges {
								pb := phi.Block().Preds[i]
								if c01ParamOf(ev) != nil && Reachable(pc.(ssa.Instruction), pb.Instrs[len(pb.Instrs)-1]) {
									return false
								}
							}
						} else if c01ParamOf(rootArg) != nil {
							return false
						}
					}
					continue
				}
				g := StaticCallee(call)
				if g == nil && !call.Call.IsInvoke() {
					g, _ = c01FuncOfValue(call.Call.Value)
				}
				if g == nil || depth > 1 || len(g.Blocks) == 0 {
					return false
				}
				for _, ret := range Returns(g) {
					if !c01IsErrorReturn(ret, ErrResultIndex(g.Signature)) && !selects(ret.Results[0], g, depth+1) {
						return false
					}
				}
			}
			return true
		}
		for _, ret := range Returns(W) {
			if c01IsErrorReturn(ret, ErrResultIndex(W.Signature)) {
				continue
			}
			if !selects(ret.Results[0], W, 0) {
				okB = false
			}
		}
	}
	c.Check(R, "(*~.CopyOptions).WithTargetPlatform$MapRoot|selects-on-mapped-root", WTP.Pos(), okB && nW > 0,
		ifelse(okB, "every successful answer of the installed MapRoot is platform.SelectManifest applied to the wrapper's root or to the wrapped MapRoot's result", "the MapRoot installed by WithTargetPlatform can answer with something else than the platform selection on the (mapped) root"))
	// (c) SelectManifest: a successful answer follows a platform match against the requested platform and is the root
	// (whose config supplied the platform) or an entry of the root's manifest list; helpers are followed with the
	// root / platform parameters mapped.
	why := ""
	var selOK func(f *ssa.Function, root, plat *ssa.Parameter, depth int) (ok bool, n int)
	selOK = func(f *ssa.Function, root, plat *ssa.Parameter, depth int) (bool, int) {
		isPlat := func(v ssa.Value) bool {
			if c01CarriedFrom(c.P, v, plat) {
				return true // read through a captured variable inside a predicate closure
			}
			for _, r := range Roots(v) {
				if c01ParamOf(r) != plat {
					return false
				}
			}
			return true
		}
		fromCall := func(v ssa.Value, suffix string) bool {
			return c01Slice(v, func(x ssa.Value) bool {
				ex, ok := x.(*ssa.Extract)
				if !ok || ex.Index != 0 {
					return false
				}
				call, ok := ex.Tuple.(*ssa.Call)
				if !ok || !strings.HasSuffix(CalleeName(call), suffix) {
					return false
				}
				for _, a := range call.Call.Args {
					if c01IsOCIDescriptor(a.Type()) && c01ParamOf(a) == root {
						return true
					}
				}
				return false
			})
		}
		// evidence that the requested platform matched: a true Match(x, p) edge, or a non-negative index answered by
		// slices.IndexFunc over a predicate that says true only on a Match(x, p)
		matchEdges := func(g *ssa.Function, okArg0 func(ssa.Value) bool) []Edge {
			t, _, _ := CallTests(g, "~/internal/platform.Match", func(call *ssa.Call) bool {
				return len(call.Call.Args) == 2 && isPlat(call.Call.Args[1]) && (okArg0 == nil || okArg0(call.Call.Args[0]))
			})
			return t
		}
		predMatches := func(fv ssa.Value) bool {
			g, _ := c01FuncOfValue(fv)
			if g == nil || len(g.Blocks) == 0 {
				return false
			}
			cut := newCut().Edges(matchEdges(g, nil)...)
			for _, ret := range Returns(g) {
				for _, r := range Roots(ret.Results[0]) {
					if k, isK := r.(*ssa.Const); isK && k.Value != nil && !c01ConstTrue(k) {
						continue
					}
					if call, isCall := r.(*ssa.Call); isCall && CalleeName(call) == "~/internal/platform.Match" && len(call.Call.Args) == 2 && isPlat(call.Call.Args[1]) {
						continue
					}
					if !MustPass(ret, cut) {
						return false
					}
				}
			}
			return true
		}
		idxEdges := map[ssa.Value][]Edge{}
		for _, call := range CallsTo(f, "slices.IndexFunc") {
			cv, isV := call.(*ssa.Call)
			if !isV || len(cv.Call.Args) != 2 || !predMatches(cv.Call.Args[1]) {
				continue
			}
			idxEdges[cv] = c01NonNegEdges(f, cv)
		}
		ok, n := true, 0
		for _, ret := range Returns(f) {
			if ret.Block() == f.Recover || c01IsErrorReturn(ret, ErrResultIndex(f.Signature)) {
				continue
			}
			n++
			for _, r := range c01StructRoots(ret.Results[0]) {
				if c01ParamOf(r) == root && root != nil {
					// the root itself: the platform compared must come from the root's config
					if !MustPass(ret, newCut().Edges(matchEdges(f, func(a ssa.Value) bool { return fromCall(a, "/internal/manifestutil.Config") })...)) {
						ok, why = false, FnName(f)+" can answer with the root without its config's platform having matched the requested platform"
					}
					continue
				}
				if ex, isEx := r.(*ssa.Extract); isEx && ex.Index == 0 {
					if call, isCall := ex.Tuple.(*ssa.Call); isCall {
						if g := StaticCallee(call); g != nil && inModule(g) && len(g.Blocks) > 0 && depth < 2 {
							var groot, gplat *ssa.Parameter
							for i, a := range call.Call.Args {
								if i >= len(g.Params) {
									break
								}
								if p := c01ParamOf(a); p != nil && p == root {
									groot = g.Params[i]
								} else if p != nil && p == plat {
									gplat = g.Params[i]
								}
							}
							if groot != nil && gplat != nil {
								if gok, gn := selOK(g, groot, gplat, depth+1); !gok || gn == 0 {
									ok = false
								}
								continue
							}
						}
					}
				}
				if !fromCall(r, "/internal/manifestutil.Manifests") {
					ok, why = false, FnName(f)+" can answer with a descriptor that is neither the root nor an entry of the root's manifest list"
					continue
				}
				// an entry of the list: matched by a Match edge, or selected by the index IndexFunc answered
				cut := newCut().Edges(matchEdges(f, func(a ssa.Value) bool { return fromCall(a, "/internal/manifestutil.Manifests") })...)
				if ld, isLd := r.(*ssa.UnOp); isLd && ld.Op == token.MUL {
					if ia, isIA := ld.X.(*ssa.IndexAddr); isIA {
						for _, ir := range Roots(ia.Index) {
							cut.Edges(idxEdges[ir]...)
						}
					}
				}
				if !MustPass(ret, cut) {
					ok, why = false, FnName(f)+" can answer with a manifest-list entry without a platform match against the requested platform"
				}
			}
		}
		return ok, n
	}
	var smRoot, smPlat *ssa.Parameter
	for _, p := range SM.Params {
		if c01IsOCIDescriptor(p.Type()) {
			smRoot = p
		} else if pt, isPtr := p.Type().(*types.Pointer); isPtr {
			if nm, isNamed := pt.Elem().(*types.Named); isNamed && nm.Obj().Name() == "Platform" {
				smPlat = p
			}
		}
	}
	if smRoot == nil || smPlat == nil {
		c.LostAnchor(R, "~/internal/platform.SelectManifest(ctx, src, root, p)")
		return
	}
	okC, nS := selOK(SM, smRoot, smPlat, 0)
	if why == "" {
		why = "SelectManifest can answer successfully without a platform match, or with a descriptor that is neither the root nor one of its manifests"
	}
	c.Check(R, "~/internal/platform.SelectManifest|answer-matches-platform", SM.Pos(), okC && nS > 0,
		ifelse(okC && nS > 0, "every successful answer follows a true platform.Match against the requested platform and is the root (config platform matched) or an entry of its manifest list", why))
}

// c01NonNegEdges: the edges of f on which the integer v is known to be >= 0 (tests v >= 0, v < 0, v != -1, v == -1, v > -1).
func c01NonNegEdges(f *ssa.Function, v ssa.Value) []Edge {
	var out []Edge
	al := Aliases(v)
	for _, i := range Ifs(f) {
		cond, t, fl := ifEdges(i)
		bo, ok := cond.(*ssa.BinOp)
		if !ok || !al[bo.X] {
			continue
		}
		k, isK := constInt(bo.Y)
		if !isK {
			continue
		}
		switch {
		case bo.Op == token.GEQ && k == 0, bo.Op == token.GTR && k == -1, bo.Op == token.NEQ && k == -1:
			out = append(out, t)
		case bo.Op == token.LSS && k == 0, bo.Op == token.LEQ && k == -1, bo.Op == token.EQL && k == -1:
			out = append(out, fl)
		}
	}
	return out
}

func c01ConstTrue(k *ssa.Const) bool {
	return k.Value != nil && k.Value.Kind() == constant.Bool && constant.BoolVal(k.Value)
}

// ---------- R8 ----------

func c01R8(c *Ctx) {
	const R = "C01.R8.transfers-own-node"
	c.Expect(R, 2)
	side := func(n string) string {
		switch {
		case strings.HasSuffix(n, ").Fetch"), strings.HasSuffix(n, ").FetchCached"):
			return "fetch"
		case strings.HasSuffix(n, ").Push"), strings.HasSuffix(n, ").PushReference"), strings.HasSuffix(n, ").Mount"):
			return "push"
		}
		return ""
	}
	// the code of a graph copy: what the traversal and Copy reach, plus the closures made inside those functions
	set := map[*ssa.Function]bool{}
	for _, tr := range c01Traversals(c.P) {
		for f := range c01ReachableFns(tr.Entry, 6) {
			set[f] = true
		}
	}
	if Copy := c.P.Fn("", "Copy"); Copy != nil {
		for f := range c01ReachableFns(Copy, 6) {
			set[f] = true
		}
	}
	for changed := true; changed; {
		changed = false
		for _, f := range c.P.FuncsOfPkg("") {
			if !set[f] && f.Parent() != nil && set[f.Parent()] {
				for g := range c01ReachableFns(f, 6) {
					if !set[g] {
						set[g], changed = true, true
					}
				}
			}
		}
	}
	n := map[string]int{}
	bad := map[string]string{}
	var fns []*ssa.Function
	for f := range set {
		if fnPkgPath(f) == Mod {
			fns = append(fns, f)
		}
	}
	sort.Slice(fns, func(i, j int) bool { return fns[i].String() < fns[j].String() })
	for _, f := range fns {
		AllInstrs(f, func(in ssa.Instruction) {
			// a bound method value (src.Fetch handed to a helper) is a site without a descriptor of its own
			if mc, ok := in.(*ssa.MakeClosure); ok {
				if w := mc.Fn.(*ssa.Function); strings.HasPrefix(w.Synthetic, "bound method wrapper") {
					for _, call := range Calls(w, func(string) bool { return true }) {
						if sd := side(CalleeName(call)); sd != "" {
							n[sd]++
						}
					}
				}
				return
			}
			call, ok := in.(ssa.CallInstruction)
			if !ok {
				return
			}
			sd := side(CalleeName(call))
			if sd == "" {
				return
			}
			for _, a := range call.Common().Args {
				if !c01IsOCIDescriptor(a.Type()) {
					continue
				}
				n[sd]++
				own := c01OwnNodeArg(c.P, f, a)
				if !own {
					bad[sd] = CalleeName(call) + " in " + FnName(f) + " is handed a descriptor that is not the node the function was asked to copy"
				}
			}
		})
	}
	for _, sd := range []string{"fetch", "push"} {
		if n[sd] == 0 {
			continue
		}
		c.Check(R, "~.Copy-graph|"+sd+"-side-about-own-node", token.NoPos, bad[sd] == "",
			ifelse(bad[sd] == "", "every "+sd+"-side storage call of the graph copy (Fetch / FetchCached resp. Push / PushReference / Mount) names the descriptor parameter of its function (or of the enclosing function)", bad[sd]+": content of one node would be stored under another descriptor, or the wrong node copied"))
	}
}

// c01CovMutants: mutants of the coverage-review rules. "tests green" = the repository's own test suite passes with the
// mutant applied (go test ./... in a scratch copy; content/file TestStore_Dir_OverwriteSymlink_RemovalFailed fails on the
// pristine tree too when run as root and is disregarded).
var c01CovMutants = []Mutant{
	{Name: "platform-ignores-mapped-root", File: "copy.go", // tests green
		Old:    "\t\t\tif root, err = mapRoot(ctx, src, root); err != nil {",
		New:    "\t\t\tif _, err = mapRoot(ctx, src, root); err != nil {",
		Expect: "C01.R7.root-resolution|(*~.CopyOptions).WithTargetPlatform$MapRoot|selects-on-mapped-root"},
	{Name: "fetch-with-bare-descriptor", File: "copy.go", // tests green
		Old:    "\trc, err := src.Fetch(ctx, desc)\n\tif err != nil {\n\t\treturn newCopyError(\"Fetch\", CopyErrorOriginSource, err)\n\t}\n\tdefer rc.Close()\n\terr = dst.Push(ctx, desc, rc)",
		New:    "\trc, err := src.Fetch(ctx, ocispec.Descriptor{MediaType: desc.MediaType, Digest: desc.Digest, Size: desc.Size})\n\tif err != nil {\n\t\treturn newCopyError(\"Fetch\", CopyErrorOriginSource, err)\n\t}\n\tdefer rc.Close()\n\terr = dst.Push(ctx, desc, rc)",
		Expect: "C01.R8.transfers-own-node|~.Copy-graph|fetch-side-about-own-node"},
	{Name: "cached-blob-assumed-pushed", File: "copy.go", // tests green
		Old:    "\t\tif exists {\n\t\t\treturn copyNode(ctx, proxy.Cache, dst, desc, opts)\n\t\t}",
		New:    "\t\tif exists {\n\t\t\tif !descriptor.IsManifest(desc) {\n\t\t\t\treturn nil\n\t\t\t}\n\t\t\treturn copyNode(ctx, proxy.Cache, dst, desc, opts)\n\t\t}",
		Expect: "C01.R6.node-copied-or-present"},
	{Name: "empty-node-skipped", File: "copy.go", // caught by the repository tests as well
		Old:    "\t\tsuccessors = removeForeignLayers(successors)\n\n\t\tif len(successors) != 0 {",
		New:    "\t\tsuccessors = removeForeignLayers(successors)\n\t\tif len(successors) == 0 && desc.Size == 0 {\n\t\t\t// nothing to transfer for an empty blob\n\t\t\treturn nil\n\t\t}\n\n\t\tif len(successors) != 0 {",
		Expect: "C01.R6.node-copied-or-present"},
	{Name: "root-resolved-from-dstref", File: "copy.go", // caught by the repository tests as well
		Old:    "\troot, err := resolveRoot(ctx, src, srcRef, proxy)",
		New:    "\troot, err := resolveRoot(ctx, src, dstRef, proxy)",
		Expect: "C01.R7.root-resolution|~.Copy|root-resolved-from-srcRef"},
	{Name: "platformless-entry-selected", File: "internal/platform/platform.go", // caught by the repository tests as well
		Old:    "\t\t\tif Match(m.Platform, p) {\n\t\t\t\treturn m, nil",
		New:    "\t\t\tif m.Platform == nil || Match(m.Platform, p) {\n\t\t\t\treturn m, nil",
		Expect: "C01.R7.root-resolution|~/internal/platform.SelectManifest|answer-matches-platform"},
	{Name: "manifest-root-kept-on-unknown-config", File: "internal/platform/platform.go", // caught by the repository tests as well
		Old:    "\t\tif Match(cfgPlatform, p) {\n\t\t\treturn root, nil\n\t\t}",
		New:    "\t\tif cfgPlatform.OS == \"\" || Match(cfgPlatform, p) {\n\t\t\treturn root, nil\n\t\t}",
		Expect: "C01.R7.root-resolution|~/internal/platform.SelectManifest|answer-matches-platform"},
	{Name: "push-with-bare-descriptor", File: "copy.go", // caught by the repository tests as well
		Old:    "\terr = dst.Push(ctx, desc, rc)\n",
		New:    "\terr = dst.Push(ctx, ocispec.Descriptor{MediaType: desc.MediaType, Digest: desc.Digest, Size: desc.Size}, rc)\n",
		Expect: "C01.R8.transfers-own-node|~.Copy-graph|push-side-about-own-node"},
	{Name: "copy-returns-destination-view", File: "copy.go", // caught by the repository tests as well
		Old:    "\t\treturn ocispec.Descriptor{}, err\n\t}\n\n\treturn root, nil\n}\n\n// CopyGraph copies",
		New:    "\t\treturn ocispec.Descriptor{}, err\n\t}\n\n\treturn dst.Resolve(ctx, dstRef)\n}\n\n// CopyGraph copies",
		Expect: "C01.R7.root-resolution|~.Copy|root-resolved-from-srcRef"},
	{Name: "platform-match-swapped", File: "internal/platform/platform.go", // caught by the repository tests as well
		Old:    "\t\t\tif Match(m.Platform, p) {\n\t\t\t\treturn m, nil",
		New:    "\t\t\tif Match(p, m.Platform) {\n\t\t\t\treturn m, nil",
		Expect: "C01.R7.root-resolution|~/internal/platform.SelectManifest|answer-matches-platform"},
	{Name: "no-mount-source-means-done", File: "copy.go", // caught by the repository tests as well
		Old:    "\tif len(sourceRepositories) == 0 {\n\t\treturn copyNode(ctx, src, dst, desc, opts)\n\t}",
		New:    "\tif len(sourceRepositories) == 0 {\n\t\t// nothing to mount from\n\t\treturn nil\n\t}",
		Expect: "C01.R6.node-copied-or-present"},
	{Name: "transfer-skipped-for-empty-content", File: "copy.go", // caught by the repository tests as well
		Old:    "\tif err := doCopyNode(ctx, src, dst, desc); err != nil {\n\t\treturn err\n\t}\n",
		New:    "\tif desc.Size > 0 {\n\t\tif err := doCopyNode(ctx, src, dst, desc); err != nil {\n\t\t\treturn err\n\t\t}\n\t}\n",
		Expect: "C01.R6.node-copied-or-present"},
}
