package main

// Obligations, verdicts, evidence files, known findings.

import (
	"bufio"
	"encoding/json"
	"fmt"
	"go/token"
	"os"
	"path/filepath"
	"sort"
	"strings"
	"time"
)

type Status int

const (
	Discharged Status = iota
	Violated
	Undecided // engine gave up: counts as failure
	Lost      // anchor / instance lost: counts as failure
)

func (s Status) String() string {
	return [...]string{"discharged", "VIOLATED", "UNDECIDED", "UNRESOLVED-ANCHOR"}[s]
}

// Obligation is one rule instance: a generic rule applied to one construct.
type Obligation struct {
	Rule      string `json:"rule"`
	Construct string `json:"construct"`
	Pos       string `json:"pos"`
	Status    string `json:"status"`
	Detail    string `json:"detail,omitempty"`
	Trivial   bool   `json:"-"` // existence-only obligation (no path/flow argument)
	st        Status
	Variant   string `json:"variant,omitempty"` // build variant it was decided on
}

func (o *Obligation) Key() string { return o.Rule + "|" + o.Construct }

// Ctx is the context of one property run on one build variant.
type Ctx struct {
	Prop     string
	Tier     string
	P        *Prog
	Obs      []*Obligation
	expect   map[string]int
	Variant  string
	notArmed []string
}

// ob records an obligation.
func (c *Ctx) ob(rule, construct string, pos token.Pos, st Status, trivial bool, detail string) *Obligation {
	o := &Obligation{Rule: rule, Construct: construct, Pos: c.P.Pos(pos), st: st, Status: st.String(), Detail: detail, Trivial: trivial, Variant: c.Variant}
	c.Obs = append(c.Obs, o)
	return o
}

// Check records a path/flow obligation: discharged when ok, violated otherwise.
func (c *Ctx) Check(rule, construct string, pos token.Pos, ok bool, detail string) bool {
	st := Discharged
	if !ok {
		st = Violated
	}
	c.ob(rule, construct, pos, st, false, detail)
	return ok
}

// Exists records an existence-only obligation (counted as trivial).
func (c *Ctx) Exists(rule, construct string, pos token.Pos, ok bool, detail string) bool {
	st := Discharged
	if !ok {
		st = Violated
	}
	c.ob(rule, construct, pos, st, true, detail)
	return ok
}

func (c *Ctx) Violation(rule, construct string, pos token.Pos, detail string) {
	c.ob(rule, construct, pos, Violated, false, detail)
}

func (c *Ctx) OK(rule, construct string, pos token.Pos, detail string) {
	c.ob(rule, construct, pos, Discharged, false, detail)
}

func (c *Ctx) Undecided(rule, construct string, pos token.Pos, detail string) {
	c.ob(rule, construct, pos, Undecided, false, detail)
}

// LostAnchor records that a symbol/instance the rule needs no longer resolves.
func (c *Ctx) LostAnchor(rule, what string) {
	c.ob(rule, what, token.NoPos, Lost, true, "anchor does not resolve in the current tree; the rule cannot be evaluated (fail closed)")
}

// Expect declares the minimum number of obligations a rule must produce.
func (c *Ctx) Expect(rule string, n int) {
	if c.expect == nil {
		c.expect = map[string]int{}
	}
	c.expect[rule] = n
}

// NotArmed records a designed rule that is not implemented/armed.
func (c *Ctx) NotArmed(rule, why string) { c.notArmed = append(c.notArmed, rule+": "+why) }

// finish applies the vacuity guard.
func (c *Ctx) finish() {
	count := map[string]int{}
	for _, o := range c.Obs {
		count[o.Rule]++
	}
	rules := make([]string, 0, len(c.expect))
	for r := range c.expect {
		rules = append(rules, r)
	}
	sort.Strings(rules)
	for _, r := range rules {
		if count[r] < c.expect[r] {
			c.ob(r, "instance-count", token.NoPos, Lost, true,
				fmt.Sprintf("rule matched %d instance(s), fewer than the %d confirmed by hand on the pinned tree (vacuity guard)", count[r], c.expect[r]))
		}
	}
}

// ---------- known findings ----------

type knownFinding struct {
	Prop, Key, Text string
}

func loadKnownFindings(path string) ([]knownFinding, error) {
	f, err := os.Open(path)
	if err != nil {
		if os.IsNotExist(err) {
			return nil, nil
		}
		return nil, err
	}
	defer f.Close()
	var out []knownFinding
	sc := bufio.NewScanner(f)
	sc.Buffer(make([]byte, 1<<20), 1<<20)
	for sc.Scan() {
		line := strings.TrimSpace(sc.Text())
		if !strings.HasPrefix(line, "finding:") {
			continue // "fixed:" lines and comments suppress nothing
		}
		rest := strings.TrimSpace(strings.TrimPrefix(line, "finding:"))
		var kf knownFinding
		for _, fld := range []string{"property=", "key="} {
			if !strings.HasPrefix(rest, fld) {
				return nil, fmt.Errorf("known_findings: malformed line %q", line)
			}
			rest = rest[len(fld):]
			var val string
			if strings.HasPrefix(rest, "\"") {
				e := strings.Index(rest[1:], "\"")
				if e < 0 {
					return nil, fmt.Errorf("known_findings: malformed line %q", line)
				}
				val, rest = rest[1:1+e], strings.TrimSpace(rest[e+2:])
			} else {
				i := strings.IndexByte(rest, ' ')
				if i < 0 {
					i = len(rest)
				}
				val, rest = rest[:i], strings.TrimSpace(rest[i:])
			}
			if fld == "property=" {
				kf.Prop = val
			} else {
				kf.Key = val
			}
		}
		kf.Text = rest
		out = append(out, kf)
	}
	return out, sc.Err()
}

// ---------- evidence ----------

type evidence struct {
	PropertyID  string         `json:"property_id"`
	Tier        string         `json:"tier"`
	Seed        int            `json:"seed"`
	Level       string         `json:"level"`
	Coverage    map[string]any `json:"coverage"`
	Assumptions []string       `json:"assumptions"`
	WallS       float64        `json:"wall_s"`
	Violations  int            `json:"violations"`
}

type runResult struct {
	Prop     string
	Tier     string
	Obs      []*Obligation
	Variants []string
	Analysed map[string]any
	NotArmed []string
	Extra    map[string]any
	Start    time.Time
	Explain  string
	Assumes  []string
}

// conclude prints verdict lines, writes evidence and replay files, and
// returns the process exit code.
func conclude(verifDir string, r *runResult, seed int) int {
	kfs, err := loadKnownFindings(filepath.Join(verifDir, "known_findings.txt"))
	if err != nil {
		fmt.Println("ERROR:", err)
		return 2
	}
	// merge obligations across build variants: a key is discharged only if it
	// is discharged on every variant it was evaluated on
	type agg struct {
		o        *Obligation
		variants []string
	}
	byKey := map[string]*agg{}
	var keys []string
	for _, o := range r.Obs {
		k := o.Key()
		a, ok := byKey[k]
		if !ok {
			a = &agg{o: o}
			byKey[k] = a
			keys = append(keys, k)
		} else if o.st != Discharged && a.o.st == Discharged {
			a.o = o
		}
		a.variants = append(a.variants, o.Variant)
	}
	sort.Strings(keys)
	var viol, known []*Obligation
	discharged, nontrivial := 0, 0
	rulesSeen := map[string]int{}
	for _, k := range keys {
		o := byKey[k].o
		rulesSeen[o.Rule]++
		if o.st == Discharged {
			discharged++
			if !o.Trivial {
				nontrivial++
			}
			continue
		}
		isKnown := false
		if o.st == Violated {
			for _, kf := range kfs {
				if kf.Prop == r.Prop && kf.Key == k {
					isKnown = true
					fmt.Printf("KNOWN-FINDING: property=%s key=%q %s\n", r.Prop, k, kf.Text)
				}
			}
		}
		if isKnown {
			known = append(known, o)
		} else {
			viol = append(viol, o)
		}
	}
	outDir := filepath.Join(verifDir, "out")
	os.MkdirAll(outDir, 0o755)
	for i, o := range viol {
		rp := filepath.Join(outDir, fmt.Sprintf("%s-%s-%d.json", r.Prop, r.Tier, i))
		b, _ := json.MarshalIndent(map[string]any{"property": r.Prop, "key": o.Key(), "rule": o.Rule, "construct": o.Construct,
			"pos": o.Pos, "status": o.Status, "detail": o.Detail, "variant": o.Variant}, "", " ")
		os.WriteFile(rp, b, 0o644)
		fmt.Printf("%s %s [%s] %s at %s: %s\n", o.Status, r.Prop, o.Rule, o.Construct, o.Pos, o.Detail)
		fmt.Printf("VIOLATION property=%s replay=%s\n", r.Prop, rp)
	}
	// samples: a spread of actual obligations
	var samples []any
	step := len(keys)/12 + 1
	for i := 0; i < len(keys); i += step {
		samples = append(samples, byKey[keys[i]].o)
	}
	ruleList := make([]string, 0, len(rulesSeen))
	for k := range rulesSeen {
		ruleList = append(ruleList, fmt.Sprintf("%s(%d)", k, rulesSeen[k]))
	}
	sort.Strings(ruleList)
	var knownKeys []string
	for _, o := range known {
		knownKeys = append(knownKeys, o.Key())
	}
	cov := map[string]any{
		"explanation":         r.Explain,
		"obligations":         len(keys),
		"discharged":          discharged,
		"evaluations":         len(r.Obs),
		"distinct_nontrivial": nontrivial,
		"rule":                "one obligation per rule instance (rule|construct), instances discovered from the current source and matched against the frozen table; non-trivial = decided by a path/dominance/flow/lock/language argument rather than mere existence",
		"samples":             samples,
		"rules":               ruleList,
		"analysed":            r.Analysed,
		"build_matrix":        r.Variants,
		"known_findings":      knownKeys,
		"rules_not_armed":     r.NotArmed,
		"checker_cmd":         "bin/orascheck -prop " + r.Prop + " -tier " + r.Tier,
		"trusted_base":        r.Assumes,
		"exhaustive":          false,
	}
	for k, v := range r.Extra {
		cov[k] = v
	}
	ev := evidence{PropertyID: r.Prop, Tier: r.Tier, Seed: seed, Level: "other", Coverage: cov,
		Assumptions: r.Assumes, WallS: time.Since(r.Start).Seconds(), Violations: len(viol)}
	b, _ := json.MarshalIndent(ev, "", " ")
	os.MkdirAll(filepath.Join(verifDir, "evidence"), 0o755)
	if err := os.WriteFile(filepath.Join(verifDir, "evidence", r.Prop+".json"), b, 0o644); err != nil {
		fmt.Println("ERROR: cannot write evidence:", err)
		return 2
	}
	fmt.Printf("%s %s: %d obligations, %d discharged, %d known finding(s), %d violation(s); variants=%v; %.1fs\n",
		r.Prop, r.Tier, len(keys), discharged, len(known), len(viol), r.Variants, time.Since(r.Start).Seconds())
	if len(viol) > 0 {
		return 1
	}
	return 0
}
