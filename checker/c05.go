package main

// C05 — only content matching its descriptor becomes visible.
//
// R1 verifier soundness (VerifyReader.Verify / Read / NewVerifyReader /
//    ensureEOF-role / consumers of NewVerifyReader: ReadAll, CopyBuffer / FetchAll)
// R2 publish-after-verify (cas.Memory.Push, oci.Storage.Push + ingest-role,
//    file.Store saveFile-role + push-role, wrappers forward the same descriptor)
// R3 who-may-publish inventories (cas.Memory.content, file.Store.digestToPath,
//    names under blobs/ in content/oci)
// R4 error flow on the verifying / publishing calls
// R5 visibility readers (Exists/Fetch answer positively only on evidence from the published state)

import (
	"fmt"
	"go/constant"
	"go/token"
	"go/types"
	"strings"

	"golang.org/x/tools/go/ssa"
)

func init() {
	register(&propDef{
		ID: "C05",
		Explain: "Decided: (R1) every feasible path of VerifyReader.Verify that can return nil either has seen vr.verified or has checked the byte budget (N<=0, or a recorded io.EOF that Read " +
			"never records while N>0), has probed the underlying stream for trailing data with a helper that returns nil only on io.EOF, and has asked the digest verifier; the verified flag is set only " +
			"after the same checks; NewVerifyReader limits to desc.Size and tees every byte into desc.Digest's verifier; every function that creates a VerifyReader calls Verify on each path to a nil error, " +
			"hands the source reader to nobody else and verifies against its caller's descriptor; ReadAll rejects negative sizes before allocating; FetchAll returns ReadAll of the fetched stream. " +
			"(R2) in cas.Memory.Push, oci.Storage.Push (+ its ingest helper) and the file store (saveFile-role, push-role) the publication effect (LoadOrStore / Rename into blobs / digestToPath.Store / exists=true) " +
			"is dominated by the success edge of the verification of the same descriptor, publishes the verified bytes/file under the key of that descriptor; wrappers forward the caller's descriptor unchanged. " +
			"(R3) the writers of cas.Memory.content, file.Store.digestToPath and the creators of names under blobs/ are exactly the confirmed inventory, with verified keys. (R4) errors of the verifying and publishing calls surface, " +
			"deferred code (closures or helpers) cannot clear a verification error and records a failed Close. (R5) Exists/Fetch of the built-in stores answer positively only on evidence from the published state for the same descriptor " +
			"(content map hit, file at the blob path of its digest, digest->path entry behind the name gate) or by forwarding an inner store's answer. " +
			"NOT decided (not applicable to static analysis): reader behaviours (chunking, zero-byte reads), hash correctness, racing good/bad pushes on one name, user-supplied stores, byte-level equality of fetched content.",
		Run:     runC05,
		Mutants: c05Mutants,
	})
}

const (
	c05NewVR     = "~/content.NewVerifyReader"
	c05Verify    = "(*~/content.VerifyReader).Verify"
	c05ReadAll   = "~/content.ReadAll"
	c05CopyBuf   = "~/internal/ioutil.CopyBuffer"
	c05VRType    = "~/content.VerifyReader"
	c05PusherInv = "(~/content.Pusher).Push"
)

func runC05(c *Ctx) {
	c05SetRoles(c, "C05.anchors", "vr.base", "vr.verifier", "vr.verified", "vr.err", "cas.content", "file.digestToPath", "file.status.exists")
	c05R1Verify(c)
	c05R1Wiring(c)
	c05R1Consumers(c)
	c05R2Memory(c)
	c05R2OCI(c)
	c05R2File(c)
	c05PooledBuffers(c)
	c05R2Wrappers(c)
	c05R3(c)
	c05R4(c)
	c05R5(c)
	c05R5NotFound(c)
}

// moduleFuncs: every source function of the repository (all packages).
func c05ModuleFuncs(p *Prog) []*ssa.Function {
	var out []*ssa.Function
	for path := range p.Pkgs {
		if strings.HasPrefix(path, Mod) {
			out = append(out, c05FuncsOfPkg(p, path)...)
		}
	}
	return out
}

// ---------------------------------------------------------------- R1: Verify

func c05R1Verify(c *Ctx) {
	const R = "C05.R1.verify-sound"
	c.Expect(R, 10)
	fn := c.P.Fn("content", "VerifyReader.Verify")
	if fn == nil || len(fn.Blocks) == 0 || len(fn.Params) == 0 {
		c.LostAnchor(R, "(*~/content.VerifyReader).Verify")
		return
	}
	tn := FnName(fn)
	recv := "P:" + fn.Params[0].Name()
	isPath := func(p string) func(ssa.Value) bool {
		return func(v ssa.Value) bool { return c05LoadPath(v) == p }
	}
	// anchors: unexported state of VerifyReader (fail closed if renamed)
	vr := c.P.Named("content", "VerifyReader")
	if vr == nil {
		c.LostAnchor(R, c05VRType)
		return
	}
	have := map[string]bool{}
	if st, ok := vr.Underlying().(*types.Struct); ok {
		for i := 0; i < st.NumFields(); i++ {
			have[st.Field(i).Name()] = true
		}
	}
	fBase, fVerifier, fVerified, fErr := c05Cur.F("vr.base"), c05Cur.F("vr.verifier"), c05Cur.F("vr.verified"), c05Cur.F("vr.err")
	for _, f := range []string{fBase, fVerifier, fVerified, fErr} {
		if f == "" || !have[f] {
			c.LostAnchor(R, c05VRType+": the four state fields (limited reader, digest verifier, verified flag, sticky error) are no longer identifiable by type")
			return
		}
	}
	if len(Loops(fn)) > 0 {
		c.Undecided(R, tn+"|shape", fn.Pos(), "Verify contains a loop: the path-sensitive evaluation is defined for acyclic bodies only")
		return
	}
	// labels
	var vEdges []Edge
	for _, i := range Ifs(fn) {
		cond, t, _ := ifEdges(i)
		if c05LoadPath(cond) == recv+"."+fVerified+"*" {
			vEdges = append(vEdges, t)
		}
	}
	n0Edges, _ := c05NotPositiveEdgesP(fn, isPath(recv+"."+fBase+"*.N*"), true)
	eofEdges, _ := c05EqEdgesP(fn, isPath(recv+"."+fErr+"*"), func(v ssa.Value) bool { return c05IsGlobalLoad(v, "io.EOF") }, true)
	// trailing-data probe: a read of vr.base.R (directly, through the ensureEOF-role helper, or through a method of vr that does so)
	eEdges, probes, undec := c05ProbeEdges(c, R, fn, func(v ssa.Value) bool { return c05LoadPath(v) == recv+"."+fBase+"*.R*" }, fn.Params[0], 0)
	if undec != "" {
		c.Undecided(R, tn+"|trailing-data-probe", fn.Pos(), undec)
	} else if probes == 0 {
		c.Violation(R, tn+"|trailing-data-probe", fn.Pos(), "Verify never reads from vr.base.R: data beyond Size is not detected (ReadAll/Push would accept a stream with trailing bytes)")
	} else {
		c.OK(R, tn+"|trailing-data-probe", fn.Pos(), "Verify probes vr.base.R for end of stream")
	}
	// digest check: the true edge of vr.verifier.Verified(), in Verify or in a method of vr whose nil result implies it
	dEdges := c05OwnerEventEdges(fn, fn.Params[0], func(g *ssa.Function, owner *ssa.Parameter) []Edge {
		var out []Edge
		for _, call := range CallsTo(g, "(digest.Verifier).Verified") {
			if c05LoadPath(call.Common().Value) != "P:"+owner.Name()+"."+fVerifier+"*" {
				continue
			}
			if v := call.Value(); v != nil {
				te, _ := BoolTests(g, Aliases(v))
				out = append(out, te...)
			}
		}
		return out
	}, 0)
	paths, ok := c05EnumPaths(fn, nil)
	if !ok {
		c.Undecided(R, tn+"|paths", fn.Pos(), "path budget exceeded")
		return
	}
	type req struct {
		key, okMsg, badMsg string
		sat                func(p *c05Path) bool
	}
	eofOnly := false
	reqs := []req{
		{"nil-implies-length-check", "every path returning nil has seen vr.verified, or N<=0, or a recorded io.EOF",
			"Verify can return nil although fewer than Size bytes were read (neither N<=0 nor a recorded io.EOF is on the path): a descriptor with the right digest but a larger Size is accepted",
			func(p *c05Path) bool {
				if p.took(n0Edges) {
					return true
				}
				if p.took(eofEdges) {
					eofOnly = true
					return true
				}
				return false
			}},
		{"nil-implies-no-trailing-data", "every path returning nil has passed the end-of-stream probe of vr.base.R on its io.EOF edge",
			"Verify can return nil without probing the underlying stream for data beyond Size (trailing bytes are accepted)",
			func(p *c05Path) bool { return p.took(eEdges) }},
		{"nil-implies-digest-verified", "every path returning nil has taken the true edge of vr.verifier.Verified()",
			"Verify can return nil without the digest verifier confirming the bytes (content that does not hash to Digest is accepted)",
			func(p *c05Path) bool { return p.took(dEdges) }},
	}
	nilPaths := 0
	for _, rq := range reqs {
		bad := ""
		pos := fn.Pos()
		for _, p := range paths {
			ret := p.End.(*ssa.Return)
			if len(ret.Results) == 0 || p.st.nonNil(ret.Results[0]) {
				continue
			}
			nilPaths++
			if p.took(vEdges) || rq.sat(p) {
				continue
			}
			bad = p.String()
			pos = ret.Pos()
			break
		}
		c.Check(R, tn+"|"+rq.key, pos, bad == "", ifelse(bad == "", rq.okMsg, rq.badMsg+" [path "+bad+"]"))
	}
	if nilPaths == 0 {
		c.Violation(R, tn+"|nil-paths", fn.Pos(), "no path of Verify returns nil: anchor shape lost")
	}
	// the verified flag: set only after the same checks, and only here
	flagStores := 0
	for _, u := range c05FieldUses(c05ModuleFuncs(c.P), c05VRType, fVerified) {
		st, isStore := u.Use.(*ssa.Store)
		if !isStore {
			continue
		}
		if k, ok := st.Val.(*ssa.Const); ok && k.Value != nil && k.Value.String() == "false" {
			continue
		}
		flagStores++
		if u.Fn != fn {
			c.Violation(R, FnName(u.Fn)+"|sets-verified-flag", st.Pos(), "vr.verified is set outside Verify: a later Verify() returns nil without any check")
			continue
		}
		ps, ok := c05EnumPaths(fn, st)
		bad := ""
		if !ok {
			bad = "path budget exceeded"
		}
		for _, p := range ps {
			for _, rq := range reqs {
				if !rq.sat(p) {
					bad = rq.key + " missing on path " + p.String()
				}
			}
		}
		c.Check(R, tn+"|verified-flag-set-only-after-checks", st.Pos(), bad == "",
			ifelse(bad == "", "vr.verified=true is reached only after length check, end-of-stream probe and digest check", "vr.verified is set although "+bad))
	}
	// Verify itself records io.EOF in vr.err only after the same checks (a second Verify() trusts it)
	okRec, badRec := true, ""
	for _, w := range c05FieldWrites(fn, c05VRType, fErr) {
		ps, ok := c05EnumPaths(fn, w.At)
		if !ok {
			okRec, badRec = false, "path budget exceeded"
		}
		for _, p := range ps {
			if !c05MayBeEOF(p.st.resolve(w.Val), 0) {
				continue
			}
			for _, rq := range reqs {
				if !rq.sat(p) {
					okRec, badRec = false, rq.key+" missing on path "+p.String()+" at "+c.P.Pos(w.At.Pos())
				}
			}
		}
	}
	c.Check(R, tn+"|eof-recorded-only-after-checks", fn.Pos(), okRec,
		ifelse(okRec, "Verify stores io.EOF into vr.err only behind length check, end-of-stream probe and digest check", "Verify records io.EOF in vr.err although "+badRec+": a repeated Verify() then passes the length check"))
	// Read must not record io.EOF while N>0 when Verify relies on the recorded io.EOF
	if eofOnly {
		c05R1Read(c, R)
	} else {
		c.OK(R, tn+"|length-check-unconditional", fn.Pos(), "every nil path tests N<=0 itself; Read's EOF conversion is not relied upon")
	}
	// writers of vr.err: frozen inventory
	allowed := map[string]bool{"(*~/content.VerifyReader).Read": true, "(*~/content.VerifyReader).Verify": true, "~/content.NewVerifyReader": true}
	writers := map[string]token.Pos{}
	writerFns := map[string]*ssa.Function{}
	for _, u := range c05FieldUses(c05ModuleFuncs(c.P), c05VRType, fErr) {
		if st, isStore := u.Use.(*ssa.Store); isStore {
			writers[FnName(u.Fn)] = st.Pos()
			writerFns[FnName(u.Fn)] = u.Fn
		}
	}
	// a setter helper (stores nothing but its own argument) that only the confirmed writers call is part of them:
	// the value it records is judged at their call sites (c05FieldWrites)
	isSetterOf := func(h *ssa.Function) bool {
		if h == nil || h.Object() == nil || h.Object().Exported() {
			return false
		}
		if _, _, ok := c05Setter(h, c05VRType, fErr); !ok {
			return false
		}
		n, good := 0, true
		for _, g := range c05ModuleFuncs(c.P) {
			AllInstrs(g, func(in ssa.Instruction) {
				ci, isCall := in.(ssa.CallInstruction)
				if isCall && StaticCallee(ci) == h {
					n++
					if _, plain := in.(*ssa.Call); !plain || !allowed[FnName(g)] {
						good = false
					}
					return
				}
				for _, op := range in.Operands(nil) {
					if *op == ssa.Value(h) {
						good = false
					}
				}
			})
		}
		return good && n > 0
	}
	for _, w := range c05SortedKeys(boolKeys(writers)) {
		okW, why := allowed[w], "confirmed writer of the sticky error"
		if !okW && isSetterOf(writerFns[w]) {
			okW, why = true, "setter that records only its argument and is called only by the confirmed writers (judged at their call sites)"
		}
		c.Exists(R, w+"|writes-vr.err", writers[w], okW, ifelse(okW, why, "unreviewed writer of VerifyReader.err: Verify trusts a recorded io.EOF as 'Size bytes were read'"))
	}
}

func boolKeys(m map[string]token.Pos) map[string]bool {
	o := map[string]bool{}
	for k := range m {
		o[k] = true
	}
	return o
}

// c05OwnerEventEdges: the edges of fn on which an event about `owner` (a
// pointer parameter, e.g. the verify reader) is established: the direct edges,
// plus the err==nil edges of calls to same-package helpers that receive the
// owner and return a nil error only behind such an edge of their own.
func c05OwnerEventEdges(fn *ssa.Function, owner *ssa.Parameter, direct func(g *ssa.Function, owner *ssa.Parameter) []Edge, depth int) []Edge {
	out := direct(fn, owner)
	if depth >= 3 {
		return out
	}
	for _, call := range Calls(fn, func(string) bool { return true }) {
		h := c05Helper(call, fn)
		if h == nil || ErrResultIndex(h.Signature) < 0 {
			continue
		}
		if _, isDefer := call.(*ssa.Defer); isDefer {
			continue
		}
		for i, a := range call.Common().Args {
			if strip(a) != ssa.Value(owner) || i >= len(h.Params) {
				continue
			}
			sub := c05OwnerEventEdges(h, h.Params[i], direct, depth+1)
			if len(sub) == 0 || c05DeferKeepsError(h) != "" {
				continue
			}
			sound := true
			for _, at := range c05MaybeNilAtoms(h) {
				if !c05AtomMustPass(at, newCut().Edges(sub...)) {
					sound = false
				}
			}
			if sound {
				out = append(out, c05NilEdgesOf(call)...)
			}
		}
	}
	return out
}

// c05ProbeEdges returns the edges of fn on which the stream satisfying
// isReader is known to be exhausted: io.ReadFull/ReadAtLeast on it reported
// exactly io.EOF, or a helper that returns nil only in that case returned nil.
// owner (may be nil) is the value whose field the reader is: a helper that
// receives the owner (a method of the verify reader) is followed too.
func c05ProbeEdges(c *Ctx, R string, fn *ssa.Function, isReader func(v ssa.Value) bool, owner ssa.Value, depth int) (edges []Edge, probes int, undecided string) {
	isEOF := func(v ssa.Value) bool { return c05IsGlobalLoad(v, "io.EOF") }
	for _, call := range Calls(fn, func(string) bool { return true }) {
		if _, isDefer := call.(*ssa.Defer); isDefer {
			continue
		}
		args := call.Common().Args
		argIdx, ownIdx := -1, -1
		for i, a := range args {
			if isReader(a) {
				argIdx = i
			}
			if owner != nil && strip(a) == owner {
				ownIdx = i
			}
		}
		name := CalleeName(call)
		g := StaticCallee(call)
		switch {
		case argIdx >= 0 && (name == "io.ReadFull" || name == "io.ReadAtLeast"):
			probes++
			if argIdx != 0 {
				return nil, probes, "the stream is passed to " + name + " in an unexpected position"
			}
			if len(args) > 1 {
				if sl, ok := args[1].(*ssa.Slice); ok {
					if pt, ok := sl.X.Type().Underlying().(*types.Pointer); ok {
						if at, ok := pt.Elem().Underlying().(*types.Array); ok && at.Len() == 0 {
							return nil, probes, "probe buffer has length 0"
						}
					}
				}
			}
			if e := ErrOf(call); e != nil {
				al := Aliases(e)
				eq, _ := c05EqEdges(fn, func(v ssa.Value) bool { return al[v] }, isEOF)
				edges = append(edges, eq...)
			}
		case argIdx >= 0 && g != nil && inModule(g) && len(g.Blocks) > 0 && depth < 3 && argIdx < len(g.Params) && ErrResultIndex(g.Signature) >= 0:
			probes++
			rd := g.Params[argIdx]
			if c05ProbeNilSound(c, R, g, func(v ssa.Value) bool { return strip(v) == ssa.Value(rd) }, nil, depth+1) {
				edges = append(edges, c05NilEdgesOf(call)...)
			}
		case argIdx >= 0:
			probes++
			return nil, probes, "the stream is handed to " + name + ": only io.ReadFull/io.ReadAtLeast (io.EOF iff zero bytes) and in-module helpers built on them are recognised as end-of-stream probes"
		case ownIdx >= 0 && g != nil && len(g.Blocks) > 0 && c05Helper(call, fn) != nil && depth < 3 && ownIdx < len(g.Params) && ErrResultIndex(g.Signature) >= 0:
			// a method of the reader's owner: look for the probe inside
			op := g.Params[ownIdx]
			path := "P:" + op.Name() + "." + c05Cur.F("vr.base") + "*.R*"
			inner := func(v ssa.Value) bool { return c05LoadPath(v) == path }
			_, n, _ := c05ProbeEdges(c, R, g, inner, op, depth+1)
			if n == 0 {
				continue
			}
			probes++
			if c05ProbeNilSound(c, R, g, inner, op, depth+1) {
				edges = append(edges, c05NilEdgesOf(call)...)
			}
		}
	}
	return edges, probes, ""
}

// c05ProbeNilSound: g returns a nil error only on an edge where the stream is
// known to be exhausted.
func c05ProbeNilSound(c *Ctx, R string, g *ssa.Function, isReader func(v ssa.Value) bool, owner ssa.Value, depth int) bool {
	gn := FnName(g)
	edges, probes, undec := c05ProbeEdges(c, R, g, isReader, owner, depth)
	if undec != "" {
		c.Undecided(R, gn+"|eof-probe", g.Pos(), undec)
		return false
	}
	if probes == 0 {
		c.Violation(R, gn+"|eof-probe", g.Pos(), "the helper never reads from the stream it is given")
		return false
	}
	ok := c05DeferKeepsError(g) == ""
	// returning the verdict of a sound inner helper as is
	direct := map[ssa.Value]bool{}
	for _, call := range Calls(g, func(string) bool { return true }) {
		if len(c05NilEdgesOf(call)) == 0 && ErrOf(call) != nil {
			h := StaticCallee(call)
			for _, a := range call.Common().Args {
				if isReader(a) && h != nil && inModule(h) && len(h.Blocks) > 0 {
					for al := range Aliases(ErrOf(call)) {
						direct[al] = true
					}
				}
			}
		}
	}
	for _, a := range c05MaybeNilAtoms(g) {
		if direct[a.Val] {
			// `return ensureEOF(r)`: sound iff the callee is
			if call, isCall := a.Val.(*ssa.Call); isCall {
				h := StaticCallee(call)
				idx := -1
				for i, x := range call.Call.Args {
					if isReader(x) {
						idx = i
					}
				}
				if h != nil && idx >= 0 && idx < len(h.Params) && depth < 3 {
					rd := h.Params[idx]
					if c05ProbeNilSound(c, R, h, func(v ssa.Value) bool { return strip(v) == ssa.Value(rd) }, nil, depth+1) {
						continue
					}
				}
			}
			ok = false
			continue
		}
		if !c05AtomMustPass(a, newCut().Edges(edges...)) {
			ok = false
		}
	}
	c.Check(R, gn+"|eof-probe", g.Pos(), ok,
		ifelse(ok, "returns nil only on the edge where io.ReadFull reported exactly io.EOF", "the end-of-stream helper can return nil although the read did not report io.EOF (trailing data accepted)"))
	return ok
}

// c05R1Read: in VerifyReader.Read every value recorded in vr.err is either a
// sentinel other than io.EOF or recorded on a path where it is known != io.EOF
// or where the byte budget is exhausted (N<=0).
func c05R1Read(c *Ctx, R string) {
	fn := c.P.Fn("content", "VerifyReader.Read")
	if fn == nil || len(fn.Blocks) == 0 {
		c.LostAnchor(R, "(*~/content.VerifyReader).Read")
		return
	}
	tn := FnName(fn)
	recvSym := "P:" + fn.Params[0].Name()
	stores := 0
	for _, st := range c05FieldWrites(fn, c05VRType, c05Cur.F("vr.err")) {
		stores++
		ps, ok := c05EnumPaths(fn, st.At)
		bad := ""
		if !ok {
			bad = "path budget exceeded"
		}
		for _, p := range ps {
			v := p.st.resolve(st.Val)
			if !c05MayBeEOF(v, 0) {
				continue // a sentinel other than io.EOF, or a freshly constructed error
			}
			if f, known := p.st.facts[c05EqKey(p.st.symOf(st.Val), "g:io.EOF")]; known && !f {
				continue
			}
			if f, known := p.st.facts[c05EqKey(p.st.symOf(v), "g:io.EOF")]; known && !f {
				continue
			}
			nsym := p.st.loadPathSym(recvSym, c05Cur.F("vr.base"), "N")
			if f, known := p.st.facts["lt(const:0,"+nsym+")"]; known && !f {
				continue
			}
			if f, known := p.st.facts[c05EqKey(nsym, "const:0")]; known && f {
				continue
			}
			bad = "path " + p.String() + " records " + describe(v)
			break
		}
		c.Check(R, tn+"|early-eof-not-recorded-as-eof", st.At.Pos(), bad == "",
			ifelse(bad == "", "an io.EOF from the limited reader is recorded only when N<=0 (otherwise converted)", "Read can record io.EOF in vr.err while bytes are still expected ("+bad+"); Verify treats a recorded io.EOF as 'Size bytes were read', so a short stream whose digest matches is accepted"))
	}
	if stores == 0 {
		c.OK(R, tn+"|early-eof-not-recorded-as-eof", fn.Pos(), "Read never records an error")
	}
}

// c05MayBeEOF: can error value v be identical to io.EOF?  No for other
// package-level sentinels, for freshly constructed errors, and for calls of
// in-module functions all of whose results are such values or nil.
func c05MayBeEOF(v ssa.Value, depth int) bool {
	if _, isZero := v.(zeroMarker); isZero {
		return false
	}
	v = strip(v)
	if k, ok := v.(*ssa.Const); ok && k.Value == nil {
		return false
	}
	if g := sentinelOf(v); g != "" {
		return g == "io.EOF"
	}
	if call, ok := v.(*ssa.Call); ok {
		if nonNilCallees[CalleeName(call)] {
			return false
		}
		if g := StaticCallee(call); g != nil && inModule(g) && depth < 2 && len(g.Blocks) > 0 {
			idx := ErrResultIndex(g.Signature)
			if idx < 0 {
				return true
			}
			for _, a := range RetAtoms(g, idx) {
				if c05MayBeEOF(a.Val, depth+1) {
					return true
				}
			}
			return false
		}
	}
	if _, ok := v.(*ssa.MakeInterface); ok {
		return false
	}
	return true
}

// sentinelOf: short name of the package-level variable v is a load of, else "".
func sentinelOf(v ssa.Value) string {
	u, ok := strip(v).(*ssa.UnOp)
	if !ok || u.Op != token.MUL {
		return ""
	}
	g, ok := u.X.(*ssa.Global)
	if !ok {
		return ""
	}
	return short(g.Pkg.Pkg.Path() + "." + g.Name())
}

// ---------------------------------------------------------------- R1: wiring

func c05R1Wiring(c *Ctx) {
	const R = "C05.R1.verify-reader-wiring"
	c.Expect(R, 4)
	fn := c.P.Fn("content", "NewVerifyReader")
	if fn == nil || len(fn.Blocks) == 0 || len(fn.Params) != 2 {
		c.LostAnchor(R, c05NewVR)
		return
	}
	tn := FnName(fn)
	rdParam, descParam := fn.Params[0], fn.Params[1]
	// the value field `field` of struct a holds at instruction `at`: the store into it that reaches `at`
	// (literal form, or new(T) filled field by field, possibly on different branches); ambiguous -> nil, true
	fieldStoreAt := func(a ssa.Value, field string, at ssa.Instruction) (val ssa.Value, ambiguous bool) {
		n := 0
		for _, r := range *a.Referrers() {
			fa, ok := r.(*ssa.FieldAddr)
			if !ok || c05FieldNameOf(fa.X.Type(), fa.Field) != field {
				continue
			}
			for _, r2 := range *fa.Referrers() {
				if s, ok := r2.(*ssa.Store); ok && s.Addr == ssa.Value(fa) {
					if at != nil && !(s.Block() == at.Block() && instrIndex(s) < instrIndex(at)) && !reach(s.Block(), instrIndex(s)+1, at, nil) {
						continue
					}
					val = s.Val
					n++
				}
			}
		}
		if n > 1 {
			return nil, true
		}
		return val, false
	}
	var curRet ssa.Instruction
	fieldStore := func(a ssa.Value, field string) ssa.Value {
		v, amb := fieldStoreAt(a, field, curRet)
		if amb {
			return nil
		}
		return v
	}
	// a load of a field of the struct under construction denotes what was stored there
	var built ssa.Value
	fieldLoad := func(v ssa.Value) ssa.Value {
		if ld, ok := strip(v).(*ssa.UnOp); ok && ld.Op == token.MUL {
			if fa, ok := ld.X.(*ssa.FieldAddr); ok && built != nil && fa.X == built {
				if sv, amb := fieldStoreAt(built, c05FieldNameOf(fa.X.Type(), fa.Field), ld); !amb && sv != nil {
					return strip(sv)
				}
			}
		}
		return strip(v)
	}
	wired, poisoned := 0, 0
	for _, a := range RetAtoms(fn, 0) {
		al, ok := a.Val.(*ssa.Alloc)
		if !ok {
			c.Undecided(R, tn+"|returned-value", a.Ret.Pos(), "NewVerifyReader returns "+describe(a.Val)+": not a fresh VerifyReader literal")
			continue
		}
		curRet, built = a.Ret, al
		base := fieldStore(al, c05Cur.F("vr.base"))
		if base == nil {
			e := fieldStore(al, c05Cur.F("vr.err"))
			ok := e != nil && ErrNilStatus(e, 0) == NonNil
			poisoned++
			c.Check(R, tn+"|reader-without-verifier-is-poisoned", a.Ret.Pos(), ok,
				ifelse(ok, "a VerifyReader without base/verifier carries a non-nil sticky error (Read and Verify fail)", "a VerifyReader is returned with neither a verifier nor an error"))
			continue
		}
		wired++
		lr, _ := strip(base).(*ssa.Alloc)
		verifier := fieldStore(al, c05Cur.F("vr.verifier"))
		var n, r ssa.Value
		if lr != nil {
			n, r = fieldStore(lr, "N"), fieldStore(lr, "R")
		} else if bfa, isFA := strip(base).(*ssa.FieldAddr); isFA && bfa.X == ssa.Value(al) {
			// the limited reader is embedded by value in the struct under construction (base = &vr.limited): its fields
			// are assigned through &vr.limited.F, or by a whole-struct store of a literal (vr.limited = io.LimitedReader{...})
			embedded := func(field string) ssa.Value {
				var val ssa.Value
				cnt := 0
				reaches := func(st *ssa.Store) bool {
					return (st.Block() == a.Ret.Block() && instrIndex(st) < instrIndex(a.Ret)) || reach(st.Block(), instrIndex(st)+1, a.Ret, nil)
				}
				for _, ref := range *al.Referrers() {
					fa2, ok := ref.(*ssa.FieldAddr)
					if !ok || fa2.Field != bfa.Field {
						continue
					}
					for _, r2 := range *fa2.Referrers() {
						switch u := r2.(type) {
						case *ssa.FieldAddr:
							if c05FieldNameOf(u.X.Type(), u.Field) != field {
								continue
							}
							for _, r3 := range *u.Referrers() {
								if st, isSt := r3.(*ssa.Store); isSt && st.Addr == ssa.Value(u) && reaches(st) {
									val = st.Val
									cnt++
								}
							}
						case *ssa.Store:
							if u.Addr != ssa.Value(fa2) || !reaches(u) {
								continue
							}
							cnt++
							val = nil
							if ld, isLd := u.Val.(*ssa.UnOp); isLd && ld.Op == token.MUL {
								if tmp, isTmp := ld.X.(*ssa.Alloc); isTmp {
									if v, amb := fieldStoreAt(tmp, field, ld); !amb {
										val = v
									}
								}
							}
						}
					}
				}
				if cnt != 1 {
					return nil
				}
				return val
			}
			n, r = embedded("N"), embedded("R")
		}
		okN := n != nil && c05FieldOfParam(n, "Size") == descParam
		c.Check(R, tn+"|limit-is-descriptor-size", a.Ret.Pos(), okN,
			ifelse(okN, "LimitedReader.N is desc.Size", "the read limit is not the descriptor's Size"))
		okV := false
		if vc, ok := fieldLoad(verifier).(*ssa.Call); verifier != nil && ok && CalleeName(vc) == "(digest.Digest).Verifier" && len(vc.Call.Args) == 1 {
			okV = c05FieldOfParam(vc.Call.Args[0], "Digest") == descParam
		}
		c.Check(R, tn+"|verifier-from-descriptor-digest", a.Ret.Pos(), okV,
			ifelse(okV, "vr.verifier is desc.Digest.Verifier()", "the stored verifier is not derived from the descriptor's Digest"))
		okT := false
		if tc, ok := fieldLoad(r).(*ssa.Call); r != nil && ok && CalleeName(tc) == "io.TeeReader" && len(tc.Call.Args) == 2 {
			okT = strip(tc.Call.Args[0]) == ssa.Value(rdParam) && verifier != nil && fieldLoad(tc.Call.Args[1]) == strip(verifier)
		} else if r != nil {
			c.Undecided(R, tn+"|hash-sees-every-byte-read", a.Ret.Pos(), "LimitedReader.R is "+describe(r)+": not io.TeeReader(r, verifier)")
			continue
		}
		c.Check(R, tn+"|hash-sees-every-byte-read", a.Ret.Pos(), okT,
			ifelse(okT, "LimitedReader.R is io.TeeReader(r, the stored verifier)", "the bytes read are not teed into the verifier that Verify consults"))
	}
	if wired == 0 {
		c.LostAnchor(R, tn+": no returned VerifyReader with a base reader")
	}
	// a malformed / unsupported digest must yield an error, not a panic: Digest.Verifier() panics for an unavailable
	// algorithm, so it may only be reached behind a successful validation of the same digest
	for _, vc := range CallsTo(fn, "(digest.Digest).Verifier") {
		if len(vc.Common().Args) != 1 || c05FieldOfParam(vc.Common().Args[0], "Digest") != descParam {
			continue
		}
		okV := MustPass(vc.(ssa.Instruction), newCut().Edges(c05ValidEdges(fn, func(v ssa.Value) bool { return c05FieldOfParam(v, "Digest") == descParam }, 0)...))
		c.Check(R, tn+"|digest-validated-before-verifier", vc.Pos(), okV,
			ifelse(okV, "desc.Digest.Verifier() is reached only behind a successful validation of desc.Digest", "desc.Digest.Verifier() can be reached with an unvalidated digest: an unsupported algorithm panics instead of failing the read"))
	}
	_ = poisoned
}

// ---------------------------------------------------------------- R1: consumers

func c05R1Consumers(c *Ctx) {
	const R = "C05.R1.verify-consumers"
	c.Expect(R, 10)
	found := 0
	for _, f := range c05ModuleFuncs(c.P) {
		for _, nv := range CallsTo(f, c05NewVR) {
			found++
			fname := FnName(f)
			vr := nv.Value()
			if vr == nil || len(nv.Common().Args) != 2 {
				c.Undecided(R, fname+"|shape", nv.Pos(), "NewVerifyReader used in an unexpected form")
				continue
			}
			vrAl := Aliases(vr)
			var verifies []ssa.CallInstruction
			verAl := map[ssa.Value]bool{}
			for _, vc := range CallsTo(f, c05Verify) {
				if _, isDefer := vc.(*ssa.Defer); isDefer {
					continue
				}
				if len(vc.Common().Args) == 1 && vrAl[vc.Common().Args[0]] {
					verifies = append(verifies, vc)
					if v := vc.Value(); v != nil {
						for a := range Aliases(v) {
							verAl[a] = true
						}
					}
				}
			}
			var nilE []Edge
			for _, vc := range verifies {
				nilE = append(nilE, c05NilEdgesOf(vc)...)
			}
			ok := len(verifies) > 0
			detail := ""
			for _, a := range c05MaybeNilAtoms(f) {
				if verAl[a.Val] || verAl[strip(a.Val)] {
					continue // returns vr.Verify() itself
				}
				if !c05AtomMustPass(a, newCut().Edges(nilE...)) {
					ok = false
					detail = "return at " + c.P.Pos(a.Ret.Pos()) + " yields " + describe(a.Val)
				}
			}
			if why := c05DeferKeepsError(f); why != "" {
				ok = false
				detail = why
			}
			c.Check(R, fname+"|verify-on-every-success", nv.Pos(), ok,
				ifelse(ok, "every return with a possibly-nil error is the result of vr.Verify() or lies behind its nil edge", "a VerifyReader is created but a path returns success without a successful Verify(): "+detail))
			// the raw source must not be touched by anyone else
			others := c05OtherConsumers(strip(nv.Common().Args[0]), nv.(ssa.Instruction))
			c.Check(R, fname+"|source-only-through-verifier", nv.Pos(), others == 0,
				ifelse(others == 0, "the source reader is used only to build the VerifyReader", "the source reader is also used directly: bytes can bypass the size limit and the digest"))
			// verify against the caller's descriptor
			dp := c05ParamOf(nv.Common().Args[1])
			c.Check(R, fname+"|descriptor-is-callers", nv.Pos(), dp != nil,
				ifelse(dp != nil, "verifies against the descriptor parameter "+paramName(dp), "the descriptor handed to NewVerifyReader is not the function's own descriptor parameter"))
			// the data transfer reads through the verifier
			through := 0
			for a := range vrAl {
				if refs := a.Referrers(); refs != nil {
					for _, r := range *refs {
						if call, ok := r.(ssa.CallInstruction); ok && CalleeName(call) != c05Verify {
							through++
						}
					}
				}
			}
			c.Check(R, fname+"|data-read-through-verifier", nv.Pos(), through > 0,
				ifelse(through > 0, "the VerifyReader is the reader of the data transfer", "nothing reads through the VerifyReader"))
		}
	}
	if found == 0 {
		c.LostAnchor(R, "callers of "+c05NewVR)
	}
	// ReadAll: negative size rejected before allocation
	if ra := c.P.Fn("content", "ReadAll"); ra != nil && len(ra.Blocks) > 0 && len(ra.Params) == 2 {
		desc := ra.Params[1]
		isSize := func(v ssa.Value) bool { return c05FieldOfParam(v, "Size") == desc }
		var nonNeg []Edge
		for _, i := range Ifs(ra) {
			cond, t, f := ifEdges(i)
			bo, ok := cond.(*ssa.BinOp)
			if !ok {
				continue
			}
			k, isK := constInt(bo.Y)
			if !isK || !isSize(bo.X) {
				continue
			}
			switch {
			case bo.Op == token.LSS && k == 0, bo.Op == token.LEQ && k == -1:
				nonNeg = append(nonNeg, f)
			case bo.Op == token.GEQ && k == 0, bo.Op == token.GTR && k == -1:
				nonNeg = append(nonNeg, t)
			}
		}
		n := 0
		AllInstrs(ra, func(in ssa.Instruction) {
			ms, ok := in.(*ssa.MakeSlice)
			if !ok || !isSize(ms.Len) {
				return
			}
			n++
			ok2 := MustPass(ms, newCut().Edges(nonNeg...))
			c.Check(R, FnName(ra)+"|negative-size-rejected-before-alloc", ms.Pos(), ok2,
				ifelse(ok2, "make([]byte, desc.Size) lies behind the Size>=0 edge", "a negative Size reaches make([]byte, Size): a crafted descriptor crashes Push/FetchAll instead of being refused"))
		})
		if n == 0 {
			c.OK(R, FnName(ra)+"|negative-size-rejected-before-alloc", ra.Pos(), "ReadAll does not allocate from desc.Size")
		}
	} else {
		c.LostAnchor(R, c05ReadAll)
	}
	// FetchAll: returns ReadAll of the stream fetched for the same descriptor
	if fa := c.P.Fn("content", "FetchAll"); fa != nil && len(fa.Blocks) > 0 && len(fa.Params) == 3 {
		desc := fa.Params[2]
		ok := true
		detail := "every non-nil result is ReadAll(rc, desc) with rc = fetcher.Fetch(ctx, desc)"
		root := c05Root(fa)
		nRA := 0
		isDesc := func(v ssa.Value, e *c05Env) bool { return e.upParam(v) == desc }
		// the bytes returned: ReadAll's result, in FetchAll itself or in a helper it returns the result of
		var res func(v ssa.Value, e *c05Env, d int)
		res = func(v ssa.Value, e *c05Env, d int) {
			v, e = e.up(v)
			for _, r := range Roots(v) {
				r = strip(r)
				if k, isK := r.(*ssa.Const); isK && k.Value == nil {
					continue
				}
				if ex, isE := r.(*ssa.Extract); isE && ex.Index == 0 {
					r = ex.Tuple
				}
				call, isCall := r.(*ssa.Call)
				if !isCall {
					ok, detail = false, "FetchAll returns bytes that did not come out of ReadAll: "+describe(r)
					continue
				}
				if CalleeName(call) == c05ReadAll {
					nRA++
					if !isDesc(call.Call.Args[1], e) {
						ok, detail = false, "ReadAll verifies against a descriptor other than FetchAll's parameter"
					}
					src := false
					rd, rat := e.up(call.Call.Args[0])
					for _, r2 := range Roots(rd) {
						if e2, isE := strip(r2).(*ssa.Extract); isE && e2.Index == 0 {
							if fc, isC := e2.Tuple.(*ssa.Call); isC && CalleeName(fc) == "(~/content.Fetcher).Fetch" && isDesc(fc.Call.Args[len(fc.Call.Args)-1], rat) {
								src = true
							}
						}
					}
					if !src {
						ok, detail = false, "the stream handed to ReadAll is not fetcher.Fetch(ctx, desc) of the same descriptor"
					}
					continue
				}
				h := c05Helper(call, e.Fn)
				if h == nil || d >= 2 {
					ok, detail = false, "FetchAll returns bytes that did not come out of ReadAll: "+describe(r)
					continue
				}
				ch := &c05Env{Fn: h, Call: call, Parent: e}
				for _, a := range RetAtoms(h, 0) {
					res(a.Val, ch, d+1)
				}
			}
		}
		for _, a := range RetAtoms(fa, 0) {
			res(a.Val, root, 0)
		}
		if nRA == 0 {
			ok, detail = false, "FetchAll no longer goes through ReadAll"
		}
		c.Check(R, FnName(fa)+"|returns-readall-of-fetched-stream", fa.Pos(), ok, detail)
	} else {
		c.LostAnchor(R, "~/content.FetchAll")
	}
}

// c05OtherConsumers counts the uses of reader value src (and of its interface
// conversions / type assertions) that can consume or leak it, other than `except`.
func c05OtherConsumers(src ssa.Value, except ssa.Instruction) int {
	n := 0
	seen := map[ssa.Value]bool{}
	var rec func(v ssa.Value)
	rec = func(v ssa.Value) {
		if seen[v] || v.Referrers() == nil {
			return
		}
		seen[v] = true
		for _, r := range *v.Referrers() {
			if r == except {
				continue
			}
			switch u := r.(type) {
			case *ssa.DebugRef:
			case *ssa.ChangeInterface, *ssa.MakeInterface, *ssa.TypeAssert, *ssa.Phi, *ssa.Extract, *ssa.ChangeType:
				rec(u.(ssa.Value))
			case *ssa.BinOp: // comparison with nil
			default:
				n++
			}
		}
	}
	rec(src)
	return n
}

func paramName(p *ssa.Parameter) string {
	if p == nil {
		return "<none>"
	}
	return p.Name()
}

// ---------------------------------------------------------------- R2: cas.Memory

var c05SyncMapWriters = map[string]bool{
	"(*sync.Map).Store": true, "(*sync.Map).LoadOrStore": true, "(*sync.Map).Swap": true, "(*sync.Map).CompareAndSwap": true,
}
var c05SyncMapRemovers = map[string]bool{
	"(*sync.Map).Delete": true, "(*sync.Map).LoadAndDelete": true, "(*sync.Map).CompareAndDelete": true, "(*sync.Map).Clear": true,
}
var c05SyncMapReaders = map[string]bool{"(*sync.Map).Load": true, "(*sync.Map).Range": true}

func c05R2Memory(c *Ctx) {
	const R = "C05.R2.publish-after-verify"
	fn := c.P.Fn("internal/cas", "Memory.Push")
	if fn == nil || len(fn.Blocks) == 0 {
		c.LostAnchor(R, "(*~/internal/cas.Memory).Push")
		return
	}
	tn := FnName(fn)
	root := c05Root(fn)
	n := 0
	for _, e := range c05TreeEnvs(root, 3) {
		for _, u := range c05FieldUses([]*ssa.Function{e.Fn}, "~/internal/cas.Memory", c05Cur.F("cas.content")) {
			call, ok := u.Use.(ssa.CallInstruction)
			if !ok {
				continue
			}
			mv := c05MapOp(call)
			if mv == nil || mv.Recv != ssa.Value(u.Addr) || !c05SyncMapWriters[mv.Name] || mv.Key == nil || mv.Val == nil {
				continue
			}
			n++
			key, kat := e.up(mv.Key)
			val, vat := e.up(mv.Val)
			// value = result 0 of ReadAll
			var ra *ssa.Call
			if ex, ok := strip(val).(*ssa.Extract); ok && ex.Index == 0 {
				if rc, ok := ex.Tuple.(*ssa.Call); ok && CalleeName(rc) == c05ReadAll {
					ra = rc
				}
			}
			c.Check(R, tn+"|stored-value-is-verified-bytes", call.Pos(), ra != nil,
				ifelse(ra != nil, "the stored value is the buffer returned by content.ReadAll", "the value put into the content map is not the result of content.ReadAll (unverified bytes become fetchable)"))
			if ra == nil {
				continue
			}
			// dominance: at the level where ReadAll lives, every path to the store (or to the call leading to it) takes its err==nil edge
			ok2 := false
			var tgt ssa.Instruction = call.(ssa.Instruction)
			for lv := e; lv != nil; lv = lv.Parent {
				if lv == vat {
					ok2 = MustPass(tgt, newCut().Edges(c05NilEdgesOf(ra)...))
					break
				}
				if lv.Call == nil {
					break
				}
				tgt = lv.Call.(ssa.Instruction)
			}
			c.Check(R, tn+"|store-dominated-by-verified-read", call.Pos(), ok2,
				ifelse(ok2, "every path to "+mv.Name+" takes the err==nil edge of ReadAll", "the content map is written on a path where ReadAll did not succeed"))
			dv, dat := vat.up(ra.Call.Args[1])
			okKey := false
			for _, r := range Roots(c05Unspill(key)) {
				okKey = false
				if kc, ok := strip(r).(*ssa.Call); ok && CalleeName(kc) == "~/internal/descriptor.FromOCI" {
					if kv, kvat := kat.up(kc.Call.Args[0]); kvat == dat && kv == dv {
						if _, isP := kv.(*ssa.Parameter); isP {
							okKey = true
						}
					}
				}
				if !okKey {
					break
				}
			}
			c.Check(R, tn+"|key-is-same-descriptor", call.Pos(), okKey,
				ifelse(okKey, "the key is descriptor.FromOCI of the descriptor ReadAll verified against", "the map key is not derived from the descriptor the bytes were verified against"))
			isParam := false
			for _, src := range c05ReaderSources(ra.Call.Args[0], 0) {
				if w, at := vat.up(src); at.isRoot() {
					for _, p := range fn.Params[1:] {
						if w == ssa.Value(p) && !c05IsOCIDescriptor(p.Type()) {
							isParam = true
						}
					}
				}
			}
			c.Check(R, tn+"|reads-callers-stream", call.Pos(), isParam, "ReadAll consumes the reader parameter of Push")
		}
	}
	if n == 0 {
		c.LostAnchor(R, tn+": write to Memory.content (in Push or a helper it calls)")
	}
}

// c05Unspill looks through a load of a local struct that holds a single stored value.
// c05PooledBuffers: a buffer taken from a sync.Pool and handed to a copy is given back only after its last use.  Put
// before the copy (an un-deferred `bufPool.Put(buf)`) lets a concurrent push Get the same buffer: the bytes written to
// the file are then not the bytes that were hashed — content that does not match its descriptor becomes visible although
// verification passed (a schedule-dependent C05 / C12 break no test exercises).
func c05PooledBuffers(c *Ctx) {
	const R = "C05.R2.publish-after-verify"
	n := 0
	for _, pkg := range []string{"content/oci", "content/file", "internal/cas", "content"} {
		for _, f := range c05FuncsOfPkg(c.P, pkg) {
			for _, get := range CallsTo(f, "(*sync.Pool).Get") {
				gv := get.Value()
				if gv == nil {
					continue
				}
				al := Aliases(gv)
				// values derived from the buffer: type assertions, loads through the pointer, slices of it
				der := map[ssa.Value]bool{}
				var grow func(v ssa.Value, d int)
				grow = func(v ssa.Value, d int) {
					if der[v] || d > 5 || v.Referrers() == nil {
						return
					}
					der[v] = true
					for _, r := range *v.Referrers() {
						switch u := r.(type) {
						case *ssa.TypeAssert, *ssa.UnOp, *ssa.Slice, *ssa.ChangeType, *ssa.MakeInterface, *ssa.Extract, *ssa.Phi:
							grow(u.(ssa.Value), d+1)
						case *ssa.Store:
							if a, isA := u.Addr.(*ssa.Alloc); isA && u.Val == v {
								grow(a, d+1)
							}
						}
					}
				}
				for a := range al {
					grow(a, 0)
				}
				var puts []ssa.Instruction
				var uses []ssa.Instruction
				for _, call := range Calls(f, func(string) bool { return true }) {
					isPut := CalleeName(call) == "(*sync.Pool).Put"
					touches := false
					for _, a := range call.Common().Args {
						if der[a] || der[strip(a)] {
							touches = true
						}
					}
					if !touches || call == ssa.CallInstruction(get) {
						continue
					}
					if isPut {
						if _, isDefer := call.(*ssa.Defer); !isDefer {
							puts = append(puts, call.(ssa.Instruction))
						}
						continue
					}
					if _, isDefer := call.(*ssa.Defer); !isDefer {
						uses = append(uses, call.(ssa.Instruction))
					}
				}
				if len(uses) == 0 {
					continue
				}
				n++
				bad := ""
				for _, p := range puts {
					for _, u := range uses {
						if reach(p.Block(), instrIndex(p)+1, u, nil) {
							bad = c.P.Pos(u.Pos())
						}
					}
				}
				c.Check(R, FnName(f)+"|pooled-buffer-released-after-last-use", get.Pos(), bad == "",
					ifelse(bad == "", "the pooled buffer is given back (deferred or last) after every use", "the pooled buffer is put back before it is used at "+bad+": a concurrent operation can take and overwrite it while the copy is still writing from it"))
			}
		}
	}
	if n == 0 {
		c.OK(R, "pooled-buffers|none", token.NoPos, "no pooled copy buffers are used")
	}
}

func c05Unspill(v ssa.Value) ssa.Value {
	v = strip(v)
	if u, ok := v.(*ssa.UnOp); ok && u.Op == token.MUL {
		if a, ok := u.X.(*ssa.Alloc); ok {
			if sv := c05SingleStoredValue(a); sv != nil {
				return sv
			}
		}
	}
	return v
}

// ---------------------------------------------------------------- R2: oci.Storage

// c05BlobPathFns: in-module functions of content/oci that build a path from
// ocispec.ImageBlobsDir and a digest (role anchor for the unexported blobPath).
func c05BlobPathFns(p *Prog) map[*ssa.Function]bool {
	out := map[*ssa.Function]bool{}
	for _, f := range c05FuncsOfPkg(p, "content/oci") {
		if f.Parent() != nil || f.Signature.Params().Len() != 1 {
			continue
		}
		if n, ok := f.Signature.Params().At(0).Type().(*types.Named); !ok || n.Obj().Name() != "Digest" {
			continue
		}
		for _, call := range CallsTo(f, "path.Join", "path/filepath.Join") {
			for _, e := range c05VariadicElems(variadicArg(call)) {
				if s, ok := constString(e); ok && s == "blobs" {
					out[f] = true
				}
			}
		}
	}
	// wrappers: a function whose every non-empty path result is built from the blob path of one of its
	// parameters (a digest) or of that parameter's Digest (a descriptor): descriptorBlobPath(desc),
	// (s *Storage).blobTarget(desc) = Join(s.root, blobPath(desc.Digest))
	for round := 0; round < 2; round++ {
		for _, f := range c05FuncsOfPkg(p, "content/oci") {
			if out[f] || f.Parent() != nil || len(f.Params) == 0 || len(f.Params) > 2 || len(f.Blocks) == 0 || f.Signature.Results().Len() == 0 {
				continue
			}
			if b, ok := f.Signature.Results().At(0).Type().Underlying().(*types.Basic); !ok || b.Kind() != types.String {
				continue
			}
			// the blob-path calls of f and their subjects
			paths := map[ssa.Value]bool{}
			var subj *ssa.Parameter
			good := true
			for _, call := range Calls(f, func(string) bool { return true }) {
				if g := StaticCallee(call); g != nil && out[g] {
					sp := c05BlobPathSubject(call)
					if sp == nil || sp.Parent() != f || (subj != nil && subj != sp) {
						good = false
					}
					subj = sp
					if r0 := ResultOf(call, 0); r0 != nil {
						paths[r0] = true
					}
				}
			}
			if !good || subj == nil || len(paths) == 0 {
				continue
			}
			n := 0
			for _, a := range RetAtoms(f, 0) {
				if s, isS := constString(a.Val); isS && s == "" {
					continue
				}
				if !derivesFromAny(a.Val, paths, 0) {
					good = false
					break
				}
				n++
			}
			if good && n > 0 {
				out[f] = true
				for i, q := range f.Params {
					if q == subj {
						c05BlobPathSubjIdx[f] = i
					}
				}
			}
		}
	}
	return out
}

// c05BlobPathSubjIdx: which argument of a blob-path function is the digest / descriptor (default 0).
var c05BlobPathSubjIdx = map[*ssa.Function]int{}

// c05BlobPathSubject: the parameter (a descriptor, or a digest) of the calling
// function whose digest the blob-path call is made for.
func c05BlobPathSubject(call ssa.CallInstruction) *ssa.Parameter {
	a := c05BlobPathArg(call)
	if a == nil {
		return nil
	}
	if c05IsOCIDescriptor(a.Type()) {
		return c05DescSource(a)
	}
	if p := c05FieldOfParam(a, "Digest"); p != nil {
		return p
	}
	return c05ParamOf(a)
}

// c05BlobPathArg: the digest / descriptor argument of a blob-path call.
func c05BlobPathArg(call ssa.CallInstruction) ssa.Value {
	args := call.Common().Args
	i := 0
	if g := StaticCallee(call); g != nil {
		i = c05BlobPathSubjIdx[g]
	}
	if i >= len(args) {
		return nil
	}
	return args[i]
}

func c05R2OCI(c *Ctx) {
	const R = "C05.R2.publish-after-verify"
	c.Expect(R, 16) // 17 on the pinned tree; 16 when the ingest helper is inlined
	fn := c.P.Fn("content/oci", "Storage.Push")
	if fn == nil || len(fn.Blocks) == 0 || len(fn.Params) != 4 {
		c.LostAnchor(R, "(*~/content/oci.Storage).Push")
		return
	}
	tn := FnName(fn)
	expected, reader := fn.Params[2], fn.Params[3]
	bp := c05BlobPathFns(c.P)
	if len(bp) == 0 {
		c.LostAnchor(R, "blob-path constructor (joins \"blobs\" with a digest) in ~/content/oci")
		return
	}
	root := c05Root(fn)
	type site struct {
		call ssa.CallInstruction
		env  *c05Env
	}
	var renames []site
	for _, e := range c05TreeEnvs(root, 3) {
		for _, rn := range CallsTo(e.Fn, "os.Rename", "os.Link", "os.Symlink") {
			renames = append(renames, site{rn, e})
		}
	}
	if len(renames) == 0 {
		c.LostAnchor(R, tn+": publication effect (os.Rename into blobs/, in Push or a helper it calls)")
		return
	}
	// dominated: on every path from Push's entry to the target (which lives in
	// node e), level `at` passes the cut before entering the next level.
	dominated := func(e *c05Env, target ssa.Instruction, at *c05Env, ct *cut) bool {
		tgt := target
		for lv := e; lv != nil; lv = lv.Parent {
			if lv == at {
				return MustPass(tgt, ct)
			}
			if lv.Call == nil {
				return false
			}
			tgt = lv.Call.(ssa.Instruction)
		}
		return false
	}
	for _, rs := range renames {
		rn, e := rs.call, rs.env
		src, dst := rn.Common().Args[0], rn.Common().Args[1]
		// destination: blob path of the same descriptor
		okDst := false
		dv, dat := e.up(dst)
		for _, call := range Calls(dat.Fn, func(string) bool { return true }) {
			g := StaticCallee(call)
			if g == nil || !bp[g] {
				continue
			}
			r0 := ResultOf(call, 0)
			if r0 == nil || !derivesFromAny(dv, map[ssa.Value]bool{r0: true}, 0) {
				continue
			}
			if p := c05BlobPathSubject(call); p != nil && (c05IsOCIDescriptor(p.Type()) || c05FieldOfParam(c05BlobPathArg(call), "Digest") == p) {
				if w, at := dat.up(p); at.isRoot() && w == ssa.Value(expected) {
					okDst = true
				}
			}
		}
		c.Check(R, tn+"|target-is-blob-path-of-same-descriptor", rn.Pos(), okDst,
			ifelse(okDst, "the rename target is built from blobPath(expected.Digest)", "the rename target is not the blob path of the descriptor being pushed"))
		// source: result of the ingest helper, on its success edge
		sv, sat := e.up(src)
		var ig *ssa.Call
		if ex, ok := strip(sv).(*ssa.Extract); ok && ex.Index == 0 {
			if call, ok := ex.Tuple.(*ssa.Call); ok && StaticCallee(call) != nil && inModule(StaticCallee(call)) {
				ig = call
			}
		}
		// the path is carried from the step that ingests to the step that publishes in a variable of the function that
		// owns the first-error step table: the value assigned by the earlier step; the rename then lies behind the
		// success of the ingest call when that step returns nil only behind it
		stepIngest := false
		if ig == nil {
			if ex, ok := strip(c09StepCellValue(sv)).(*ssa.Extract); ok && ex.Index == 0 {
				if call, ok := ex.Tuple.(*ssa.Call); ok && StaticCallee(call) != nil && inModule(StaticCallee(call)) {
					for _, te := range c05TreeEnvs(root, 3) {
						if te.Fn == call.Parent() && te.Parent == sat.Parent {
							ig, sat, stepIngest = call, te, true
						}
					}
				}
			}
		}
		if ig == nil {
			// inlined shape: the renamed path is fp.Name() of a file written and verified at that level
			copies := c05CopyCalls(sat.Fn)
			if nc, isCall := strip(sv).(*ssa.Call); isCall && CalleeName(nc) == "(*os.File).Name" && len(copies) > 0 {
				c.OK(R, tn+"|rename-source-is-ingest-result", rn.Pos(), "the renamed file is written and verified in "+FnName(sat.Fn)+" itself (ingest inlined)")
				ct := newCut()
				for _, cp := range copies {
					ct.Edges(c05NilEdgesOf(cp.Call)...)
				}
				ok := dominated(e, rn.(ssa.Instruction), sat, ct)
				c.Check(R, tn+"|rename-dominated-by-successful-ingest", rn.Pos(), ok,
					ifelse(ok, "every path to the rename takes the err==nil edge of the verified copy", "the rename into blobs/ is reachable although the verified copy failed"))
				if sat.isRoot() {
					c05IngestRole(c, R, fn, expected, reader, []ssa.Value{nc})
				} else {
					c.Undecided(R, tn+"|rename-source-is-ingest-result", rn.Pos(), "the verified write is inlined into the helper "+FnName(sat.Fn)+" rather than Push or an ingest helper")
				}
			} else {
				c.Undecided(R, tn+"|rename-source-is-ingest-result", rn.Pos(), "the file renamed into blobs/ is "+describe(sv)+": neither the result of an in-module ingest helper nor Name() of a file verified in Push")
			}
			continue
		}
		c.OK(R, tn+"|rename-source-is-ingest-result", rn.Pos(), "the renamed file is the path returned by the ingest helper "+FnName(StaticCallee(ig)))
		ok := dominated(e, rn.(ssa.Instruction), sat, newCut().Edges(c05NilEdgesOf(ig)...))
		if stepIngest {
			ok = c09BehindStepSuccess(c.P, rn.(ssa.Instruction), func(call ssa.CallInstruction) bool { return call == ssa.CallInstruction(ig) }, 2)
		}
		c.Check(R, tn+"|rename-dominated-by-successful-ingest", rn.Pos(), ok,
			ifelse(ok, "every path to the rename takes the err==nil edge of the ingest helper", "the rename into blobs/ is reachable although ingest failed (unverified or partial content becomes visible)"))
		// arguments of ingest are Push's own descriptor and reader
		g := StaticCallee(ig)
		var gDesc, gRd *ssa.Parameter
		for i, a := range ig.Call.Args {
			if i >= len(g.Params) {
				break
			}
			if w, at := sat.up(a); at.isRoot() {
				if w == ssa.Value(expected) {
					gDesc = g.Params[i]
				}
				if strip(w) == ssa.Value(reader) {
					gRd = g.Params[i]
				}
			}
		}
		okArgs := gDesc != nil && gRd != nil
		c.Check(R, tn+"|ingest-gets-callers-descriptor-and-stream", ig.Pos(), okArgs, "ingest(expected, content) receives Push's own descriptor and reader")
		if okArgs {
			var pathVals []ssa.Value
			for _, a := range RetAtoms(g, 0) {
				pathVals = append(pathVals, a.Val)
			}
			c05IngestRole(c, R, g, gDesc, gRd, pathVals)
		}
	}
}

// c05IngestRole checks the helper that writes the stream to a temp file.
func c05IngestRole(c *Ctx, R string, g *ssa.Function, desc, rd *ssa.Parameter, pathVals []ssa.Value) {
	gn := FnName(g)
	cbs := c05CopyCalls(g)
	if len(cbs) == 0 {
		c.Violation(R, gn+"|nil-error-implies-verified-copy", g.Pos(), "the ingest helper does not copy through ioutil.CopyBuffer (no verification while writing)")
		return
	}
	var nilE []Edge
	okDesc := true
	var dsts []ssa.Value
	cbRes := map[ssa.Value]bool{}
	for _, cb := range cbs {
		nilE = append(nilE, c05NilEdgesOf(cb.Call)...)
		if c05ParamOf(cb.Desc) != desc || strip(cb.Src) != ssa.Value(rd) {
			okDesc = false
		}
		dsts = append(dsts, strip(cb.Dst))
		if v := cb.Call.Value(); v != nil {
			for a := range Aliases(v) {
				cbRes[a] = true
			}
		}
	}
	ok := true
	detail := ""
	for _, a := range c05MaybeNilAtoms(g) {
		if cbRes[a.Val] || cbRes[strip(a.Val)] {
			continue
		}
		if !c05AtomMustPass(a, newCut().Edges(nilE...)) {
			ok = false
			detail = "return at " + c.P.Pos(a.Ret.Pos())
		}
	}
	if why := c05DeferKeepsError(g); why != "" {
		ok, detail = false, why
	}
	c.Check(R, gn+"|nil-error-implies-verified-copy", cbs[0].Call.Pos(), ok,
		ifelse(ok, "every return with a possibly-nil error lies behind the verified copy's err==nil edge; deferred code cannot clear the error", "ingest can report success without a successful verified copy: "+detail))
	c.Check(R, gn+"|copy-verifies-callers-descriptor", cbs[0].Call.Pos(), okDesc,
		ifelse(okDesc, "the copy verifies the parameter stream against the parameter descriptor", "the copy does not verify the caller's stream against the caller's descriptor"))
	// returned path = name of the file written
	okPath := true
	var files []ssa.Value
	for _, d := range dsts {
		files = append(files, Roots(d)...)
	}
	for _, pv := range pathVals {
		if _, isConst := pv.(*ssa.Const); isConst {
			continue
		}
		if _, isZero := pv.(zeroMarker); isZero {
			continue
		}
		nc, isCall := pv.(*ssa.Call)
		if !isCall || CalleeName(nc) != "(*os.File).Name" {
			okPath = false
			continue
		}
		same := false
		for _, r := range Roots(nc.Call.Args[0]) {
			for _, f := range files {
				if r == f {
					same = true
				}
			}
		}
		if !same {
			okPath = false
		}
	}
	c.Check(R, gn+"|returned-path-is-the-verified-file", g.Pos(), okPath,
		ifelse(okPath, "the returned path is Name() of the file the verified copy wrote", "ingest returns a path other than the file whose content was verified"))
	// temp file lives in ingestRoot, which is not under blobs/
	okTmp, why := false, "the verified file does not come from os.CreateTemp(<Storage field>, …)"
	for _, f := range files {
		e, isE := f.(*ssa.Extract)
		if !isE {
			continue
		}
		ct, isC := e.Tuple.(*ssa.Call)
		if !isC || CalleeName(ct) != "os.CreateTemp" {
			continue
		}
		why = ""
		for _, src := range c05ArgSources(c05FuncsOfPkg(c.P, "content/oci"), g, ct.Call.Args[0], 0) {
			if w := c05IngestDirOK(c05ModuleFuncs(c.P), src.V); w != "" {
				why = w
			}
		}
		okTmp = why == ""
	}
	c.Check(R, gn+"|temp-file-outside-blobs", g.Pos(), okTmp,
		ifelse(okTmp, "the ingest file is created by os.CreateTemp in the storage's ingest directory, a constant sibling of blobs/", why))
}

// ---------------------------------------------------------------- R2: file store

func c05R2File(c *Ctx) {
	const R = "C05.R2.publish-after-verify"
	fns := c05FuncsOfPkg(c.P, "content/file")
	// saveFile-role: writes digestToPath and copies through CopyBuffer
	n := 0
	for _, f := range fns {
		cbs := c05CopyCalls(f)
		if len(cbs) == 0 {
			continue
		}
		for _, u := range c05FieldUses([]*ssa.Function{f}, "~/content/file.Store", c05Cur.F("file.digestToPath")) {
			call, ok := u.Use.(ssa.CallInstruction)
			if !ok || !c05SyncMapWriters[CalleeName(call)] {
				continue
			}
			n++
			fname := FnName(f)
			var nilE []Edge
			for _, cb := range cbs {
				nilE = append(nilE, c05NilEdgesOf(cb.Call)...)
			}
			ok1 := MustPass(call.(ssa.Instruction), newCut().Edges(nilE...))
			c.Check(R, fname+"|digest-recorded-only-after-verified-copy", call.Pos(), ok1,
				ifelse(ok1, "digestToPath.Store lies behind CopyBuffer()==nil", "the digest is recorded as present on a path where the verified copy did not succeed (Exists/Fetch expose unverified bytes)"))
			args := call.Common().Args
			okKey, okVal := false, false
			for _, cb := range cbs {
				if dp := c05ParamOf(cb.Desc); dp != nil && c05FieldOfParam(args[1], "Digest") == dp {
					okKey = true
				}
				if nc, isCall := strip(args[2]).(*ssa.Call); isCall && CalleeName(nc) == "(*os.File).Name" {
					for _, r1 := range Roots(nc.Call.Args[0]) {
						for _, r2 := range Roots(strip(cb.Dst)) {
							if r1 == r2 {
								okVal = true
							}
						}
					}
				}
			}
			c.Check(R, fname+"|recorded-digest-is-the-verified-one", call.Pos(), okKey,
				ifelse(okKey, "the key is expected.Digest of the descriptor CopyBuffer verified", "the digest recorded is not the Digest of the descriptor the copy was verified against"))
			c.Check(R, fname+"|recorded-path-is-the-written-file", call.Pos(), okVal,
				ifelse(okVal, "the recorded path is Name() of the file CopyBuffer wrote", "the path recorded for the digest is not the file that was written and verified"))
			okFresh, whyFresh := true, "the verified bytes are written into a file that is created empty (os.Create / os.CreateTemp / O_TRUNC without O_APPEND) on every call chain"
			for _, cb := range cbs {
				if ok, why := c05FreshFile(c, strip(cb.Dst), 0); !ok {
					okFresh, whyFresh = false, "the file the verified bytes are copied into may already hold data ("+why+"): the recorded file is then not the bytes the descriptor names"
				}
			}
			c.Check(R, fname+"|written-file-starts-empty", call.Pos(), okFresh, whyFresh)
			if why := c05DeferKeepsError(f); why != "" {
				c.Violation(R, fname+"|deferred-close-keeps-error", f.Pos(), why)
			} else {
				c.OK(R, fname+"|deferred-close-keeps-error", f.Pos(), "deferred closures only set the error when it is nil")
			}
		}
	}
	if n == 0 {
		c.LostAnchor(R, "function of ~/content/file that copies with CopyBuffer and records digestToPath (saveFile role)")
	}
	// push-role: marks the name as existing
	// push-role: the function(s) below Store.Push that mark a name as existing
	c05ExistsAfterSuccess(c, R, c05ExistsWriters(c, true))
}

// c05FreshFile: every value v may denote is a file that was just created
// empty: os.Create, os.CreateTemp, os.OpenFile with O_TRUNC and without
// O_APPEND, an in-module helper returning such a file, or a parameter that
// receives such a file at every static call site.
func c05FreshFile(c *Ctx, v ssa.Value, depth int) (bool, string) {
	if depth > 3 {
		return false, "file origin too deep to follow"
	}
	osConst := func(name string) int64 {
		if k, ok := c.P.Obj("os", name).(*types.Const); ok {
			if n, exact := constantInt64(k); exact {
				return n
			}
		}
		return -1
	}
	rs := Roots(v)
	if len(rs) == 0 {
		return false, "unknown file"
	}
	for _, r := range rs {
		r = strip(r)
		switch u := r.(type) {
		case *ssa.Extract:
			call, ok := u.Tuple.(*ssa.Call)
			if !ok || u.Index != 0 {
				return false, "file of unknown origin"
			}
			switch n := CalleeName(call); {
			case n == "os.Create" || n == "os.CreateTemp":
			case n == "os.OpenFile":
				fl, isK := constInt(call.Call.Args[1])
				tr, ap := osConst("O_TRUNC"), osConst("O_APPEND")
				if !isK || tr < 0 || ap < 0 || fl&tr == 0 || fl&ap != 0 {
					return false, "os.OpenFile without O_TRUNC or with O_APPEND at " + c.P.Pos(call.Pos())
				}
			default:
				g := StaticCallee(call)
				if g == nil || !inModule(g) || len(g.Blocks) == 0 {
					return false, "file obtained from " + n
				}
				for _, a := range RetAtoms(g, 0) {
					if k, isK := a.Val.(*ssa.Const); isK && k.Value == nil {
						continue
					}
					if ok, why := c05FreshFile(c, a.Val, depth+1); !ok {
						return false, why
					}
				}
			}
		case *ssa.Parameter:
			f := u.Parent()
			pi := -1
			for i, p := range f.Params {
				if p == u {
					pi = i
				}
			}
			ncall := 0
			for _, g := range c05FuncsOfPkg(c.P, strings.TrimPrefix(fnPkgPath(f), Mod+"/")) {
				for _, call := range Calls(g, func(string) bool { return true }) {
					if StaticCallee(call) != f || pi < 0 || pi >= len(call.Common().Args) {
						continue
					}
					ncall++
					if ok, why := c05FreshFile(c, call.Common().Args[pi], depth+1); !ok {
						return false, why
					}
				}
			}
			if ncall == 0 {
				return false, "no static caller supplies the file"
			}
		default:
			return false, "file of unknown origin (" + describe(r) + ")"
		}
	}
	return true, ""
}

func constantInt64(k *types.Const) (int64, bool) {
	return constant.Int64Val(constant.ToInt(k.Val()))
}

// c05ExistsAfterSuccess: in function `which` of content/file every store of
// true to nameStatus.exists is preceded by a content-producing call, and
// between any such call and the store the call's error is nil.
// c05ExistsWriters: the functions of content/file that store a non-false value
// into nameStatus.exists.  pushSide selects those in the call tree of
// Store.Push; otherwise all of them (Push side and Add).
func c05ExistsWriters(c *Ctx, pushSide bool) []*ssa.Function {
	inPush := map[*ssa.Function]bool{}
	if p := c.P.Fn("content/file", "Store.Push"); p != nil && len(p.Blocks) > 0 {
		for _, e := range c05TreeEnvs(c05Root(p), 4) {
			inPush[e.Fn] = true
		}
	}
	var out []*ssa.Function
	for _, f := range c05FuncsOfPkg(c.P, "content/file") {
		writes := false
		for _, u := range c05FieldUses([]*ssa.Function{f}, c05Cur.T("file.nameStatus"), c05Cur.F("file.status.exists")) {
			if st, isStore := u.Use.(*ssa.Store); isStore {
				if k, ok := st.Val.(*ssa.Const); !ok || k.Value == nil || k.Value.String() != "false" {
					writes = true
				}
			}
		}
		if writes && (!pushSide || inPush[f]) {
			out = append(out, f)
		}
	}
	return out
}

func c05ExistsAfterSuccess(c *Ctx, R string, fs []*ssa.Function) {
	if len(fs) == 0 {
		c.LostAnchor(R, "function of ~/content/file that marks a name as existing (store to nameStatus.exists)")
		return
	}
	for _, f := range fs {
		c05ExistsAfterSuccess1(c, R, f)
	}
}

func c05ExistsAfterSuccess1(c *Ctx, R string, f *ssa.Function) {
	which := FnName(f)
	writesDigest := func(n string, call ssa.CallInstruction) bool {
		if !c05SyncMapWriters[n] || len(call.Common().Args) == 0 {
			return false
		}
		return c05IsFieldAddrOf(call.Common().Args[0], "~/content/file.Store", c05Cur.F("file.digestToPath"))
	}
	var producers []ssa.CallInstruction
	for _, call := range Calls(f, func(string) bool { return true }) {
		if _, isDefer := call.(*ssa.Defer); isDefer {
			continue
		}
		if g := StaticCallee(call); g != nil && inModule(g) && reachesCall(g, 3, writesDigest) {
			producers = append(producers, call)
		}
	}
	n := 0
	for _, u := range c05FieldUses([]*ssa.Function{f}, c05Cur.T("file.nameStatus"), c05Cur.F("file.status.exists")) {
		st, isStore := u.Use.(*ssa.Store)
		if !isStore {
			continue
		}
		if k, ok := st.Val.(*ssa.Const); ok && k.Value != nil && k.Value.String() == "false" {
			continue
		}
		n++
		ok := len(producers) > 0 && MustPass(st, newCut().Calls(producers))
		detail := "exists=true is preceded by a content-producing call and lies behind the nil edge of each"
		if !ok {
			detail = "the name is marked as existing on a path that wrote no content"
		}
		for _, p := range producers {
			if Reachable(p.(ssa.Instruction), st) && !MustPassBetween(p.(ssa.Instruction), st, newCut().Edges(c05NilEdgesOf(p)...)) {
				ok = false
				detail = "the name is marked as existing although " + CalleeName(p) + " may have failed (Exists/Fetch then expose missing or partial content)"
			}
		}
		c.Check(R, which+"|exists-set-only-after-success", st.Pos(), ok, detail)
	}
	if n == 0 {
		c.LostAnchor(R, which+": store to nameStatus.exists")
	}
}

// ---------------------------------------------------------------- R2: wrappers

// c05IsInnerPush: a call that forwards (descriptor, reader) to a Push.
func c05IsInnerPush(call ssa.CallInstruction) (desc ssa.Value, ok bool) {
	nm := CalleeName(call)
	if !strings.HasSuffix(nm, ".Push") && !strings.HasSuffix(nm, ".push") {
		return nil, false
	}
	hasReader := false
	for _, a := range call.Common().Args {
		if c05IsOCIDescriptor(a.Type()) {
			desc = a
		}
		if n, isN := a.Type().(*types.Named); isN && n.Obj().Pkg() != nil && n.Obj().Pkg().Path() == "io" && n.Obj().Name() == "Reader" {
			hasReader = true
		}
	}
	return desc, desc != nil && hasReader
}

func c05IsOCIDescriptor(t types.Type) bool {
	n, ok := t.(*types.Named)
	return ok && n.Obj().Name() == "Descriptor" && n.Obj().Pkg() != nil && strings.HasSuffix(n.Obj().Pkg().Path(), "image-spec/specs-go/v1")
}

func c05R2Wrappers(c *Ctx) {
	const R = "C05.R2.wrapper-forwards-descriptor"
	c.Expect(R, 8)
	c05Wrappers(c, R, false)
}

// c05Wrappers checks the store front-ends that forward to an inner Push.
// With refusalOnly (C06) it decides that nothing is changed unless the inner
// Push succeeded and that the inner Push's refusal is returned.
func c05Wrappers(c *Ctx, R string, refusalOnly bool) {
	type w struct {
		pkg, name string
		effects   bool
	}
	effectNames := map[string]bool{
		"(*~/internal/graph.Memory).Index": true, "(*~/internal/graph.Memory).IndexAll": true,
		"(~/content.Tagger).Tag": true, "(*~/internal/resolver.Memory).Tag": true, "(~/content.TagResolver).Tag": true,
	}
	for _, x := range []w{{"content", "LimitedStorage.Push", false}, {"content/memory", "Store.Push", true}, {"content/oci", "Store.Push", true},
		{"content/file", "Store.Push", true}, {"internal/cas", "Proxy.Fetch", false}} {
		fn := c.P.Fn(x.pkg, x.name)
		if fn == nil || len(fn.Blocks) == 0 {
			c.LostAnchor(R, x.pkg+"."+x.name)
			continue
		}
		var descParam, rdParam *ssa.Parameter
		for _, p := range fn.Params {
			if c05IsOCIDescriptor(p.Type()) {
				descParam = p
			}
			if nt, isN := p.Type().(*types.Named); isN && nt.Obj().Pkg() != nil && nt.Obj().Pkg().Path() == "io" && nt.Obj().Name() == "Reader" {
				rdParam = p
			}
		}
		if descParam == nil {
			c.LostAnchor(R, FnName(fn)+": descriptor parameter")
			continue
		}
		root := c05Root(fn)
		envs := c05TreeEnvs(root, 3)
		// inner pushes of the caller's stream, anywhere in the call tree
		type hit struct {
			call ssa.CallInstruction
			env  *c05Env
		}
		isInner := func(call ssa.CallInstruction, e *c05Env) (ssa.Value, bool) {
			d, is := c05IsInnerPush(call)
			if !is {
				return nil, false
			}
			if rdParam != nil {
				fromCaller := false
				for _, a := range call.Common().Args {
					if nt, isN := a.Type().(*types.Named); isN && nt.Obj().Name() == "Reader" {
						for _, r := range c05ReaderSources(a, 0) {
							if w, at := e.up(r); at.isRoot() && w == ssa.Value(rdParam) {
								fromCaller = true
							}
						}
					}
				}
				if !fromCaller {
					return nil, false // e.g. restoring duplicates re-pushes other content read from the store itself
				}
			}
			return d, true
		}
		var hits []hit
		ok := true
		pos := fn.Pos()
		for _, e := range envs {
			for _, call := range Calls(e.Fn, func(string) bool { return true }) {
				d, is := isInner(call, e)
				if !is {
					continue
				}
				hits = append(hits, hit{call, e})
				if e.isRoot() || pos == fn.Pos() {
					pos = call.Pos()
				}
				p := c05DescSource(d)
				if p == nil {
					ok = false
					continue
				}
				if w, at := e.up(p); !at.isRoot() || w != ssa.Value(descParam) {
					ok = false
				}
			}
		}
		if len(hits) == 0 {
			c.LostAnchor(R, FnName(fn)+": inner Push")
			continue
		}
		if !refusalOnly {
			c.Check(R, FnName(fn)+"|inner-push-gets-callers-descriptor", pos, ok,
				ifelse(ok, "the inner Push verifies against the caller's descriptor (same Digest and Size)", "the wrapper hands a different descriptor to the inner Push than the one its caller named"))
		} else if ErrResultIndex(fn.Signature) >= 0 && rdParam != nil {
			okR, detail := true, ""
			var tol []string
			if x.pkg == "content/file" {
				tol = c05SkipSentinels(c.P)
			}
			seen := map[ssa.Instruction]bool{}
			for _, h := range hits {
				chain := []ssa.CallInstruction{h.call}
				for e := h.env; e.Parent != nil && e.Call != nil; e = e.Parent {
					chain = append(chain, e.Call)
				}
				for _, call := range chain {
					if seen[call.(ssa.Instruction)] {
						continue
					}
					seen[call.(ssa.Instruction)] = true
					r := c05ErrFlow(call, ErrFlowOpts{Tolerated: tol})
					if !r.OK {
						okR, detail = false, r.Detail
					} else if detail == "" {
						detail = r.How
					}
				}
			}
			c.Check(R, FnName(fn)+"|inner-push-refusal-returned", pos, okR,
				ifelse(okR, "a refusal of the inner Push (already exists / duplicate name / mismatch) is returned: "+detail, "a refusal of the inner Push can be reported as success: "+detail))
		}
		if !x.effects {
			continue
		}
		// success of the inner push, seen from each level of the call tree
		spec := c05PassSpec{Success: true, Edges: func(e *c05Env) []Edge {
			var out []Edge
			for _, call := range Calls(e.Fn, func(string) bool { return true }) {
				if _, is := isInner(call, e); is {
					out = append(out, c05NilEdgesOf(call)...)
				}
			}
			return out
		}, Returned: func(v ssa.Value, e *c05Env) bool {
			// `return inner.Push(...)`: the verdict of the inner push itself
			call, isCall := strip(v).(*ssa.Call)
			if !isCall {
				return false
			}
			_, is := isInner(call, e)
			return is
		}}
		okE, bad := true, ""
		ne := 0
		for _, e := range envs {
			for _, call := range Calls(e.Fn, func(nm string) bool { return effectNames[nm] }) {
				if _, isDefer := call.(*ssa.Defer); isDefer {
					okE, bad = false, CalleeName(call)+" (deferred)"
					continue
				}
				ne++
				dominated := false
				var tgt ssa.Instruction = call.(ssa.Instruction)
				for lv := e; lv != nil && tgt != nil; lv = lv.Parent {
					ct := c05PassCut(lv, spec)
					if (len(ct.edges) > 0 || len(ct.instrs) > 0) && MustPass(tgt, ct) {
						dominated = true
						break
					}
					if lv.Call == nil {
						// a later step of a step table runs only after every earlier step returned nil
						if t, k := c05StepIndex(lv); t != nil {
							for j := 0; j < k; j++ {
								if g := c05StepFn(t.Steps[j]); g != nil && c05SuccessPasses(&c05Env{Fn: g, Parent: lv.Parent}, spec) {
									dominated = true
								}
							}
							if !dominated {
								tgt = t.Call
								continue
							}
						}
						break
					}
					tgt = lv.Call.(ssa.Instruction)
				}
				if !dominated {
					okE, bad = false, CalleeName(call)+" in "+FnName(e.Fn)
				}
			}
		}
		c.Check(R, FnName(fn)+"|bookkeeping-only-after-successful-inner-push", pos, okE,
			ifelse(okE, fmt.Sprintf("%d bookkeeping effect(s) (index/tag) all lie behind the err==nil edge of the inner Push", ne),
				bad+" is reachable although the inner Push did not succeed: tags / graph entries would name content that was refused"))
	}
}

// c05ReaderSources: the reader values a reader expression is built from
// (through io.LimitReader / TeeReader / NopCloser style wrappers).
func c05ReaderSources(v ssa.Value, depth int) []ssa.Value {
	var out []ssa.Value
	for _, r := range Roots(v) {
		r = strip(r)
		out = append(out, r)
		if call, ok := r.(*ssa.Call); ok && depth < 3 {
			for _, a := range call.Call.Args {
				if _, isIface := a.Type().Underlying().(*types.Interface); isIface {
					out = append(out, c05ReaderSources(a, depth+1)...)
				}
			}
		}
	}
	return out
}

// c05DescSource resolves a descriptor value to the parameter whose Digest and
// Size it carries: the parameter itself, descriptor.Plain(p), or a struct
// literal whose Digest and Size fields are p.Digest and p.Size.
func c05DescSource(v ssa.Value) *ssa.Parameter {
	if p := c05ParamOf(v); p != nil {
		return p
	}
	v = strip(v)
	if call, ok := v.(*ssa.Call); ok && CalleeName(call) == "~/internal/descriptor.Plain" && len(call.Call.Args) == 1 {
		return c05DescSource(call.Call.Args[0])
	}
	if u, ok := v.(*ssa.UnOp); ok && u.Op == token.MUL {
		if a, ok := u.X.(*ssa.Alloc); ok {
			var dg, sz *ssa.Parameter
			for _, r := range *a.Referrers() {
				fa, ok := r.(*ssa.FieldAddr)
				if !ok {
					continue
				}
				for _, r2 := range *fa.Referrers() {
					st, ok := r2.(*ssa.Store)
					if !ok || st.Addr != ssa.Value(fa) {
						continue
					}
					switch c05FieldNameOf(fa.X.Type(), fa.Field) {
					case "Digest":
						dg = c05FieldOfParam(st.Val, "Digest")
					case "Size":
						sz = c05FieldOfParam(st.Val, "Size")
					}
				}
			}
			if dg != nil && dg == sz {
				return dg
			}
		}
	}
	return nil
}

// ---------------------------------------------------------------- R3

func c05R3(c *Ctx) {
	const R = "C05.R3.who-may-publish"
	c.Expect(R, 12) // 19 on the pinned tree; the 6 reader lines are optional
	all := c05ModuleFuncs(c.P)
	tree := func(pkg, name string) map[*ssa.Function]bool {
		out := map[*ssa.Function]bool{}
		if f := c.P.Fn(pkg, name); f != nil && len(f.Blocks) > 0 {
			for _, e := range c05TreeEnvs(c05Root(f), 4) {
				out[e.Fn] = true
			}
		}
		return out
	}
	// (a) cas.Memory.content: written only by the atomic LoadOrStore below Push
	c05MapInventory(c, R, all, "~/internal/cas.Memory", c05Cur.F("cas.content"), map[string]bool{"(*sync.Map).LoadOrStore": true},
		tree("internal/cas", "Memory.Push"), nil, "(*~/internal/cas.Memory).Push")
	// (b) file.Store.digestToPath: written below Push (with a verified copy in the same function, R2) and below Add (provenance check)
	c05MapInventory(c, R, all, "~/content/file.Store", c05Cur.F("file.digestToPath"), map[string]bool{"(*sync.Map).Store": true, "(*sync.Map).LoadOrStore": true},
		tree("content/file", "Store.Push"), tree("content/file", "Store.Add"), "(*~/content/file.Store).Push")
	c05AddProvenance(c, R)
	// (c) names under blobs/
	c05BlobsInventory(c, R)
	c05DigestValidated(c, R)
}

// c05MapInventory classifies every use of the sync.Map field T.field: reads
// are free; writes (only with the allowed methods) must sit in the call tree
// of the exported Push — where a verified copy in the same function backs them
// (checked by R2) — or of the second allowed entry point; nothing may delete
// or leak the map.
func c05MapInventory(c *Ctx, R string, fns []*ssa.Function, typ, field string, writers map[string]bool, pushTree, otherTree map[*ssa.Function]bool, pushName string) {
	type rec struct {
		pos  token.Pos
		ok   bool
		role string
	}
	seen := map[string]rec{}
	var order []string
	pushWriters := 0
	for _, u := range c05FieldUses(fns, typ, field) {
		k := FnName(u.Fn) + "|"
		r := rec{pos: u.Use.Pos()}
		call, isCall := u.Use.(ssa.CallInstruction)
		name := ""
		if isCall && len(call.Common().Args) > 0 && call.Common().Args[0] == ssa.Value(u.Addr) {
			name = CalleeName(call)
			if mv := c05MapOp(call); mv != nil {
				name = mv.Name // a forwarding method of a sync.Map wrapper counts as the operation it forwards to
			}
		}
		// a bound method value (`for k, v := range m.content.Range`): the method it is bound to
		if mc, isMC := u.Use.(*ssa.MakeClosure); isMC && len(mc.Bindings) == 1 && mc.Bindings[0] == ssa.Value(u.Addr) {
			if bf := mc.Fn.(*ssa.Function); strings.HasPrefix(bf.Synthetic, "bound method wrapper") {
				name = fnFullName(bf)
			}
		}
		switch {
		case c05SyncMapReaders[name]:
			k += name
			r.ok, r.role = true, "reader"
		case c05SyncMapWriters[name] && writers[name] && pushTree[u.Fn]:
			k += name
			pushWriters++
			r.ok, r.role = true, "publication below "+pushName+", verified by R2"
			if typ == "~/content/file.Store" && len(c05CopyCalls(u.Fn)) == 0 {
				r.ok, r.role = false, "a digest is recorded on the Push side in a function that performs no verified copy: R2 cannot tie the record to a verification"
			}
		case c05SyncMapWriters[name] && writers[name] && otherTree[u.Fn]:
			k += name
			r.ok, r.role = true, "Add: digest computed by the store itself (provenance checked)"
		case name != "":
			k += name
			r.role = "unclassified access to " + typ + "." + field + ": only the confirmed writers may make content visible (" + name + " in " + FnName(u.Fn) + "); review against C05"
		default:
			k += fmt.Sprintf("address-escapes(%T)", u.Use)
			r.role = "the address of " + typ + "." + field + " escapes: writers can no longer be enumerated"
		}
		if _, dup := seen[k]; !dup {
			order = append(order, k)
		}
		seen[k] = r
	}
	for _, k := range order {
		c.Exists(R, typ+"."+field+"|"+k, seen[k].pos, seen[k].ok, seen[k].role)
	}
	if pushWriters == 0 {
		c.ob(R, typ+"."+field+"|publication-below-"+pushName, token.NoPos, Lost, true, "required publication site no longer present")
	}
	if len(order) == 0 {
		c.LostAnchor(R, typ+"."+field)
	}
}

// c05AddProvenance: the digests Add() records are computed by the store
// itself over the very file it records.
func c05AddProvenance(c *Ctx, R string) {
	for _, f := range c05FuncsOfPkg(c.P, "content/file") {
		if len(c05CopyCalls(f)) > 0 {
			continue // saveFile role, handled by R2
		}
		for _, u := range c05FieldUses([]*ssa.Function{f}, "~/content/file.Store", c05Cur.F("file.digestToPath")) {
			call, ok := u.Use.(ssa.CallInstruction)
			if !ok || !c05SyncMapWriters[CalleeName(call)] {
				continue
			}
			fname := FnName(f)
			kv, _ := c05Root(f).up(strip(call.Common().Args[1])) // through a descriptor literal that merely carries the digest
			vv, _ := c05Root(f).up(strip(call.Common().Args[2]))
			key, val := strip(kv), strip(vv)
			okP, detail := false, "key "+describe(key)+" is not a digest the store computed over the recorded file"
			switch k := key.(type) {
			case *ssa.Extract: // digest.FromReader(fp) with fp = os.Open(path), value = path
				dc, isCall := k.Tuple.(*ssa.Call)
				if isCall && k.Index == 0 && (CalleeName(dc) == "digest.FromReader" || CalleeName(dc) == "(digest.Algorithm).FromReader") {
					rdArg := dc.Call.Args[len(dc.Call.Args)-1]
					for _, r := range Roots(rdArg) {
						if e, isE := r.(*ssa.Extract); isE && e.Index == 0 {
							if oc, isC := e.Tuple.(*ssa.Call); isC && CalleeName(oc) == "os.Open" && SameValue(oc.Call.Args[0], val) {
								okP = MustPass(call.(ssa.Instruction), newCut().Edges(c05NilEdgesOf(dc)...))
								detail = "key = digest.FromReader(os.Open(path)), value = the same path, behind the err==nil edge"
								if !okP {
									detail = "the digest is recorded although digest.FromReader may have failed"
								}
							}
						}
					}
				}
			case *ssa.Call: // digester.Digest() where digester.Hash() is teed with the file whose Name() is recorded
				if CalleeName(k) == "(digest.Digester).Digest" {
					dg := k.Call.Value
					var teeCall *ssa.Call
					nc, isName := val.(*ssa.Call)
					if isName && CalleeName(nc) == "(*os.File).Name" {
						for _, mw := range CallsTo(f, "io.MultiWriter") {
							hasFile, hasHash := false, false
							for _, e := range c05VariadicElems(variadicArg(mw)) {
								e = strip(e)
								if hc, isH := e.(*ssa.Call); isH && CalleeName(hc) == "(digest.Digester).Hash" && hc.Call.Value == dg {
									hasHash = true
								}
								for _, r1 := range Roots(e) {
									for _, r2 := range Roots(nc.Call.Args[0]) {
										if r1 == r2 {
											hasFile = true
										}
									}
								}
							}
							if hasFile && hasHash {
								okP = true
								teeCall = mw.Value()
								detail = "key = Digest() of the hash teed with the recorded file, read after the compressor was closed"
							}
						}
					}
					// hashing by copying: io.Copy / io.CopyBuffer(digester.Hash(), <the file opened at the recorded path>), the
					// digest read behind the copy's err==nil edge (what digest.FromReader does, with a caller-provided buffer)
					if !okP {
						for _, cp := range CallsTo(f, "io.Copy", "io.CopyBuffer") {
							ca := cp.Common().Args
							hc, isH := strip(ca[0]).(*ssa.Call)
							if !isH || CalleeName(hc) != "(digest.Digester).Hash" || hc.Call.Value != dg {
								continue
							}
							fromFile := false
							AllInstrs(f, func(in ssa.Instruction) {
								oc, isC := in.(*ssa.Call)
								if !isC || CalleeName(oc) != "os.Open" || !SameValue(oc.Call.Args[0], val) {
									return
								}
								if fpv := ResultOf(oc, 0); fpv != nil && c05WrapsValue(ca[1], fpv, 0) {
									fromFile = true
								}
							})
							if !fromFile {
								continue
							}
							okP = MustPass(k, newCut().Edges(c05NilEdgesOf(cp)...))
							detail = "key = Digest() of the hash the file opened at the recorded path was copied into, read behind the copy's err==nil edge"
							if !okP {
								detail = "the digest is read although copying the file into the hash may have failed: it need not cover the recorded file"
							}
							// nothing else may be written into that hash
							for _, r := range *dg.Referrers() {
								if oh, isC := r.(*ssa.Call); isC && oh != hc && oh != k && CalleeName(oh) == "(digest.Digester).Hash" {
									okP, detail = false, "the digester's hash is also used elsewhere: the digest may cover more than the recorded file"
								}
							}
						}
					}
					if okP && teeCall != nil {
						// bytes reach the file and the hash through a buffering compressor: the digest must be
						// read only after that writer was closed/flushed successfully
						for _, r := range *teeCall.Referrers() {
							wc, isCall := r.(*ssa.Call)
							if !isCall {
								continue
							}
							if CalleeName(wc) != "compress/gzip.NewWriter" {
								okP, detail = false, "the file+hash tee is wrapped by "+CalleeName(wc)+": flush discipline not recognised"
								continue
							}
							closed := false
							for _, cl := range CallsTo(f, "(*compress/gzip.Writer).Close", "(*compress/gzip.Writer).Flush") {
								if _, isDefer := cl.(*ssa.Defer); isDefer {
									continue
								}
								rs := Roots(cl.Common().Args[0])
								if len(rs) == 1 && rs[0] == ssa.Value(wc) && MustPass(k, newCut().Edges(c05NilEdgesOf(cl)...)) {
									closed = true
								}
							}
							// ... or as a step of a step table (`for _, flush := range []func() error{gzw.Close, gz.Sync}`)
							for _, t := range c05StepTables(f) {
								for _, sv := range t.Steps {
									for _, nm := range []string{"(*compress/gzip.Writer).Close", "(*compress/gzip.Writer).Flush"} {
										if recv := c05StepBoundMethod(sv, nm); recv != nil {
											rs := Roots(recv)
											if len(rs) == 1 && rs[0] == ssa.Value(wc) && MustPass(k, newCut().Edges(t.Done...)) {
												closed = true
											}
										}
									}
								}
							}
							if !closed {
								okP, detail = false, "the digest is read before the gzip writer feeding file and hash was closed successfully: it does not cover the bytes of the recorded file"
							}
						}
					}
				}
			}
			c.Check(R, fname+"|recorded-digest-is-computed-over-recorded-file", call.Pos(), okP, detail)
			// a failure while hashing must not be turned into success by the deferred cleanup (the caller would hand out a
			// zero / stale descriptor for a file whose digest was never computed)
			why := c05DeferKeepsError(f)
			c.Check(R, fname+"|deferred-cleanup-keeps-error", f.Pos(), why == "", ifelse(why == "", "deferred code cannot clear an error of the hashing step", why))
			c05DefaultOnlyWhenEmpty(c, R, f)
		}
	}
}

// c05DefaultOnlyWhenEmpty: the descriptor a function hands out names the caller's media type; a constant default takes
// its place only on the edge where the caller's string is empty (`if mediaType == "" { mediaType = default }`).  Decided
// on the phi that merges the parameter with a constant: each operand must arrive over the matching outcome of an
// emptiness test of the parameter.
func c05DefaultOnlyWhenEmpty(c *Ctx, R string, f *ssa.Function) {
	AllInstrs(f, func(in ssa.Instruction) {
		phi, ok := in.(*ssa.Phi)
		if !ok || len(phi.Edges) != 2 {
			return
		}
		var prm *ssa.Parameter
		var pi, ki int = -1, -1
		for i, e := range phi.Edges {
			if p, isP := strip(e).(*ssa.Parameter); isP && p.Parent() == f {
				prm, pi = p, i
			}
			if _, isS := constString(e); isS {
				ki = i
			}
		}
		if prm == nil || pi < 0 || ki < 0 {
			return
		}
		// only when the merged value ends up as the MediaType of a descriptor
		used := false
		for _, r := range *phi.Referrers() {
			if st, isSt := r.(*ssa.Store); isSt {
				if fa, isFA := st.Addr.(*ssa.FieldAddr); isFA && c05IsNamedType(fa.X.Type(), "specs-go/v1", "Descriptor") && c05FieldNameOf(fa.X.Type(), fa.Field) == "MediaType" {
					used = true
				}
			}
		}
		if !used {
			return
		}
		empty, nonEmpty := c05EmptyStrEdges(f, func(v ssa.Value) bool { return strip(v) == ssa.Value(prm) })
		arrives := func(i int, es []Edge) bool {
			pred := phi.Block().Preds[i]
			for _, e := range es {
				if e.From == pred && e.To == phi.Block() {
					return true
				}
			}
			return len(es) > 0 && len(pred.Instrs) > 0 && MustPass(pred.Instrs[len(pred.Instrs)-1], newCut().Edges(es...))
		}
		ok2 := arrives(ki, empty) && arrives(pi, nonEmpty)
		c.Check(R, FnName(f)+"|"+prm.Name()+"|default-only-when-empty", phi.Pos(), ok2,
			ifelse(ok2, "the constant default replaces the caller's media type only when that is empty", "the default media type replaces a non-empty media type given by the caller (or an empty one is kept): the descriptor handed out does not name what the caller asked for"))
	})
}

// c05WrapsValue: v is `want`, possibly converted to an interface, held in a local variable, or wrapped in a local struct
// literal all of whose fields are (wrappers of) it: struct{ io.Reader }{fp}.
func c05WrapsValue(v, want ssa.Value, depth int) bool {
	if depth > 4 {
		return false
	}
	rs := Roots(v)
	if len(rs) == 0 {
		return false
	}
	for _, r := range rs {
		r = strip(r)
		if r == want {
			continue
		}
		ld, ok := r.(*ssa.UnOp)
		if !ok || ld.Op != token.MUL {
			return false
		}
		al, ok := ld.X.(*ssa.Alloc)
		if !ok {
			return false
		}
		if _, isStruct := al.Type().(*types.Pointer).Elem().Underlying().(*types.Struct); !isStruct {
			return false
		}
		n := 0
		for _, ref := range *al.Referrers() {
			switch u := ref.(type) {
			case *ssa.FieldAddr:
				for _, r2 := range *u.Referrers() {
					if st, isSt := r2.(*ssa.Store); isSt && st.Addr == ssa.Value(u) {
						n++
						if !c05WrapsValue(st.Val, want, depth+1) {
							return false
						}
					}
				}
			case *ssa.UnOp, *ssa.DebugRef:
			default:
				return false
			}
		}
		if n == 0 {
			return false
		}
	}
	return true
}

// c05ValidEdges: the edges of fn on which the digest satisfying isD is known to be well-formed: the nil edge of
// (digest.Digest).Validate() on it, or of an in-module helper that receives it and returns nil only behind such an edge.
func c05ValidEdges(fn *ssa.Function, isD func(v ssa.Value) bool, depth int) []Edge {
	var out []Edge
	for _, call := range Calls(fn, func(string) bool { return true }) {
		if _, isDefer := call.(*ssa.Defer); isDefer || ErrOf(call) == nil {
			continue
		}
		args := call.Common().Args
		if CalleeName(call) == "(digest.Digest).Validate" && len(args) == 1 && isD(args[0]) {
			out = append(out, c05NilEdgesOf(call)...)
			continue
		}
		h := StaticCallee(call)
		if h == nil || !inModule(h) || len(h.Blocks) == 0 || depth >= 2 || ErrResultIndex(h.Signature) < 0 {
			continue
		}
		for i, a := range args {
			if !isD(a) || i >= len(h.Params) {
				continue
			}
			p := h.Params[i]
			sub := c05ValidEdges(h, func(v ssa.Value) bool { return c05ParamOf(v) == p }, depth+1)
			if len(sub) == 0 || c05DeferKeepsError(h) != "" {
				continue
			}
			sound := true
			for _, at := range c05MaybeNilAtoms(h) {
				if !c05AtomMustPass(at, newCut().Edges(sub...)) {
					sound = false
				}
			}
			if sound {
				out = append(out, c05NilEdgesOf(call)...)
			}
		}
	}
	return out
}

// c05DigestValidated: the blob path of the OCI layout is computed from a digest only after that digest was validated
// (algorithm AND encoded part: an unvalidated encoded part such as "../../x" names a file outside blobs/), and a digest
// that fails validation is refused with ErrInvalidDigest.
func c05DigestValidated(c *Ctx, R string) {
	n := 0
	for f := range c05BlobPathFns(c.P) {
		if len(f.Params) != 1 || !c05IsNamedType(f.Params[0].Type(), "go-digest", "Digest") {
			continue // wrappers delegate to a base function
		}
		joins := CallsTo(f, "path.Join", "path/filepath.Join")
		if len(joins) == 0 {
			continue
		}
		n++
		p := f.Params[0]
		valid := c05ValidEdges(f, func(v ssa.Value) bool { return c05ParamOf(v) == p }, 0)
		ok := len(valid) > 0
		for _, j := range joins {
			if !MustPass(j.(ssa.Instruction), newCut().Edges(valid...)) {
				ok = false
			}
		}
		for _, a := range c05MaybeNilAtoms(f) {
			if !c05AtomMustPass(a, newCut().Edges(valid...)) {
				ok = false
			}
		}
		c.Check(R, FnName(f)+"|digest-validated-before-path", f.Pos(), ok,
			ifelse(ok, "the blob path is built, and success reported, only behind a successful validation of the digest", "a blob path can be built from a digest that was not (fully) validated: a crafted encoded part escapes blobs/, an unsupported algorithm is not refused"))
	}
	if n == 0 {
		c.LostAnchor(R, "blob-path constructor taking a digest (validation site)")
	}
}

// c05Creators: callees that create a name in the file system.
var c05Creators = map[string]bool{
	"os.Create": true, "os.OpenFile": true, "os.WriteFile": true, "os.Rename": true, "os.CreateTemp": true, "os.Link": true,
	"os.Symlink": true, "os.Mkdir": true, "os.MkdirAll": true, "os.MkdirTemp": true, "io/ioutil.WriteFile": true, "io/ioutil.TempFile": true,
	"(*os.Root).Create": true, "(*os.Root).OpenFile": true, "(*os.Root).Mkdir": true, "os.CopyFS": true,
}

type c05Src struct {
	V  ssa.Value
	Fn *ssa.Function
}

// c05ArgSources: where a path value comes from — when it is a parameter of an
// unexported helper, the arguments at every static call site in the package
// (transitively, depth <= 3).
func c05ArgSources(pkgFns []*ssa.Function, f *ssa.Function, v ssa.Value, depth int) []c05Src {
	// a variable captured from the enclosing function (a step closure handing Push's `target` to a helper): the value
	// assigned there — once, in the enclosing function itself, or by an earlier step of the same first-error table
	if depth < 3 {
		w := c09StepCellValue(v)
		if w == nil {
			if r := c09Resolved(v); r != nil && r != strip(v) {
				w = r
			}
		}
		if w != nil {
			if g := c09ParentOf(w); g != nil && g != f {
				return c05ArgSources(pkgFns, g, w, depth+1)
			}
		}
	}
	p, isParam := strip(v).(*ssa.Parameter)
	if !isParam || depth >= 3 || p.Parent() != f {
		return []c05Src{{v, f}}
	}
	idx := -1
	for i, q := range f.Params {
		if q == p {
			idx = i
		}
	}
	var out []c05Src
	for _, g := range pkgFns {
		for _, call := range Calls(g, func(string) bool { return true }) {
			if StaticCallee(call) == f && idx >= 0 && idx < len(call.Common().Args) {
				out = append(out, c05ArgSources(pkgFns, g, call.Common().Args[idx], depth+1)...)
			}
		}
	}
	if len(out) == 0 {
		return []c05Src{{v, f}}
	}
	return out
}

func c05BlobsInventory(c *Ctx, R string) {
	fns := c05FuncsOfPkg(c.P, "content/oci")
	bp := c05BlobPathFns(c.P)
	all := c05ModuleFuncs(c.P)
	publications := 0
	// values that denote a path under blobs/, per function
	blobVals := map[*ssa.Function]map[ssa.Value]bool{}
	for _, f := range fns {
		bv := map[ssa.Value]bool{}
		AllInstrs(f, func(in ssa.Instruction) {
			call, ok := in.(*ssa.Call)
			if !ok {
				return
			}
			if g := StaticCallee(call); g != nil && bp[g] {
				if r0 := ResultOf(call, 0); r0 != nil {
					bv[r0] = true
				}
				bv[call] = true
			}
			for _, a := range call.Call.Args {
				if s, ok := constString(a); ok && (s == "blobs" || strings.HasPrefix(s, "blobs/")) {
					bv[a] = true
				}
			}
			if nm := CalleeName(call); nm == "path.Join" || nm == "path/filepath.Join" {
				for _, e := range c05VariadicElems(variadicArg(call)) {
					if s, ok := constString(e); ok && (s == "blobs" || strings.HasPrefix(s, "blobs/")) {
						bv[e] = true
						bv[call] = true
					}
				}
			}
		})
		blobVals[f] = bv
	}
	pushTree := map[*ssa.Function]bool{}
	if p := c.P.Fn("content/oci", "Storage.Push"); p != nil && len(p.Blocks) > 0 {
		for _, e := range c05TreeEnvs(c05Root(p), 3) {
			pushTree[e.Fn] = true
		}
	}
	for _, f := range fns {
		f := f
		underBlobs := func(v ssa.Value) bool {
			for _, s := range c05ArgSources(fns, f, v, 0) {
				if len(blobVals[s.Fn]) > 0 && derivesFromAny(s.V, blobVals[s.Fn], 0) {
					return true
				}
			}
			return false
		}
		seen := map[string]int{}
		for _, call := range Calls(f, func(n string) bool { return c05Creators[n] }) {
			n := CalleeName(call)
			seen[n]++
			key := fmt.Sprintf("%s|%s#%d", FnName(f), n, seen[n])
			args := call.Common().Args
			switch n {
			case "os.MkdirAll", "os.Mkdir":
				c.Exists(R, key, call.Pos(), true, "creates directories only")
			case "os.Rename":
				if underBlobs(args[1]) {
					publications++
					ok := pushTree[f] && !underBlobs(args[0])
					c.Check(R, key+"|publication", call.Pos(), ok,
						ifelse(ok, "the only creator of names under blobs/: Storage.Push (or a helper it calls) moves the verified ingest file to its blob path (R2 checks dominance)", "a rename into blobs/ outside Storage.Push (or from within blobs/): content becomes visible without passing ingest+verify"))
				} else {
					c.Violation(R, key, call.Pos(), "unclassified rename in the OCI layout package: review against C05 (is the target visible as content?) and extend the classification")
				}
			case "os.CreateTemp":
				why := ""
				for _, s := range c05ArgSources(fns, f, args[0], 0) {
					if w := c05IngestDirOK(all, s.V); w != "" {
						why = w
					}
				}
				c.Check(R, key+"|ingest-file", call.Pos(), why == "" && !underBlobs(args[0]),
					ifelse(why == "", "temporary file in the storage's ingest directory, a constant sibling of blobs/", why))
			case "os.WriteFile":
				ok, role := true, ""
				if underBlobs(args[0]) {
					ok, role = false, "a file is written directly under blobs/: content becomes visible without passing ingest+verify"
				}
				for _, s := range c05ArgSources(fns, f, args[0], 0) {
					if !ok {
						break
					}
					if fld := fieldOfFuncValue(s.V); fld != "" {
						// a path kept in a field: every assignment of that field is Join(root, "index.json" / "oci-layout")
						i := strings.LastIndex(fld, ".")
						okFld, nSt := true, 0
						for _, u := range c05FieldUses(all, fld[:i], fld[i+1:]) {
							st, isStore := u.Use.(*ssa.Store)
							if !isStore {
								continue
							}
							nSt++
							jc, isJoin := strip(st.Val).(*ssa.Call)
							if !isJoin || (CalleeName(jc) != "path/filepath.Join" && CalleeName(jc) != "path.Join") {
								okFld = false
								continue
							}
							el := c05VariadicElems(variadicArg(jc))
							seg, isK := "", false
							if len(el) == 2 {
								seg, isK = constString(el[1])
							}
							if !isK || (seg != "index.json" && seg != "oci-layout") {
								okFld = false
							}
						}
						if okFld && nSt > 0 {
							role = "metadata file whose path is kept in " + fld
							continue
						}
					}
					good := false
					for _, r := range Roots(s.V) {
						if jc, isJoin := strip(r).(*ssa.Call); isJoin && (CalleeName(jc) == "path/filepath.Join" || CalleeName(jc) == "path.Join") {
							el := c05VariadicElems(variadicArg(jc))
							if len(el) == 2 {
								if seg, isK := constString(el[1]); isK && (seg == "oci-layout" || seg == "index.json") {
									good, role = true, "metadata file "+seg+" at the layout root"
								}
							}
						}
					}
					if !good {
						ok, role = false, "file written in place by the OCI layout package at an unreviewed path ("+describe(s.V)+" in "+FnName(s.Fn)+")"
					}
				}
				c.Check(R, key+"|metadata-file", call.Pos(), ok, role)
			default:
				c.Violation(R, key, call.Pos(), "unclassified file-creating effect in the OCI layout package ("+n+"): only the rename of a verified ingest file may create names under blobs/; review and extend the classification")
			}
		}
	}
	c.Exists(R, "~/content/oci|publication-by-rename-exists", token.NoPos, publications > 0,
		ifelse(publications > 0, "blobs are published by renaming", "no rename into blobs/ found: the publication step changed shape, the inventory must be re-confirmed"))
}

// c05IngestDirOK: dir is a load of a Storage field that is only ever assigned
// filepath.Join(root, <constant segment that is not blobs>).  "" when fine.
func c05IngestDirOK(all []*ssa.Function, dir ssa.Value) string {
	fld := fieldOfFuncValue(dir)
	if fld == "" {
		return "os.CreateTemp directory is not a field of the storage: cannot show the temp file is outside blobs/"
	}
	i := strings.LastIndex(fld, ".")
	tname, fname := fld[:i], fld[i+1:]
	stores := 0
	for _, u := range c05FieldUses(all, tname, fname) {
		st, isStore := u.Use.(*ssa.Store)
		if !isStore {
			continue
		}
		stores++
		jc, isJoin := strip(st.Val).(*ssa.Call)
		if !isJoin || (CalleeName(jc) != "path/filepath.Join" && CalleeName(jc) != "path.Join") {
			return fld + " is assigned something other than filepath.Join(root, <const>)"
		}
		el := c05VariadicElems(variadicArg(jc))
		if len(el) < 2 {
			return fld + " join has no constant segment"
		}
		seg, isK := constString(el[1])
		if !isK || seg == "" || seg == "blobs" || strings.HasPrefix(seg, "blobs/") || strings.HasPrefix(seg, ".") {
			return fmt.Sprintf("%s is %q under the root: ingest files would be created inside blobs/ (partial, unverified content visible under blobs/)", fld, seg)
		}
	}
	if stores == 0 {
		return fld + " is never assigned"
	}
	return ""
}

// ---------------------------------------------------------------- R4

// c05PushReach: the exported verifying/publishing entry points and the
// same-package helpers they reach statically (depth 3, closures included).
func c05PushReach(c *Ctx, R string) []*ssa.Function {
	type target struct{ pkg, name string }
	seen := map[*ssa.Function]bool{}
	var out []*ssa.Function
	var add func(f *ssa.Function, d int)
	add = func(f *ssa.Function, d int) {
		if f == nil || seen[f] || len(f.Blocks) == 0 {
			return
		}
		seen[f] = true
		out = append(out, f)
		if d == 0 {
			return
		}
		AllInstrs(f, func(in ssa.Instruction) {
			switch x := in.(type) {
			case ssa.CallInstruction:
				if g := StaticCallee(x); g != nil && fnPkgPath(g) == fnPkgPath(f) {
					add(g, d-1)
				}
			case *ssa.MakeClosure:
				add(x.Fn.(*ssa.Function), d)
			}
		})
	}
	for _, t := range []target{{"content", "ReadAll"}, {"internal/ioutil", "CopyBuffer"}, {"internal/cas", "Memory.Push"},
		{"content/oci", "Storage.Push"}, {"content/file", "Store.Push"}} {
		f := c.P.Fn(t.pkg, t.name)
		if f == nil || len(f.Blocks) == 0 {
			c.LostAnchor(R, t.pkg+"."+t.name)
			continue
		}
		d := 3
		if t.pkg == "content" || t.pkg == "internal/ioutil" {
			d = 0 // the verifier's own internals are decided path-sensitively by R1
		}
		add(f, d)
	}
	return out
}

func c05R4(c *Ctx) {
	const R = "C05.R4.error-flow"
	c.Expect(R, 16) // 23 on the pinned tree; helper calls disappear when helpers are inlined
	std := map[string]bool{
		c05CopyBuf: true, c05Verify: true, c05ReadAll: true, "os.Chmod": true, "os.Rename": true, "os.CreateTemp": true, "os.Create": true,
		"io.ReadFull": true, "io.CopyBuffer": true, "os.MkdirAll": true,
	}
	relevant := func(n string, _ ssa.CallInstruction) bool { return std[n] }
	fns := c05PushReach(c, R)
	inSet := map[*ssa.Function]bool{}
	for _, f := range fns {
		inSet[f] = true
	}
	for _, f := range fns {
		if ErrResultIndex(f.Signature) < 0 {
			continue // closures without an error result are handled below
		}
		var cbNil []Edge
		for _, cb := range c05CopyCalls(f) {
			cbNil = append(cbNil, c05NilEdgesOf(cb.Call)...)
		}
		seen := map[string]int{}
		for _, call := range Calls(f, func(string) bool { return true }) {
			if _, isDefer := call.(*ssa.Defer); isDefer {
				continue
			}
			n := CalleeName(call)
			mon := std[n]
			if g := StaticCallee(call); !mon && g != nil && inSet[g] && ErrResultIndex(g.Signature) >= 0 && reachesCall(g, 3, relevant) {
				mon = true // in-package helper on the verifying/publishing path (role, not name)
			}
			if n == "(*os.File).Close" && len(cbNil) > 0 && ReachableFromEntry(call.(ssa.Instruction)) && MustPass(call.(ssa.Instruction), newCut().Edges(cbNil...)) {
				// closing the freshly written file matters where success can still be reported afterwards
				for _, a := range c05MaybeNilAtoms(f) {
					if reach(call.Block(), instrIndex(call.(ssa.Instruction))+1, a.Ret, nil) {
						mon = true
					}
				}
			}
			if !mon || ErrOf(call) == nil {
				continue
			}
			seen[n]++
			key := fmt.Sprintf("%s|%s#%d", FnName(f), n, seen[n])
			var tol []string
			if fnPkgPath(f) == pkgPath("content/file") {
				root := f
				for root.Parent() != nil {
					root = root.Parent()
				}
				switch {
				case len(CallsTo(root, "~/content.Successors")) > 0:
					// restore-duplicates role: by design skips absent blobs and names pushed concurrently
					tol = []string{"~/errdef.ErrNotFound", "~/content/file.ErrDuplicateName"}
				case root.Object() != nil && root.Object().Exported():
					// Store.Push: unnamed content is discarded on request (IgnoreNoName)
					tol = c05SkipSentinels(c.P)
				}
			}
			r := c05ErrFlow(call, ErrFlowOpts{Tolerated: tol})
			pos := call.Pos()
			if !r.OK && r.At.IsValid() {
				pos = r.At
			}
			c.Check(R, key, pos, r.OK, r.How+r.Detail)
		}
		// deferred code (closure or in-module helper) that closes the file written by CopyBuffer must record the Close error
		if len(cbNil) == 0 {
			continue
		}
		cells := c05ErrCells(f)
		nCloseCl := 0
		for _, cl := range Anons(f) {
			if cl.Parent() != f {
				continue
			}
			var handle ssa.Value
			for _, x := range cl.FreeVars {
				for _, b := range freeVarBindings(x) {
					if cells[b] {
						handle = x
					}
				}
			}
			for _, call := range CallsTo(cl, "(*os.File).Close") {
				nCloseCl++
				ok, why := c05ClosureErrRecorded(cl, call, handle)
				c.Check(R, FnName(f)+"|deferred-close-error-recorded", call.Pos(), ok, why)
			}
		}
		nClose := 0
		AllInstrs(f, func(in ssa.Instruction) {
			d, isDefer := in.(*ssa.Defer)
			if !isDefer {
				return
			}
			g := StaticCallee(d)
			if g == nil || !inModule(g) || g.Parent() != nil || len(g.Blocks) == 0 {
				return
			}
			var handle ssa.Value
			for i, a := range d.Call.Args {
				if cells[a] && i < len(g.Params) {
					handle = g.Params[i]
				}
			}
			for _, call := range CallsTo(g, "(*os.File).Close") {
				nClose++
				ok, why := c05ClosureErrRecorded(g, call, handle)
				c.Check(R, FnName(f)+"|deferred-close-error-recorded", call.Pos(), ok, why)
			}
		})
		// the file a verified copy writes is closed at all: in this function (directly, in a deferred closure or helper), or —
		// when the file is handed in — by every caller.  Without a Close a late write error (ENOSPC at close on NFS …) is
		// never seen and the content is published as complete.
		isClose := func(n string) bool { return strings.HasSuffix(n, ").Close") }
		var hasCloseD func(g *ssa.Function, d int) bool
		hasCloseD = func(g *ssa.Function, d int) bool {
			for _, x := range append([]*ssa.Function{g}, Anons(g)...) {
				if len(Calls(x, isClose)) > 0 {
					return true
				}
				for _, dc := range Calls(x, func(string) bool { return true }) {
					// a helper that receives the file (possibly as an io.Closer) and closes it: closeAndKeep(fp, &err),
					// finishIngest(fp, &path, &err) -> closeInto(&err, fp)
					if h := StaticCallee(dc); h != nil && inModule(h) && h != g && len(h.Blocks) > 0 && d < 2 && hasCloseD(h, d+1) {
						return true
					}
				}
			}
			return false
		}
		hasClose := func(g *ssa.Function) bool { return hasCloseD(g, 0) }
		for _, cb := range c05CopyCalls(f) {
			if cb.Dst == nil || !strings.HasSuffix(strip(cb.Dst).Type().String(), "os.File") || CalleeName(cb.Call) != c05CopyBuf {
				continue // a helper summarised as a verified copy is judged where the copy itself is
			}
			closed := nClose > 0 || nCloseCl > 0 || hasClose(f)
			if !closed {
				if prm := c05ParamOf(cb.Dst); prm != nil && prm.Parent() == f {
					nc, all := 0, true
					for _, g := range c05ModuleFuncs(c.P) {
						for _, call := range Calls(g, func(string) bool { return true }) {
							if StaticCallee(call) == f {
								nc++
								root := g
								for root.Parent() != nil {
									root = root.Parent()
								}
								if !hasClose(root) {
									all = false
								}
							}
						}
					}
					closed = nc > 0 && all
				}
			}
			c.Check(R, FnName(f)+"|written-file-is-closed", cb.Call.Pos(), closed,
				ifelse(closed, "the file the verified copy writes is closed by this function or by every caller", "the file the verified copy writes is never closed: a write error that only surfaces at Close is never observed (and the descriptor leaks)"))
		}
	}
}

// c05ErrCells: the local cells holding fn's error result.
func c05ErrCells(fn *ssa.Function) map[ssa.Value]bool {
	idx := ErrResultIndex(fn.Signature)
	cells := map[ssa.Value]bool{}
	if idx < 0 {
		return cells
	}
	for _, r := range Returns(fn) {
		if a := cellOf(r.Results[idx]); a != nil {
			cells[a] = true
		}
	}
	return cells
}

// c05ClosureErrRecorded: inside deferred function cl (a closure of fn, or an
// in-module helper deferred by fn), the error of call reaches fn's named error
// result through `handle` (the captured free variable / the *error parameter
// bound to the result cell): every path from the call to the function's end
// stores it there, or finds it nil, or finds the result already non-nil.
func c05ClosureErrRecorded(cl *ssa.Function, call ssa.CallInstruction, handle ssa.Value) (bool, string) {
	e := ErrOf(call)
	if e == nil {
		return false, "Close error discarded"
	}
	if handle == nil {
		return false, "the deferred code that closes the written file has no access to the enclosing function's error result: a failed Close goes unreported"
	}
	al := Aliases(e)
	cutC := newCut()
	loads := map[ssa.Value]bool{}
	for _, r := range *handle.Referrers() {
		switch u := r.(type) {
		case *ssa.Store:
			if u.Addr == handle && derivesFromAny(u.Val, al, 0) {
				cutC.Instr(u)
			}
		case *ssa.UnOp:
			loads[u] = true
		}
	}
	_, nonNilRes, _ := NilTests(cl, loads)
	cutC.Edges(nonNilRes...)
	nilE, _, _ := NilTests(cl, al)
	cutC.Edges(nilE...)
	for _, r := range Returns(cl) {
		if reach(call.Block(), instrIndex(call.(ssa.Instruction))+1, r, cutC) {
			return false, "a failed Close of the freshly written file can go unreported (the content may be incomplete on disk yet published)"
		}
	}
	return true, "a failed Close is stored into the error result unless an earlier error is already being returned"
}

var c05Mutants = []Mutant{
	{Name: "file-adddir-default-mediatype-inverted", File: "content/file/file.go", Old: "\tif mediaType == \"\" {\n\t\tmediaType = defaultBlobDirMediaType", New: "\tif mediaType != \"\" {\n\t\tmediaType = defaultBlobDirMediaType", Expect: "C05.R3.who-may-publish|(*~/content/file.Store).descriptorFromDir|mediaType|default-only-when-empty"},
	// mutation-sweep survivors (test-green)
	{Name: "file-savefile-buffer-put-before-copy", File: "content/file/file.go", Old: "\tbuf := bufPool.Get().(*[]byte)\n\tdefer bufPool.Put(buf)\n\tif err := ioutil.CopyBuffer(fp, content, *buf, expected); err != nil {", New: "\tbuf := bufPool.Get().(*[]byte)\n\tbufPool.Put(buf)\n\tif err := ioutil.CopyBuffer(fp, content, *buf, expected); err != nil {", Expect: "C05.R2.publish-after-verify|(*~/content/file.Store).saveFile|pooled-buffer-released-after-last-use"},
	{Name: "file-adddir-buffer-put-before-tar", File: "content/file/file.go", Old: "\tbuf := bufPool.Get().(*[]byte)\n\tdefer bufPool.Put(buf)\n\tif err := tarDirectory(", New: "\tbuf := bufPool.Get().(*[]byte)\n\tbufPool.Put(buf)\n\tif err := tarDirectory(", Expect: "C05.R2.publish-after-verify|(*~/content/file.Store).descriptorFromDir|pooled-buffer-released-after-last-use"},
	{Name: "file-savefile-never-closes-file", File: "content/file/file.go", Old: "\tdefer func() {\n\t\tcloseErr := fp.Close()\n\t\tif err == nil {\n\t\t\terr = closeErr\n\t\t}\n\t}()\n\tpath := fp.Name()\n", New: "\tpath := fp.Name()\n", Expect: "C05.R4.error-flow|(*~/content/file.Store).saveFile|written-file-is-closed"},
	{Name: "file-addfile-deferred-close-clears-error", File: "content/file/file.go", Old: "\t\tcloseErr := fp.Close()\n\t\tif err == nil {\n\t\t\terr = closeErr\n\t\t}\n\t}()\n\n\tdgst, err := digest.FromReader(fp)", New: "\t\tcloseErr := fp.Close()\n\t\tif err != nil {\n\t\t\terr = closeErr\n\t\t}\n\t}()\n\n\tdgst, err := digest.FromReader(fp)", Expect: "C05.R3.who-may-publish|(*~/content/file.Store).descriptorFromFile|deferred-cleanup-keeps-error"},
	// keeps the repository's tests green: only the algorithm is checked, the encoded part is not
	{Name: "oci-blobpath-validates-algorithm-only", File: "content/oci/readonlystorage.go", Old: "\tif err := dgst.Validate(); err != nil {\n\t\treturn \"\", fmt.Errorf(\"cannot calculate blob path from invalid digest %s: %w: %v\",\n\t\t\tdgst.String(), errdef.ErrInvalidDigest, err)\n\t}", New: "\ti := 0\n\tfor i < len(dgst) && dgst[i] != ':' {\n\t\ti++\n\t}\n\tif i == 0 || i >= len(dgst)-1 || !digest.Algorithm(dgst[:i]).Available() {\n\t\treturn \"\", fmt.Errorf(\"cannot calculate blob path from invalid digest %s: %w\",\n\t\t\tdgst.String(), errdef.ErrInvalidDigest)\n\t}", Expect: "C05.R3.who-may-publish|~/content/oci.blobPath|digest-validated-before-path"},
	// round 4: flat `&&` guards and setter helpers are followed, not trusted
	{Name: "verify-flat-guard-skips-length-check", File: "content/reader.go", Old: "\tif vr.err == nil {\n\t\tif vr.base.N > 0 {\n\t\t\treturn errEarlyVerify\n\t\t}\n\t} else if vr.err != io.EOF {\n\t\treturn vr.err\n\t}\n", New: "\tif vr.err == nil && vr.base.N > 0 && vr.base.N != 1 {\n\t\treturn errEarlyVerify\n\t} else if vr.err != nil && vr.err != io.EOF {\n\t\treturn vr.err\n\t}\n", Expect: "C05.R1.verify-sound|(*~/content.VerifyReader).Verify|nil-implies-length-check"},
	{Name: "read-setter-helper-records-raw-eof", File: "content/reader.go", Old: "\t\tif err == io.EOF && vr.base.N > 0 {\n\t\t\terr = io.ErrUnexpectedEOF\n\t\t}\n\t\tvr.err = err\n\t}\n\treturn\n}\n", New: "\t\tvr.fail(err)\n\t\tif err == io.EOF && vr.base.N > 0 {\n\t\t\terr = io.ErrUnexpectedEOF\n\t\t}\n\t}\n\treturn\n}\n\nfunc (vr *VerifyReader) fail(err error) error {\n\tvr.err = err\n\treturn err\n}\n", Expect: "C05.R1.verify-sound|(*~/content.VerifyReader).Read|early-eof-not-recorded-as-eof"},
	// R5
	{Name: "memory-exists-by-digest-scan", File: "internal/cas/memory.go", Old: "\t_, exists := m.content.Load(key)\n\treturn exists, nil", New: "\tif _, exists := m.content.Load(key); exists {\n\t\treturn true, nil\n\t}\n\tfound := false\n\tm.content.Range(func(k, _ interface{}) bool {\n\t\tstored := k.(descriptor.Descriptor)\n\t\tfound = stored.Digest == key.Digest && stored.Size == key.Size\n\t\treturn !found\n\t})\n\treturn found, nil", Expect: "C05.R5.visibility-readers|(*~/internal/cas.Memory).Exists|"},
	{Name: "memory-exists-by-digest-only-key", File: "internal/cas/memory.go", Old: "\t_, exists := m.content.Load(key)\n\treturn exists, nil", New: "\tif _, exists := m.content.Load(key); exists {\n\t\treturn true, nil\n\t}\n\t_, exists := m.content.Load(descriptor.Descriptor{Digest: key.Digest, Size: key.Size})\n\treturn exists, nil", Expect: "C05.R5.visibility-readers|(*~/internal/cas.Memory).Exists|"},
	{Name: "oci-fetch-any-open-error-is-not-found", File: "content/oci/readonlystorage.go", Old: "\t\tif errors.Is(err, fs.ErrNotExist) {\n\t\t\treturn nil, fmt.Errorf(\"%s: %s: %w\", target.Digest, target.MediaType, errdef.ErrNotFound)\n\t\t}\n\t\treturn nil, err\n\t}\n\n\treturn fp, nil", New: "\t\tif errors.Is(err, fs.ErrNotExist) || errors.Is(err, fs.ErrPermission) {\n\t\t\treturn nil, fmt.Errorf(\"%s: %s: %w\", target.Digest, target.MediaType, errdef.ErrNotFound)\n\t\t}\n\t\treturn nil, err\n\t}\n\n\treturn fp, nil", Expect: "C05.R5.not-found-only-when-absent|(*~/content/oci.ReadOnlyStorage).Fetch|"},
	{Name: "oci-exists-false-for-any-stat-error", File: "content/oci/readonlystorage.go", Old: "\t\tif errors.Is(err, fs.ErrNotExist) {\n\t\t\treturn false, nil\n\t\t}\n\t\treturn false, err", New: "\t\treturn false, nil", Expect: "C05.R5.not-found-only-when-absent|(*~/content/oci.ReadOnlyStorage).Exists|"},
	{Name: "proxy-exists-or-instead-of-and", File: "internal/cas/proxy.go", Old: "\tif err == nil && exists {\n\t\treturn true, nil\n\t}", New: "\tif err == nil || exists {\n\t\treturn true, nil\n\t}", Expect: "C05.R5.visibility-readers|(*~/internal/cas.Proxy).Exists|"},
	{Name: "oci-exists-true-for-missing-blob", File: "content/oci/readonlystorage.go", Old: "\t_, err = fs.Stat(s.fsys, path)\n\tif err != nil {\n\t\tif errors.Is(err, fs.ErrNotExist) {\n\t\t\treturn false, nil\n\t\t}\n\t\treturn false, err\n\t}", New: "\t_, err = fs.Stat(s.fsys, path)\n\tif err != nil && !errors.Is(err, fs.ErrNotExist) {\n\t\treturn false, err\n\t}", Expect: "C05.R5.visibility-readers|(*~/content/oci.ReadOnlyStorage).Exists|"},
	{Name: "memory-exists-true-for-empty-content", File: "internal/cas/memory.go", Old: "\t_, exists := m.content.Load(key)\n\treturn exists, nil", New: "\t_, exists := m.content.Load(key)\n\tif !exists && key.Size == 0 {\n\t\texists = true\n\t}\n\treturn exists, nil", Expect: "C05.R5.visibility-readers|(*~/internal/cas.Memory).Exists|"},
	{Name: "file-exists-falls-back-to-disk", File: "content/file/file.go", Old: "\tif name != \"\" && !s.nameExists(name) {\n\t\treturn false, nil\n\t}", New: "\tif name != \"\" && !s.nameExists(name) {\n\t\t_, err := os.Stat(s.absPath(name))\n\t\treturn err == nil, nil\n\t}", Expect: "C05.R5.visibility-readers|(*~/content/file.Store).Exists|"},
	{Name: "file-fetch-falls-back-to-disk", File: "content/file/file.go", Old: "\tif name != \"\" && !s.nameExists(name) {\n\t\treturn nil, fmt.Errorf(\"%s: %s: %w\", name, target.MediaType, errdef.ErrNotFound)\n\t}", New: "\tif name != \"\" && !s.nameExists(name) {\n\t\tif fp, err := os.Open(s.absPath(name)); err == nil {\n\t\t\treturn fp, nil\n\t\t}\n\t\treturn nil, fmt.Errorf(\"%s: %s: %w\", name, target.MediaType, errdef.ErrNotFound)\n\t}", Expect: "C05.R5.visibility-readers|(*~/content/file.Store).Fetch|"},
	{Name: "file-exists-ignores-name-status", File: "content/file/file.go", Old: "\tif name != \"\" && !s.nameExists(name) {\n\t\treturn false, nil\n\t}\n", New: "\t_ = name\n", Expect: "C05.R5.visibility-readers|(*~/content/file.Store).Exists|"},
	{Name: "oci-fetch-serves-ingest-file", File: "content/oci/readonlystorage.go", Old: "\t\tif errors.Is(err, fs.ErrNotExist) {\n\t\t\treturn nil, fmt.Errorf(\"%s: %s: %w\", target.Digest, target.MediaType, errdef.ErrNotFound)\n\t\t}\n\t\treturn nil, err\n\t}\n\n\treturn fp, nil", New: "\t\tif errors.Is(err, fs.ErrNotExist) {\n\t\t\tif matches, _ := fs.Glob(s.fsys, \"ingest/\"+target.Digest.Encoded()+\"_*\"); len(matches) > 0 {\n\t\t\t\tif tmp, err := s.fsys.Open(matches[0]); err == nil {\n\t\t\t\t\treturn tmp, nil\n\t\t\t\t}\n\t\t\t}\n\t\t\treturn nil, fmt.Errorf(\"%s: %s: %w\", target.Digest, target.MediaType, errdef.ErrNotFound)\n\t\t}\n\t\treturn nil, err\n\t}\n\n\treturn fp, nil", Expect: "C05.R5.visibility-readers|(*~/content/oci.ReadOnlyStorage).Fetch|"},
	// R1 verify-sound
	{Name: "verify-early-by-one", File: "content/reader.go", Old: "\t\tif vr.base.N > 0 {\n\t\t\treturn errEarlyVerify", New: "\t\tif vr.base.N > 1 {\n\t\t\treturn errEarlyVerify", Expect: "C05.R1.verify-sound|(*~/content.VerifyReader).Verify|nil-implies-length-check"},
	{Name: "read-records-early-eof", File: "content/reader.go", Old: "\t\tif err == io.EOF && vr.base.N > 0 {", New: "\t\tif err == io.EOF && vr.base.N > 1 {", Expect: "C05.R1.verify-sound|(*~/content.VerifyReader).Read|early-eof-not-recorded-as-eof"},
	{Name: "verify-skips-trailing-probe", File: "content/reader.go", Old: "\tif err := ensureEOF(vr.base.R); err != nil {\n\t\tvr.err = err\n\t\treturn vr.err\n\t}\n", New: "", Expect: "C05.R1.verify-sound|(*~/content.VerifyReader).Verify|"},
	{Name: "verify-probes-limited-reader", File: "content/reader.go", Old: "\tif err := ensureEOF(vr.base.R); err != nil {", New: "\tif err := ensureEOF(vr.base); err != nil {", Expect: "C05.R1.verify-sound|(*~/content.VerifyReader).Verify|"},
	{Name: "ensureeof-any-error-is-eof", File: "content/reader.go", Old: "\tif err != io.EOF {\n\t\treturn ErrTrailingData", New: "\tif err == nil {\n\t\treturn ErrTrailingData", Expect: "C05.R1.verify-sound|~/content.ensureEOF|eof-probe"},
	{Name: "verify-skips-digest", File: "content/reader.go", Old: "\tif !vr.verifier.Verified() {\n\t\tvr.err = ErrMismatchedDigest\n\t\treturn vr.err\n\t}\n", New: "", Expect: "C05.R1.verify-sound|(*~/content.VerifyReader).Verify|nil-implies-digest-verified"},
	{Name: "verified-flag-before-digest", File: "content/reader.go", Old: "\tif !vr.verifier.Verified() {\n\t\tvr.err = ErrMismatchedDigest\n\t\treturn vr.err\n\t}\n\n\tvr.verified = true\n", New: "\tvr.verified = true\n\tif !vr.verifier.Verified() {\n\t\tvr.err = ErrMismatchedDigest\n\t\treturn vr.err\n\t}\n\n", Expect: "C05.R1.verify-sound|(*~/content.VerifyReader).Verify|verified-flag-set-only-after-checks"},
	{Name: "verify-returns-nil-on-recorded-error", File: "content/reader.go", Old: "\t} else if vr.err != io.EOF {\n\t\treturn vr.err\n\t}", New: "\t} else if vr.err != io.EOF && vr.err != io.ErrUnexpectedEOF {\n\t\treturn vr.err\n\t}", Expect: "C05.R1.verify-sound|(*~/content.VerifyReader).Verify|nil-implies-length-check"},
	{Name: "verify-records-eof-on-early-verify", File: "content/reader.go", Old: "\t\tif vr.base.N > 0 {\n\t\t\treturn errEarlyVerify", New: "\t\tif vr.base.N > 0 {\n\t\t\tvr.err = io.EOF\n\t\t\treturn errEarlyVerify", Expect: "C05.R1.verify-sound|(*~/content.VerifyReader).Verify|eof-recorded-only-after-checks"},
	// R1 wiring
	{Name: "tee-into-a-different-verifier", File: "content/reader.go", Old: "\t\tR: io.TeeReader(r, verifier),", New: "\t\tR: io.TeeReader(r, desc.Digest.Verifier()),", Expect: "C05.R1.verify-reader-wiring"},
	{Name: "limit-not-descriptor-size", File: "content/reader.go", Old: "\t\tN: desc.Size,\n", New: "\t\tN: desc.Size + 1,\n", Expect: "C05.R1.verify-reader-wiring|~/content.NewVerifyReader|limit-is-descriptor-size"},
	// R1 consumers
	{Name: "readall-skips-verify-for-empty", File: "content/reader.go", Old: "\tif err := vr.Verify(); err != nil {\n\t\treturn nil, err\n\t}\n\treturn buf, nil", New: "\tif err := vr.Verify(); err != nil && desc.Size > 0 {\n\t\treturn nil, err\n\t}\n\treturn buf, nil", Expect: "C05.R1.verify-consumers|~/content.ReadAll|verify-on-every-success"},
	{Name: "copybuffer-tolerates-trailing-data", File: "internal/ioutil/io.go", Old: "\treturn vr.Verify()", New: "\tif err := vr.Verify(); err != nil && err != content.ErrTrailingData {\n\t\treturn err\n\t}\n\treturn nil", Expect: "C05.R1.verify-consumers|~/internal/ioutil.CopyBuffer|verify-on-every-success"},
	{Name: "copybuffer-bypasses-verifier-for-empty", File: "internal/ioutil/io.go", Old: "\tvr := content.NewVerifyReader(src, desc)\n", New: "\tvr := content.NewVerifyReader(src, desc)\n\tif desc.Size == 0 {\n\t\t_, err := io.CopyBuffer(dst, src, buf)\n\t\treturn err\n\t}\n", Expect: "C05.R1.verify-consumers|~/internal/ioutil.CopyBuffer|source-only-through-verifier"},
	{Name: "readall-negative-size-off-by-one", File: "content/reader.go", Old: "\tif desc.Size < 0 {\n\t\treturn nil, ErrInvalidDescriptorSize", New: "\tif desc.Size < -1 {\n\t\treturn nil, ErrInvalidDescriptorSize", Expect: "C05.R1.verify-consumers|~/content.ReadAll|negative-size-rejected-before-alloc"},
	{Name: "fetchall-unverified", File: "content/storage.go", Old: "\treturn ReadAll(rc, desc)", New: "\treturn io.ReadAll(io.LimitReader(rc, desc.Size))", Expect: "C05.R1.verify-consumers|~/content.FetchAll|returns-readall-of-fetched-stream"},
	// R2
	{Name: "memory-stores-on-trailing-data", File: "internal/cas/memory.go", Old: "\tvalue, err := contentpkg.ReadAll(content, expected)\n\tif err != nil {", New: "\tvalue, err := contentpkg.ReadAll(content, expected)\n\tif err != nil && err != contentpkg.ErrTrailingData {", Expect: "C05.R2.publish-after-verify|(*~/internal/cas.Memory).Push|store-dominated-by-verified-read"},
	{Name: "memory-key-from-other-descriptor", File: "internal/cas/memory.go", Old: "\tif _, exists := m.content.LoadOrStore(key, value); exists {", New: "\tif _, exists := m.content.LoadOrStore(descriptor.Descriptor{MediaType: expected.MediaType, Digest: expected.Digest}, value); exists {", Expect: "C05.R2.publish-after-verify|(*~/internal/cas.Memory).Push|key-is-same-descriptor"},
	{Name: "oci-ingest-tolerates-short-copy", File: "content/oci/storage.go", Old: "\tif err := ioutil.CopyBuffer(fp, content, *buf, expected); err != nil {", New: "\tif err := ioutil.CopyBuffer(fp, content, *buf, expected); err != nil && !errors.Is(err, io.ErrUnexpectedEOF) {", Expect: "C05.R2.publish-after-verify|(*~/content/oci.Storage).ingest|nil-error-implies-verified-copy"},
	{Name: "oci-rename-even-if-ingest-failed", File: "content/oci/storage.go", Old: "\tingest, err := s.ingest(expected, content)\n\tif err != nil {\n\t\treturn err\n\t}\n", New: "\tingest, err := s.ingest(expected, content)\n\tif err != nil && !errors.Is(err, os.ErrPermission) {\n\t\treturn err\n\t}\n", Expect: "C05.R2.publish-after-verify|(*~/content/oci.Storage).Push|rename-dominated-by-successful-ingest"},
	{Name: "oci-ingest-inside-blobs", File: "content/oci/storage.go", Old: "\t\tingestRoot:      filepath.Join(rootAbs, \"ingest\"),", New: "\t\tingestRoot:      filepath.Join(rootAbs, \"blobs\", \"ingest\"),", Expect: "C05.R2.publish-after-verify|(*~/content/oci.Storage).ingest|temp-file-outside-blobs"},
	{Name: "oci-ingest-clears-error-on-close", File: "content/oci/storage.go", Old: "\t\tif err := fp.Close(); err != nil && ingestErr == nil {\n\t\t\tingestErr = fmt.Errorf(\"failed to close ingest file: %w\", err)\n\t\t}", New: "\t\tif err := fp.Close(); err == nil {\n\t\t\tingestErr = err\n\t\t}", Expect: "C05.R2.publish-after-verify|(*~/content/oci.Storage).ingest|nil-error-implies-verified-copy"},
	{Name: "file-digest-recorded-before-copy", File: "content/file/file.go", Old: "\tif err := ioutil.CopyBuffer(fp, content, *buf, expected); err != nil {\n\t\treturn fmt.Errorf(\"failed to copy content to %s: %w\", path, err)\n\t}\n\n\ts.digestToPath.Store(expected.Digest, path)\n", New: "\ts.digestToPath.Store(expected.Digest, path)\n\tif err := ioutil.CopyBuffer(fp, content, *buf, expected); err != nil {\n\t\treturn fmt.Errorf(\"failed to copy content to %s: %w\", path, err)\n\t}\n\n", Expect: "C05.R2.publish-after-verify|(*~/content/file.Store).saveFile|digest-recorded-only-after-verified-copy"},
	{Name: "file-pushfile-does-not-truncate", File: "content/file/file.go", Old: "\tfp, err := os.Create(target)\n", New: "\tfp, err := os.OpenFile(target, os.O_WRONLY|os.O_CREATE, 0666)\n", Expect: "C05.R2.publish-after-verify|(*~/content/file.Store).saveFile|written-file-starts-empty"},
	{Name: "file-name-exists-before-write", File: "content/file/file.go", Old: "\tif needUnpack := expected.Annotations[AnnotationUnpack]; needUnpack == \"true\" && !s.SkipUnpack {", New: "\tstatus.exists = true\n\tif needUnpack := expected.Annotations[AnnotationUnpack]; needUnpack == \"true\" && !s.SkipUnpack {", Expect: "C05.R2.publish-after-verify|(*~/content/file.Store).push|exists-set-only-after-success"},
	{Name: "file-savefile-deferred-helper-clears-error", File: "content/file/file.go", Old: "\tdefer func() {\n\t\tcloseErr := fp.Close()\n\t\tif err == nil {\n\t\t\terr = closeErr\n\t\t}\n\t}()\n\tpath := fp.Name()\n\n\tbuf := bufPool.Get().(*[]byte)\n\tdefer bufPool.Put(buf)\n\tif err := ioutil.CopyBuffer(fp, content, *buf, expected); err != nil {\n\t\treturn fmt.Errorf(\"failed to copy content to %s: %w\", path, err)\n\t}\n\n\ts.digestToPath.Store(expected.Digest, path)\n\treturn nil\n}\n", New: "\tdefer closeFile(fp, &err)\n\tpath := fp.Name()\n\n\tbuf := bufPool.Get().(*[]byte)\n\tdefer bufPool.Put(buf)\n\tif err := ioutil.CopyBuffer(fp, content, *buf, expected); err != nil {\n\t\treturn fmt.Errorf(\"failed to copy content to %s: %w\", path, err)\n\t}\n\n\ts.digestToPath.Store(expected.Digest, path)\n\treturn nil\n}\n\nfunc closeFile(fp *os.File, err *error) { *err = fp.Close() }\n", Expect: "C05.R2.publish-after-verify|(*~/content/file.Store).saveFile|deferred-close-keeps-error"},
	{Name: "file-savefile-deferred-helper-drops-close-error", File: "content/file/file.go", Old: "\tdefer func() {\n\t\tcloseErr := fp.Close()\n\t\tif err == nil {\n\t\t\terr = closeErr\n\t\t}\n\t}()\n\tpath := fp.Name()\n\n\tbuf := bufPool.Get().(*[]byte)\n\tdefer bufPool.Put(buf)\n\tif err := ioutil.CopyBuffer(fp, content, *buf, expected); err != nil {\n\t\treturn fmt.Errorf(\"failed to copy content to %s: %w\", path, err)\n\t}\n\n\ts.digestToPath.Store(expected.Digest, path)\n\treturn nil\n}\n", New: "\tdefer closeFile(fp)\n\tpath := fp.Name()\n\n\tbuf := bufPool.Get().(*[]byte)\n\tdefer bufPool.Put(buf)\n\tif err := ioutil.CopyBuffer(fp, content, *buf, expected); err != nil {\n\t\treturn fmt.Errorf(\"failed to copy content to %s: %w\", path, err)\n\t}\n\n\ts.digestToPath.Store(expected.Digest, path)\n\treturn nil\n}\n\nfunc closeFile(fp *os.File) { fp.Close() }\n", Expect: "C05.R4.error-flow|(*~/content/file.Store).saveFile|deferred-close-error-recorded"},
	// R2 wrappers
	{Name: "oci-store-tags-before-push", File: "content/oci/oci.go", Old: "\tif err := s.storage.Push(ctx, expected, reader); err != nil {\n\t\treturn err\n\t}\n\tif err := s.graph.Index(ctx, s.storage, expected); err != nil {\n\t\treturn err\n\t}\n\tif descriptor.IsManifest(expected) {\n\t\t// tag by digest\n\t\treturn s.tag(ctx, expected, expected.Digest.String())\n\t}\n\treturn nil", New: "\tif descriptor.IsManifest(expected) {\n\t\t// tag by digest\n\t\tif err := s.tag(ctx, expected, expected.Digest.String()); err != nil {\n\t\t\treturn err\n\t\t}\n\t}\n\tif err := s.storage.Push(ctx, expected, reader); err != nil {\n\t\treturn err\n\t}\n\treturn s.graph.Index(ctx, s.storage, expected)", Expect: "C05.R2.wrapper-forwards-descriptor|(*~/content/oci.Store).Push|bookkeeping-only-after-successful-inner-push"},
	// R3
	{Name: "memory-second-writer", File: "internal/cas/memory.go", Old: "// Map dumps the memory into a built-in map structure.", New: "// Preload stores bytes under key.\nfunc (m *Memory) Preload(key descriptor.Descriptor, b []byte) { m.content.Store(key, b) }\n\n// Map dumps the memory into a built-in map structure.", Expect: "C05.R3.who-may-publish|~/internal/cas.Memory.content|"},
	{Name: "oci-direct-blob-write", File: "content/oci/storage.go", Old: "// ensureDir ensures the directories of the path exists.", New: "// putRaw writes a small blob in place.\nfunc (s *Storage) putRaw(expected ocispec.Descriptor, b []byte) error {\n\tp, err := blobPath(expected.Digest)\n\tif err != nil {\n\t\treturn err\n\t}\n\treturn os.WriteFile(filepath.Join(s.root, p), b, 0444)\n}\n\n// ensureDir ensures the directories of the path exists.", Expect: "C05.R3.who-may-publish|(*~/content/oci.Storage).putRaw|os.WriteFile#1"},
	{Name: "file-add-records-digest-before-error-check", File: "content/file/file.go", Old: "\tdgst, err := digest.FromReader(fp)\n\tif err != nil {\n\t\treturn ocispec.Descriptor{}, err\n\t}\n\t// map digest to file path\n\ts.digestToPath.Store(dgst, path)\n", New: "\tdgst, err := digest.FromReader(fp)\n\t// map digest to file path\n\ts.digestToPath.Store(dgst, path)\n\tif err != nil {\n\t\treturn ocispec.Descriptor{}, err\n\t}\n", Expect: "C05.R3.who-may-publish|(*~/content/file.Store).descriptorFromFile|recorded-digest-is-computed-over-recorded-file"},
	{Name: "file-adddir-no-explicit-flush", File: "content/file/file.go", Old: "\t// flush all\n\tif err := gzw.Close(); err != nil {\n\t\treturn ocispec.Descriptor{}, err\n\t}\n", New: "\t// flush all\n", Expect: "C05.R3.who-may-publish|(*~/content/file.Store).descriptorFromDir|recorded-digest-is-computed-over-recorded-file"},
	// R4
	{Name: "file-push-duplicate-name-reported-as-success", File: "content/file/file.go", Old: "\t\tif errors.Is(err, errSkipUnnamed) {\n\t\t\treturn nil\n\t\t}", New: "\t\tif errors.Is(err, errSkipUnnamed) || errors.Is(err, ErrDuplicateName) {\n\t\t\treturn nil\n\t\t}", Expect: "C05.R4.error-flow|(*~/content/file.Store).Push|"},
	{Name: "oci-chmod-error-ignored", File: "content/oci/storage.go", Old: "\tif err := os.Chmod(path, 0444); err != nil {\n\t\treturn \"\", fmt.Errorf(\"failed to make readonly: %w\", err)\n\t}", New: "\t_ = os.Chmod(path, 0444)", Expect: "C05.R4.error-flow|(*~/content/oci.Storage).ingest|os.Chmod"},
	{Name: "oci-close-error-dropped", File: "content/oci/storage.go", Old: "\t\tif err := fp.Close(); err != nil && ingestErr == nil {\n\t\t\tingestErr = fmt.Errorf(\"failed to close ingest file: %w\", err)\n\t\t}", New: "\t\tfp.Close()", Expect: "C05.R4.error-flow|(*~/content/oci.Storage).ingest|deferred-close-error-recorded"},
	{Name: "file-create-error-swallowed", File: "content/file/file.go", Old: "\tfp, err := os.Create(target)\n\tif err != nil {\n\t\treturn fmt.Errorf(\"failed to create file %s: %w\", target, err)\n\t}", New: "\tfp, err := os.Create(target)\n\tif err != nil {\n\t\treturn nil\n\t}", Expect: "C05.R4.error-flow|(*~/content/file.Store).pushFile|os.Create"},
}

// ---------------------------------------------------------------- R5: visibility readers

// c05R5 decides the read side of "leaves Exists false and Fetch failing": a
// built-in store answers Exists==true / hands out a reader only on evidence
// from the published state (the content map, a file at the blob path of the
// descriptor's digest, the digest->path map behind the name gate) or by
// forwarding the answer of an inner store for the same descriptor.
func c05R5(c *Ctx) {
	const R = "C05.R5.visibility-readers"
	c.Expect(R, 14)
	type spec struct{ pkg, name string }
	bp := c05BlobPathFns(c.P)
	for _, x := range []spec{
		{"internal/cas", "Memory.Exists"}, {"internal/cas", "Memory.Fetch"}, {"internal/cas", "Proxy.Exists"}, {"internal/cas", "Proxy.FetchCached"},
		{"content/oci", "ReadOnlyStorage.Exists"}, {"content/oci", "ReadOnlyStorage.Fetch"},
		{"content/oci", "Store.Exists"}, {"content/oci", "Store.Fetch"}, {"content/oci", "ReadOnlyStore.Exists"}, {"content/oci", "ReadOnlyStore.Fetch"},
		{"content/memory", "Store.Exists"}, {"content/memory", "Store.Fetch"},
		{"content/file", "Store.Exists"}, {"content/file", "Store.Fetch"},
	} {
		fn0 := c.P.Fn(x.pkg, x.name)
		if fn0 == nil || len(fn0.Blocks) == 0 {
			c.LostAnchor(R, x.pkg+"."+x.name)
			continue
		}
		if c07DescParam(fn0) == nil {
			c.LostAnchor(R, FnName(fn0)+": descriptor parameter")
			continue
		}
		// the entry point and the same-package helpers it hands the descriptor to (depth <= 3)
		// kind: what the designated parameter is — the descriptor ("desc"), its graph/CAS key
		// descriptor.FromOCI(desc) ("key"), or its digest ("digest")
		type job struct {
			fn    *ssa.Function
			depth int
			kind  string
			param *ssa.Parameter
		}
		work := []job{{fn0, 0, "desc", c07DescParam(fn0)}}
		done := map[*ssa.Function]bool{}
		for len(work) > 0 {
			j := work[0]
			work = work[1:]
			if done[j.fn] {
				continue
			}
			done[j.fn] = true
			fn := j.fn
			tn := FnName(fn)
			target := j.param
			isExists := fn.Signature.Results().Len() >= 1 && types.Identical(fn.Signature.Results().At(0).Type(), types.Typ[types.Bool])
			isTarget := func(v ssa.Value) bool { return j.kind == "desc" && c05DescSource(v) == target }
			keyOfTarget := func(v ssa.Value) bool {
				if j.kind == "key" {
					return c05Unspill(v) == ssa.Value(target) || c05ParamOf(v) == target
				}
				return j.kind == "desc" && c07IsKeyOf(v, func(x ssa.Value) bool { return c05ParamOf(x) == target })
			}
			digestOfTarget := func(v ssa.Value) bool {
				if j.kind == "digest" {
					return strip(v) == ssa.Value(target)
				}
				return c05FieldOfParam(v, "Digest") == target
			}
			// which role an argument plays for the callee
			roleOf := func(a ssa.Value) string {
				switch {
				case c05IsOCIDescriptor(a.Type()) && isTarget(a):
					return "desc"
				case keyOfTarget(a):
					return "key"
				case digestOfTarget(a):
					return "digest"
				}
				return ""
			}
			// answers forwarded from an inner store / published map for the same descriptor
			forward := map[ssa.Value]bool{}
			var evidence [][][]Edge // alternatives; within one alternative every group must be passed by a self-made positive answer
			for _, call := range Calls(fn, func(string) bool { return true }) {
				if _, isDefer := call.(*ssa.Defer); isDefer {
					continue
				}
				n := CalleeName(call)
				args := call.Common().Args
				helperFwd := false
				if h := c05Helper(call, fn); h != nil && j.depth < 3 && ResultOf(call, 0) != nil && h.Signature.Results().Len() >= 1 &&
					types.Identical(h.Signature.Results().At(0).Type(), fn.Signature.Results().At(0).Type()) {
					for i, a := range args {
						if k := roleOf(a); k != "" && i < len(h.Params) && !helperFwd {
							helperFwd = true
							work = append(work, job{h, j.depth + 1, k, h.Params[i]}) // the helper answers for the same content: it is held to the same rule
						}
					}
				}
				switch {
				case helperFwd || strings.HasSuffix(n, ").Exists") || strings.HasSuffix(n, ").Fetch") || strings.HasSuffix(n, ").FetchCached"):
					same := helperFwd
					for _, a := range args {
						if c05IsOCIDescriptor(a.Type()) && isTarget(a) {
							same = true
						}
					}
					if same {
						if r0 := ResultOf(call, 0); r0 != nil {
							forward[r0] = true
							// `if ok, err := inner.Exists(...); err == nil && ok { return true, nil }`
							if te, _ := BoolTests(fn, Aliases(r0)); len(te) > 0 {
								evidence = append(evidence, [][]Edge{te, c05NilEdgesOf(call)})
							}
						}
					}
				case c05MapOpName(call) == "(*sync.Map).Load":
					mv := c05MapOp(call)
					args := []ssa.Value{mv.Recv, mv.Key}
					// the key must be the one the publication uses for the same descriptor (R2): the CAS key
					// descriptor.FromOCI(desc) for cas.Memory, the digest for the file store's digest->path map —
					// a hit under any weaker key is not evidence that Fetch of this descriptor succeeds
					okKey := (c05IsFieldAddrOf(args[0], "~/internal/cas.Memory", c05Cur.F("cas.content")) && keyOfTarget(args[1])) ||
						(c05IsFieldAddrOf(args[0], "~/content/file.Store", c05Cur.F("file.digestToPath")) && digestOfTarget(args[1]))
					published := okKey
					if okKey && published {
						if okv := mv.Ok; okv != nil {
							forward[okv] = true
							te, _ := BoolTests(fn, Aliases(okv))
							evidence = append(evidence, [][]Edge{te})
						}
					}
				case n == "io/fs.Stat" || n == "(io/fs.FS).Open":
					// a file at the blob path of the target's digest
					p := args[len(args)-1]
					okPath := false
					for _, bc := range Calls(fn, func(string) bool { return true }) {
						if g := StaticCallee(bc); g != nil && bp[g] && c05BlobPathArg(bc) != nil && (digestOfTarget(c05BlobPathArg(bc)) || (c05IsOCIDescriptor(c05BlobPathArg(bc).Type()) && isTarget(c05BlobPathArg(bc)))) {
							if r0 := ResultOf(bc, 0); r0 != nil && SameValue(p, r0) {
								okPath = true
							}
						}
					}
					if okPath {
						evidence = append(evidence, [][]Edge{c05NilEdgesOf(call)})
						if r0 := ResultOf(call, 0); r0 != nil && n != "io/fs.Stat" {
							forward[r0] = true
						}
					}
				case n == "os.Open":
					// the file recorded for the target's digest
					for _, r := range Roots(args[0]) {
						if ta, isTA := r.(*ssa.TypeAssert); isTA {
							r = ta.X
						}
						if e, isE := r.(*ssa.Extract); isE {
							lc, isC := e.Tuple.(*ssa.Call)
							var mv *c05MapView
							if isC {
								mv = c05MapOp(lc)
							}
							if mv != nil && mv.Name == "(*sync.Map).Load" && mv.Value == ssa.Value(e) && c05IsFieldAddrOf(mv.Recv, "~/content/file.Store", c05Cur.F("file.digestToPath")) && digestOfTarget(mv.Key) {
								if r0 := ResultOf(call, 0); r0 != nil {
									forward[r0] = true
								}
							}
						}
					}
				}
			}
			// cas.Memory.Fetch builds a reader over the loaded bytes: any value is fine behind the ok edge
			// name gate of the file store
			gate := c05NameGateEdges(fn, 0)
			hasGate := len(gate) > 0
			if x.pkg == "content/file" && !hasGate {
				c.Violation(R, tn+"|positive-answer-has-evidence", fn.Pos(), "the file store no longer consults the name status: content of a name whose push failed or never happened is reported as present")
				continue
			}
			ok, detail := true, "every positive answer is evidence from the published state for this descriptor or the forwarded answer of an inner store"
			errIdx := ErrResultIndex(fn.Signature)
			for _, r := range Returns(fn) {
				if !ReachableFromEntry(r) {
					continue
				}
				// refusals need no evidence
				refusal := errIdx >= 0
				if errIdx >= 0 {
					for _, ev := range Roots(r.Results[errIdx]) {
						if ErrNilStatus(ev, 0) != NonNil {
							refusal = false
						}
					}
				}
				if refusal {
					continue
				}
				positive := false
				resVals := Roots(r.Results[0])
				if cell := cellOf(r.Results[0]); cell != nil && len(closureWriters(cell)) > 0 {
					// a variable assigned inside a callback (e.g. a scan of the map): its value is whatever the callback decided
					resVals = []ssa.Value{r.Results[0]}
				}
				for _, v := range resVals {
					v = strip(v)
					if k, isK := v.(*ssa.Const); isK {
						if isExists && k.Value != nil && k.Value.String() == "false" {
							continue
						}
						if !isExists && k.Value == nil {
							continue
						}
					}
					positive = true
					if forward[v] {
						continue
					}
					// self-made positive answer: needs every evidence group on the path
					if len(evidence) == 0 {
						ok, detail = false, "the return at "+c.P.Pos(r.Pos())+" answers positively ("+describe(v)+") without any evidence from the published state"
						continue
					}
					justified := false
					for _, alt := range evidence {
						all := true
						for _, grp := range alt {
							if !MustPass(r, newCut().Edges(grp...)) {
								all = false
							}
						}
						if all {
							justified = true
						}
					}
					if !justified {
						ok, detail = false, "the return at "+c.P.Pos(r.Pos())+" answers positively ("+describe(v)+") on a path that did not find the content in the published state"
					}
				}
				if positive && hasGate && !MustPass(r, newCut().Edges(gate...)) {
					ok, detail = false, "the return at "+c.P.Pos(r.Pos())+" answers positively for a named descriptor without the name being marked as existing (a failed push leaves a file on disk that must stay invisible)"
				}
			}
			c.Check(R, tn+"|positive-answer-has-evidence", fn.Pos(), ok, detail)
		}
	}
}

// c05NameGateEdges: the edges of fn (a function of the file store) on which
// "the descriptor is unnamed, or its name is marked as existing" holds: the
// true edge of a nameExists-role call (a function that reads
// nameStatus.exists), the name=="" edge of its argument, and the matching
// edge of a boolean helper result that implies the same.
func c05NameGateEdges(fn *ssa.Function, depth int) []Edge {
	if fnPkgPath(fn) != pkgPath("content/file") {
		return nil
	}
	var gate []Edge
	isGateCall := func(call ssa.CallInstruction) bool {
		g := StaticCallee(call)
		return g != nil && fnPkgPath(g) == pkgPath("content/file") && call.Value() != nil &&
			g.Signature.Results().Len() == 1 && types.Identical(g.Signature.Results().At(0).Type(), types.Typ[types.Bool]) &&
			len(c05FieldUses([]*ssa.Function{g}, c05Cur.T("file.nameStatus"), c05Cur.F("file.status.exists"))) > 0
	}
	for _, call := range Calls(fn, func(string) bool { return true }) {
		if _, isDefer := call.(*ssa.Defer); isDefer {
			continue
		}
		if isGateCall(call) {
			te, _ := BoolTests(fn, Aliases(call.Value()))
			gate = append(gate, te...)
			nameArg := call.Common().Args[len(call.Common().Args)-1]
			eq, _ := c05EmptyStrEdges(fn, func(v ssa.Value) bool { return SameValue(v, nameArg) })
			gate = append(gate, eq...)
			continue
		}
		// a helper with a boolean result whose false (or true) value implies the gate
		h := c05Helper(call, fn)
		if h == nil || depth >= 2 {
			continue
		}
		sub := c05NameGateEdges(h, depth+1)
		if len(sub) == 0 {
			continue
		}
		isGateVal := func(v ssa.Value) bool {
			cc, ok := strip(v).(*ssa.Call)
			return ok && isGateCall(cc)
		}
		for k := 0; k < h.Signature.Results().Len(); k++ {
			if !types.Identical(h.Signature.Results().At(k).Type(), types.Typ[types.Bool]) {
				continue
			}
			falseImplies, trueImplies := true, true
			atoms := RetAtoms(h, k)
			for _, a := range atoms {
				passes := c05AtomMustPass(a, newCut().Edges(sub...))
				switch v := a.Val.(type) {
				case *ssa.Const:
					isTrue := v.Value != nil && v.Value.String() == "true"
					if isTrue && !passes {
						trueImplies = false
					}
					if !isTrue && !passes {
						falseImplies = false
					}
				default:
					switch {
					case isGateVal(a.Val): // r is x: r true => x true => gate; r false says nothing
						if !passes {
							falseImplies = false
						}
					case func() bool {
						u, isNot := a.Val.(*ssa.UnOp)
						return isNot && u.Op == token.NOT && isGateVal(u.X)
					}(): // r is !x: r false => x true => gate; r true says nothing
						if !passes {
							trueImplies = false
						}
					default:
						if !passes {
							falseImplies, trueImplies = false, false
						}
					}
				}
			}
			rk := ResultOf(call, k)
			if rk == nil || len(atoms) == 0 {
				continue
			}
			te, fe := BoolTests(fn, Aliases(rk))
			if falseImplies {
				gate = append(gate, fe...)
			}
			if trueImplies {
				gate = append(gate, te...)
			}
		}
	}
	return gate
}

// ---------------------------------------------------------------- R5: absence is reported only for absence

// c05R5NotFound: in the built-in stores a failed open/stat/remove is turned
// into "not found" (an error wrapping errdef.ErrNotFound, or a nil error, i.e.
// "absent") only on the edge where the failure IS the not-exist condition
// (errors.Is(err, fs.ErrNotExist) / os.IsNotExist(err)); every other failure
// surfaces as an error that does not wrap ErrNotFound.  graph.IndexAll skips
// not-found nodes on purpose, so a transient I/O error disguised as not-found
// silently drops a manifest's edges while the store opens successfully.
func c05R5NotFound(c *Ctx) {
	const R = "C05.R5.not-found-only-when-absent"
	c.Expect(R, 4)
	probes := map[string]bool{"os.Open": true, "os.Stat": true, "os.Lstat": true, "io/fs.Stat": true, "(io/fs.FS).Open": true, "os.Remove": true, "os.ReadFile": true, "io/fs.ReadFile": true}
	isNotExist := func(v ssa.Value) bool {
		n := sentinelName(v)
		return n == "io/fs.ErrNotExist" || n == "os.ErrNotExist"
	}
	for _, pkg := range []string{"content/oci", "content/file", "internal/cas", "content/memory"} {
		for _, fn := range c05FuncsOfPkg(c.P, pkg) {
			if ErrResultIndex(fn.Signature) < 0 {
				continue
			}
			storeOp := c07DescParam(fn) != nil // an operation on a descriptor: a nil error after a failed probe means "absent"
			nf := map[ssa.Value]bool{}
			AllInstrs(fn, func(in ssa.Instruction) {
				if u, ok := in.(*ssa.UnOp); ok && sentinelOf(u) == "~/errdef.ErrNotFound" {
					nf[u] = true
				}
			})
			seen := map[string]int{}
			for _, call := range Calls(fn, func(n string) bool { return probes[n] }) {
				if _, isDefer := call.(*ssa.Defer); isDefer {
					continue
				}
				e := ErrOf(call)
				if e == nil {
					continue
				}
				al := Aliases(e)
				_, nonNil, ifs := NilTests(fn, al)
				if len(ifs) == 0 {
					continue // returned as is, or ignored: nothing is relabelled
				}
				// edges on which the failure is known to be "does not exist"
				ct := newCut()
				for _, i := range Ifs(fn) {
					cond, t, _ := ifEdges(i)
					cc, isCall := cond.(*ssa.Call)
					if !isCall || len(cc.Call.Args) == 0 || !al[cc.Call.Args[0]] {
						continue
					}
					switch CalleeName(cc) {
					case "os.IsNotExist":
						ct.Edges(t)
					case "errors.Is":
						if isNotExist(cc.Call.Args[1]) {
							ct.Edges(t)
						}
					}
				}
				eq, _ := c05EqEdges(fn, func(v ssa.Value) bool { return al[v] }, isNotExist)
				ct.Edges(eq...)
				ct.Instr(call.(ssa.Instruction)) // a retry gives a new error value
				bad := ""
				relabels := false
				for _, ne := range nonNil {
					for _, rt := range c06ReturnsFrom(fn, ne, ct) {
						for _, v := range rt.Vals {
							if al[v] || al[strip(v)] {
								continue
							}
							if len(nf) > 0 && derivesFromAny(v, nf, 0) {
								bad = "the return at " + c.P.Pos(rt.Ret.Pos()) + " reports ErrNotFound"
							}
							if storeOp && ErrNilStatus(v, 0) == IsNil {
								bad = "the return at " + c.P.Pos(rt.Ret.Pos()) + " reports no error (absent / done)"
							}
						}
					}
					// is there any relabelling at all behind the not-exist edge?  (instance counting)
					for _, rt := range c06ReturnsFrom(fn, ne, newCut().Instr(call.(ssa.Instruction))) {
						for _, v := range rt.Vals {
							if (len(nf) > 0 && derivesFromAny(v, nf, 0) || storeOp && ErrNilStatus(v, 0) == IsNil) && !al[v] {
								relabels = true
							}
						}
					}
				}
				if !relabels && bad == "" {
					continue
				}
				n := CalleeName(call)
				seen[n]++
				c.Check(R, fmt.Sprintf("%s|%s#%d", FnName(fn), n, seen[n]), call.Pos(), bad == "",
					ifelse(bad == "", "ErrNotFound is produced only on the edge where the failure is fs.ErrNotExist; other failures are returned as they are",
						"after "+n+" failed, "+bad+" although the failure was not established to be 'does not exist' (EACCES, EMFILE, EIO … are disguised as absence; IndexAll then silently skips the node and Predecessors loses its edges)"))
			}
		}
	}
}

// c05SkipSentinels: the unexported package-level error variables of
// content/file that the exported Store.Push compares its inner error with
// (errors.Is / ==): the "discard unnamed content on request" signal.  An
// exported sentinel (ErrDuplicateName, …) is never in this set.
func c05SkipSentinels(p *Prog) []string {
	fn := p.Fn("content/file", "Store.Push")
	if fn == nil {
		return nil
	}
	set := map[string]bool{}
	AllInstrs(fn, func(in ssa.Instruction) {
		var cands []ssa.Value
		switch x := in.(type) {
		case *ssa.Call:
			if CalleeName(x) == "errors.Is" && len(x.Call.Args) == 2 {
				cands = append(cands, x.Call.Args[1])
			}
		case *ssa.BinOp:
			if x.Op == token.EQL || x.Op == token.NEQ {
				cands = append(cands, x.X, x.Y)
			}
		}
		for _, v := range cands {
			u, ok := strip(v).(*ssa.UnOp)
			if !ok {
				continue
			}
			g, ok := u.X.(*ssa.Global)
			if ok && fnPkgPathOfGlobal(g) == pkgPath("content/file") && !token.IsExported(g.Name()) && isErrorType(g.Type().(*types.Pointer).Elem()) {
				set[short(g.Pkg.Pkg.Path()+"."+g.Name())] = true
			}
		}
	})
	return c05SortedKeys(set)
}

func fnPkgPathOfGlobal(g *ssa.Global) string { return g.Pkg.Pkg.Path() }
