package main

// E8c — abstract evaluation of straight-line string builders.
//
// stTemplateOf(fn) evaluates the string result of fn along every acyclic path
// of its CFG (φ resolved by the path's predecessor) into a template: literal
// text, named holes for values the builder does not compute itself
// (parameters, fields of parameters, method calls such as ref.Host()), and
// alternatives guarded by the branch condition.  Understood constructors:
// string constants, `+`, fmt.Sprintf with a constant format (%s %v %d %%),
// strings.Join of a slice literal with a constant separator, and calls of
// other functions of the same package with a body (inlined to depth 3).
// Anything else becomes an stUnknown node, which the caller must report as
// Undecided (never silently accepted).
//
// Rendering: holes `{registry.Reference.Host()}`, alternatives
// `[cond?then:else]`; common prefixes/suffixes of the two arms are factored
// out so that `if q != "" {…}` builders print as `prefix[cond?suffix:]`.

import (
	"fmt"
	"go/token"
	"go/types"
	"strings"

	"golang.org/x/tools/go/ssa"
)

type stNode interface{ render() string }

type (
	stLit  string
	stHole struct{ Name string }
	stCat  []stNode
	stAlt  struct {
		Cond       string
		Then, Else stNode
	}
	stUnknown struct{ What string }
)

func stEscape(s string) string {
	r := strings.NewReplacer("{", `\{`, "}", `\}`, "[", `\[`, "]", `\]`)
	return r.Replace(s)
}

func (n stLit) render() string     { return stEscape(string(n)) }
func (n stHole) render() string    { return "{" + n.Name + "}" }
func (n stUnknown) render() string { return "{?" + n.What + "}" }
func (n stCat) render() string {
	var sb strings.Builder
	for _, x := range n {
		sb.WriteString(x.render())
	}
	return sb.String()
}
func (n stAlt) render() string {
	return "[" + n.Cond + "?" + n.Then.render() + ":" + n.Else.render() + "]"
}

// stUnknowns lists the unknown nodes of a template.
func stUnknowns(n stNode) []string {
	var out []string
	var rec func(n stNode)
	rec = func(n stNode) {
		switch x := n.(type) {
		case stUnknown:
			out = append(out, x.What)
		case stHole:
			if strings.Contains(x.Name, "?") {
				out = append(out, "a value the evaluator cannot name: "+x.Name)
			}
		case stCat:
			for _, y := range x {
				rec(y)
			}
		case stAlt:
			rec(x.Then)
			rec(x.Else)
		}
	}
	rec(n)
	return out
}

// stHoles lists the hole names of a template in order of appearance.
func stHoles(n stNode) []string {
	var out []string
	var rec func(n stNode)
	rec = func(n stNode) {
		switch x := n.(type) {
		case stHole:
			out = append(out, x.Name)
		case stCat:
			for _, y := range x {
				rec(y)
			}
		case stAlt:
			rec(x.Then)
			rec(x.Else)
		}
	}
	rec(n)
	return out
}

// ---------- normalisation ----------

func stFlatten(n stNode) []stNode {
	var out []stNode
	var add func(n stNode)
	add = func(n stNode) {
		switch x := n.(type) {
		case stCat:
			for _, y := range x {
				add(y)
			}
		case stLit:
			if x == "" {
				return
			}
			if k := len(out); k > 0 {
				if l, ok := out[k-1].(stLit); ok {
					out[k-1] = l + x
					return
				}
			}
			out = append(out, x)
		case stAlt:
			out = append(out, stNormAlt(x)...)
		default:
			out = append(out, n)
		}
	}
	add(n)
	// merge literals that became adjacent after factoring
	var merged []stNode
	for _, x := range out {
		if l, ok := x.(stLit); ok {
			if k := len(merged); k > 0 {
				if p, ok := merged[k-1].(stLit); ok {
					merged[k-1] = p + l
					continue
				}
			}
		}
		merged = append(merged, x)
	}
	return merged
}

func stJoinNodes(ns []stNode) stNode {
	switch len(ns) {
	case 0:
		return stLit("")
	case 1:
		return ns[0]
	}
	return stCat(ns)
}

// stNormAlt factors the common prefix and suffix out of an alternative.
func stNormAlt(a stAlt) []stNode {
	t, e := stFlatten(a.Then), stFlatten(a.Else)
	var pre, suf []stNode
	for len(t) > 0 && len(e) > 0 {
		if t[0].render() == e[0].render() {
			pre = append(pre, t[0])
			t, e = t[1:], e[1:]
			continue
		}
		lt, ok1 := t[0].(stLit)
		le, ok2 := e[0].(stLit)
		if ok1 && ok2 {
			k := 0
			for k < len(lt) && k < len(le) && lt[k] == le[k] {
				k++
			}
			for k > 0 && stAlnum(lt[k-1]) { // never split inside a word
				k--
			}
			if k > 0 {
				pre = append(pre, lt[:k])
				t = append([]stNode{lt[k:]}, t[1:]...)
				e = append([]stNode{le[k:]}, e[1:]...)
				if lt[k:] == "" {
					t = t[1:]
				}
				if le[k:] == "" {
					e = e[1:]
				}
			}
		}
		break
	}
	for len(t) > 0 && len(e) > 0 {
		lt, le := t[len(t)-1], e[len(e)-1]
		if lt.render() == le.render() {
			suf = append([]stNode{lt}, suf...)
			t, e = t[:len(t)-1], e[:len(e)-1]
			continue
		}
		a, ok1 := lt.(stLit)
		b, ok2 := le.(stLit)
		if ok1 && ok2 {
			k := 0
			for k < len(a) && k < len(b) && a[len(a)-1-k] == b[len(b)-1-k] {
				k++
			}
			for k > 0 && stAlnum(a[len(a)-k]) {
				k--
			}
			if k > 0 {
				suf = append([]stNode{a[len(a)-k:]}, suf...)
				t = append(t[:len(t)-1:len(t)-1], a[:len(a)-k])
				e = append(e[:len(e)-1:len(e)-1], b[:len(b)-k])
				if a[:len(a)-k] == "" {
					t = t[:len(t)-1]
				}
				if b[:len(b)-k] == "" {
					e = e[:len(e)-1]
				}
			}
		}
		break
	}
	var out []stNode
	out = append(out, pre...)
	if len(t) > 0 || len(e) > 0 {
		out = append(out, stAlt{Cond: a.Cond, Then: stJoinNodes(t), Else: stJoinNodes(e)})
	}
	out = append(out, suf...)
	return out
}

func stAlnum(c byte) bool {
	return c >= '0' && c <= '9' || c >= 'a' && c <= 'z' || c >= 'A' && c <= 'Z'
}

func stNormalize(n stNode) stNode { return stJoinNodes(stFlatten(n)) }

// ---------- evaluation ----------

const (
	stMaxDepth = 6
	stMaxPaths = 128
)

// stBinding is what a parameter stands for: a template (string-valued
// arguments of an inlined call) or a symbolic name.
type stBinding struct {
	tmpl stNode
	name string
	val  ssa.Value // the argument itself (slice literals handed to variadic helpers)
	fr   *stFrame  // the frame val is evaluated in
}

type stFrame struct {
	fn     *ssa.Function
	params map[*ssa.Parameter]stBinding
	preds  map[*ssa.BasicBlock]*ssa.BasicBlock // predecessor on the current path
	depth  int
	paths  *int
}

func stTypeName(t types.Type) string {
	if p, ok := t.(*types.Pointer); ok {
		t = p.Elem() // a pointer parameter denotes the same role as the value
	}
	return types.TypeString(t, func(p *types.Package) string { return p.Name() })
}

// stParamNames names the parameters of the outermost function by type when
// the type is unique among them (robust against renaming), else type#index.
func stParamNames(fn *ssa.Function) map[*ssa.Parameter]stBinding {
	count := map[string]int{}
	for _, p := range fn.Params {
		count[stTypeName(p.Type())]++
	}
	out := map[*ssa.Parameter]stBinding{}
	for i, p := range fn.Params {
		n := stTypeName(p.Type())
		if count[n] > 1 {
			n = fmt.Sprintf("%s#%d", n, i)
		}
		b := stBinding{name: n}
		if isStringType(p.Type()) {
			b.tmpl = stHole{Name: n}
		}
		out[p] = b
	}
	return out
}

func isStringType(t types.Type) bool {
	b, ok := t.Underlying().(*types.Basic)
	return ok && b.Info()&types.IsString != 0
}

// stTemplateOf evaluates result #idx (a string) of fn.
func stTemplateOf(fn *ssa.Function, idx int) stNode { return stTemplateWith(fn, idx, nil) }

// stTemplateWith evaluates fn with some string parameters replaced by given
// templates (the instantiation of a parameterised builder at a call site).
func stTemplateWith(fn *ssa.Function, idx int, with map[*ssa.Parameter]stNode) stNode {
	paths := 0
	params := stParamNames(fn)
	for p, n := range with {
		params[p] = stBinding{tmpl: n}
	}
	fr := &stFrame{fn: fn, params: params, preds: map[*ssa.BasicBlock]*ssa.BasicBlock{}, paths: &paths}
	return stNormalize(fr.fromBlock(fn.Blocks[0], idx, map[*ssa.BasicBlock]bool{}))
}

// fromBlock: template of result idx when control is at the start of block b.
func (fr *stFrame) fromBlock(b *ssa.BasicBlock, idx int, onPath map[*ssa.BasicBlock]bool) stNode {
	if onPath[b] {
		return stUnknown{"loop in " + FnName(fr.fn)}
	}
	onPath[b] = true
	defer delete(onPath, b)
	last := b.Instrs[len(b.Instrs)-1]
	switch t := last.(type) {
	case *ssa.Return:
		*fr.paths++
		if *fr.paths > stMaxPaths {
			return stUnknown{"too many paths in " + FnName(fr.fn)}
		}
		if idx >= len(t.Results) {
			return stUnknown{"result index"}
		}
		return fr.eval(t.Results[idx])
	case *ssa.Jump:
		s := b.Succs[0]
		old, had := fr.preds[s]
		fr.preds[s] = b
		n := fr.fromBlock(s, idx, onPath)
		if had {
			fr.preds[s] = old
		} else {
			delete(fr.preds, s)
		}
		return n
	case *ssa.If:
		cond, neg := fr.cond(t.Cond)
		var arms [2]stNode
		for i := 0; i < 2; i++ {
			s := b.Succs[i]
			old, had := fr.preds[s]
			fr.preds[s] = b
			arms[i] = fr.fromBlock(s, idx, onPath)
			if had {
				fr.preds[s] = old
			} else {
				delete(fr.preds, s)
			}
		}
		if neg {
			arms[0], arms[1] = arms[1], arms[0]
		}
		return stAlt{Cond: cond, Then: arms[0], Else: arms[1]}
	}
	return stUnknown{fmt.Sprintf("block terminator %T in %s", last, FnName(fr.fn))}
}

// cond names a branch condition; neg tells that the arms must be swapped to
// bring it to the canonical polarity (x != y, not !x).
func (fr *stFrame) cond(v ssa.Value) (string, bool) {
	neg := false
	for {
		u, ok := v.(*ssa.UnOp)
		if !ok || u.Op != token.NOT {
			break
		}
		v, neg = u.X, !neg
	}
	if bo, ok := v.(*ssa.BinOp); ok && (bo.Op == token.EQL || bo.Op == token.NEQ) {
		if bo.Op == token.EQL {
			neg = !neg
		}
		return fr.sym(bo.X) + "!=" + fr.sym(bo.Y), neg
	}
	return fr.sym(v), neg
}

// sym names an arbitrary value.
func (fr *stFrame) sym(v ssa.Value) string {
	switch u := v.(type) {
	case *ssa.Parameter:
		if b, ok := fr.params[u]; ok {
			if b.name != "" {
				return b.name
			}
			if b.tmpl != nil {
				return b.tmpl.render()
			}
		}
		return "?param"
	case *ssa.Const:
		if u.Value == nil {
			return "nil"
		}
		return u.Value.ExactString()
	case *ssa.UnOp:
		if u.Op == token.MUL {
			switch a := u.X.(type) {
			case *ssa.Alloc:
				if s := stSingleStore(a); s != nil {
					return fr.sym(s.Val)
				}
			case *ssa.FieldAddr:
				return fr.sym(stBaseValue(a.X)) + "." + stFieldName(a.X.Type(), a.Field)
			case *ssa.Global:
				return short(a.Pkg.Pkg.Name() + "." + a.Name())
			case *ssa.Parameter:
				return fr.sym(a) // *p of a pointer parameter: same role as the value
			}
		}
	case *ssa.Field:
		return fr.sym(u.X) + "." + stFieldName(u.X.Type(), u.Field)
	case *ssa.Alloc:
		if s := stSingleStore(u); s != nil {
			return fr.sym(s.Val) // &x of a spilled parameter: same role
		}
	case *ssa.Extract:
		return fr.sym(u.Tuple) + fmt.Sprintf("#%d", u.Index)
	case *ssa.MakeMap:
		return stTypeName(u.Type()) + "{}"
	case *ssa.MakeInterface:
		return fr.sym(u.X)
	case *ssa.ChangeType:
		return fr.sym(u.X)
	case *ssa.Convert:
		return stTypeName(u.Type()) + "(" + fr.sym(u.X) + ")"
	case *ssa.Call:
		name := CalleeName(u)
		args := u.Call.Args
		if u.Call.IsInvoke() {
			return fr.sym(u.Call.Value) + "." + u.Call.Method.Name() + "(" + fr.symList(args) + ")"
		}
		if f := StaticCallee(u); f != nil && f.Signature.Recv() != nil && len(args) > 0 {
			return fr.sym(args[0]) + "." + f.Name() + "(" + fr.symList(args[1:]) + ")"
		}
		return name + "(" + fr.symList(args) + ")"
	case *ssa.Phi:
		if p, ok := fr.preds[u.Block()]; ok {
			for i, q := range u.Block().Preds {
				if q == p {
					return fr.sym(u.Edges[i])
				}
			}
		}
	}
	if isStringType(v.Type()) {
		return fr.eval(v).render()
	}
	return "?" + v.Name()
}

func (fr *stFrame) symList(vs []ssa.Value) string {
	var parts []string
	for _, v := range vs {
		parts = append(parts, fr.sym(v))
	}
	return strings.Join(parts, ",")
}

// stBaseValue: for &x.f where x is a spilled parameter cell, the value in x.
func stBaseValue(addr ssa.Value) ssa.Value {
	if a, ok := addr.(*ssa.Alloc); ok {
		if s := stSingleStore(a); s != nil {
			return s.Val
		}
	}
	return addr
}

// stSingleStore returns the only whole-cell store to a, provided no field or
// element of a is written separately (spilled parameter or plain local).
func stSingleStore(a *ssa.Alloc) *ssa.Store {
	var st *ssa.Store
	for _, r := range *a.Referrers() {
		switch u := r.(type) {
		case *ssa.Store:
			if u.Addr == ssa.Value(a) {
				if st != nil {
					return nil
				}
				st = u
			}
		case *ssa.FieldAddr:
			for _, r2 := range *u.Referrers() {
				if s, ok := r2.(*ssa.Store); ok && s.Addr == ssa.Value(u) {
					return nil
				}
			}
		case *ssa.IndexAddr:
			for _, r2 := range *u.Referrers() {
				if s, ok := r2.(*ssa.Store); ok && s.Addr == ssa.Value(u) {
					return nil
				}
			}
		}
	}
	return st
}

func stFieldName(t types.Type, idx int) string {
	if p, ok := t.Underlying().(*types.Pointer); ok {
		t = p.Elem()
	}
	if st, ok := t.Underlying().(*types.Struct); ok && idx < st.NumFields() {
		return st.Field(idx).Name()
	}
	return fmt.Sprintf("#%d", idx)
}

// eval evaluates a string-typed value.
func (fr *stFrame) eval(v ssa.Value) stNode {
	if s, ok := constString(v); ok {
		return stLit(s)
	}
	switch u := v.(type) {
	case *ssa.Parameter:
		if b, ok := fr.params[u]; ok && b.tmpl != nil {
			return b.tmpl
		}
		return stHole{Name: fr.sym(u)}
	case *ssa.Phi:
		if p, ok := fr.preds[u.Block()]; ok {
			for i, q := range u.Block().Preds {
				if q == p {
					return fr.eval(u.Edges[i])
				}
			}
		}
		return stUnknown{"phi " + u.Name() + " outside the evaluated path"}
	case *ssa.BinOp:
		if u.Op == token.ADD {
			return stCat{fr.eval(u.X), fr.eval(u.Y)}
		}
	case *ssa.ChangeType:
		return fr.eval(u.X)
	case *ssa.Convert:
		if isStringType(u.X.Type()) {
			return fr.eval(u.X) // string(namedString) / namedString(string)
		}
	case *ssa.UnOp:
		if u.Op == token.MUL {
			if a, ok := u.X.(*ssa.Alloc); ok {
				if s := stSingleStore(a); s != nil {
					return fr.eval(s.Val)
				}
				return stUnknown{"local " + a.Comment + " with several stores"}
			}
			return stHole{Name: fr.sym(u)}
		}
	case *ssa.Field:
		return stHole{Name: fr.sym(u)}
	case *ssa.Call:
		return fr.evalCall(u)
	case *ssa.Extract:
		if lk, ok := u.Tuple.(*ssa.Lookup); ok && u.Index == 0 {
			if n := fr.lookup(lk); n != nil {
				return n
			}
		}
	case *ssa.Lookup:
		if n := fr.lookup(u); n != nil {
			return n
		}
	}
	return stUnknown{fmt.Sprintf("%T %s in %s", v, v.Name(), FnName(fr.fn))}
}

// lookup evaluates table[index] for an immutable package-level map literal of
// strings (e.g. scheme by plain-HTTP flag): the alternatives by key.
func (fr *stFrame) lookup(lk *ssa.Lookup) stNode {
	ld, ok := lk.X.(*ssa.UnOp)
	if !ok || ld.Op != token.MUL {
		return nil
	}
	g, ok := ld.X.(*ssa.Global)
	if !ok {
		return nil
	}
	ml, ok := sxGlobalValue(g).(sxMapLit)
	if !ok {
		return nil
	}
	val := func(v sxVal) (stNode, bool) {
		k, ok := v.(sxConst)
		if !ok {
			return nil, false
		}
		str, ok := constString(k.c)
		return stLit(str), ok
	}
	if k, isConst := lk.Index.(*ssa.Const); isConst {
		for i, key := range ml.keys {
			if key.key() == (sxConst{k}).key() {
				n, ok := val(ml.vals[i])
				if ok {
					return n
				}
				return nil
			}
		}
		return stLit("")
	}
	if b, isBool := lk.Index.Type().Underlying().(*types.Basic); isBool && b.Kind() == types.Bool {
		var arms [2]stNode = [2]stNode{stLit(""), stLit("")} // [true, false]
		for i, key := range ml.keys {
			n, ok := val(ml.vals[i])
			if !ok {
				return nil
			}
			if key.key() == "const:true" {
				arms[0] = n
			} else {
				arms[1] = n
			}
		}
		cond, neg := fr.cond(lk.Index)
		if neg {
			arms[0], arms[1] = arms[1], arms[0]
		}
		return stAlt{Cond: cond, Then: arms[0], Else: arms[1]}
	}
	// other key types: a chain of alternatives, "" when absent
	var out stNode = stLit("")
	for i := len(ml.keys) - 1; i >= 0; i-- {
		n, ok := val(ml.vals[i])
		if !ok {
			return nil
		}
		out = stAlt{Cond: fr.sym(lk.Index) + "==" + ml.keys[i].key(), Then: n, Else: out}
	}
	return out
}

// stLitElems resolves the elements of a slice literal / variadic pack:
// `slice t[:]` of a local array whose elements are each stored once at a
// constant index.
func stLitElems(v ssa.Value) ([]ssa.Value, bool) {
	if c, ok := v.(*ssa.Const); ok && c.Value == nil {
		return nil, true // nil variadic
	}
	sl, ok := v.(*ssa.Slice)
	if !ok || sl.Low != nil || sl.High != nil {
		return nil, false
	}
	a, ok := sl.X.(*ssa.Alloc)
	if !ok {
		return nil, false
	}
	arr, ok := a.Type().(*types.Pointer).Elem().Underlying().(*types.Array)
	if !ok {
		return nil, false
	}
	out := make([]ssa.Value, arr.Len())
	for _, r := range *a.Referrers() {
		switch u := r.(type) {
		case *ssa.IndexAddr:
			k, ok := constInt(u.Index)
			if !ok || k < 0 || k >= arr.Len() {
				return nil, false
			}
			for _, r2 := range *u.Referrers() {
				s, ok := r2.(*ssa.Store)
				if !ok || s.Addr != ssa.Value(u) || out[k] != nil {
					return nil, false
				}
				out[k] = s.Val
			}
		case *ssa.Slice, *ssa.DebugRef:
		default:
			return nil, false
		}
	}
	for _, x := range out {
		if x == nil {
			return nil, false
		}
	}
	return out, true
}

func (fr *stFrame) evalCall(c *ssa.Call) stNode {
	name := CalleeName(c)
	args := c.Call.Args
	switch name {
	case "(*strings.Builder).String":
		return fr.builder(c)
	case "fmt.Sprintf":
		return fr.sprintf(args[0], args[1])
	case "strings.Join":
		sep, ok := constString(args[1])
		if !ok {
			return stUnknown{"strings.Join with a non-constant separator"}
		}
		// the slice may be a (variadic) parameter of an inlined helper: resolve it in the caller
		list, lfr := args[0], fr
		for {
			p, isParam := list.(*ssa.Parameter)
			if !isParam {
				break
			}
			b, ok := lfr.params[p]
			if !ok || b.val == nil || b.fr == nil {
				break
			}
			list, lfr = b.val, b.fr
		}
		elems, ok := stLitElems(list)
		if !ok {
			return stUnknown{"strings.Join of a non-literal slice"}
		}
		var out stCat
		for i, e := range elems {
			if i > 0 {
				out = append(out, stLit(sep))
			}
			out = append(out, lfr.eval(e))
		}
		return out
	}
	f := StaticCallee(c)
	if f != nil && f.Signature.Recv() == nil && len(f.Blocks) > 0 && f.Pkg == fr.fn.Pkg && f.Signature.Results().Len() == 1 && len(f.FreeVars) == 0 {
		if fr.depth >= stMaxDepth {
			return stUnknown{"inlining depth exceeded at " + FnName(f)}
		}
		params := map[*ssa.Parameter]stBinding{}
		for i, p := range f.Params {
			b := stBinding{name: fr.sym(args[i]), val: args[i], fr: fr}
			if isStringType(p.Type()) {
				b.tmpl = fr.eval(args[i])
				b.name = ""
			}
			params[p] = b
		}
		sub := &stFrame{fn: f, params: params, preds: map[*ssa.BasicBlock]*ssa.BasicBlock{}, depth: fr.depth + 1, paths: fr.paths}
		return sub.fromBlock(f.Blocks[0], 0, map[*ssa.BasicBlock]bool{})
	}
	// method calls and foreign functions stay named holes
	return stHole{Name: fr.sym(c)}
}

// sprintf evaluates a Sprintf-style (constant format, literal operand list).
func (fr *stFrame) sprintf(formatV, listV ssa.Value) stNode {
	format, ok := constString(formatV)
	if !ok {
		return stUnknown{"fmt.Sprintf with a non-constant format"}
	}
	elems, ok := stLitElems(listV)
	if !ok {
		return stUnknown{"fmt.Sprintf with a non-literal argument list"}
	}
	var out stCat
	ai := 0
	for i := 0; i < len(format); i++ {
		ch := format[i]
		if ch != '%' {
			out = append(out, stLit(string(ch)))
			continue
		}
		i++
		if i >= len(format) {
			return stUnknown{"fmt.Sprintf format ends in %"}
		}
		switch format[i] {
		case '%':
			out = append(out, stLit("%"))
		case 's', 'v', 'd':
			if ai >= len(elems) {
				return stUnknown{"fmt.Sprintf: missing argument"}
			}
			out = append(out, fr.fmtArg(elems[ai], format[i]))
			ai++
		default:
			return stUnknown{"fmt.Sprintf verb %" + string(format[i])}
		}
	}
	if ai != len(elems) {
		return stUnknown{"fmt.Sprintf: extra arguments"}
	}
	return out
}

// builder evaluates b.String() of a local strings.Builder: the WriteString /
// WriteByte / WriteRune / fmt.Fprintf(&b, …) calls executed on the evaluated
// path, in order.
func (fr *stFrame) builder(c *ssa.Call) stNode {
	b, ok := c.Call.Args[0].(*ssa.Alloc)
	if !ok {
		return stHole{Name: fr.sym(c)}
	}
	// blocks of the path, entry first
	var blocks []*ssa.BasicBlock
	for x := c.Block(); x != nil; {
		blocks = append([]*ssa.BasicBlock{x}, blocks...)
		p, ok := fr.preds[x]
		if !ok {
			break
		}
		x = p
		if len(blocks) > 1000 {
			return stUnknown{"path too long"}
		}
	}
	var out stCat
	for _, blk := range blocks {
		for _, in := range blk.Instrs {
			if in == ssa.Instruction(c) {
				return out
			}
			call, ok := in.(*ssa.Call)
			if !ok {
				continue
			}
			name := CalleeName(call)
			args := call.Call.Args
			onB := len(args) > 0 && args[0] == ssa.Value(b)
			switch {
			case onB && name == "(*strings.Builder).WriteString":
				out = append(out, fr.eval(args[1]))
			case onB && (name == "(*strings.Builder).WriteByte" || name == "(*strings.Builder).WriteRune"):
				k, isConst := constInt(args[1])
				if !isConst {
					return stUnknown{"strings.Builder." + name + " of a non-constant"}
				}
				out = append(out, stLit(string(rune(k))))
			case onB && (name == "(*strings.Builder).Grow" || name == "(*strings.Builder).Len"):
			case onB:
				return stUnknown{"strings.Builder used by " + name}
			case name == "fmt.Fprintf" && len(args) == 3:
				if mi, ok := args[0].(*ssa.MakeInterface); ok && mi.X == ssa.Value(b) {
					out = append(out, fr.sprintf(args[1], args[2]))
				}
			case name == "fmt.Fprint" || name == "fmt.Fprintln" || name == "io.WriteString":
				for _, a := range args {
					if mi, ok := a.(*ssa.MakeInterface); ok && mi.X == ssa.Value(b) {
						return stUnknown{"strings.Builder written by " + name}
					}
				}
			}
		}
	}
	return stUnknown{"strings.Builder.String() not on the evaluated path"}
}

// fmtArg renders one Sprintf operand under %s/%v/%d.
func (fr *stFrame) fmtArg(v ssa.Value, verb byte) stNode {
	if mi, ok := v.(*ssa.MakeInterface); ok {
		v = mi.X
	}
	t := v.Type()
	if isStringType(t) && verb != 'd' {
		if _, named := t.(*types.Named); named && stHasStringMethod(t) {
			return stHole{Name: fr.sym(v) + ".String()"} // fmt calls the Stringer
		}
		return fr.eval(v)
	}
	if stHasStringMethod(t) && verb != 'd' {
		return stHole{Name: fr.sym(v) + ".String()"}
	}
	return stHole{Name: fr.sym(v) + ":%" + string(verb)}
}

func stHasStringMethod(t types.Type) bool {
	ms := types.NewMethodSet(t)
	for i := 0; i < ms.Len(); i++ {
		if f, ok := ms.At(i).Obj().(*types.Func); ok && f.Name() == "String" {
			sig := f.Type().(*types.Signature)
			if sig.Params().Len() == 0 && sig.Results().Len() == 1 && isStringType(sig.Results().At(0).Type()) {
				return true
			}
		}
	}
	return false
}
