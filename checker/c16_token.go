package main

// C16.R6 — the token fetch: which flow is chosen for which credential, what the
// token request carries per grant, and that an empty token is never a success.
// Anchors are roles: the token fetchers are the functions run inside Cache.Set's
// fetch callback (BV \ SV) that build a request whose URL is the challenge's
// realm; GET = distribution flow, POST = OAuth2 flow.

import (
	"fmt"
	"go/token"
	"strings"

	"golang.org/x/tools/go/ssa"
)

const c16Cred = "~/registry/remote/auth.Credential"

// c16CredFieldOf: the Credential field(s) v is loaded from (through helper parameters).
func (e *c16Env) credFieldsOf(v ssa.Value) map[string]bool {
	out := map[string]bool{}
	for _, l := range e.BV.Leaves(v) {
		switch u := l.(type) {
		case *ssa.UnOp:
			if fa, ok := u.X.(*ssa.FieldAddr); ok && u.Op == token.MUL && c14NamedOf(fa.X.Type()) == c16Cred {
				out[strings.TrimPrefix(fieldName(fa.X.Type(), fa.Field), c16Cred+".")] = true
				continue
			}
		case *ssa.Field:
			if c14NamedOf(u.X.Type()) == c16Cred {
				out[strings.TrimPrefix(fieldName(u.X.Type(), u.Field), c16Cred+".")] = true
				continue
			}
		}
		out["?"] = true
	}
	return out
}

func c16Only(m map[string]bool, want string) bool { return len(m) == 1 && m[want] }

// emptyTests: edges on which a string value loaded from Credential.<field> is "" / not "".
func (e *c16Env) emptyTests(f *ssa.Function, field string) (empty, nonEmpty []Edge) {
	for _, i := range Ifs(f) {
		cond, t, fe := ifEdges(i)
		bo, ok := cond.(*ssa.BinOp)
		if !ok || (bo.Op != token.EQL && bo.Op != token.NEQ) {
			continue
		}
		x, y := bo.X, bo.Y
		if s, isS := constString(y); !isS || s != "" {
			x, y = y, x
		}
		if s, isS := constString(y); !isS || s != "" {
			continue
		}
		if !c16Only(e.credFieldsOf(x), field) {
			continue
		}
		if bo.Op == token.EQL {
			empty, nonEmpty = append(empty, t), append(nonEmpty, fe)
		} else {
			empty, nonEmpty = append(empty, fe), append(nonEmpty, t)
		}
	}
	return
}

func c16TokenRules(e *c16Env) {
	const R = "C16.R6.token-fetch"
	c := e.c
	c.Expect(R, 5)
	// the token fetchers by role
	var dist, oauth []*ssa.Function
	for _, f := range e.BV.Funcs() {
		if e.SV.Has(f) {
			continue
		}
		for _, nr := range CallsTo(f, "net/http.NewRequestWithContext") {
			if ok, _ := e.isRealm(nr.Common().Args[2]); !ok {
				continue
			}
			switch m, _ := constString(nr.Common().Args[1]); m {
			case "GET":
				dist = append(dist, f)
			case "POST":
				oauth = append(oauth, f)
			}
		}
	}
	if len(dist) == 0 || len(oauth) == 0 {
		c.LostAnchor(R, "the two token fetchers (GET and POST request to the challenge's realm inside the Cache.Set fetch callback)")
		return
	}
	isOf := func(call ssa.CallInstruction, set []*ssa.Function) bool {
		for _, g := range set {
			if StaticCallee(call) == g {
				return true
			}
		}
		return false
	}
	// --- grant selection: where both flows are called from
	for _, f := range e.BV.Funcs() {
		var dc, oc []ssa.CallInstruction
		for _, call := range Calls(f, func(string) bool { return true }) {
			if isOf(call, dist) {
				dc = append(dc, call)
			}
			if isOf(call, oauth) {
				oc = append(oc, call)
			}
		}
		if len(dc) == 0 || len(oc) == 0 {
			continue
		}
		fn := FnName(f)
		// facts established by the branches taken on a path (conditions resolved per path, so that
		// `a && b` materialised as a phi and switch case lists are seen through)
		factsOf := func(path c16Path) map[string]bool {
			facts := map[string]bool{}
			for i := 0; i+1 < len(path); i++ {
				b := path[i]
				ifi, isIf := b.Instrs[len(b.Instrs)-1].(*ssa.If)
				if !isIf {
					continue
				}
				taken := path[i+1] == b.Succs[0]
				cond := ifi.Cond
				for k := 0; k < 6; k++ {
					r, _ := c16ResolveOnPath(cond, path, i, len(b.Instrs), 0)
					if u, isNot := r.(*ssa.UnOp); isNot && u.Op == token.NOT {
						cond, taken = u.X, !taken
						continue
					}
					cond = r
					break
				}
				switch x := cond.(type) {
				case *ssa.BinOp:
					if x.Op != token.EQL && x.Op != token.NEQ {
						continue
					}
					eq := (x.Op == token.EQL) == taken
					isG := func(v ssa.Value) bool {
						u, ok := v.(*ssa.UnOp)
						if !ok {
							return false
						}
						g, ok := u.X.(*ssa.Global)
						return ok && g.Name() == "EmptyCredential"
					}
					if isG(x.X) || isG(x.Y) {
						facts["cred:"+ifelse(eq, "empty", "nonempty")] = true
						continue
					}
					l, r := x.X, x.Y
					if s, isS := constString(r); !isS || s != "" {
						l, r = r, l
					}
					if s, isS := constString(r); isS && s == "" {
						for fld := range e.credFieldsOf(l) {
							if len(e.credFieldsOf(l)) == 1 {
								facts[fld+":"+ifelse(eq, "empty", "nonempty")] = true
							}
						}
					}
				case *ssa.UnOp:
					if fa, ok := x.X.(*ssa.FieldAddr); ok && x.Op == token.MUL && fieldName(fa.X.Type(), fa.Field) == "~/registry/remote/auth.Client.ForceAttemptOAuth2" {
						facts["force:"+ifelse(taken, "true", "false")] = true
					}
				}
			}
			return facts
		}
		okO, okD := true, true
		decided := true
		for _, call := range oc {
			paths, ok := c16FeasiblePaths(call.(ssa.Instruction), 4000)
			if !ok {
				decided = false
			}
			for _, p := range paths {
				fs := factsOf(p)
				if !(fs["RefreshToken:nonempty"] || fs["force:true"]) || !(fs["cred:nonempty"] || fs["RefreshToken:nonempty"] || fs["Username:nonempty"] || fs["Password:nonempty"]) {
					okO = false
				}
			}
		}
		for _, call := range dc {
			paths, ok := c16FeasiblePaths(call.(ssa.Instruction), 4000)
			if !ok {
				decided = false
			}
			for _, p := range paths {
				fs := factsOf(p)
				if !(fs["cred:empty"] || (fs["RefreshToken:empty"] && fs["force:false"])) {
					okD = false
				}
			}
		}
		if !decided {
			c.Undecided(R, fn+"|grant-selection", f.Pos(), "too many paths to decide the grant selection")
			continue
		}
		c.Check(R, fn+"|oauth2-only-with-refresh-token-or-forced", oc[0].Pos(), okO,
			ifelse(okO, "the OAuth2 flow is reached only with a refresh token or ForceAttemptOAuth2, and never for the empty credential", "the OAuth2 token flow can be chosen without a refresh token and without ForceAttemptOAuth2 (or for the empty credential): registries that only implement the distribution token endpoint answer with an error although the credentials are valid"))
		c.Check(R, fn+"|distribution-only-without-refresh-token-and-unforced", dc[0].Pos(), okD,
			ifelse(okD, "the distribution flow is reached only for the empty credential, or without a refresh token and with ForceAttemptOAuth2 unset", "the distribution token flow can be chosen although a refresh token is configured (it is never sent: the identity-token login fails with 401) or although OAuth2 is forced"))
	}
	// --- the OAuth2 request: grant_type and its secret on every path, service / client_id always, scope when there are scopes
	assigns := func(f *ssa.Function, key string) []ssa.Instruction {
		var out []ssa.Instruction
		AllInstrs(f, func(in ssa.Instruction) {
			switch x := in.(type) {
			case *ssa.Call:
				n := CalleeName(x)
				if (n == "(net/url.Values).Set" || n == "(net/url.Values).Add") && len(x.Call.Args) == 3 {
					if k, ok := constString(x.Call.Args[1]); ok && k == key {
						out = append(out, x)
					}
				}
			case *ssa.MapUpdate:
				if k, ok := constString(x.Key); ok && k == key && strings.HasSuffix(x.Map.Type().String(), "net/url.Values") {
					out = append(out, x)
				}
			}
		})
		return out
	}
	valueOf := func(in ssa.Instruction) ssa.Value {
		switch x := in.(type) {
		case *ssa.Call:
			return x.Call.Args[2]
		case *ssa.MapUpdate:
			return x.Value
		}
		return nil
	}
	for _, f := range oauth {
		fn := FnName(f)
		var reqs []ssa.Instruction
		for _, nr := range CallsTo(f, "net/http.NewRequestWithContext") {
			reqs = append(reqs, nr.(ssa.Instruction))
		}
		grants := assigns(f, "grant_type")
		okG := len(grants) > 0
		for _, rq := range reqs {
			if !MustPass(rq, newCut().Instr(grants...)) {
				okG = false
			}
		}
		detail := "grant_type is not set on every path to the token request"
		for _, g := range grants {
			gt, _ := constString(valueOf(g))
			var need map[string]string // form key -> credential field
			switch gt {
			case "refresh_token":
				need = map[string]string{"refresh_token": "RefreshToken"}
			case "password":
				need = map[string]string{"username": "Username", "password": "Password"}
			default:
				okG, detail = false, "grant_type "+gt+" is not one of refresh_token / password"
				continue
			}
			for k, field := range need {
				as := assigns(f, k)
				found := false
				for _, a := range as {
					if c16Only(e.credFieldsOf(valueOf(a)), field) {
						found = true
					} else {
						okG, detail = false, "form field "+k+" does not carry Credential."+field
					}
				}
				if !found {
					okG, detail = false, "the "+gt+" grant lacks the form field "+k
				}
				// on the paths of this grant the field is set before the request is built
				for _, rq := range reqs {
					if reach(g.Block(), instrIndex(g)+1, rq, newCut().Instr(as...)) {
						before := len(as) > 0
						for _, a := range as {
							if !Dominates(a, g) {
								before = false
							}
						}
						if !before {
							okG, detail = false, "with grant_type="+gt+" a path builds the request without the form field "+k
						}
					}
				}
			}
		}
		c.Check(R, fn+"|grant-and-its-secret", f.Pos(), okG,
			ifelse(okG, "every path sets grant_type to refresh_token (with Credential.RefreshToken) or password (with Username and Password) before the token request is built", "the OAuth2 token request is malformed for a grant: "+detail+" — the realm rejects it although the credential is valid (no token, the request ends with 401)"))
		okF := true
		missing := ""
		for _, k := range []string{"service", "client_id"} {
			as := assigns(f, k)
			for _, rq := range reqs {
				if len(as) == 0 || !MustPass(rq, newCut().Instr(as...)) {
					okF, missing = false, k
				}
			}
		}
		var scopesP *ssa.Parameter
		for _, p := range f.Params {
			if strings.HasSuffix(p.Type().String(), "[]string") {
				scopesP = p
			}
		}
		if scopesP != nil {
			as := assigns(f, "scope")
			cu := newCut().Instr(as...).Edges(lenZeroEdges(f, scopesP)...)
			for _, rq := range reqs {
				if len(as) == 0 || !MustPass(rq, cu) {
					okF, missing = false, "scope"
				}
			}
			for _, a := range as {
				if !c14Derives(valueOf(a), map[ssa.Value]bool{scopesP: true}, 0) {
					okF, missing = false, "scope (not the requested scopes)"
				}
			}
		}
		c.Check(R, fn+"|service-client-scope", f.Pos(), okF,
			ifelse(okF, "service and client_id are always sent, scope whenever scopes are requested", "the OAuth2 token request lacks the form field "+missing+" on some path: the token is issued for the wrong service / without the requested scopes, and the retried request is answered 401 again"))
	}
	// --- the distribution request: Basic auth is (username, password) in that order; query encoded before the send
	for _, f := range dist {
		fn := FnName(f)
		okB := true
		nB := 0
		for _, ba := range CallsTo(f, "(*net/http.Request).SetBasicAuth") {
			nB++
			args := ba.Common().Args
			if len(args) != 3 || !c16Only(e.credFieldsOf(args[1]), "Username") || !c16Only(e.credFieldsOf(args[2]), "Password") {
				okB = false
			}
		}
		// Basic auth is attached unless BOTH parts are empty (a password-only / username-only credential is still sent)
		if nB > 0 {
			unE, _ := e.emptyTests(f, "Username")
			pwE, _ := e.emptyTests(f, "Password")
			bas := CallsTo(f, "(*net/http.Request).SetBasicAuth")
			for _, sc := range c16SendCallsIn(f) {
				if !MustPass(sc.(ssa.Instruction), newCut().Calls(bas).Edges(unE...)) || !MustPass(sc.(ssa.Instruction), newCut().Calls(bas).Edges(pwE...)) {
					okB = false
				}
			}
		}
		c.Check(R, fn+"|basic-auth-is-username-then-password", f.Pos(), okB && nB > 0,
			ifelse(okB && nB > 0, "SetBasicAuth(Credential.Username, Credential.Password), skipped only when both are empty", "the token request's Basic auth does not carry (Username, Password) in that order, or is skipped although one of them is set (a password-only credential is silently dropped and an anonymous token is requested)"))
		var scopesP *ssa.Parameter
		for _, p := range f.Params {
			if strings.HasSuffix(p.Type().String(), "[]string") {
				scopesP = p
			}
		}
		okQ := scopesP != nil
		if okQ {
			as := assigns(f, "scope")
			okQ = len(as) > 0
			inLoop := false
			for _, a := range as {
				for _, l := range Loops(f) {
					if r, _, _, _, isR := l.RangeIndex(); isR && SameValue(r, scopesP) && l.Contains(a) {
						inLoop = true
					}
				}
			}
			okQ = okQ && inLoop
			// the query is written back before the request is sent
			var writes []ssa.Instruction
			AllInstrs(f, func(in ssa.Instruction) {
				if st, ok := in.(*ssa.Store); ok {
					if fa, ok := st.Addr.(*ssa.FieldAddr); ok && fieldName(fa.X.Type(), fa.Field) == "net/url.URL.RawQuery" {
						writes = append(writes, st)
					}
				}
			})
			for _, s := range c16SendCallsIn(f) {
				if len(writes) == 0 || !MustPass(s.(ssa.Instruction), newCut().Instr(writes...)) {
					okQ = false
				}
			}
		}
		c.Check(R, fn+"|every-scope-in-query", f.Pos(), okQ,
			ifelse(okQ, "one scope parameter per requested scope, query written back before the send", "the distribution token request does not carry every requested scope (or the query is not written back before sending): the token lacks a scope and the retried request is answered 401 again"))
	}
	// --- an empty token is never a success
	n := 0
	okE := true
	where := ""
	for _, f := range e.BV.Funcs() {
		if e.SV.Has(f) || f.Signature.Results().Len() != 2 || ErrResultIndex(f.Signature) != 1 {
			continue
		}
		if f.Signature.Results().At(0).Type().Underlying().String() != "string" {
			continue
		}
		for _, ret := range Returns(f) {
			if c14RetErrStatus(ret) == NonNil {
				continue
			}
			for _, v := range Roots(ret.Results[0]) {
				ld, isLd := v.(*ssa.UnOp)
				if !isLd || ld.Op != token.MUL {
					continue
				}
				if _, isFA := ld.X.(*ssa.FieldAddr); !isFA {
					continue
				}
				n++
				// returned under its own != "" test
				var nonEmpty []Edge
				for _, i := range Ifs(f) {
					cond, t, fe := ifEdges(i)
					bo, ok := cond.(*ssa.BinOp)
					if !ok || (bo.Op != token.EQL && bo.Op != token.NEQ) {
						continue
					}
					x, y := bo.X, bo.Y
					if s, isS := constString(y); !isS || s != "" {
						x, y = y, x
					}
					if s, isS := constString(y); !isS || s != "" {
						continue
					}
					xl, isXL := x.(*ssa.UnOp)
					if !isXL || !c16SameFieldLoad(xl, ld) {
						continue
					}
					if bo.Op == token.NEQ {
						nonEmpty = append(nonEmpty, t)
					} else {
						nonEmpty = append(nonEmpty, fe)
					}
				}
				if len(nonEmpty) == 0 || !MustPass(ret, newCut().Edges(nonEmpty...)) {
					okE, where = false, FnName(f)
				}
			}
		}
	}
	c.Check(R, "token-fetchers|empty-token-is-not-a-success", e.Do.Pos(), okE && n > 0,
		ifelse(okE && n > 0, fmt.Sprintf("%d returns of a token taken from a response / credential field are guarded by a non-empty test", n), where+" can return an empty token with a nil error: it is cached and sent as `Bearer ` — every request to the registry then fails with 401 until the cache entry is replaced"))
}

// c16SameFieldLoad: two loads of the same field of the same base value.
func c16SameFieldLoad(a, b *ssa.UnOp) bool {
	fa, ok1 := a.X.(*ssa.FieldAddr)
	fb, ok2 := b.X.(*ssa.FieldAddr)
	return ok1 && ok2 && fa.Field == fb.Field && (fa.X == fb.X || SameValue(fa.X, fb.X))
}

// c16SendCallsIn: calls in f that (transitively, depth 2) perform http.Client.Do.
func c16SendCallsIn(f *ssa.Function) []ssa.CallInstruction {
	var out []ssa.CallInstruction
	for _, call := range Calls(f, func(string) bool { return true }) {
		if CalleeName(call) == c16HTTPDo {
			out = append(out, call)
			continue
		}
		if g := StaticCallee(call); g != nil && inModule(g) && reachesCall(g, 2, func(n string, _ ssa.CallInstruction) bool { return n == c16HTTPDo }) {
			out = append(out, call)
		}
	}
	return out
}
