package main

// errsurvey: lists every call site with an error result in the given source
// files together with the shared ErrFlow verdict (no tolerated sentinels).
// Used to size and triage a module-wide error-discipline rule.

import (
	"fmt"
	"go/types"
	"os"
	"sort"
	"strings"

	"golang.org/x/tools/go/ssa"
)

func hasErrResult(c ssa.CallInstruction) bool {
	sig := c.Common().Signature()
	if sig == nil {
		return false
	}
	res := sig.Results()
	for i := 0; i < res.Len(); i++ {
		if types.Identical(res.At(i).Type(), types.Universe.Lookup("error").Type()) {
			return true
		}
	}
	return false
}

func runErrSurvey(repo string, files []string) int {
	p, err := Load(repo, "linux", "amd64")
	if err != nil {
		fmt.Println(err)
		return 2
	}
	want := map[string]bool{}
	for _, f := range files {
		want[f] = true
	}
	type row struct{ key, verdict string }
	var rows []row
	ok, bad := 0, 0
	for f := range p.All {
		if len(f.Blocks) == 0 || f.Pos() == 0 {
			continue
		}
		if f.Synthetic != "" && !strings.HasPrefix(f.Synthetic, "instance of") && f.Parent() == nil {
			continue
		}
		pos := p.Fset.Position(f.Pos())
		rel := strings.TrimPrefix(pos.Filename, repo+"/")
		if !want[rel] {
			continue
		}
		for _, b := range f.Blocks {
			for _, in := range b.Instrs {
				c, isCall := in.(ssa.CallInstruction)
				if !isCall || !hasErrResult(c) {
					continue
				}
				r := ErrFlow(c, ErrFlowOpts{AllowCancel: true})
				k := fmt.Sprintf("%s|%s @%s:%d", FnName(f), CalleeName(c), rel, p.Fset.Position(c.Pos()).Line)
				if r.OK {
					ok++
					rows = append(rows, row{k, "OK " + r.How})
				} else {
					bad++
					rows = append(rows, row{k, "NOT " + r.Detail})
				}
			}
		}
	}
	sort.Slice(rows, func(i, j int) bool { return rows[i].key < rows[j].key })
	for _, r := range rows {
		fmt.Printf("%s\t%s\n", r.key, r.verdict)
	}
	fmt.Fprintf(os.Stderr, "ok=%d not=%d\n", ok, bad)
	return 0
}
