package main

// Path-sensitive refinement for C16.R3 (bearer key vs. the scope list handed to
// the token fetch): acyclic paths of one function are enumerated with phi
// resolution, last-store resolution of local variables and pruning of branches
// decided by constant booleans (compute-once flags).

import (
	"go/constant"
	"go/token"
	"go/types"

	"golang.org/x/tools/go/ssa"
)

type c16Path []*ssa.BasicBlock

// c16ResolveOnPath resolves v as seen at (path[pi], instruction index ii): phis
// by the predecessor taken, loads of local cells by the last store on the path.
// zero reports that a cell is read before any store (its zero value).
func c16ResolveOnPath(v ssa.Value, path c16Path, pi, ii int, depth int) (out ssa.Value, zero bool) {
	for depth < 40 {
		depth++
		v = strip(v)
		switch u := v.(type) {
		case *ssa.Phi:
			idx := -1
			for k := pi; k >= 1; k-- {
				if path[k] == u.Block() {
					idx = k
					break
				}
			}
			if idx < 1 {
				return v, false
			}
			found := false
			for j, p := range u.Block().Preds {
				if p == path[idx-1] {
					v, pi, ii, found = u.Edges[j], idx-1, len(path[idx-1].Instrs), true
					break
				}
			}
			if !found {
				return v, false
			}
			continue
		case *ssa.UnOp:
			if u.Op != token.MUL {
				return v, false
			}
			a, ok := u.X.(*ssa.Alloc)
			if !ok {
				return v, false
			}
			// position of the load itself, if it lies on the path before (pi, ii)
			lp, li := pi, ii
			for k := pi; k >= 0; k-- {
				if path[k] == u.Block() {
					if x := instrIndex(u); k < pi || x < ii {
						lp, li = k, x
					}
					break
				}
			}
			var st *ssa.Store
			for k := lp; k >= 0 && st == nil; k-- {
				hi := len(path[k].Instrs)
				if k == lp {
					hi = li
				}
				for x := hi - 1; x >= 0; x-- {
					if s, isSt := path[k].Instrs[x].(*ssa.Store); isSt && s.Addr == ssa.Value(a) {
						st, pi, ii = s, k, x
						break
					}
				}
			}
			if st == nil {
				return v, true
			}
			v = st.Val
			continue
		}
		return v, false
	}
	return v, false
}

// c16FeasiblePaths enumerates the acyclic paths from the entry of fn to the
// block of `at`, dropping those on which a branch contradicts a boolean that is
// constant on the path.  ok=false: too many paths.
func c16FeasiblePaths(at ssa.Instruction, limit int) (paths []c16Path, ok bool) {
	fn := at.Parent()
	target := at.Block()
	onPath := map[*ssa.BasicBlock]bool{}
	var cur c16Path
	ok = true
	var rec func(b *ssa.BasicBlock)
	rec = func(b *ssa.BasicBlock) {
		if !ok || onPath[b] {
			return
		}
		onPath[b] = true
		cur = append(cur, b)
		defer func() { onPath[b] = false; cur = cur[:len(cur)-1] }()
		if b == target {
			paths = append(paths, append(c16Path{}, cur...))
			if len(paths) > limit {
				ok = false
			}
			return
		}
		only := -1
		if ifi, isIf := b.Instrs[len(b.Instrs)-1].(*ssa.If); isIf {
			cond, neg := ifi.Cond, false
			for {
				u, isNot := cond.(*ssa.UnOp)
				if !isNot || u.Op != token.NOT {
					break
				}
				cond, neg = u.X, !neg
			}
			r, zero := c16ResolveOnPath(cond, cur, len(cur)-1, len(b.Instrs), 0)
			val, known := false, false
			if zero {
				known = true // zero value of a bool variable: false
			} else if k, isK := r.(*ssa.Const); isK && k.Value != nil && k.Value.Kind() == constant.Bool {
				val, known = constant.BoolVal(k.Value), true
			}
			if known {
				if val != neg {
					only = 0
				} else {
					only = 1
				}
			}
		}
		for i, s := range b.Succs {
			if only >= 0 && i != only {
				continue
			}
			rec(s)
		}
	}
	rec(fn.Blocks[0])
	return paths, ok
}

// c16CellAt: the value local cell a holds at (path[pi], ii).
func c16CellAt(a *ssa.Alloc, path c16Path, pi, ii int) (ssa.Value, bool) {
	for k := pi; k >= 0; k-- {
		hi := len(path[k].Instrs)
		if k == pi {
			hi = ii
		}
		for x := hi - 1; x >= 0; x-- {
			if s, isSt := path[k].Instrs[x].(*ssa.Store); isSt && s.Addr == ssa.Value(a) {
				return c16ResolveOnPath(s.Val, path, k, x, 0)
			}
		}
	}
	return nil, true
}

// c16KeyMatchesScopesOnPaths: on every feasible path to the Cache.Set call the
// key is the join of exactly the scope list the fetch callback will read (the
// captured variable's value at the call), and an empty key goes with an empty
// list.  Returns "" (fine / not decidable here) or the mismatch.
func c16KeyMatchesScopesOnPaths(call *ssa.Call) string {
	args := call.Call.Args
	if len(args) < 5 {
		return ""
	}
	mc, ok := args[4].(*ssa.MakeClosure)
	if !ok {
		return ""
	}
	var cell *ssa.Alloc
	n := 0
	for _, b := range mc.Bindings {
		if a, isA := b.(*ssa.Alloc); isA && a.Parent() == call.Parent() {
			if sl, isSl := a.Type().Underlying().(*types.Pointer).Elem().Underlying().(*types.Slice); isSl {
				if bt, isB := sl.Elem().Underlying().(*types.Basic); isB && bt.Kind() == types.String {
					cell = a
					n++
				}
			}
		}
	}
	if n != 1 {
		return ""
	}
	paths, ok := c16FeasiblePaths(call, 4000)
	if !ok {
		return ""
	}
	pi0 := func(p c16Path) int { return len(p) - 1 }
	for _, p := range paths {
		ci := instrIndex(call)
		k, kz := c16ResolveOnPath(args[3], p, pi0(p), ci, 0)
		l, lz := c16CellAt(cell, p, pi0(p), ci)
		lEmpty := lz || (l != nil && c14IsZero(l))
		if kz {
			if !lEmpty {
				return "on a path the key is the zero string while the scope list handed to the fetch is not empty"
			}
			continue
		}
		if s, isS := constString(k); isS {
			if s == "" && !lEmpty {
				return "on a path the key is \"\" while the scope list handed to the fetch is not empty: a token fetched for those scopes is cached under (and later served for) the empty scope set"
			}
			continue
		}
		j, isJ := k.(*ssa.Call)
		if !isJ || CalleeName(j) != "strings.Join" {
			continue
		}
		// position of the Join on the path
		jp := -1
		for x := pi0(p); x >= 0; x-- {
			if p[x] == j.Block() {
				jp = x
				break
			}
		}
		if jp < 0 {
			continue
		}
		x, xz := c16ResolveOnPath(j.Call.Args[0], p, jp, instrIndex(j), 0)
		xEmpty := xz || (x != nil && c14IsZero(x))
		if xEmpty && lEmpty {
			continue
		}
		if xEmpty != lEmpty || x != l {
			return "on a path the key is joined from another scope list than the one handed to the fetch"
		}
	}
	return ""
}
