package main

// E6: effect inventory / who-may-call, and E8a helpers (constant sets).

import (
	"fmt"
	"go/ast"
	"go/constant"
	"go/token"
	"go/types"
	"sort"
	"strings"

	"golang.org/x/tools/go/ssa"
)

// fsMutators: resolved callees that mutate the file system.
var fsMutators = map[string]bool{
	"os.Create": true, "os.OpenFile": true, "os.WriteFile": true, "os.Rename": true, "os.Remove": true,
	"os.RemoveAll": true, "os.Mkdir": true, "os.MkdirAll": true, "os.MkdirTemp": true, "os.CreateTemp": true,
	"os.Chmod": true, "os.Chown": true, "os.Lchown": true, "os.Chtimes": true, "os.Link": true, "os.Symlink": true,
	"os.Truncate": true, "(*os.File).Chmod": true, "(*os.File).Truncate": true, "(*os.File).Write": true,
	"(*os.File).WriteString": true, "(*os.File).WriteAt": true, "(*os.File).Chown": true, "(*os.File).Close": true,
	"(*os.File).Sync": true, "io/ioutil.WriteFile": true, "io/ioutil.TempFile": true, "io/ioutil.TempDir": true,
	"(*os.Root).Create": true, "(*os.Root).OpenFile": true, "(*os.Root).Remove": true, "(*os.Root).Mkdir": true,
}

type EffectSite struct {
	Fn     *ssa.Function
	Call   ssa.CallInstruction
	Callee string
}

// Inventory lists every call in fns whose callee satisfies isEffect.
func Inventory(fns []*ssa.Function, isEffect func(name string) bool) []EffectSite {
	var out []EffectSite
	for _, f := range fns {
		for _, call := range Calls(f, isEffect) {
			out = append(out, EffectSite{f, call, CalleeName(call)})
		}
	}
	return out
}

// InvLine classifies the effect sites of one (function, callee) pair.
type InvLine struct {
	Fn       string // FnName
	Callee   string
	Role     string // one line of reason
	Required bool   // the site carries an obligation and must not disappear
}

// CheckInventory matches discovered sites against the frozen table: a site
// not in the table is an unclassified effect (violation); a required line
// with no site is a lost instance.
func CheckInventory(c *Ctx, rule string, sites []EffectSite, table []InvLine) {
	lines := map[string]*InvLine{}
	for i := range table {
		lines[table[i].Fn+"|"+table[i].Callee] = &table[i]
	}
	seen := map[string]int{}
	first := map[string]token.Pos{}
	var keys []string
	for _, s := range sites {
		k := FnName(s.Fn) + "|" + s.Callee
		if seen[k] == 0 {
			keys = append(keys, k)
			first[k] = s.Call.Pos()
		}
		seen[k]++
	}
	sort.Strings(keys)
	for _, k := range keys {
		if l, ok := lines[k]; ok {
			c.Exists(rule, k, first[k], true, fmt.Sprintf("%d site(s): %s", seen[k], l.Role))
		} else {
			c.Violation(rule, k, first[k], "unclassified effect: this call is not in the confirmed inventory of the package's effects; it must be reviewed against the property and added to the table (or removed)")
		}
	}
	for _, l := range table {
		if l.Required && seen[l.Fn+"|"+l.Callee] == 0 {
			c.ob(rule, l.Fn+"|"+l.Callee, token.NoPos, Lost, true, "required effect site no longer present: "+l.Role)
		}
	}
}

// ---------- E8a: constant sets ----------

// SwitchCaseStrings returns, for each `switch <tag>` statement in the AST of
// the function body whose tag satisfies tagOK, the set of constant string
// case labels (resolved through the type checker).
func SwitchCaseStrings(p *Prog, body ast.Node, info *types.Info, tagOK func(e ast.Expr) bool) [][]string {
	var out [][]string
	ast.Inspect(body, func(n ast.Node) bool {
		sw, ok := n.(*ast.SwitchStmt)
		if !ok || sw.Tag == nil || !tagOK(sw.Tag) {
			return true
		}
		var set []string
		for _, cc := range sw.Body.List {
			for _, e := range cc.(*ast.CaseClause).List {
				if tv, ok := info.Types[e]; ok && tv.Value != nil && tv.Value.Kind() == constant.String {
					set = append(set, constant.StringVal(tv.Value))
				}
			}
		}
		sort.Strings(set)
		out = append(out, set)
		return true
	})
	return out
}

// selectorIs reports whether e is a selector expression ending in .name.
func selectorIs(e ast.Expr, name string) bool {
	s, ok := e.(*ast.SelectorExpr)
	return ok && s.Sel.Name == name
}

// StringConstsComparedWith collects the string constants that value-of-kind
// `isSubject` is compared with (==, switch lowering) in fn.
func StringConstsComparedWith(fn *ssa.Function, isSubject func(v ssa.Value) bool) []string {
	set := map[string]bool{}
	AllInstrs(fn, func(in ssa.Instruction) {
		bo, ok := in.(*ssa.BinOp)
		if !ok || (bo.Op != token.EQL && bo.Op != token.NEQ) {
			return
		}
		if s, ok := constString(bo.Y); ok && isSubject(bo.X) {
			set[s] = true
		}
		if s, ok := constString(bo.X); ok && isSubject(bo.Y) {
			set[s] = true
		}
	})
	var out []string
	for s := range set {
		out = append(out, s)
	}
	sort.Strings(out)
	return out
}

// isFieldLoad reports whether v is a load of field `field` (of any struct).
func isFieldLoad(v ssa.Value, field string) bool {
	for _, r := range Roots(v) {
		switch u := r.(type) {
		case *ssa.UnOp:
			if fa, ok := u.X.(*ssa.FieldAddr); ok && u.Op == token.MUL {
				if strings.HasSuffix(fieldName(fa.X.Type(), fa.Field), "."+field) {
					return true
				}
			}
		case *ssa.Field:
			if strings.HasSuffix(fieldName(u.X.Type(), u.Field), "."+field) {
				return true
			}
		}
	}
	return false
}

func sameStrings(a, b []string) bool {
	if len(a) != len(b) {
		return false
	}
	for i := range a {
		if a[i] != b[i] {
			return false
		}
	}
	return true
}

func sortedCopy(a []string) []string {
	o := append([]string{}, a...)
	sort.Strings(o)
	return o
}
