package main

// C16 — the auth client keeps secrets and tokens per registry.
// Rules: R1 one host value, R2 who may touch credentials, R3 cache keying,
// R4 send budget, R5 once protocol.

import (
	"fmt"
	"go/constant"
	"go/token"
	"go/types"
	"sort"
	"strings"

	"golang.org/x/tools/go/ssa"
)

func init() {
	register(&propDef{
		ID: "C16",
		Explain: "Decided: (R1) in auth.Client.Do the registry argument of every Cache.GetScheme/GetToken/Set and GetAllScopesForHost call, and (traced through the fetch closures and helpers) the hostport handed to the Client.Credential callback, is the single value loaded from originalReq.Host; " +
			"every request sent and every Authorization header set is (on) originalReq or a clone of it, with a token returned by a cache call of the matching scheme; " +
			"(R2) the Credential callback is called only by the confirmed chain credential <- fetchBasicAuth/fetchBearerToken <- the fetch closures given to Cache.Set in Do; Username/Password/RefreshToken flow only into the Basic token, Request.SetBasicAuth and the OAuth2 form of a request whose URL is the realm advertised in the Www-Authenticate challenge of the response to this request; " +
			"(R3) concurrentCache keys its registry map by the registry parameter and its token map by the key parameter, returns a token only after the scheme matched, replaces the entry on a scheme change, keys in-flight fetches by (registry, scheme, key); wrapper caches forward registry and scheme unchanged; bearer cache keys are the joined scope list that is also handed to the token fetch, challenge scopes pass through CleanScopes; " +
			"(R4) on every path Do performs at most 3 sends and at most 1 Cache.Set (each token fetch is at most one request), exactly 1 send and no cache access when Authorization is preset, no send sits in a loop; " +
			"(R5) syncutil.Once.Do stores result and error before closing the status channel, hands the token back on cancellation/deadline/panic without storing. " +
			"NOT decided (not applicable to static analysis): absence of leaks over all request histories and hosts, what a user-supplied Credential callback or http.Client does, canonicality of CleanScopes over all scope strings, coalescing under all timings.",
		Run:     runC16,
		Mutants: c16Mutants,
	})
}

const (
	c16Pkg       = "registry/remote/auth"
	c16Cache     = "(~/registry/remote/auth.Cache)."
	c16CredField = "field:~/registry/remote/auth.Client.Credential"
	c16AllScopes = "~/registry/remote/auth.GetAllScopesForHost"
	c16HdrSet    = "(net/http.Header).Set"
	c16HdrGet    = "(net/http.Header).Get"
	c16ReqClone  = "(*net/http.Request).Clone"
	c16HTTPDo    = "(*net/http.Client).Do"
)

type c16Env struct {
	c       *Ctx
	Do      *ssa.Function
	orig    *ssa.Parameter
	fns     []*ssa.Function
	callers map[*ssa.Function][]ssa.CallInstruction
}

func runC16(c *Ctx) {
	e := &c16Env{c: c}
	e.Do = c.P.Fn(c16Pkg, "Client.Do")
	if e.Do == nil || len(e.Do.Params) != 2 {
		c.LostAnchor("C16.R1.one-host-value", "~/registry/remote/auth.Client.Do(originalReq)")
		return
	}
	e.orig = e.Do.Params[1]
	e.fns = c.P.FuncsOfPkg(c16Pkg)
	e.callers = map[*ssa.Function][]ssa.CallInstruction{}
	for _, f := range e.fns {
		for _, call := range Calls(f, func(string) bool { return true }) {
			if g := StaticCallee(call); g != nil {
				e.callers[g] = append(e.callers[g], call)
			}
		}
	}
	c.NotArmed("C16.R3.only-first-fetcher-stores", "storing the same fetched token again from a coalesced waiter is idempotent; not a necessary condition of the property")
	c.NotArmed("C16.R2.service-parameter", "the `service` challenge parameter is not a secret-bearing destination; only the realm (where credentials travel) is traced")
	c16R1(e)
	c16R2(e)
	c16R3(e)
	c16R4(e)
	c16R5(e)
}

// ---------- backward tracer ----------

// origins resolves v backwards through phis/cells, captured variables of
// closures and parameters of unexported helpers (via all their static callers
// in the package) to the values it may denote inside Client.Do (or constants /
// globals).  why != "" means the trace left the confirmed shapes.
func (e *c16Env) origins(v ssa.Value, depth int) (out []ssa.Value, why string) {
	if depth > 8 {
		return nil, "trace too deep"
	}
	for _, r := range Roots(v) {
		switch u := r.(type) {
		case *ssa.Const, *ssa.Global:
			out = append(out, r)
			continue
		case *ssa.Parameter:
			f := u.Parent()
			if f == e.Do {
				out = append(out, r)
				continue
			}
			idx := -1
			for i, p := range f.Params {
				if p == u {
					idx = i
				}
			}
			if f.Parent() != nil {
				return nil, "parameter " + u.Name() + " of function literal " + FnName(f) + " (supplied by whoever calls the closure)"
			}
			if f.Object() != nil && f.Object().Exported() {
				return nil, "parameter " + u.Name() + " of exported " + FnName(f) + " (callers outside the package choose it)"
			}
			cs := e.callers[f]
			if len(cs) == 0 || idx < 0 {
				return nil, "parameter " + u.Name() + " of " + FnName(f) + " which has no static caller in the package"
			}
			for _, call := range cs {
				args := call.Common().Args
				if idx >= len(args) {
					return nil, "argument mismatch at a call of " + FnName(f)
				}
				o, w := e.origins(args[idx], depth+1)
				if w != "" {
					return nil, w
				}
				out = append(out, o...)
			}
			continue
		case *ssa.UnOp:
			if fv, ok := u.X.(*ssa.FreeVar); ok && u.Op == token.MUL {
				cell := c14FreeVarAlloc(fv)
				if cell == nil {
					return nil, "captured variable " + fv.Name() + " is not bound to one local variable"
				}
				sts := c14CellStores(cell)
				if len(sts) == 0 {
					return nil, "captured variable " + fv.Name() + " is never assigned"
				}
				for _, s := range sts {
					o, w := e.origins(s.Val, depth+1)
					if w != "" {
						return nil, w
					}
					out = append(out, o...)
				}
				continue
			}
		}
		if in, ok := r.(ssa.Instruction); ok && in.Parent() == e.Do {
			out = append(out, r)
			continue
		}
		return nil, "value computed in " + FnName(valueParent(r)) + ": " + describe(r)
	}
	return out, ""
}

func valueParent(v ssa.Value) *ssa.Function {
	if in, ok := v.(ssa.Instruction); ok {
		return in.Parent()
	}
	return v.Parent()
}

// isHost: v is the load of originalReq.Host in Do.
func (e *c16Env) isHost(v ssa.Value) bool {
	u, ok := v.(*ssa.UnOp)
	if !ok || u.Op != token.MUL {
		return false
	}
	fa, ok := u.X.(*ssa.FieldAddr)
	return ok && fa.X == ssa.Value(e.orig) && fieldName(fa.X.Type(), fa.Field) == "net/http.Request.Host"
}

// hostOnly: v traces to exactly the load(s) of originalReq.Host.
func (e *c16Env) hostOnly(v ssa.Value) (bool, string) {
	o, why := e.origins(v, 0)
	if why != "" {
		return false, why
	}
	if len(o) == 0 {
		return false, "no origin"
	}
	for _, x := range o {
		if !e.isHost(x) {
			return false, "it can be " + describe(x) + ", which is not originalReq.Host"
		}
	}
	return true, ""
}

// isCloneOfOrig: v is originalReq or originalReq.Clone(...).
func (e *c16Env) isReqOrClone(v ssa.Value, allowOrig bool) bool {
	rs := Roots(v)
	if len(rs) == 0 {
		return false
	}
	for _, r := range rs {
		if r == ssa.Value(e.orig) && allowOrig {
			continue
		}
		call, ok := r.(*ssa.Call)
		if !ok || CalleeName(call) != c16ReqClone || call.Call.Args[0] != ssa.Value(e.orig) {
			return false
		}
	}
	return true
}

func c16SchemeConsts(c *Ctx) (basic, bearer int64, ok bool) {
	b, ok1 := c.P.Obj(c16Pkg, "SchemeBasic").(*types.Const)
	r, ok2 := c.P.Obj(c16Pkg, "SchemeBearer").(*types.Const)
	if !ok1 || !ok2 {
		return 0, 0, false
	}
	basic, _ = constant.Int64Val(b.Val())
	bearer, _ = constant.Int64Val(r.Val())
	return basic, bearer, true
}

// cacheCalls lists the Cache interface method invocations in fn.
func c16CacheCalls(fn *ssa.Function) []ssa.CallInstruction {
	return Calls(fn, func(n string) bool { return strings.HasPrefix(n, c16Cache) })
}

// ---------- R1 ----------

func c16R1(e *c16Env) {
	const R = "C16.R1.one-host-value"
	c := e.c
	c.Expect(R, 23)
	D := e.Do
	dn := FnName(D)
	// (a) registry argument of cache calls and scope lookups
	seen := map[string]int{}
	n := 0
	for _, f := range e.clientFns() {
		if f.Object() != nil && f.Object().Exported() && f != D {
			continue // exported scope helpers (GetAllScopesForHost itself, …) are API, not the auth flow
		}
		for _, call := range Calls(f, func(n string) bool { return strings.HasPrefix(n, c16Cache) || n == c16AllScopes }) {
			name := CalleeName(call)
			k := FnName(f) + "|" + name
			seen[k]++
			n++
			args := call.Common().Args
			ok, why := len(args) >= 2, "no registry argument"
			if ok {
				ok, why = e.hostOnly(args[1])
			}
			c.Check(R, fmt.Sprintf("%s#%d|registry-arg", k, seen[k]), call.Pos(), ok,
				ifelse(ok, "the registry argument is the value loaded from originalReq.Host",
					"the registry argument is not the host of the request being authenticated ("+why+"): a token or scheme cached for one registry is looked up / stored for another"))
		}
	}
	if n == 0 {
		c.LostAnchor(R, dn+": calls of Cache.GetScheme/GetToken/Set")
	}
	// (b) the hostport handed to the Credential callback, anywhere in the package
	nb := 0
	for _, f := range e.fns {
		for i, call := range CallsTo(f, c16CredField) {
			nb++
			args := call.Common().Args
			ok, why := len(args) == 2, "unexpected callback arity"
			if ok {
				ok, why = e.hostOnly(args[1])
			}
			c.Check(R, fmt.Sprintf("%s|Client.Credential#%d|hostport-arg", FnName(f), i+1), call.Pos(), ok,
				ifelse(ok, "the hostport given to the Credential callback traces back, through every caller, to originalReq.Host in Client.Do",
					"the Credential callback can be asked for the credential of a host other than the one being contacted ("+why+"): that registry's password/refresh token is then sent to this host or its realm"))
		}
	}
	if nb == 0 {
		c.LostAnchor(R, "call of the Client.Credential callback in package auth")
	}
	// (c) requests sent are originalReq or its clones
	sends := c16SendCalls(D)
	for i, s := range sends {
		args := s.Common().Args
		ok := len(args) >= 2 && e.isReqOrClone(args[len(args)-1], true)
		c.Check(R, fmt.Sprintf("%s|send#%d|request-is-clone-of-original", dn, i+1), s.Pos(), ok,
			ifelse(ok, "the request sent is originalReq or originalReq.Clone(ctx)", "Do sends a request that is neither originalReq nor a clone of it: the Authorization header may travel to another host"))
	}
	if len(sends) == 0 {
		c.LostAnchor(R, dn+": send calls")
	}
	// (d) Authorization headers: on a clone, value = scheme prefix + token from a cache call of that scheme
	basic, bearer, okK := c16SchemeConsts(c)
	if !okK {
		c.LostAnchor(R, "constants ~/registry/remote/auth.SchemeBasic/SchemeBearer")
		return
	}
	nh := 0
	for _, f := range e.fns {
		for _, call := range CallsTo(f, c16HdrSet) {
			args := call.Common().Args
			if k, ok := constString(args[1]); !ok || !strings.EqualFold(k, "Authorization") {
				continue
			}
			nh++
			key := fmt.Sprintf("%s|Authorization#%d", FnName(f), nh)
			// receiver: load of X.Header with X a clone (traced through helper parameters)
			okClone := false
			if ld, ok := args[0].(*ssa.UnOp); ok && ld.Op == token.MUL {
				if fa, ok := ld.X.(*ssa.FieldAddr); ok && fieldName(fa.X.Type(), fa.Field) == "net/http.Request.Header" {
					if o, why := e.origins(fa.X, 0); why == "" && len(o) > 0 {
						okClone = true
						for _, x := range o {
							if !e.isReqOrClone(x, false) {
								okClone = false
							}
						}
					}
				}
			}
			c.Check(R, key+"|on-clone", call.Pos(), okClone,
				ifelse(okClone, "the header is set on originalReq.Clone(ctx)", "the Authorization header is set on a request that is not a fresh clone of originalReq (the caller's request object, possibly reused for another host, keeps the token)"))
			// value
			okVal, detail := false, "the header value is not <scheme prefix> + <token returned by Cache.GetToken/Set>"
			if bo, ok := args[2].(*ssa.BinOp); ok && bo.Op == token.ADD {
				prefix, okP := constString(bo.X)
				var want int64 = -1
				switch prefix {
				case "Basic ":
					want = basic
				case "Bearer ":
					want = bearer
				}
				rs := c16TokenSources(bo.Y, 0)
				okVal = okP && want >= 0 && len(rs) > 0
				for _, r := range rs {
					ex, isEx := r.(*ssa.Extract)
					if !isEx || ex.Index != 0 {
						okVal = false
						continue
					}
					cc, isCall := ex.Tuple.(*ssa.Call)
					if !isCall || (CalleeName(cc) != c16Cache+"GetToken" && CalleeName(cc) != c16Cache+"Set") {
						okVal = false
						continue
					}
					if sc, isK := constInt(cc.Call.Args[2]); !isK || sc != want {
						okVal = false
						detail = "the token comes from a cache call of another scheme than the header prefix " + prefix
					}
				}
			}
			c.Check(R, key+"|token-from-cache-of-same-scheme", call.Pos(), okVal,
				ifelse(okVal, "value = scheme prefix + token returned by the cache for (host, that scheme)", detail))
		}
	}
	if nh == 0 {
		c.LostAnchor(R, dn+": Authorization header assignments")
	}
}

// c16TokenSources resolves a token value to the values that produce it,
// looking through results of in-package helpers (two levels).
func c16TokenSources(v ssa.Value, depth int) []ssa.Value {
	var out []ssa.Value
	for _, r := range Roots(v) {
		if ex, ok := r.(*ssa.Extract); ok && depth < 2 {
			if call, ok := ex.Tuple.(*ssa.Call); ok {
				if g := StaticCallee(call); g != nil && fnPkgPath(g) == pkgPath(c16Pkg) && len(g.Blocks) > 0 {
					for _, a := range RetAtoms(g, ex.Index) {
						if _, isZero := a.Val.(zeroMarker); isZero {
							continue
						}
						if k, isK := a.Val.(*ssa.Const); isK && k.Value != nil && k.Value.Kind() == constant.String && constant.StringVal(k.Value) == "" {
							continue // the "" returned next to an error
						}
						out = append(out, c16TokenSources(a.Val, depth+1)...)
					}
					continue
				}
			}
		}
		out = append(out, r)
	}
	return out
}

// c16SendCalls: calls in fn whose static callee (depth<=2) performs http.Client.Do.
func c16SendCalls(fn *ssa.Function) []ssa.CallInstruction {
	var out []ssa.CallInstruction
	for _, call := range Calls(fn, func(string) bool { return true }) {
		if CalleeName(call) == c16HTTPDo {
			out = append(out, call)
			continue
		}
		g := StaticCallee(call)
		if g == nil || !inModule(g) || g.Parent() != nil {
			continue
		}
		// a *sender* takes the request and forwards it: (…, *http.Request) -> (*http.Response, error)
		sig := g.Signature
		if sig.Results().Len() != 2 || sig.Params().Len() == 0 {
			continue
		}
		if c14NamedOf(sig.Results().At(0).Type()) != "net/http.Response" || c14NamedOf(sig.Params().At(sig.Params().Len()-1).Type()) != "net/http.Request" {
			continue
		}
		if reachesCall(g, 2, func(n string, _ ssa.CallInstruction) bool { return n == c16HTTPDo }) {
			out = append(out, call)
		}
	}
	return out
}

// ---------- R2 ----------

func c16R2(e *c16Env) {
	const R = "C16.R2.credential-access"
	c := e.c
	c.Expect(R, 7)
	// who-may-call chain, upwards from the callback call
	table := map[string]string{
		"(*~/registry/remote/auth.Client).credential|" + c16CredField:                                               "the one place the user's Credential callback is invoked",
		"(*~/registry/remote/auth.Client).fetchBasicAuth|(*~/registry/remote/auth.Client).credential":               "Basic challenge: credential of the challenged host",
		"(*~/registry/remote/auth.Client).fetchBearerToken|(*~/registry/remote/auth.Client).credential":             "Bearer challenge: credential of the challenged host",
		"(*~/registry/remote/auth.Client).Do$1|(*~/registry/remote/auth.Client).fetchBasicAuth":                     "fetch closure given to Cache.Set (Basic)",
		"(*~/registry/remote/auth.Client).Do$2|(*~/registry/remote/auth.Client).fetchBearerToken":                   "fetch closure given to Cache.Set (Bearer)",
		"(*~/registry/remote/auth.Client).fetchBearerToken|(*~/registry/remote/auth.Client).fetchDistributionToken": "distribution token flow (username/password as Basic auth to the realm)",
		"(*~/registry/remote/auth.Client).fetchBearerToken|(*~/registry/remote/auth.Client).fetchOAuth2Token":       "OAuth2 token flow (credential in the form posted to the realm)",
	}
	sensitive := map[*ssa.Function]bool{}
	var work []*ssa.Function
	for _, f := range e.fns {
		if len(CallsTo(f, c16CredField)) > 0 {
			sensitive[f] = true
			work = append(work, f)
			c.Exists(R, FnName(f)+"|"+c16CredField, f.Pos(), table[FnName(f)+"|"+c16CredField] != "",
				ifelse(table[FnName(f)+"|"+c16CredField] != "", table[FnName(f)+"|"+c16CredField], "unclassified caller of the Credential callback"))
		}
		// any other use of the Credential function value (copied, passed along)
		for _, fa := range c14FieldAddrs(f, "~/registry/remote/auth.Client", "Credential") {
			for _, r := range *fa.Referrers() {
				ld, isLd := r.(*ssa.UnOp)
				if !isLd {
					if _, isSt := r.(*ssa.Store); isSt {
						continue // configuration
					}
					if _, dbg := r.(*ssa.DebugRef); dbg {
						continue
					}
					c.Undecided(R, FnName(f)+"|Client.Credential|address-taken", fa.Pos(), "the address of Client.Credential escapes")
					continue
				}
				for _, r2 := range *ld.Referrers() {
					switch x := r2.(type) {
					case *ssa.Call:
						if x.Call.Value == ssa.Value(ld) {
							continue
						}
					case *ssa.BinOp, *ssa.DebugRef:
						continue
					}
					c.Violation(R, FnName(f)+"|Client.Credential|value-escapes", fa.Pos(), "the Credential callback value is copied or passed on instead of being called in place: calls through the copy are outside the who-may-call inventory")
				}
			}
		}
	}
	if len(work) == 0 {
		c.LostAnchor(R, "call of the Client.Credential callback")
		return
	}
	for len(work) > 0 {
		g := work[len(work)-1]
		work = work[:len(work)-1]
		if g.Parent() != nil {
			// a function literal: must be handed to Cache.Set in Do as the fetch argument, and nowhere else
			ok := g.Parent() == e.Do
			AllInstrs(g.Parent(), func(in ssa.Instruction) {
				mc, isMC := in.(*ssa.MakeClosure)
				if !isMC || mc.Fn != g {
					return
				}
				for _, r := range *mc.Referrers() {
					call, isCall := r.(*ssa.Call)
					if _, dbg := r.(*ssa.DebugRef); dbg {
						continue
					}
					if !isCall || CalleeName(call) != c16Cache+"Set" || call.Call.Args[len(call.Call.Args)-1] != ssa.Value(mc) {
						ok = false
					}
				}
			})
			c.Check(R, FnName(g)+"|only-as-Cache.Set-fetch", g.Pos(), ok,
				ifelse(ok, "the credential-reading closure is created in Do and used only as the fetch argument of Cache.Set", "a credential-reading function literal is used other than as the fetch argument of Cache.Set in Do"))
			continue
		}
		if g == e.Do {
			continue
		}
		cs := e.callers[g]
		if len(cs) == 0 {
			c.Violation(R, FnName(g)+"|no-caller", g.Pos(), "credential-reading helper without a static caller: it can only be reached dynamically, outside the inventory")
		}
		if g.Object() != nil && g.Object().Exported() {
			c.Violation(R, FnName(g)+"|exported", g.Pos(), "an exported function reaches the Credential callback with a caller-chosen host")
		}
		for _, call := range cs {
			k := FnName(call.Parent()) + "|" + FnName(g)
			role, known := table[k]
			c.Exists(R, k, call.Pos(), known, ifelse(known, role, "unclassified caller of a credential-reading function: who may obtain the registry's secrets is a frozen list (fetchBasicAuth/fetchBearerToken from the Cache.Set closures in Do)"))
			if !sensitive[call.Parent()] {
				sensitive[call.Parent()] = true
				work = append(work, call.Parent())
			}
		}
	}
	c16SecretFlows(e, table)
}

// c16SecretFlows follows Credential.{Username,Password,RefreshToken} forward.
func c16SecretFlows(e *c16Env, chain map[string]string) {
	const R = "C16.R2.secret-sinks"
	c := e.c
	c.Expect(R, 4)
	credT := c.P.Named(c16Pkg, "Credential")
	if credT == nil {
		c.LostAnchor(R, "~/registry/remote/auth.Credential")
		return
	}
	secret := map[string]bool{"Username": true, "Password": true, "RefreshToken": true}
	for f := range secret {
		if !c14HasField(c.P, c16Pkg, "Credential", f) {
			c.LostAnchor(R, "field Credential."+f)
			return
		}
	}
	type sink struct {
		fn   *ssa.Function
		call ssa.CallInstruction
		what string
	}
	var sinks []sink
	bad := map[string]token.Pos{}
	seen := map[ssa.Value]bool{}
	var follow func(v ssa.Value, what string, depth int)
	follow = func(v ssa.Value, what string, depth int) {
		if seen[v] || depth > 12 {
			return
		}
		seen[v] = true
		refs := v.Referrers()
		if refs == nil {
			return
		}
		fn := valueParent(v)
		for _, r := range *refs {
			switch u := r.(type) {
			case *ssa.DebugRef:
			case *ssa.BinOp:
				if u.Op == token.ADD {
					follow(u, what, depth+1)
				} // comparisons are benign
			case *ssa.Convert, *ssa.ChangeType, *ssa.MakeInterface, *ssa.Phi, *ssa.Slice:
				follow(u.(ssa.Value), what, depth+1)
			case *ssa.Store:
				if u.Val != v {
					continue
				}
				switch a := u.Addr.(type) {
				case *ssa.Alloc:
					for _, lr := range *a.Referrers() {
						if ld, ok := lr.(*ssa.UnOp); ok && ld.Op == token.MUL {
							follow(ld, what, depth+1)
						}
					}
				case *ssa.IndexAddr:
					// element of a literal array (variadic arguments): follow the slice made of it
					arr, isArr := a.X.(*ssa.Alloc)
					if !isArr {
						bad[FnName(fn)+"|stored-in-element"] = u.Pos()
						continue
					}
					for _, ar := range *arr.Referrers() {
						if sl, isSl := ar.(*ssa.Slice); isSl {
							follow(sl, what, depth+1)
						}
					}
				case *ssa.FieldAddr:
					bad[FnName(fn)+"|stored-in-field:"+fieldName(a.X.Type(), a.Field)] = u.Pos()
				default:
					bad[FnName(fn)+"|stored-through-pointer"] = u.Pos()
				}
			case *ssa.Return:
				// the Basic token string returned to the cache: follow to the callers' use? No:
				// the returned token is what Cache.Set stores; that is the confirmed Basic flow.
				sinks = append(sinks, sink{fn, nil, "return:" + what})
			case ssa.CallInstruction:
				g := StaticCallee(u)
				if g != nil && inModule(g) && len(g.Blocks) > 0 {
					for i, a := range u.Common().Args {
						if a == v && i < len(g.Params) {
							follow(g.Params[i], what, depth+1)
						}
					}
					continue
				}
				if call, isCall := u.(*ssa.Call); isCall && CalleeName(u) == "(*encoding/base64.Encoding).EncodeToString" {
					sinks = append(sinks, sink{fn, u, what})
					follow(call, what+"(base64)", depth+1)
					continue
				}
				sinks = append(sinks, sink{fn, u, what})
			default:
				bad[FnName(fn)+"|"+fmt.Sprintf("%T", r)] = r.Pos()
			}
		}
	}
	nsrc := 0
	for _, f := range e.fns {
		AllInstrs(f, func(in ssa.Instruction) {
			var name string
			var val ssa.Value
			switch u := in.(type) {
			case *ssa.Field:
				if types.Identical(u.X.Type(), credT) {
					name, val = credT.Underlying().(*types.Struct).Field(u.Field).Name(), u
				}
			case *ssa.FieldAddr:
				if pt, ok := u.X.Type().Underlying().(*types.Pointer); ok && types.Identical(pt.Elem(), credT) {
					fname := credT.Underlying().(*types.Struct).Field(u.Field).Name()
					for _, r := range *u.Referrers() {
						if ld, ok := r.(*ssa.UnOp); ok && ld.Op == token.MUL && secret[fname] {
							nsrc++
							follow(ld, fname, 0)
						}
					}
				}
			}
			if val != nil && secret[name] {
				nsrc++
				follow(val, name, 0)
			}
		})
	}
	if nsrc == 0 {
		c.LostAnchor(R, "reads of Credential.Username/Password/RefreshToken in package auth")
		return
	}
	for _, k := range c14SortedKeys(func() map[string]bool {
		m := map[string]bool{}
		for k := range bad {
			m[k] = true
		}
		return m
	}()) {
		c.Undecided(R, k, bad[k], "a credential secret flows into a construct the flow tracker does not model (stored in a structure / unusual instruction): classify it")
	}
	allowed := map[string]string{
		"(*encoding/base64.Encoding).EncodeToString": "the Basic token string",
		"(*net/http.Request).SetBasicAuth":           "Basic auth of the token request to the realm",
		"(net/url.Values).Set":                       "OAuth2 form posted to the realm",
	}
	type agg struct {
		pos   token.Pos
		ok    bool
		why   string
		count int
	}
	res := map[string]*agg{}
	var order []string
	put := func(k string, pos token.Pos, ok bool, why string) {
		a := res[k]
		if a == nil {
			a = &agg{pos: pos, ok: true}
			res[k] = a
			order = append(order, k)
		}
		a.count++
		if !ok && a.ok {
			a.ok, a.why, a.pos = false, why, pos
		}
	}
	for _, s := range sinks {
		if s.call == nil {
			// returned secret-derived value: allowed only as the (base64) Basic token out of a function of the confirmed chain
			k := FnName(s.fn) + "|returns-secret-derived-value"
			ok := strings.Contains(s.what, "(base64)") && chain["(*~/registry/remote/auth.Client).Do$1|"+FnName(s.fn)] != ""
			put(k, s.fn.Pos(), ok, "a value derived from "+s.what+" is returned from "+FnName(s.fn)+": only the base64 Basic token may leave fetchBasicAuth")
			continue
		}
		name := CalleeName(s.call)
		k := FnName(s.fn) + "|" + name
		role, ok := allowed[name]
		if !ok {
			put(k, s.call.Pos(), false, s.what+" is passed to "+name+": not one of the confirmed sinks (Basic token, Request.SetBasicAuth, OAuth2 form) — a secret may end up in an error text, a header of the registry request, a log …")
			continue
		}
		okTarget, why := true, ""
		switch name {
		case "(*net/http.Request).SetBasicAuth":
			okTarget, why = e.requestGoesToRealm(s.call.Common().Args[0])
		case "(net/url.Values).Set":
			okTarget, why = e.formGoesToRealm(s.call)
		}
		put(k, s.call.Pos(), okTarget, ifelse(okTarget, role, s.what+" is attached to a request that does not provably go to the challenge's realm: "+why))
	}
	sort.Strings(order)
	for _, k := range order {
		a := res[k]
		c.Check(R, k, a.pos, a.ok, ifelse(a.ok, fmt.Sprintf("%d flow(s) into a confirmed sink", a.count), a.why))
	}
}

// isRealm: v traces to params["realm"] of the challenge parsed from the
// Www-Authenticate header of a response obtained by a send in Do.
func (e *c16Env) isRealm(v ssa.Value) (bool, string) {
	o, why := e.origins(v, 0)
	if why != "" {
		return false, why
	}
	if len(o) == 0 {
		return false, "no origin"
	}
	sends := map[ssa.Value]bool{}
	for _, s := range c16SendCalls(e.Do) {
		if s.Value() != nil {
			sends[s.Value()] = true
		}
	}
	for _, x := range o {
		lk, ok := x.(*ssa.Lookup)
		if !ok {
			return false, "it can be " + describe(x)
		}
		if k, okK := constString(lk.Index); !okK || k != "realm" {
			return false, "the challenge parameter used is not \"realm\""
		}
		okSrc := false
		for _, m := range Roots(lk.X) {
			ex, isEx := m.(*ssa.Extract)
			if !isEx {
				continue
			}
			pc, isCall := ex.Tuple.(*ssa.Call)
			if !isCall || len(pc.Call.Args) != 1 {
				continue
			}
			for _, h := range Roots(pc.Call.Args[0]) {
				hg, isGet := h.(*ssa.Call)
				if !isGet || CalleeName(hg) != c16HdrGet {
					continue
				}
				if k, okK := constString(hg.Call.Args[1]); !okK || !strings.EqualFold(k, "Www-Authenticate") {
					continue
				}
				// header of resp.Header with resp from a send
				if ld, isLd := hg.Call.Args[0].(*ssa.UnOp); isLd {
					if fa, isFA := ld.X.(*ssa.FieldAddr); isFA && fieldName(fa.X.Type(), fa.Field) == "net/http.Response.Header" {
						for _, rr := range Roots(fa.X) {
							if rex, isRex := rr.(*ssa.Extract); isRex && sends[rex.Tuple] {
								okSrc = true
							}
						}
					}
				}
			}
		}
		if !okSrc {
			return false, "the challenge is not parsed from the Www-Authenticate header of the response to this request"
		}
	}
	return true, ""
}

// requestGoesToRealm: req is the result of http.NewRequestWithContext(ctx, m, url, body) with url = realm.
func (e *c16Env) requestGoesToRealm(req ssa.Value) (bool, string) {
	rs := Roots(req)
	if len(rs) == 0 {
		return false, "unknown request"
	}
	for _, r := range rs {
		ex, ok := r.(*ssa.Extract)
		if !ok {
			return false, "the request is " + describe(r)
		}
		call, ok := ex.Tuple.(*ssa.Call)
		if !ok || CalleeName(call) != "net/http.NewRequestWithContext" {
			return false, "the request is not built by http.NewRequestWithContext in place"
		}
		if ok, why := e.isRealm(call.Call.Args[2]); !ok {
			return false, "its URL is not the challenge's realm (" + why + ")"
		}
	}
	return true, ""
}

// formGoesToRealm: the url.Values receiver is encoded into the body of a request to the realm.
func (e *c16Env) formGoesToRealm(set ssa.CallInstruction) (bool, string) {
	fn := set.Parent()
	form := set.Common().Args[0]
	al := map[ssa.Value]bool{}
	for _, r := range Roots(form) {
		for a := range Aliases(r) {
			al[a] = true
		}
	}
	// every NewRequestWithContext in fn must go to the realm, and at least one must take the encoded form
	n := 0
	for _, nr := range CallsTo(fn, "net/http.NewRequestWithContext") {
		n++
		if ok, why := e.isRealm(nr.Common().Args[2]); !ok {
			return false, "a request built in " + FnName(fn) + " does not go to the realm (" + why + ")"
		}
	}
	if n == 0 {
		return false, "no request is built from the form in " + FnName(fn)
	}
	// other escapes of the form value: only Set/Encode/Get on it
	for a := range al {
		if a.Referrers() == nil {
			continue
		}
		for _, r := range *a.Referrers() {
			if call, ok := r.(ssa.CallInstruction); ok {
				switch CalleeName(call) {
				case "(net/url.Values).Set", "(net/url.Values).Encode", "(net/url.Values).Get", "(net/url.Values).Add":
				default:
					return false, "the form holding the secret is passed to " + CalleeName(call)
				}
			}
		}
	}
	return true, ""
}

// ---------- R3 ----------

func c16R3(e *c16Env) {
	const R = "C16.R3.cache-keying"
	c := e.c
	c.Expect(R, 18)
	if !c14HasField(c.P, c16Pkg, "concurrentCache", "cache") || !c14HasField(c.P, c16Pkg, "concurrentCache", "status") ||
		!c14HasField(c.P, c16Pkg, "cacheEntry", "scheme") || !c14HasField(c.P, c16Pkg, "cacheEntry", "tokens") {
		c.LostAnchor(R, "~/registry/remote/auth.concurrentCache.{cache,status} / cacheEntry.{scheme,tokens}")
		return
	}
	iface := c.P.Named(c16Pkg, "Cache")
	if iface == nil {
		c.LostAnchor(R, "~/registry/remote/auth.Cache")
		return
	}
	const tCC, tCE = "~/registry/remote/auth.concurrentCache", "~/registry/remote/auth.cacheEntry"
	// parameters by their position in the Cache interface: (ctx, registry[, scheme, key[, fetch]])
	param := func(f *ssa.Function, pos int) *ssa.Parameter {
		if f.Signature.Recv() == nil || pos+1 >= len(f.Params) {
			return nil
		}
		return f.Params[pos+1]
	}
	isMapOp := func(n string) bool { return strings.HasPrefix(n, "(*sync.Map).") }
	mapField := func(call ssa.CallInstruction) string {
		fa, ok := call.Common().Args[0].(*ssa.FieldAddr)
		if !ok {
			return ""
		}
		return fieldName(fa.X.Type(), fa.Field)
	}
	keyIs := func(call ssa.CallInstruction, p *ssa.Parameter) bool {
		args := call.Common().Args
		if len(args) < 2 || p == nil {
			return false
		}
		rs := Roots(args[1])
		return len(rs) == 1 && rs[0] == ssa.Value(p)
	}
	for _, mname := range []string{"GetScheme", "GetToken", "Set"} {
		f := c.P.Fn(c16Pkg, "concurrentCache."+mname)
		if f == nil {
			c.LostAnchor(R, tCC+"."+mname)
			continue
		}
		fn := FnName(f)
		reg, key := param(f, 1), param(f, 3)
		scheme := param(f, 2)
		idx := map[string]int{}
		for _, call := range Calls(f, isMapOp) {
			op := strings.TrimPrefix(CalleeName(call), "(*sync.Map).")
			switch mapField(call) {
			case tCC + ".cache":
				idx["cache"]++
				ok := keyIs(call, reg)
				c.Check(R, fmt.Sprintf("%s|cache.%s#%d|key-is-registry", fn, op, idx["cache"]), call.Pos(), ok,
					ifelse(ok, "the per-registry map is keyed by the registry parameter", "the per-registry cache map is accessed with a key other than the registry parameter: tokens of one registry are returned for another"))
			case tCE + ".tokens":
				idx["tokens"]++
				ok := keyIs(call, key)
				c.Check(R, fmt.Sprintf("%s|tokens.%s#%d|key-is-key", fn, op, idx["tokens"]), call.Pos(), ok,
					ifelse(ok, "the token map is keyed by the key parameter", "the token map is accessed with a key other than the key parameter: a token fetched for one scope set is reused for another"))
			case tCC + ".status":
				idx["status"]++
				ok := reg != nil && scheme != nil && key != nil
				if ok {
					k := call.Common().Args[1]
					for _, p := range []*ssa.Parameter{reg, scheme, key} {
						if !c14Derives(k, map[ssa.Value]bool{p: true}, 0) {
							ok = false
						}
					}
				}
				c.Check(R, fmt.Sprintf("%s|status.%s#%d|key-joins-registry-scheme-key", fn, op, idx["status"]), call.Pos(), ok,
					ifelse(ok, "in-flight fetches are keyed by registry, scheme and key together", "the in-flight fetch table is not keyed by (registry, scheme, key): a waiter can be handed the token another registry / scope set is fetching"))
			default:
				c.Undecided(R, fmt.Sprintf("%s|%s|unknown-map", fn, CalleeName(call)), call.Pos(), "sync.Map operation on an unrecognised map")
			}
		}
		switch mname {
		case "GetToken":
			// a token is returned only after entry.scheme == scheme
			var eq []Edge
			for _, i := range Ifs(f) {
				cond, t, fe := ifEdges(i)
				bo, ok := cond.(*ssa.BinOp)
				if !ok || (bo.Op != token.EQL && bo.Op != token.NEQ) {
					continue
				}
				x, y := bo.X, bo.Y
				if y != ssa.Value(scheme) {
					x, y = y, x
				}
				if y != ssa.Value(scheme) || !c14IsLoadOfField(x, tCE, "scheme") {
					continue
				}
				if bo.Op == token.EQL {
					eq = append(eq, t)
				} else {
					eq = append(eq, fe)
				}
			}
			ok := len(eq) > 0
			n := 0
			for _, a := range RetAtoms(f, 1) {
				if ErrNilStatus(a.Val, 0) == NonNil {
					continue
				}
				n++
				if !MustPass(a.Ret, newCut().Edges(eq...)) {
					ok = false
				}
			}
			c.Check(R, fn+"|token-only-after-scheme-match", f.Pos(), ok && n > 0,
				ifelse(ok && n > 0, "every successful return has passed entry.scheme == scheme", "GetToken can return a token without the entry's scheme matching the requested scheme: a Basic credential string is sent as a Bearer token (or the reverse)"))
		case "Set":
			// scheme change replaces the entry before the token is stored
			var neq []Edge
			for _, i := range Ifs(f) {
				cond, t, fe := ifEdges(i)
				bo, ok := cond.(*ssa.BinOp)
				if !ok || (bo.Op != token.EQL && bo.Op != token.NEQ) {
					continue
				}
				x, y := bo.X, bo.Y
				if y != ssa.Value(scheme) {
					x, y = y, x
				}
				if y != ssa.Value(scheme) || !c14IsLoadOfField(x, tCE, "scheme") {
					continue
				}
				if bo.Op == token.NEQ {
					neq = append(neq, t)
				} else {
					neq = append(neq, fe)
				}
			}
			fresh := func(v ssa.Value) bool {
				a, ok := v.(*ssa.Alloc)
				if !ok || c14NamedOf(a.Type()) != tCE {
					return false
				}
				okS := false
				for _, r := range *a.Referrers() {
					if fa, isFA := r.(*ssa.FieldAddr); isFA && fieldName(fa.X.Type(), fa.Field) == tCE+".scheme" {
						for _, r2 := range *fa.Referrers() {
							if st, isSt := r2.(*ssa.Store); isSt {
								okS = st.Val == ssa.Value(scheme)
							}
						}
					}
				}
				return okS
			}
			var replaces []ssa.CallInstruction
			for _, call := range Calls(f, isMapOp) {
				if mapField(call) == tCC+".cache" && strings.HasSuffix(CalleeName(call), ".Store") && keyIs(call, reg) {
					vr := Roots(call.Common().Args[2])
					if len(vr) == 1 && fresh(vr[0]) {
						replaces = append(replaces, call)
					}
				}
			}
			ok := len(neq) > 0
			nStores := 0
			for _, call := range Calls(f, isMapOp) {
				if mapField(call) != tCE+".tokens" || !strings.HasSuffix(CalleeName(call), ".Store") {
					continue
				}
				nStores++
				fa := call.Common().Args[0].(*ssa.FieldAddr)
				for _, ed := range neq {
					if reach(ed.To, 0, call.(ssa.Instruction), newCut().Calls(replaces)) {
						ok = false
					}
					// the entry written on a path coming from the scheme-differs edge is the fresh one
					if phi, isPhi := fa.X.(*ssa.Phi); isPhi {
						for i, p := range phi.Block().Preds {
							from := p == ed.To || reach(ed.To, 0, p.Instrs[len(p.Instrs)-1], nil)
							if from && !fresh(phi.Edges[i]) {
								ok = false
							}
						}
					} else if reach(ed.To, 0, call.(ssa.Instruction), nil) && !fresh(fa.X) {
						ok = false
					}
				}
				// stored value is the fetched token
				// (result of the coalesced fetch)
			}
			c.Check(R, fn+"|scheme-change-replaces-entry", f.Pos(), ok && nStores > 0,
				ifelse(ok && nStores > 0, "when the cached entry has another scheme a fresh entry (scheme = requested scheme) replaces it before the token is stored", "after a scheme change the new token is stored into the old scheme's entry (or the entry is not replaced): GetToken then serves a token of one scheme under the other scheme's key"))
		}
	}
	// wrapper caches forward registry and scheme unchanged
	nFwd := 0
	for _, f := range e.fns {
		if f.Signature.Recv() == nil || f.Parent() != nil || c14NamedOf(f.Signature.Recv().Type()) == tCC {
			continue
		}
		m, _, _ := types.LookupFieldOrMethod(iface, false, f.Pkg.Pkg, f.Name())
		im, ok := m.(*types.Func)
		if !ok || !types.Identical(im.Type().(*types.Signature).Params(), f.Signature.Params()) {
			continue
		}
		idx := map[string]int{}
		for _, call := range c16CacheCalls(f) {
			nFwd++
			name := CalleeName(call)
			idx[name]++
			args := call.Common().Args // invoke: Args exclude the receiver
			ok := len(args) >= 2 && args[1] == ssa.Value(param(f, 1))
			if len(args) >= 3 && param(f, 2) != nil {
				ok = ok && args[2] == ssa.Value(param(f, 2))
			}
			if len(args) >= 4 && param(f, 3) != nil {
				_, isK := constString(args[3])
				ok = ok && (args[3] == ssa.Value(param(f, 3)) || isK)
			}
			c.Check(R, fmt.Sprintf("%s|%s#%d|forwards-registry-scheme", FnName(f), name, idx[name]), call.Pos(), ok,
				ifelse(ok, "the wrapper passes its own registry (and scheme; key or a constant) to the wrapped cache", "a wrapping cache calls the wrapped cache with another registry/scheme/key than it was asked for"))
		}
	}
	if nFwd == 0 {
		c.LostAnchor(R, "wrapper caches (hostCache/fallbackCache) forwarding to a Cache")
	}
	// bearer keys in Do
	c16BearerKeys(e)
}

func c16BearerKeys(e *c16Env) {
	const R = "C16.R3.bearer-key-is-scope-set"
	c := e.c
	c.Expect(R, 4)
	_, bearer, ok := c16SchemeConsts(c)
	if !ok {
		c.LostAnchor(R, "SchemeBearer")
		return
	}
	scopeSrc := func(v ssa.Value) (bool, string) {
		call, ok := v.(*ssa.Call)
		if !ok {
			return false, describe(v)
		}
		switch CalleeName(call) {
		case c16AllScopes, "~/registry/remote/auth.CleanScopes", "~/registry/remote/auth.GetScopesForHost", "~/registry/remote/auth.GetScopes":
			return true, "" // every one of them yields a CleanScopes-canonical list
		}
		return false, CalleeName(call)
	}
	idx := 0
	var calls []ssa.CallInstruction
	for _, f := range e.clientFns() {
		calls = append(calls, c16CacheCalls(f)...)
	}
	for _, call := range calls {
		D := call.Parent()
		dn := FnName(D)
		name := CalleeName(call)
		if name != c16Cache+"GetToken" && name != c16Cache+"Set" {
			continue
		}
		args := call.Common().Args
		if k, isK := constInt(args[2]); !isK || k != bearer {
			continue
		}
		idx++
		key := fmt.Sprintf("%s|%s#%d", dn, strings.TrimPrefix(name, c16Cache), idx)
		okKey, why := true, ""
		var joined []ssa.Value
		for _, r := range Roots(args[3]) {
			j, isCall := r.(*ssa.Call)
			if !isCall || CalleeName(j) != "strings.Join" {
				okKey, why = false, "the key is "+describe(r)+", not strings.Join(scopes, \" \")"
				continue
			}
			if sep, isS := constString(j.Call.Args[1]); !isS || sep != " " {
				okKey, why = false, "separator"
			}
			joined = append(joined, j.Call.Args[0])
			for _, s := range Roots(j.Call.Args[0]) {
				if ok, w := scopeSrc(s); !ok {
					okKey, why = false, "the joined list comes from "+w+", not from GetAllScopesForHost / CleanScopes"
				}
			}
		}
		c.Check(R, key+"|key-is-clean-scope-list", call.Pos(), okKey,
			ifelse(okKey, "the bearer cache key is strings.Join of the scope list produced by GetAllScopesForHost / CleanScopes", "the bearer cache key is not the canonical scope list: "+why))
		if name != c16Cache+"Set" {
			continue
		}
		// the token is fetched for the very scope list that forms the key
		okSame, why2 := false, "the fetch closure does not capture the scope variable whose value forms the key"
		if mc, isMC := args[4].(*ssa.MakeClosure); isMC && len(joined) == 1 {
			if cell := cellOf(joined[0]); cell != nil {
				for _, b := range mc.Bindings {
					if b == ssa.Value(cell) {
						okSame = true
					}
				}
				ld := joined[0].(*ssa.UnOp)
				for _, st := range c14CellStores(cell) {
					if st.Parent() != D || Reachable(ld, st) {
						okSame, why2 = false, "the scope variable is reassigned after the key was computed"
					}
				}
			}
		}
		c.Check(R, key+"|fetch-uses-keyed-scopes", call.Pos(), okSame,
			ifelse(okSame, "the fetch closure reads the same scope variable, unchanged since the key was computed", "the token is fetched for a scope list other than the one it is cached under: "+why2))
	}
	if idx == 0 {
		c.LostAnchor(R, "bearer cache calls in package auth")
	}
}

// ---------- R4 ----------

// c16Budget computes, over the CFG of fn with back edges removed, the maximum
// (and minimum) total weight of instructions on any path from block `from` to
// a function exit.  inLoop reports a weighted instruction inside a loop.
func c16Budget(fn *ssa.Function, from *ssa.BasicBlock, weight func(ssa.Instruction) int) (max, min int, inLoop ssa.Instruction) {
	back := map[Edge]bool{}
	for _, l := range Loops(fn) {
		for _, b := range l.Backs {
			back[b] = true
		}
		for b := range l.Blocks {
			for _, in := range b.Instrs {
				if weight(in) > 0 && inLoop == nil {
					inLoop = in
				}
			}
		}
	}
	type mm struct{ max, min int }
	memo := map[*ssa.BasicBlock]mm{}
	var rec func(b *ssa.BasicBlock) mm
	rec = func(b *ssa.BasicBlock) mm {
		if r, ok := memo[b]; ok {
			return r
		}
		memo[b] = mm{0, 0} // cycle guard (irreducible): treated as exit
		w := 0
		for _, in := range b.Instrs {
			w += weight(in)
		}
		best, least, n := 0, 0, 0
		for _, s := range b.Succs {
			if back[Edge{b, s}] {
				continue
			}
			r := rec(s)
			if n == 0 || r.max > best {
				best = r.max
			}
			if n == 0 || r.min < least {
				least = r.min
			}
			n++
		}
		memo[b] = mm{w + best, w + least}
		return memo[b]
	}
	r := rec(from)
	return r.max, r.min, inLoop
}

// c16Weigher gives every call the maximum leaf weight its in-package static
// callee can accumulate on one path (interprocedural longest path, no recursion).
type c16Weigher struct {
	c         *Ctx
	leaf      func(ssa.CallInstruction) int
	memo      map[*ssa.Function]int
	onStack   map[*ssa.Function]bool
	undecided string
}

func (w *c16Weigher) instr(in ssa.Instruction) int {
	call, ok := in.(ssa.CallInstruction)
	if !ok {
		return 0
	}
	if k := w.leaf(call); k > 0 {
		return k
	}
	g := StaticCallee(call)
	if g == nil || fnPkgPath(g) != pkgPath(c16Pkg) {
		return 0
	}
	return w.fn(g, 1)
}

func (w *c16Weigher) fn(f *ssa.Function, depth int) int {
	if w.memo == nil {
		w.memo, w.onStack = map[*ssa.Function]int{}, map[*ssa.Function]bool{}
	}
	if v, ok := w.memo[f]; ok {
		return v
	}
	if w.onStack[f] || len(w.onStack) > 8 {
		w.undecided = "recursion through " + FnName(f)
		return 0
	}
	if len(f.Blocks) == 0 {
		return 0
	}
	w.onStack[f] = true
	mx, _, loop := c16Budget(f, f.Blocks[0], w.instr)
	delete(w.onStack, f)
	if loop != nil {
		w.undecided = "a counted call sits inside a loop in " + FnName(f) + " at " + w.c.P.Pos(loop.Pos())
	}
	w.memo[f] = mx
	return mx
}

// clientFns: the functions of package auth that use a Cache (everything but
// the methods of types implementing the Cache interface, whose forwarding is
// checked by R3).
func (e *c16Env) clientFns() []*ssa.Function {
	iface := e.c.P.Named(c16Pkg, "Cache")
	var out []*ssa.Function
	for _, f := range e.fns {
		root := f
		for root.Parent() != nil {
			root = root.Parent()
		}
		if iface != nil && root.Signature.Recv() != nil {
			if it, ok := iface.Underlying().(*types.Interface); ok && (types.Implements(root.Signature.Recv().Type(), it) || types.Implements(types.NewPointer(root.Signature.Recv().Type()), it)) {
				continue
			}
		}
		out = append(out, f)
	}
	return out
}

func c16R4(e *c16Env) {
	const R = "C16.R4.send-budget"
	c := e.c
	c.Expect(R, 5)
	D := e.Do
	dn := FnName(D)
	// interprocedural weights: a call weighs what its in-package static callee can do at most
	sendsW := &c16Weigher{c: c, leaf: func(call ssa.CallInstruction) int {
		if CalleeName(call) == c16HTTPDo {
			return 1
		}
		return 0
	}}
	setsW := &c16Weigher{c: c, leaf: func(call ssa.CallInstruction) int {
		if CalleeName(call) == c16Cache+"Set" {
			return 1
		}
		return 0
	}}
	maxSends := func(f *ssa.Function, _ int) int { return sendsW.fn(f, 1) }
	w := sendsW.instr
	mx, _, loop := c16Budget(D, D.Blocks[0], w)
	switch {
	case loop != nil:
		c.Undecided(R, dn+"|sends<=3", loop.Pos(), "a send sits inside a loop of Client.Do: the number of sends is not bounded by the path structure")
	case sendsW.undecided != "":
		c.Undecided(R, dn+"|sends<=3", D.Pos(), sendsW.undecided)
	default:
		c.Check(R, dn+"|sends<=3", D.Pos(), mx <= 3 && mx >= 1,
			ifelse(mx <= 3 && mx >= 1, fmt.Sprintf("the longest path of Client.Do performs %d sends (cached attempt, scope-change attempt, attempt with fresh token)", mx),
				fmt.Sprintf("a path of Client.Do performs %d sends to the registry (at most 3 allowed: the same credentials are replayed against a registry that keeps answering 401)", mx)))
	}
	ms, _, loopS := c16Budget(D, D.Blocks[0], setsW.instr)
	switch {
	case loopS != nil:
		c.Undecided(R, dn+"|token-fetches<=1", loopS.Pos(), "Cache.Set sits inside a loop of Client.Do")
	case setsW.undecided != "":
		c.Undecided(R, dn+"|token-fetches<=1", D.Pos(), setsW.undecided)
	default:
		c.Check(R, dn+"|token-fetches<=1", D.Pos(), ms == 1,
			ifelse(ms == 1, "at most one Cache.Set (token fetch) on any path", fmt.Sprintf("a path of Client.Do runs %d token fetches (Cache.Set); at most one is allowed", ms)))
	}
	// each token fetch is at most one request
	nf := 0
	var setCalls []ssa.CallInstruction
	for _, f := range e.clientFns() {
		setCalls = append(setCalls, CallsTo(f, c16Cache+"Set")...)
	}
	for _, call := range setCalls {
		args := call.Common().Args
		var mc *ssa.MakeClosure
		for _, r := range Roots(args[len(args)-1]) {
			if m, ok := r.(*ssa.MakeClosure); ok && len(Roots(args[len(args)-1])) == 1 {
				mc = m
			}
		}
		if mc == nil {
			c.Undecided(R, FnName(call.Parent())+"|fetch-is-one-request", call.Pos(), "the fetch argument of Cache.Set is not a function literal")
			continue
		}
		nf++
		sendsW.undecided = ""
		m := maxSends(mc.Fn.(*ssa.Function), 1)
		if sendsW.undecided != "" {
			c.Undecided(R, fmt.Sprintf("%s|fetch-is-one-request", FnName(mc.Fn.(*ssa.Function))), call.Pos(), sendsW.undecided)
			continue
		}
		c.Check(R, fmt.Sprintf("%s|fetch-is-one-request", FnName(mc.Fn.(*ssa.Function))), call.Pos(), m <= 1,
			ifelse(m <= 1, fmt.Sprintf("the token fetch sends at most %d request", m), fmt.Sprintf("a token fetch can send %d requests carrying the credential", m)))
	}
	if nf == 0 {
		c.LostAnchor(R, dn+": fetch closures of Cache.Set")
	}
	// preset Authorization: exactly one send, no cache access
	var pre []Edge
	for _, i := range Ifs(D) {
		cond, t, f := ifEdges(i)
		bo, ok := cond.(*ssa.BinOp)
		if !ok || (bo.Op != token.NEQ && bo.Op != token.EQL) {
			continue
		}
		x, y := bo.X, bo.Y
		if s, isS := constString(y); !isS || s != "" {
			x, y = y, x
		}
		if s, isS := constString(y); !isS || s != "" {
			continue
		}
		get, isGet := x.(*ssa.Call)
		if !isGet || CalleeName(get) != c16HdrGet {
			continue
		}
		if k, isK := constString(get.Call.Args[1]); !isK || !strings.EqualFold(k, "Authorization") {
			continue
		}
		ld, isLd := get.Call.Args[0].(*ssa.UnOp)
		if !isLd {
			continue
		}
		if fa, isFA := ld.X.(*ssa.FieldAddr); !isFA || fa.X != ssa.Value(e.orig) {
			continue
		}
		if bo.Op == token.NEQ {
			pre = append(pre, t)
		} else {
			pre = append(pre, f)
		}
	}
	if len(pre) == 0 {
		c.Violation(R, dn+"|preset-authorization-passthrough", D.Pos(), "Client.Do does not test for a caller-supplied Authorization header: a preset credential would be overridden or the cache consulted")
		return
	}
	for _, ed := range pre {
		mxp, mnp, _ := c16Budget(D, ed.To, w)
		cacheTouched := false
		for _, call := range append(c16CacheCalls(D), CallsTo(D, "(*~/registry/remote/auth.Client).cache")...) {
			if reach(ed.To, 0, call.(ssa.Instruction), nil) {
				cacheTouched = true
			}
		}
		ok := mxp == 1 && mnp == 1 && !cacheTouched
		c.Check(R, dn+"|preset-authorization-passthrough", blockPos(ed.To), ok,
			ifelse(ok, "with a preset Authorization header exactly one send and no cache access", fmt.Sprintf("with a preset Authorization header Do performs between %d and %d sends, cache touched: %v", mnp, mxp, cacheTouched)))
	}
}

// ---------- R5 ----------

func c16R5(e *c16Env) {
	const R = "C16.R5.once-protocol"
	c := e.c
	c.Expect(R, 6)
	const tOnce = "~/internal/syncutil.Once"
	F := c.P.Fn("internal/syncutil", "Once.Do")
	if F == nil || len(F.Params) != 3 {
		c.LostAnchor(R, "~/internal/syncutil.Once.Do(ctx, f)")
		return
	}
	for _, f := range []string{"result", "err", "status"} {
		if !c14HasField(c.P, "internal/syncutil", "Once", f) {
			c.LostAnchor(R, "field ~/internal/syncutil.Once."+f)
			return
		}
	}
	fn := FnName(F)
	fparam := F.Params[2]
	var fcalls []ssa.CallInstruction
	for _, call := range Calls(F, func(string) bool { return true }) {
		if call.Common().Value == ssa.Value(fparam) {
			fcalls = append(fcalls, call)
		}
	}
	if len(fcalls) != 1 {
		c.LostAnchor(R, fn+": the single call of f")
		return
	}
	fc := fcalls[0]
	fres, ferr := ResultOf(fc, 0), ResultOf(fc, 1)
	// f runs only with the token (received true from status)
	var sel *ssa.Select
	AllInstrs(F, func(in ssa.Instruction) {
		if s, ok := in.(*ssa.Select); ok {
			sel = s
		}
	})
	okTok := false
	if sel != nil {
		k := -1
		for i, st := range sel.States {
			if st.Dir == types.RecvOnly && c14IsLoadOfField(st.Chan, tOnce, "status") {
				k = i
			}
		}
		if k >= 0 {
			// the received value: extract #(2+index among recv states)
			ri := 2
			for i := 0; i < k; i++ {
				if sel.States[i].Dir == types.RecvOnly {
					ri++
				}
			}
			recvd := map[ssa.Value]bool{}
			for _, r := range *sel.Referrers() {
				if ex, ok := r.(*ssa.Extract); ok && ex.Index == ri {
					for a := range Aliases(ex) {
						recvd[a] = true
					}
				}
			}
			te, _ := BoolTests(F, recvd)
			if ce, found := selectCaseEdge(sel, k); found && len(te) > 0 {
				okTok = MustPass(fc.(ssa.Instruction), newCut().Edges(ce)) && MustPass(fc.(ssa.Instruction), newCut().Edges(te...))
			}
		}
	}
	c.Check(R, fn+"|f-runs-only-with-token", fc.Pos(), okTok,
		ifelse(okTok, "f is called only after receiving `true` from o.status", "f can run without holding the in-progress token: two fetches with the credential run at once, or f runs after a result was stored"))
	// stores precede close
	var closes []ssa.CallInstruction
	for _, cl := range CallsTo(F, "builtin:close") {
		if c14IsLoadOfField(cl.Common().Args[0], tOnce, "status") {
			closes = append(closes, cl)
		}
	}
	resStores, errStores := c14FieldStores(F, tOnce, "result"), c14FieldStores(F, tOnce, "err")
	toI := func(ss []*ssa.Store) []ssa.Instruction {
		var o []ssa.Instruction
		for _, s := range ss {
			o = append(o, s)
		}
		return o
	}
	ok := len(closes) > 0 && len(resStores) > 0 && len(errStores) > 0
	for _, cl := range closes {
		if !MustPass(cl.(ssa.Instruction), newCut().Instr(toI(resStores)...)) || !MustPass(cl.(ssa.Instruction), newCut().Instr(toI(errStores)...)) {
			ok = false
		}
	}
	for _, s := range resStores {
		if fres == nil || !SameValue(s.Val, fres) {
			ok = false
		}
	}
	for _, s := range errStores {
		if ferr == nil || !SameValue(s.Val, ferr) {
			ok = false
		}
	}
	for _, s := range append(toI(resStores), toI(errStores)...) {
		for _, cl := range closes {
			if Reachable(cl.(ssa.Instruction), s) {
				ok = false
			}
		}
	}
	c.Check(R, fn+"|result-stored-before-close", F.Pos(), ok,
		ifelse(ok, "o.result and o.err are set from f's results on every path to close(o.status), never after it", "close(o.status) can be reached before o.result/o.err hold f's results: waiters read an empty token (and send it), or a torn result"))
	// cancellation: token handed back, nothing stored, not closed
	if ferr == nil {
		c.Violation(R, fn+"|cancellation-hands-token-back", fc.Pos(), "f's error is discarded")
		return
	}
	canc := toleratedEdges(F, Aliases(ferr), []string{"context.Canceled", "context.DeadlineExceeded"})
	var backs []ssa.Instruction
	for _, s := range c14Sends(F) {
		if b, isB := c14ConstBool(s.X); isB && b && c14IsLoadOfField(s.Chan, tOnce, "status") {
			backs = append(backs, s)
		}
	}
	okC := len(canc) >= 1 && len(backs) > 0
	for _, ed := range canc {
		if c14AnyReturnReachable(ed.To, newCut().Instr(backs...)) != nil {
			okC = false
		}
		for _, x := range append(append(toI(resStores), toI(errStores)...), func() []ssa.Instruction {
			var o []ssa.Instruction
			for _, cl := range closes {
				o = append(o, cl.(ssa.Instruction))
			}
			return o
		}()...) {
			if reach(ed.To, 0, x, nil) {
				okC = false
			}
		}
	}
	for _, b := range backs {
		if !MustPass(b, newCut().Edges(canc...)) {
			okC = false
		}
	}
	c.Check(R, fn+"|cancellation-hands-token-back", fc.Pos(), okC,
		ifelse(okC, "on context.Canceled / DeadlineExceeded the token `true` is put back, nothing is stored and the channel stays open", "a cancelled fetch does not hand the in-progress token back exactly once without storing: the next caller parks forever, or every later caller is served the cancellation error as the token result"))
	// the success path closes (so waiters wake up)
	okS := true
	for _, ret := range Returns(F) {
		if !ReachableFromEntry(ret) || !Reachable(fc.(ssa.Instruction), ret) {
			continue
		}
		cu := newCut().Calls(closes).Instr(backs...)
		if !MustPassBetween(fc.(ssa.Instruction), ret, cu) {
			okS = false
		}
	}
	c.Check(R, fn+"|every-exit-after-f-releases-waiters", fc.Pos(), okS,
		ifelse(okS, "after f ran every return has either closed the status channel or put the token back", "a path returns after running f without closing o.status or handing the token back: requests waiting on the same token fetch park forever"))
	// waiters read the stored result only on a closed channel (received false)
	okW := true
	nW := 0
	for _, ret := range Returns(F) {
		if !ReachableFromEntry(ret) || Reachable(fc.(ssa.Instruction), ret) {
			continue
		}
		for _, v := range Roots(ret.Results[1]) {
			if c14IsLoadOfField(v, tOnce, "result") {
				nW++
				first, isK := c14ConstBool(Roots(ret.Results[0])[0])
				if !isK || first || !c14IsLoadOfField(ret.Results[2], tOnce, "err") {
					okW = false
				}
			}
		}
	}
	c.Check(R, fn+"|waiter-returns-stored-result", F.Pos(), okW && nW > 0,
		ifelse(okW && nW > 0, "a caller that finds the channel closed returns (false, o.result, o.err)", "a waiting caller does not return the stored (result, err) with first=false"))
	// panic path: the deferred closure hands the token back
	okP := false
	for _, a := range Anons(F) {
		rec := CallsTo(a, "builtin:recover")
		if len(rec) == 0 {
			continue
		}
		deferred := false
		AllInstrs(F, func(in ssa.Instruction) {
			if d, isD := in.(*ssa.Defer); isD {
				if mc, isMC := d.Call.Value.(*ssa.MakeClosure); isMC && mc.Fn == a {
					deferred = true
				}
			}
		})
		_, nn, _ := NilTests(a, Aliases(rec[0].Value()))
		var pb []ssa.Instruction
		for _, s := range c14Sends(a) {
			if b, isB := c14ConstBool(s.X); isB && b {
				for _, r := range Roots(s.Chan) {
					if ld, isLd := r.(*ssa.UnOp); isLd {
						if fa, isFA := ld.X.(*ssa.FieldAddr); isFA && fieldName(fa.X.Type(), fa.Field) == tOnce+".status" {
							pb = append(pb, s)
						}
					}
				}
			}
		}
		okP = deferred && len(nn) > 0 && len(pb) > 0
		for _, ed := range nn {
			// every way out of the recovered branch (panic or return) passes the send
			for _, b := range a.Blocks {
				if len(b.Instrs) == 0 {
					continue
				}
				last := b.Instrs[len(b.Instrs)-1]
				switch last.(type) {
				case *ssa.Panic, *ssa.Return:
					if reach(ed.To, 0, last, newCut().Instr(pb...)) {
						okP = false
					}
				}
			}
		}
		for _, s := range pb {
			if !MustPass(s, newCut().Edges(nn...)) {
				okP = false
			}
		}
	}
	c.Check(R, fn+"|panic-hands-token-back", F.Pos(), okP,
		ifelse(okP, "a deferred recover handler puts the token back (only) when f panicked", "a panic in f leaves the in-progress token taken (later callers park forever), or the handler puts a second token back on normal exits"))
}

var c16Mutants = []Mutant{
	// R1
	{Name: "scheme-looked-up-for-url-host", File: "registry/remote/auth/client.go", Old: "scheme, err := cache.GetScheme(ctx, host)", New: "scheme, err := cache.GetScheme(ctx, originalReq.URL.Host)", Expect: "C16.R1"},
	{Name: "basic-credential-of-redirect-host", File: "registry/remote/auth/client.go", Old: "return c.fetchBasicAuth(ctx, host)", New: "return c.fetchBasicAuth(ctx, resp.Request.URL.Host)", Expect: "C16.R1"},
	{Name: "credential-of-realm-host", File: "registry/remote/auth/client.go", Old: "func (c *Client) fetchBearerToken(ctx context.Context, registry, realm, service string, scopes []string) (string, error) {\n\tcred, err := c.credential(ctx, registry)", New: "func (c *Client) fetchBearerToken(ctx context.Context, registry, realm, service string, scopes []string) (string, error) {\n\tcred, err := c.credential(ctx, realm)", Expect: "C16.R1"},
	{Name: "authorization-set-on-callers-request", File: "registry/remote/auth/client.go", Old: "\t\treq = originalReq.Clone(ctx)\n\t\treq.Header.Set(\"Authorization\", \"Basic \"+token)", New: "\t\treq = originalReq\n\t\treq.Header.Set(\"Authorization\", \"Basic \"+token)", Expect: "C16.R1"},
	{Name: "basic-header-from-bearer-cache", File: "registry/remote/auth/client.go", Old: "token, err := cache.GetToken(ctx, host, SchemeBasic, \"\")", New: "token, err := cache.GetToken(ctx, host, SchemeBearer, \"\")", Expect: "C16.R1"},
	{Name: "bearer-token-cached-under-service", File: "registry/remote/auth/client.go", Old: "token, err := cache.Set(ctx, host, SchemeBearer, key, func(ctx context.Context) (string, error) {", New: "token, err := cache.Set(ctx, params[\"service\"], SchemeBearer, key, func(ctx context.Context) (string, error) {", Expect: "C16.R1"},
	// R2
	{Name: "preemptive-basic-auth", File: "registry/remote/auth/client.go", Old: "\thost := originalReq.Host\n", New: "\thost := originalReq.Host\n\tif cred, err := c.credential(ctx, host); err == nil && cred.Password != \"\" {\n\t\treq.SetBasicAuth(cred.Username, cred.Password)\n\t}\n", Expect: "C16.R2"},
	{Name: "password-in-error-text", File: "registry/remote/auth/client.go", Old: "\t\treturn \"\", errors.New(\"missing username or password for basic auth\")", New: "\t\treturn \"\", fmt.Errorf(\"missing username or password for basic auth: %q\", cred.Username+\":\"+cred.Password)", Expect: "C16.R2.secret-sinks"},
	{Name: "distribution-token-request-to-service-host", File: "registry/remote/auth/client.go", Old: "req, err := http.NewRequestWithContext(ctx, http.MethodGet, realm, nil)", New: "req, err := http.NewRequestWithContext(ctx, http.MethodGet, \"https://\"+service+\"/token\", nil)", Expect: "C16.R2.secret-sinks"},
	{Name: "oauth2-form-posted-to-service-host", File: "registry/remote/auth/client.go", Old: "req, err := http.NewRequestWithContext(ctx, http.MethodPost, realm, body)", New: "req, err := http.NewRequestWithContext(ctx, http.MethodPost, \"https://\"+service+\"/token\", body)", Expect: "C16.R2.secret-sinks"},
	{Name: "refresh-token-as-header", File: "registry/remote/auth/client.go", Old: "\treq.Header.Set(\"Content-Type\", \"application/x-www-form-urlencoded\")\n", New: "\treq.Header.Set(\"Content-Type\", \"application/x-www-form-urlencoded\")\n\treq.Header.Set(\"X-Identity-Token\", cred.RefreshToken)\n", Expect: "C16.R2.secret-sinks"},
	// R3
	{Name: "token-served-across-schemes", File: "registry/remote/auth/cache.go", Old: "\tif entry.scheme != scheme {\n\t\treturn \"\", errdef.ErrNotFound\n\t}\n", New: "", Expect: "C16.R3"},
	{Name: "inflight-key-without-scope-key", File: "registry/remote/auth/cache.go", Old: "\t\tscheme.String(),\n\t\tkey,\n\t}, \" \")", New: "\t\tscheme.String(),\n\t}, \" \")", Expect: "C16.R3"},
	{Name: "scheme-change-keeps-old-tokens", File: "registry/remote/auth/cache.go", Old: "\t\tentry = newEntry\n\t\tcc.cache.Store(registry, entry)\n", New: "\t\tentry.scheme = scheme\n", Expect: "C16.R3"},
	{Name: "host-cache-drops-registry", File: "registry/remote/auth/cache.go", Old: "\treturn c.Cache.GetToken(ctx, registry, scheme, \"\")", New: "\treturn c.Cache.GetToken(ctx, \"\", scheme, \"\")", Expect: "C16.R3"},
	{Name: "token-stored-under-empty-key", File: "registry/remote/auth/cache.go", Old: "\tentry.tokens.Store(key, token)", New: "\tentry.tokens.Store(\"\", token)", Expect: "C16.R3"},
	{Name: "entry-looked-up-by-key", File: "registry/remote/auth/cache.go", Old: "func (cc *concurrentCache) GetToken(ctx context.Context, registry string, scheme Scheme, key string) (string, error) {\n\tentryValue, ok := cc.cache.Load(registry)", New: "func (cc *concurrentCache) GetToken(ctx context.Context, registry string, scheme Scheme, key string) (string, error) {\n\tentryValue, ok := cc.cache.Load(key)", Expect: "C16.R3"},
	{Name: "challenge-scopes-not-cleaned", File: "registry/remote/auth/client.go", Old: "\t\t\tscopes = append(scopes, strings.Split(paramScope, \" \")...)\n\t\t\tscopes = CleanScopes(scopes)\n", New: "\t\t\tscopes = append(scopes, strings.Split(paramScope, \" \")...)\n", Expect: "C16.R3.bearer-key"},
	{Name: "bearer-key-joined-with-comma", File: "registry/remote/auth/client.go", Old: "\t\tkey := strings.Join(scopes, \" \")\n", New: "\t\tkey := strings.Join(scopes, \",\")\n", Expect: "C16.R3.bearer-key"},
	{Name: "token-fetched-for-challenge-scopes-only", File: "registry/remote/auth/client.go", Old: "return c.fetchBearerToken(ctx, host, realm, service, scopes)", New: "return c.fetchBearerToken(ctx, host, realm, service, strings.Split(params[\"scope\"], \" \"))", Expect: "C16.R3.bearer-key"},
	// R4
	{Name: "fourth-send-on-401", File: "registry/remote/auth/client.go", Old: "\n\treturn c.send(req)\n}", New: "\n\tresp, err = c.send(req)\n\tif err == nil && resp.StatusCode == http.StatusUnauthorized {\n\t\tresp.Body.Close()\n\t\treturn c.send(req)\n\t}\n\treturn resp, err\n}", Expect: "C16.R4"},
	{Name: "preset-authorization-ignored", File: "registry/remote/auth/client.go", Old: "\tif auth := originalReq.Header.Get(\"Authorization\"); auth != \"\" {\n\t\treturn c.send(originalReq)\n\t}\n", New: "", Expect: "C16.R4"},
	{Name: "retry-loop-around-first-send", File: "registry/remote/auth/client.go", Old: "\tresp, err := c.send(req)\n\tif err != nil {\n\t\treturn nil, err\n\t}\n\tif resp.StatusCode != http.StatusUnauthorized {", New: "\tresp, err := c.send(req)\n\tfor i := 0; err != nil && i < 2; i++ {\n\t\tresp, err = c.send(req)\n\t}\n\tif err != nil {\n\t\treturn nil, err\n\t}\n\tif resp.StatusCode != http.StatusUnauthorized {", Expect: "C16.R4"},
	{Name: "distribution-token-fetched-twice", File: "registry/remote/auth/client.go", Old: "\tresp, err := c.send(req)\n\tif err != nil {\n\t\treturn \"\", err\n\t}\n\tdefer resp.Body.Close()\n\tif resp.StatusCode != http.StatusOK {\n\t\treturn \"\", errutil.ParseErrorResponse(resp)\n\t}\n\n\t// As specified", New: "\tresp, err := c.send(req)\n\tif err != nil {\n\t\tresp, err = c.send(req)\n\t}\n\tif err != nil {\n\t\treturn \"\", err\n\t}\n\tdefer resp.Body.Close()\n\tif resp.StatusCode != http.StatusOK {\n\t\treturn \"\", errutil.ParseErrorResponse(resp)\n\t}\n\n\t// As specified", Expect: "C16.R4"},
	// R5
	{Name: "status-closed-before-result-stored", File: "internal/syncutil/once.go", Old: "\t\t\to.result, o.err = result, err\n\t\t\tclose(o.status)\n", New: "\t\t\tclose(o.status)\n\t\t\to.result, o.err = result, err\n", Expect: "C16.R5"},
	{Name: "cancelled-fetch-keeps-token", File: "internal/syncutil/once.go", Old: "\t\t\t\to.status <- true\n\t\t\t\treturn false, nil, err\n", New: "\t\t\t\treturn false, nil, err\n", Expect: "C16.R5"},
	{Name: "panic-keeps-token", File: "internal/syncutil/once.go", Old: "\t\t\to.status <- true\n\t\t\tpanic(r)\n", New: "\t\t\tpanic(r)\n", Expect: "C16.R5"},
	{Name: "cancelled-result-stored", File: "internal/syncutil/once.go", Old: "\t\t\tif err == context.Canceled || err == context.DeadlineExceeded {\n\t\t\t\to.status <- true\n", New: "\t\t\tif err == context.Canceled || err == context.DeadlineExceeded {\n\t\t\t\to.err = err\n\t\t\t\to.status <- true\n", Expect: "C16.R5"},
}
