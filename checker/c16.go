package main

// C16 — the auth client keeps secrets and tokens per registry.
// Rules: R1 one host value, R2 who may touch credentials, R3 cache keying,
// R4 send budget, R5 once protocol.

import (
	"fmt"
	"go/constant"
	"go/token"
	"go/types"
	"sort"
	"strings"

	"golang.org/x/tools/go/ssa"
)

func init() {
	register(&propDef{
		ID: "C16",
		Explain: "Decided: (R1) in auth.Client.Do the registry argument of every Cache.GetScheme/GetToken/Set and GetAllScopesForHost call, and (traced through the fetch closures and helpers) the hostport handed to the Client.Credential callback, is the single value loaded from originalReq.Host; " +
			"every request sent and every Authorization header set is (on) originalReq or a clone of it, with a token returned by a cache call of the matching scheme; " +
			"(R2) the Credential callback is called only by the confirmed chain credential <- fetchBasicAuth/fetchBearerToken <- the fetch closures given to Cache.Set in Do; Username/Password/RefreshToken flow only into the Basic token, Request.SetBasicAuth and the OAuth2 form of a request whose URL is the realm advertised in the Www-Authenticate challenge of the response to this request; " +
			"(R3) concurrentCache keys its registry map by the registry parameter and its token map by the key parameter, returns a token only after the scheme matched, replaces the entry on a scheme change, keys in-flight fetches by (registry, scheme, key); wrapper caches forward registry and scheme unchanged; bearer cache keys are the joined scope list that is also handed to the token fetch, challenge scopes pass through CleanScopes; " +
			"(R4) on every path Do performs at most 3 sends and at most 1 Cache.Set (each token fetch is at most one request), exactly 1 send and no cache access when Authorization is preset, no send sits in a loop; " +
			"(R5) syncutil.Once.Do stores result and error before closing the status channel, hands the token back on cancellation/deadline/panic without storing. " +
			"NOT decided (not applicable to static analysis): absence of leaks over all request histories and hosts, what a user-supplied Credential callback or http.Client does, canonicality of CleanScopes over all scope strings, coalescing under all timings.",
		Run:     runC16,
		Mutants: c16Mutants,
	})
}

const (
	c16Pkg       = "registry/remote/auth"
	c16Cache     = "(~/registry/remote/auth.Cache)."
	c16CredField = "field:~/registry/remote/auth.Client.Credential"
	c16AllScopes = "~/registry/remote/auth.GetAllScopesForHost"
	c16HdrSet    = "(net/http.Header).Set"
	c16HdrGet    = "(net/http.Header).Get"
	c16ReqClone  = "(*net/http.Request).Clone"
	c16HTTPDo    = "(*net/http.Client).Do"
)

type c16Env struct {
	c    *Ctx
	Do   *ssa.Function
	orig *ssa.Parameter
	fns  []*ssa.Function
	// SV: Client.Do with its unexported in-package helpers inlined (what Do itself executes).
	// BV: SV plus the fetch callbacks handed to Cache.Set, expanded at those calls
	// (what runs on behalf of this request, credentials included).
	SV, BV  *c14View
	callers map[*ssa.Function][]ssa.CallInstruction
}

func c16Unexported(g *ssa.Function) bool {
	if fnPkgPath(g) != pkgPath(c16Pkg) {
		return false
	}
	if g.Parent() != nil {
		return true
	}
	return g.Object() == nil || !g.Object().Exported()
}

func runC16(c *Ctx) {
	e := &c16Env{c: c}
	e.Do = c.P.Fn(c16Pkg, "Client.Do")
	if e.Do == nil || len(e.Do.Params) != 2 {
		c.LostAnchor("C16.R1.one-host-value", "~/registry/remote/auth.Client.Do(originalReq)")
		return
	}
	e.orig = e.Do.Params[1]
	e.fns = c.P.FuncsOfPkg(c16Pkg)
	e.callers = map[*ssa.Function][]ssa.CallInstruction{}
	for _, f := range e.fns {
		for _, call := range Calls(f, func(string) bool { return true }) {
			if g := StaticCallee(call); g != nil {
				e.callers[g] = append(e.callers[g], call)
			}
		}
	}
	e.SV = c14NewView(e.Do, 4, c16Unexported)
	e.BV = c14NewViewV(e.Do, 7, c16Unexported, func(call *ssa.Call) *ssa.Function {
		if CalleeName(call) != c16Cache+"Set" {
			return nil
		}
		fn, recv := e.fetchTarget(call)
		_ = recv
		return fn
	})
	// receivers of method values used as fetch callbacks
	for _, call := range e.SV.CallsTo(c16Cache + "Set") {
		if cc, ok := call.(*ssa.Call); ok {
			if fn, recv := e.fetchTarget(cc); fn != nil && recv != nil && len(fn.Params) > 0 {
				e.BV.bind[fn.Params[0]] = append(e.BV.bind[fn.Params[0]], recv)
			}
		}
	}
	c.NotArmed("C16.R3.only-first-fetcher-stores", "storing the same fetched token again from a coalesced waiter is idempotent; not a necessary condition of the property")
	c.NotArmed("C16.R2.service-parameter", "the `service` challenge parameter is not a secret-bearing destination; only the realm (where credentials travel) is traced")
	c16R1(e)
	c16R2(e)
	c16R3(e)
	c16R4(e)
	c16StaleToken(e)
	c16TokenRules(e)
	c16ParsingRules(e)
	c16R5(e)
}

// fetchTarget resolves the fetch argument of a Cache.Set call to the function it runs.
func (e *c16Env) fetchTarget(call *ssa.Call) (*ssa.Function, ssa.Value) {
	args := call.Call.Args
	if len(args) == 0 {
		return nil, nil
	}
	arg := args[len(args)-1]
	cands := []ssa.Value{arg}
	if e.SV != nil {
		cands = e.SV.Leaves(arg)
	}
	if len(cands) != 1 {
		return nil, nil
	}
	fn, recv, _ := c14FuncTarget(cands[0])
	return fn, recv
}

func valueParent(v ssa.Value) *ssa.Function {
	if in, ok := v.(ssa.Instruction); ok {
		return in.Parent()
	}
	return v.Parent()
}

// isOrig: every leaf of v is the originalReq parameter of Do.
func (e *c16Env) isOrig(v ssa.Value, vw *c14View) bool {
	ls := vw.Leaves(v)
	for _, l := range ls {
		if l != ssa.Value(e.orig) {
			return false
		}
	}
	return len(ls) > 0
}

// isHostLeaf: l is a load of <originalReq>.Host.
func (e *c16Env) isHostLeaf(l ssa.Value) bool {
	u, ok := l.(*ssa.UnOp)
	if !ok || u.Op != token.MUL {
		return false
	}
	fa, ok := u.X.(*ssa.FieldAddr)
	return ok && fieldName(fa.X.Type(), fa.Field) == "net/http.Request.Host" && e.isOrig(fa.X, e.BV)
}

// hostOnly: v denotes exactly the value loaded from originalReq.Host.
func (e *c16Env) hostOnly(v ssa.Value) (bool, string) {
	ls := e.BV.Leaves(v)
	if len(ls) == 0 {
		return false, "no origin"
	}
	for _, x := range ls {
		if !e.isHostLeaf(x) {
			return false, "it can be " + describe(x) + " (in " + FnName(valueParent(x)) + "), which is not originalReq.Host"
		}
	}
	return true, ""
}

// isCloneLeaf: l is <originalReq>.Clone(...).
func (e *c16Env) isCloneLeaf(l ssa.Value, vw *c14View) bool {
	call, ok := l.(*ssa.Call)
	return ok && CalleeName(call) == c16ReqClone && e.isOrig(call.Call.Args[0], vw)
}

func c16SchemeConsts(c *Ctx) (basic, bearer int64, ok bool) {
	b, ok1 := c.P.Obj(c16Pkg, "SchemeBasic").(*types.Const)
	r, ok2 := c.P.Obj(c16Pkg, "SchemeBearer").(*types.Const)
	if !ok1 || !ok2 {
		return 0, 0, false
	}
	basic, _ = constant.Int64Val(b.Val())
	bearer, _ = constant.Int64Val(r.Val())
	return basic, bearer, true
}

// cacheCalls lists the Cache interface method invocations in fn.
func c16CacheCalls(fn *ssa.Function) []ssa.CallInstruction {
	return Calls(fn, func(n string) bool { return strings.HasPrefix(n, c16Cache) })
}

// constOf: every leaf of v is the same integer constant.
func c16ConstOf(vw *c14View, v ssa.Value) (int64, bool) {
	ls := vw.Leaves(v)
	if len(ls) == 0 {
		return 0, false
	}
	var k int64
	for i, l := range ls {
		n, ok := constInt(l)
		if !ok || (i > 0 && n != k) {
			return 0, false
		}
		k = n
	}
	return k, true
}

// clientFns: the functions of package auth that use a Cache (everything but
// the methods of types implementing the Cache interface, whose forwarding is
// checked by R3).
func (e *c16Env) clientFns() []*ssa.Function {
	iface := e.c.P.Named(c16Pkg, "Cache")
	var out []*ssa.Function
	for _, f := range e.fns {
		root := f
		for root.Parent() != nil {
			root = root.Parent()
		}
		if iface != nil && root.Signature.Recv() != nil {
			if it, ok := iface.Underlying().(*types.Interface); ok && (types.Implements(root.Signature.Recv().Type(), it) || types.Implements(types.NewPointer(root.Signature.Recv().Type()), it)) {
				continue
			}
		}
		out = append(out, f)
	}
	return out
}

// ---------- R1 ----------

func c16R1(e *c16Env) {
	const R = "C16.R1.one-host-value"
	c := e.c
	c.Expect(R, 9)
	D := e.Do
	dn := FnName(D)
	// (a) registry argument of cache calls and scope lookups, in Do and in whatever it runs
	seen := map[string]int{}
	kinds := map[string]bool{}
	for _, f := range e.BV.Funcs() {
		if f.Object() != nil && f.Object().Exported() && f != D {
			continue
		}
		for _, call := range Calls(f, func(n string) bool { return strings.HasPrefix(n, c16Cache) || n == c16AllScopes }) {
			name := CalleeName(call)
			kinds[name] = true
			k := FnName(f) + "|" + name
			seen[k]++
			args := call.Common().Args
			ok, why := len(args) >= 2, "no registry argument"
			if ok {
				ok, why = e.hostOnly(args[1])
			}
			c.Check(R, fmt.Sprintf("%s#%d|registry-arg", k, seen[k]), call.Pos(), ok,
				ifelse(ok, "the registry argument is the value loaded from originalReq.Host",
					"the registry argument is not the host of the request being authenticated ("+why+"): a token or scheme cached for one registry is looked up / stored for another"))
		}
	}
	for _, m := range []string{"GetScheme", "GetToken", "Set"} {
		if !kinds[c16Cache+m] {
			c.LostAnchor(R, dn+": a call of Cache."+m+" on behalf of the request")
		}
	}
	// cache users outside Do's extent are not part of the confirmed flow
	for _, f := range e.clientFns() {
		if e.BV.Has(f) || (f.Object() != nil && f.Object().Exported()) {
			continue
		}
		if calls := c16CacheCalls(f); len(calls) > 0 {
			c.Violation(R, FnName(f)+"|cache-use-outside-Do", calls[0].Pos(), "a Cache is consulted by a function that Client.Do does not run: the registry it uses is not tied to the request's host")
		}
	}
	// (b) the hostport handed to the Credential callback, anywhere in the package
	nb := 0
	for _, f := range e.fns {
		for i, call := range CallsTo(f, c16CredField) {
			nb++
			args := call.Common().Args
			ok, why := len(args) == 2 && e.BV.Has(f), "the callback is called from a function that is not run on behalf of Client.Do"
			if ok {
				ok, why = e.hostOnly(args[1])
			}
			c.Check(R, fmt.Sprintf("%s|Client.Credential#%d|hostport-arg", FnName(f), i+1), call.Pos(), ok,
				ifelse(ok, "the hostport given to the Credential callback traces back, through every caller, to originalReq.Host in Client.Do",
					"the Credential callback can be asked for the credential of a host other than the one being contacted ("+why+"): that registry's password/refresh token is then sent to this host or its realm"))
		}
	}
	if nb == 0 {
		c.LostAnchor(R, "call of the Client.Credential callback in package auth")
	}
	// (c) requests Do sends are originalReq or its clones
	ns := 0
	for _, f := range e.SV.Funcs() {
		for i, s := range CallsTo(f, c16HTTPDo) {
			ns++
			args := s.Common().Args
			ok := len(args) == 2
			if ok {
				ls := e.SV.Leaves(args[1])
				ok = len(ls) > 0
				nreal := 0
				for _, l := range ls {
					if isNilConst(l) {
						continue // the nil request a helper returns next to an error
					}
					nreal++
					if l != ssa.Value(e.orig) && !e.isCloneLeaf(l, e.SV) {
						ok = false
					}
				}
				ok = ok && nreal > 0
			}
			c.Check(R, fmt.Sprintf("%s|http.Client.Do#%d|request-is-clone-of-original", FnName(f), i+1), s.Pos(), ok,
				ifelse(ok, "every request Client.Do sends is originalReq or originalReq.Clone(ctx)", "Do sends a request that is neither originalReq nor a clone of it: the Authorization header may travel to another host"))
		}
	}
	if ns == 0 {
		c.LostAnchor(R, dn+": http.Client.Do reached from Client.Do")
	}
	// (d) Authorization headers: on a clone, value = scheme prefix + token from a cache call of that scheme
	basic, bearer, okK := c16SchemeConsts(c)
	if !okK {
		c.LostAnchor(R, "constants ~/registry/remote/auth.SchemeBasic/SchemeBearer")
		return
	}
	nh := 0
	for _, f := range e.fns {
		idx := 0
		for _, call := range CallsTo(f, c16HdrSet) {
			args := call.Common().Args
			if k, ok := constString(args[1]); !ok || !strings.EqualFold(k, "Authorization") {
				continue
			}
			nh++
			idx++
			key := fmt.Sprintf("%s|Authorization#%d", FnName(f), idx)
			if !e.SV.Has(f) {
				c.Violation(R, key+"|outside-Do", call.Pos(), "an Authorization header is set by a function Client.Do does not run: not covered by the confirmed per-host flow")
				continue
			}
			okClone := false
			if ld, ok := args[0].(*ssa.UnOp); ok && ld.Op == token.MUL {
				if fa, ok := ld.X.(*ssa.FieldAddr); ok && fieldName(fa.X.Type(), fa.Field) == "net/http.Request.Header" {
					ls := e.SV.Leaves(fa.X)
					nreal := 0
					okClone = true
					for _, l := range ls {
						if isNilConst(l) {
							continue
						}
						nreal++
						if !e.isCloneLeaf(l, e.SV) {
							okClone = false
						}
					}
					okClone = okClone && nreal > 0
				}
			}
			c.Check(R, key+"|on-clone", call.Pos(), okClone,
				ifelse(okClone, "the header is set on originalReq.Clone(ctx)", "the Authorization header is set on a request that is not a fresh clone of originalReq (the caller's request object, possibly reused for another host, keeps the token)"))
			okVal, detail := true, ""
			nAlt := 0
			for _, cx := range e.SV.byFn[f] {
				for _, ops := range c16Concat(e.SV, args[2], cx, 0) {
					nAlt++
					if why := e.authValueOK(ops, basic, bearer); why != "" {
						okVal, detail = false, why
					}
				}
			}
			if nAlt == 0 {
				okVal, detail = false, "no value"
			}
			c.Check(R, key+"|token-from-cache-of-same-scheme", call.Pos(), okVal,
				ifelse(okVal, "value = scheme prefix + token returned by the cache for (host, that scheme)", detail))
		}
	}
	if nh == 0 {
		c.LostAnchor(R, dn+": Authorization header assignments")
	}
}

// c16Concat flattens a string concatenation (in context cx) into its operand
// lists, one per combination of alternatives.
func c16Concat(V *c14View, v ssa.Value, cx *c14Ctx, depth int) [][]c14CV {
	var out [][]c14CV
	for _, l := range V.LeavesIn(v, cx) {
		bo, ok := l.V.(*ssa.BinOp)
		if !ok || bo.Op != token.ADD || depth > 4 {
			out = append(out, []c14CV{l})
			continue
		}
		for _, xs := range c16Concat(V, bo.X, l.Ctx, depth+1) {
			for _, ys := range c16Concat(V, bo.Y, l.Ctx, depth+1) {
				out = append(out, append(append([]c14CV{}, xs...), ys...))
			}
		}
		if len(out) > 64 {
			return out
		}
	}
	return out
}

// authValueOK: ops is `<scheme prefix> <token>` with the token returned by a
// cache call of that very scheme.  The prefix is the literal "Basic "/"Bearer ",
// or Scheme.String() of a value followed by " " (then the cache call must have
// been made for the same scheme value).  Returns "" or what is wrong.
func (e *c16Env) authValueOK(ops []c14CV, basic, bearer int64) string {
	V := e.SV
	if len(ops) < 2 {
		return "the header value is not <scheme prefix> + <token returned by Cache.GetToken/Set>"
	}
	tok := ops[len(ops)-1]
	pre := ops[:len(ops)-1]
	var want int64 = -1
	var schemeVals map[ssa.Value]bool
	switch {
	case len(pre) == 1:
		p, ok := constString(pre[0].V)
		switch {
		case ok && p == "Basic ":
			want = basic
		case ok && p == "Bearer ":
			want = bearer
		default:
			return "the header value does not start with a scheme prefix"
		}
	case len(pre) == 2:
		call, isCall := pre[0].V.(*ssa.Call)
		sp, isSp := constString(pre[1].V)
		if !isCall || CalleeName(call) != "(~/registry/remote/auth.Scheme).String" || !isSp || sp != " " {
			return "the header value does not start with a scheme prefix"
		}
		schemeVals = map[ssa.Value]bool{}
		for _, l := range V.LeavesIn(call.Call.Args[0], pre[0].Ctx) {
			schemeVals[l.V] = true
		}
	default:
		return "the header value does not start with a scheme prefix"
	}
	if k, isK := tok.V.(*ssa.Const); isK && k.Value != nil && k.Value.Kind() == constant.String && constant.StringVal(k.Value) == "" {
		return "" // the "" a helper returns next to an error
	}
	ex, isEx := tok.V.(*ssa.Extract)
	var cc *ssa.Call
	if isEx && ex.Index == 0 {
		cc, _ = ex.Tuple.(*ssa.Call)
	}
	if cc == nil || (CalleeName(cc) != c16Cache+"GetToken" && CalleeName(cc) != c16Cache+"Set") {
		return "the token " + describe(tok.V) + " is not the result of Cache.GetToken/Set"
	}
	got := V.LeavesIn(cc.Call.Args[2], tok.Ctx)
	if len(got) == 0 {
		return "the cache call's scheme is unknown"
	}
	for _, g := range got {
		if want >= 0 {
			if n, isK := constInt(g.V); !isK || n != want {
				return "the token comes from a cache call of another scheme than the header prefix"
			}
			continue
		}
		if schemeVals[g.V] {
			continue
		}
		// equal constants count as the same scheme
		same := false
		if n, isK := constInt(g.V); isK {
			for sv := range schemeVals {
				if m, isM := constInt(sv); isM && m == n && len(schemeVals) == 1 {
					same = true
				}
			}
		}
		if !same {
			return "the token comes from a cache call made for another scheme value than the one the header prefix is derived from"
		}
	}
	return ""
}

// ---------- R2 ----------

func c16R2(e *c16Env) {
	const R = "C16.R2.credential-access"
	c := e.c
	c.Expect(R, 4)
	// the functions that run only inside a fetch callback of Cache.Set
	sensitiveOK := func(f *ssa.Function) bool { return e.BV.Has(f) && !e.SV.Has(f) }
	fetchers := map[*ssa.Function]bool{}
	for _, call := range e.SV.CallsTo(c16Cache + "Set") {
		if cc, ok := call.(*ssa.Call); ok {
			if fn, _ := e.fetchTarget(cc); fn != nil {
				fetchers[fn] = true
			}
		}
	}
	if len(fetchers) == 0 {
		c.LostAnchor(R, "fetch callbacks handed to Cache.Set by Client.Do")
		return
	}
	sensitive := map[*ssa.Function]bool{}
	var work []*ssa.Function
	for _, f := range e.fns {
		if len(CallsTo(f, c16CredField)) > 0 {
			sensitive[f] = true
			work = append(work, f)
		}
		// any other use of the Credential function value (copied, passed along)
		for _, fa := range c14FieldAddrs(f, "~/registry/remote/auth.Client", "Credential") {
			for _, r := range *fa.Referrers() {
				ld, isLd := r.(*ssa.UnOp)
				if !isLd {
					if _, isSt := r.(*ssa.Store); isSt {
						continue // configuration
					}
					if _, dbg := r.(*ssa.DebugRef); dbg {
						continue
					}
					c.Undecided(R, FnName(f)+"|Client.Credential|address-taken", fa.Pos(), "the address of Client.Credential escapes")
					continue
				}
				for _, r2 := range *ld.Referrers() {
					switch x := r2.(type) {
					case *ssa.Call:
						if x.Call.Value == ssa.Value(ld) {
							continue
						}
					case *ssa.BinOp, *ssa.DebugRef:
						continue
					}
					c.Violation(R, FnName(f)+"|Client.Credential|value-escapes", fa.Pos(), "the Credential callback value is copied or passed on instead of being called in place: calls through the copy are outside the who-may-call inventory")
				}
			}
		}
	}
	if len(work) == 0 {
		c.LostAnchor(R, "call of the Client.Credential callback")
		return
	}
	for len(work) > 0 {
		g := work[len(work)-1]
		work = work[:len(work)-1]
		gn := FnName(g)
		if fetchers[g] {
			// the top of the chain: used only as the fetch argument of Cache.Set
			ok := true
			if g.Parent() != nil {
				AllInstrs(g.Parent(), func(in ssa.Instruction) {
					mc, isMC := in.(*ssa.MakeClosure)
					if !isMC || mc.Fn != g {
						return
					}
					ok = ok && c16OnlyFetchArg(mc, map[ssa.Value]bool{})
				})
			}
			c.Check(R, gn+"|only-as-Cache.Set-fetch", g.Pos(), ok && len(e.callers[g]) == 0,
				ifelse(ok && len(e.callers[g]) == 0, "the credential-reading callback is used only as the fetch argument of Cache.Set", "a credential-reading callback is also called or passed elsewhere than as the fetch argument of Cache.Set"))
			continue
		}
		okIn := sensitiveOK(g)
		c.Check(R, gn+"|runs-only-inside-a-fetch", g.Pos(), okIn,
			ifelse(okIn, "reached only through the fetch callbacks Client.Do hands to Cache.Set", "a function that obtains the registry's credential is run by Client.Do directly (or not by Client.Do at all): credentials are to be resolved only inside the coalesced token fetch for the challenged host"))
		if g.Object() != nil && g.Object().Exported() {
			c.Violation(R, gn+"|exported", g.Pos(), "an exported function reaches the Credential callback with a caller-chosen host")
		}
		cs := e.callers[g]
		if len(cs) == 0 && g.Parent() == nil {
			c.Violation(R, gn+"|no-caller", g.Pos(), "credential-reading helper without a static caller: it can only be reached dynamically, outside the inventory")
		}
		if g.Parent() != nil && len(cs) == 0 {
			c.Violation(R, gn+"|stray-closure", g.Pos(), "a credential-reading function literal that is not a fetch callback of Cache.Set")
		}
		for _, call := range cs {
			p := call.Parent()
			if !sensitive[p] {
				sensitive[p] = true
				work = append(work, p)
			}
		}
	}
	c16SecretFlows(e, sensitiveOK)
}

// c16OnlyFetchArg: the function value v is used only as the last argument of Cache.Set
// (directly or through local variables).
func c16OnlyFetchArg(v ssa.Value, seen map[ssa.Value]bool) bool {
	if seen[v] {
		return true
	}
	seen[v] = true
	refs := v.Referrers()
	if refs == nil {
		return true
	}
	for _, r := range *refs {
		switch u := r.(type) {
		case *ssa.DebugRef:
		case *ssa.Call:
			args := u.Call.Args
			if CalleeName(u) != c16Cache+"Set" || len(args) == 0 || args[len(args)-1] != v {
				return false
			}
		case *ssa.Store:
			a, ok := u.Addr.(*ssa.Alloc)
			if !ok || u.Val != v {
				return false
			}
			for _, lr := range *a.Referrers() {
				if ld, isLd := lr.(*ssa.UnOp); isLd && ld.Op == token.MUL {
					if !c16OnlyFetchArg(ld, seen) {
						return false
					}
				}
			}
		case *ssa.Phi, *ssa.ChangeType:
			if !c16OnlyFetchArg(u.(ssa.Value), seen) {
				return false
			}
		case *ssa.Return:
			// returned from a helper that builds the callback: its callers are checked through the view
		default:
			return false
		}
	}
	return true
}

// c16SecretFlows follows Credential.{Username,Password,RefreshToken} forward.
func c16SecretFlows(e *c16Env, sensitiveOK func(*ssa.Function) bool) {
	const R = "C16.R2.secret-sinks"
	c := e.c
	c.Expect(R, 4)
	credT := c.P.Named(c16Pkg, "Credential")
	if credT == nil {
		c.LostAnchor(R, "~/registry/remote/auth.Credential")
		return
	}
	secret := map[string]bool{"Username": true, "Password": true, "RefreshToken": true}
	for f := range secret {
		if !c14HasField(c.P, c16Pkg, "Credential", f) {
			c.LostAnchor(R, "field Credential."+f)
			return
		}
	}
	type sink struct {
		fn   *ssa.Function
		call ssa.CallInstruction
		what string
	}
	var sinks []sink
	bad := map[string]token.Pos{}
	seen := map[ssa.Value]bool{}
	var follow func(v ssa.Value, what string, depth int)
	follow = func(v ssa.Value, what string, depth int) {
		if seen[v] || depth > 12 {
			return
		}
		seen[v] = true
		refs := v.Referrers()
		if refs == nil {
			return
		}
		fn := valueParent(v)
		for _, r := range *refs {
			switch u := r.(type) {
			case *ssa.DebugRef:
			case *ssa.BinOp:
				if u.Op == token.ADD {
					follow(u, what, depth+1)
				} // comparisons are benign
			case *ssa.Convert, *ssa.ChangeType, *ssa.MakeInterface, *ssa.Phi, *ssa.Slice:
				follow(u.(ssa.Value), what, depth+1)
			case *ssa.Store:
				if u.Val != v {
					continue
				}
				switch a := u.Addr.(type) {
				case *ssa.Alloc:
					for _, lr := range *a.Referrers() {
						if ld, ok := lr.(*ssa.UnOp); ok && ld.Op == token.MUL {
							follow(ld, what, depth+1)
						}
					}
				case *ssa.IndexAddr:
					// element of a literal array (variadic arguments): follow the slice made of it
					arr, isArr := a.X.(*ssa.Alloc)
					if !isArr {
						bad[FnName(fn)+"|stored-in-element"] = u.Pos()
						continue
					}
					for _, ar := range *arr.Referrers() {
						if sl, isSl := ar.(*ssa.Slice); isSl {
							follow(sl, what, depth+1)
						}
					}
				case *ssa.FieldAddr:
					bad[FnName(fn)+"|stored-in-field:"+fieldName(a.X.Type(), a.Field)] = u.Pos()
				default:
					bad[FnName(fn)+"|stored-through-pointer"] = u.Pos()
				}
			case *ssa.Return:
				// the Basic token string returned to the cache: follow to the callers' use? No:
				// the returned token is what Cache.Set stores; that is the confirmed Basic flow.
				sinks = append(sinks, sink{fn, nil, "return:" + what})
			case ssa.CallInstruction:
				g := StaticCallee(u)
				if g != nil && inModule(g) && len(g.Blocks) > 0 {
					for i, a := range u.Common().Args {
						if a == v && i < len(g.Params) {
							follow(g.Params[i], what, depth+1)
						}
					}
					continue
				}
				switch CalleeName(u) {
				case "builtin:len", "builtin:cap":
					continue // only the length is taken
				case "builtin:append", "builtin:copy", "builtin:min", "builtin:max":
					if call, isCall := u.(*ssa.Call); isCall {
						follow(call, what, depth+1) // the bytes travel on in the result
					}
					if CalleeName(u) == "builtin:copy" && len(u.Common().Args) == 2 && u.Common().Args[1] == v {
						follow(u.Common().Args[0], what, depth+1)
					}
					continue
				}
				if call, isCall := u.(*ssa.Call); isCall && CalleeName(u) == "(*encoding/base64.Encoding).EncodeToString" {
					sinks = append(sinks, sink{fn, u, what})
					follow(call, what+"(base64)", depth+1)
					continue
				}
				sinks = append(sinks, sink{fn, u, what})
			default:
				bad[FnName(fn)+"|"+fmt.Sprintf("%T", r)] = r.Pos()
			}
		}
	}
	nsrc := 0
	for _, f := range e.fns {
		AllInstrs(f, func(in ssa.Instruction) {
			var name string
			var val ssa.Value
			switch u := in.(type) {
			case *ssa.Field:
				if types.Identical(u.X.Type(), credT) {
					name, val = credT.Underlying().(*types.Struct).Field(u.Field).Name(), u
				}
			case *ssa.FieldAddr:
				if pt, ok := u.X.Type().Underlying().(*types.Pointer); ok && types.Identical(pt.Elem(), credT) {
					fname := credT.Underlying().(*types.Struct).Field(u.Field).Name()
					for _, r := range *u.Referrers() {
						if ld, ok := r.(*ssa.UnOp); ok && ld.Op == token.MUL && secret[fname] {
							nsrc++
							follow(ld, fname, 0)
						}
					}
				}
			}
			if val != nil && secret[name] {
				nsrc++
				follow(val, name, 0)
			}
		})
	}
	if nsrc == 0 {
		c.LostAnchor(R, "reads of Credential.Username/Password/RefreshToken in package auth")
		return
	}
	for _, k := range c14SortedKeys(func() map[string]bool {
		m := map[string]bool{}
		for k := range bad {
			m[k] = true
		}
		return m
	}()) {
		c.Undecided(R, k, bad[k], "a credential secret flows into a construct the flow tracker does not model (stored in a structure / unusual instruction): classify it")
	}
	allowed := map[string]string{
		"(*encoding/base64.Encoding).EncodeToString": "the Basic token string",
		"(*net/http.Request).SetBasicAuth":           "Basic auth of the token request to the realm",
		"(net/url.Values).Set":                       "OAuth2 form posted to the realm",
	}
	type agg struct {
		pos   token.Pos
		ok    bool
		why   string
		count int
	}
	res := map[string]*agg{}
	var order []string
	put := func(k string, pos token.Pos, ok bool, why string) {
		a := res[k]
		if a == nil {
			a = &agg{pos: pos, ok: true}
			res[k] = a
			order = append(order, k)
		}
		a.count++
		if !ok && a.ok {
			a.ok, a.why, a.pos = false, why, pos
		}
	}
	for _, s := range sinks {
		if s.call == nil {
			// returned secret-derived value: allowed only as the (base64) Basic token out of a function of the confirmed chain
			k := FnName(s.fn) + "|returns-secret-derived-value"
			ok := strings.Contains(s.what, "(base64)") && sensitiveOK(s.fn)
			put(k, s.fn.Pos(), ok, "a value derived from "+s.what+" is returned from "+FnName(s.fn)+": only the base64 Basic token may leave a token fetcher")
			continue
		}
		name := CalleeName(s.call)
		k := FnName(s.fn) + "|" + name
		role, ok := allowed[name]
		if !ok {
			put(k, s.call.Pos(), false, s.what+" is passed to "+name+": not one of the confirmed sinks (Basic token, Request.SetBasicAuth, OAuth2 form) — a secret may end up in an error text, a header of the registry request, a log …")
			continue
		}
		okTarget, why := true, ""
		switch name {
		case "(*net/http.Request).SetBasicAuth":
			okTarget, why = e.requestGoesToRealm(s.call.Common().Args[0])
		case "(net/url.Values).Set":
			okTarget, why = e.formGoesToRealm(s.call)
		}
		put(k, s.call.Pos(), okTarget, ifelse(okTarget, role, s.what+" is attached to a request that does not provably go to the challenge's realm: "+why))
	}
	sort.Strings(order)
	for _, k := range order {
		a := res[k]
		c.Check(R, k, a.pos, a.ok, ifelse(a.ok, fmt.Sprintf("%d flow(s) into a confirmed sink", a.count), a.why))
	}
}

// isRealm: v traces to params["realm"] of the challenge parsed from the
// Www-Authenticate header of a response obtained by a send in Do.
func (e *c16Env) isRealm(v ssa.Value) (bool, string) {
	ls := e.BV.Leaves(v)
	if len(ls) == 0 {
		return false, "no origin"
	}
	for _, x := range ls {
		lk, ok := x.(*ssa.Lookup)
		if !ok {
			return false, "it can be " + describe(x)
		}
		if k, okK := constString(lk.Index); !okK || k != "realm" {
			return false, "the challenge parameter used is not \"realm\""
		}
		if !e.fromChallenge(lk.X, 0) {
			return false, "the challenge is not parsed from the Www-Authenticate header of the response to this request"
		}
	}
	return true, ""
}

// fromChallenge: the map m is a result of a call one of whose arguments is
// <response of a send in Do>.Header.Get("Www-Authenticate") — directly, or
// through helpers that Do runs.
func (e *c16Env) fromChallenge(m ssa.Value, depth int) bool {
	if depth > 3 {
		return false
	}
	rs := e.BV.LeavesShallow(m)
	if len(rs) == 0 {
		return false
	}
	for _, r := range rs {
		var call *ssa.Call
		idx := 0
		switch u := r.(type) {
		case *ssa.Extract:
			call, _ = u.Tuple.(*ssa.Call)
			idx = u.Index
		case *ssa.Call:
			call = u
		}
		if call == nil {
			return false
		}
		direct := false
		for _, a := range call.Call.Args {
			for _, h := range e.BV.Leaves(a) {
				if e.isChallengeHeader(h) {
					direct = true
				}
			}
		}
		if direct {
			continue
		}
		g := StaticCallee(call)
		if g == nil || !e.BV.Has(g) {
			return false
		}
		for _, ret := range Returns(g) {
			if idx >= len(ret.Results) || !e.fromChallenge(ret.Results[idx], depth+1) {
				return false
			}
		}
	}
	return true
}

// isChallengeHeader: h = X.Header.Get("Www-Authenticate") with X the response of a request Do sent.
func (e *c16Env) isChallengeHeader(h ssa.Value) bool {
	hg, ok := h.(*ssa.Call)
	if !ok || CalleeName(hg) != c16HdrGet {
		return false
	}
	if k, okK := constString(hg.Call.Args[1]); !okK || !strings.EqualFold(k, "Www-Authenticate") {
		return false
	}
	ld, ok := hg.Call.Args[0].(*ssa.UnOp)
	if !ok {
		return false
	}
	fa, ok := ld.X.(*ssa.FieldAddr)
	if !ok || fieldName(fa.X.Type(), fa.Field) != "net/http.Response.Header" {
		return false
	}
	ls := e.SV.Leaves(fa.X)
	if len(ls) == 0 {
		return false
	}
	for _, rr := range ls {
		rex, ok := rr.(*ssa.Extract)
		if !ok || rex.Index != 0 {
			return false
		}
		sc, ok := rex.Tuple.(*ssa.Call)
		if !ok || CalleeName(sc) != c16HTTPDo || !e.SV.Has(sc.Parent()) {
			return false
		}
	}
	return true
}

// requestGoesToRealm: req is the result of http.NewRequestWithContext(ctx, m, url, body) with url = realm.
func (e *c16Env) requestGoesToRealm(req ssa.Value) (bool, string) {
	rs := e.BV.Leaves(req)
	if len(rs) == 0 {
		return false, "unknown request"
	}
	for _, r := range rs {
		ex, ok := r.(*ssa.Extract)
		if !ok {
			return false, "the request is " + describe(r)
		}
		call, ok := ex.Tuple.(*ssa.Call)
		if !ok || CalleeName(call) != "net/http.NewRequestWithContext" {
			return false, "the request is not built by http.NewRequestWithContext"
		}
		if ok, why := e.isRealm(call.Call.Args[2]); !ok {
			return false, "its URL is not the challenge's realm (" + why + ")"
		}
	}
	return true, ""
}

// formGoesToRealm: the url.Values receiver is encoded into the body of a request to the realm.
func (e *c16Env) formGoesToRealm(set ssa.CallInstruction) (bool, string) {
	fn := set.Parent()
	form := set.Common().Args[0]
	al := map[ssa.Value]bool{}
	for _, r := range Roots(form) {
		for a := range Aliases(r) {
			al[a] = true
		}
	}
	// every NewRequestWithContext in fn must go to the realm, and at least one must take the encoded form
	n := 0
	for _, nr := range CallsTo(fn, "net/http.NewRequestWithContext") {
		n++
		if ok, why := e.isRealm(nr.Common().Args[2]); !ok {
			return false, "a request built in " + FnName(fn) + " does not go to the realm (" + why + ")"
		}
	}
	if n == 0 {
		return false, "no request is built from the form in " + FnName(fn)
	}
	// other escapes of the form value: only Set/Encode/Get on it
	for a := range al {
		if a.Referrers() == nil {
			continue
		}
		for _, r := range *a.Referrers() {
			if call, ok := r.(ssa.CallInstruction); ok {
				switch CalleeName(call) {
				case "(net/url.Values).Set", "(net/url.Values).Encode", "(net/url.Values).Get", "(net/url.Values).Add":
				default:
					return false, "the form holding the secret is passed to " + CalleeName(call)
				}
			}
		}
	}
	return true, ""
}

// ---------- R3 ----------

type c16CacheNames struct {
	ccType, entryType             string
	cache, status, scheme, tokens string
}

func c16IsSyncMap(t types.Type) bool {
	n, ok := t.(*types.Named)
	return ok && n.Obj().Pkg() != nil && n.Obj().Pkg().Path() == "sync" && n.Obj().Name() == "Map"
}

// c16ResolveCache identifies the concurrent cache and its entry type by role:
// the cache is what the exported NewCache returns; the entry is the struct of
// the package that holds a Scheme and a sync.Map; of the cache's two
// sync.Maps the in-flight table is the one that stores *syncutil.Once values.
func c16ResolveCache(c *Ctx) (nm c16CacheNames, why string) {
	newCache := c.P.Fn(c16Pkg, "NewCache")
	if newCache == nil {
		return nm, "~/registry/remote/auth.NewCache"
	}
	var ccT *types.Named
	for _, ret := range Returns(newCache) {
		for _, r := range Roots(ret.Results[0]) {
			t := r.Type()
			if mi, ok := r.(*ssa.MakeInterface); ok {
				t = mi.X.Type()
			}
			if p, ok := t.Underlying().(*types.Pointer); ok {
				t = p.Elem()
			}
			if n, ok := t.(*types.Named); ok {
				ccT = n
			}
		}
	}
	if ccT == nil {
		return nm, "the concrete type NewCache returns"
	}
	nm.ccType = ccT.Obj().Name()
	schemeT := c.P.Named(c16Pkg, "Scheme")
	pkg := c.P.TypesPkg(c16Pkg)
	if schemeT == nil || pkg == nil {
		return nm, "~/registry/remote/auth.Scheme"
	}
	for _, name := range pkg.Scope().Names() {
		tn, ok := pkg.Scope().Lookup(name).(*types.TypeName)
		if !ok {
			continue
		}
		st, ok := tn.Type().Underlying().(*types.Struct)
		if !ok {
			continue
		}
		sf, mf, n := "", "", 0
		for i := 0; i < st.NumFields(); i++ {
			f := st.Field(i)
			if types.Identical(f.Type(), schemeT) {
				sf = f.Name()
				n++
			}
			if c16IsSyncMap(f.Type()) {
				mf = f.Name()
				n++
			}
		}
		if sf != "" && mf != "" && n == 2 {
			nm.entryType, nm.scheme, nm.tokens = name, sf, mf
		}
	}
	if nm.entryType == "" {
		return nm, "the per-registry cache entry (a struct with a Scheme and a sync.Map)"
	}
	cst, ok := ccT.Underlying().(*types.Struct)
	if !ok {
		return nm, "the cache type is not a struct"
	}
	var maps []string
	for i := 0; i < cst.NumFields(); i++ {
		if c16IsSyncMap(cst.Field(i).Type()) {
			maps = append(maps, cst.Field(i).Name())
		}
	}
	if len(maps) != 2 {
		return nm, "the cache type: expected two sync.Map fields (entries, in-flight fetches)"
	}
	tCC := "~/registry/remote/auth." + nm.ccType
	for _, f := range c.P.FuncsOfPkg(c16Pkg) {
		for _, call := range CallsTo(f, "(*sync.Map).LoadOrStore", "(*sync.Map).Store") {
			args := call.Common().Args
			fa, ok := args[0].(*ssa.FieldAddr)
			if !ok || c14NamedOf(fa.X.Type()) != tCC || len(args) < 3 {
				continue
			}
			for _, r := range Roots(args[2]) {
				if c14NamedOf(r.Type()) == "~/internal/syncutil.Once" {
					nm.status = strings.TrimPrefix(fieldName(fa.X.Type(), fa.Field), tCC+".")
				}
			}
		}
	}
	for _, m := range maps {
		if m != nm.status {
			nm.cache = m
		}
	}
	if nm.status == "" || nm.cache == "" {
		return nm, "the cache's in-flight table (the sync.Map that stores *syncutil.Once)"
	}
	return nm, ""
}

// c16OnceFields: the fields of syncutil.Once by type.
func c16OnceFields(c *Ctx) (result, err, status string) {
	ot := c.P.Named("internal/syncutil", "Once")
	if ot == nil {
		return
	}
	st, ok := ot.Underlying().(*types.Struct)
	if !ok {
		return
	}
	for i := 0; i < st.NumFields(); i++ {
		f := st.Field(i)
		switch t := f.Type().Underlying().(type) {
		case *types.Interface:
			if isErrorType(f.Type()) {
				err = f.Name()
			} else if t.NumMethods() == 0 {
				result = f.Name()
			}
		case *types.Chan:
			status = f.Name()
		}
	}
	return
}

// c16Operands: the leaves v is built from, looking through string
// concatenation, strings.Join of a literal list, method calls on a value
// (scheme.String()) and conversions.
func c16Operands(vw *c14View, v ssa.Value, out map[ssa.Value]bool, depth int) {
	if depth > 8 {
		return
	}
	for _, l := range vw.Leaves(v) {
		switch u := l.(type) {
		case *ssa.BinOp:
			if u.Op == token.ADD {
				c16Operands(vw, u.X, out, depth+1)
				c16Operands(vw, u.Y, out, depth+1)
				continue
			}
		case *ssa.Call:
			for _, a := range u.Call.Args {
				c16Operands(vw, a, out, depth+1)
			}
			if u.Call.IsInvoke() {
				c16Operands(vw, u.Call.Value, out, depth+1)
			}
			continue
		case *ssa.Slice:
			if al, ok := u.X.(*ssa.Alloc); ok {
				for _, r := range *al.Referrers() {
					if ia, ok := r.(*ssa.IndexAddr); ok {
						for _, r2 := range *ia.Referrers() {
							if st, ok := r2.(*ssa.Store); ok {
								c16Operands(vw, st.Val, out, depth+1)
							}
						}
					}
				}
				continue
			}
		}
		out[l] = true
	}
}

func c16R3(e *c16Env) {
	const R = "C16.R3.cache-keying"
	c := e.c
	c.Expect(R, 13)
	nm, why := c16ResolveCache(c)
	if why != "" {
		c.LostAnchor(R, why)
		return
	}
	iface := c.P.Named(c16Pkg, "Cache")
	if iface == nil {
		c.LostAnchor(R, "~/registry/remote/auth.Cache")
		return
	}
	tCC, tCE := "~/registry/remote/auth."+nm.ccType, "~/registry/remote/auth."+nm.entryType
	fCache, fStatus, fScheme, fTokens := "."+nm.cache, "."+nm.status, "."+nm.scheme, "."+nm.tokens
	// parameters by their position in the Cache interface: (ctx, registry[, scheme, key[, fetch]])
	param := func(f *ssa.Function, pos int) *ssa.Parameter {
		if f.Signature.Recv() == nil || pos+1 >= len(f.Params) {
			return nil
		}
		return f.Params[pos+1]
	}
	isMapOp := func(n string) bool { return strings.HasPrefix(n, "(*sync.Map).") }
	// the map a sync.Map operation works on: the field its receiver addresses, also when the
	// operation sits in a helper that is handed the map's address
	var curView *c14View
	mapField := func(call ssa.CallInstruction) string {
		recv := call.Common().Args[0]
		if fa, ok := recv.(*ssa.FieldAddr); ok {
			return fieldName(fa.X.Type(), fa.Field)
		}
		if curView == nil {
			return ""
		}
		name := ""
		for _, l := range curView.LeavesShallow(recv) {
			fa, ok := l.(*ssa.FieldAddr)
			if !ok {
				return ""
			}
			n := fieldName(fa.X.Type(), fa.Field)
			if name != "" && n != name {
				return ""
			}
			name = n
		}
		return name
	}
	allIs := func(vw *c14View, v ssa.Value, p *ssa.Parameter) bool {
		if p == nil {
			return false
		}
		ls := vw.Leaves(v)
		for _, l := range ls {
			if l != ssa.Value(p) {
				return false
			}
		}
		return len(ls) > 0
	}
	covered := map[ssa.Instruction]bool{}
	nMethods := 0
	for _, mname := range []string{"GetScheme", "GetToken", "Set"} {
		f := c.P.Fn(c16Pkg, nm.ccType+"."+mname)
		if f == nil {
			c.LostAnchor(R, tCC+"."+mname)
			continue
		}
		nMethods++
		fn := FnName(f)
		vw := c14NewView(f, 4, c16Unexported)
		curView = vw
		reg, scheme, key := param(f, 1), param(f, 2), param(f, 3)
		idx := map[string]int{}
		for _, call := range vw.Calls(isMapOp) {
			covered[call.(ssa.Instruction)] = true
			op := strings.TrimPrefix(CalleeName(call), "(*sync.Map).")
			args := call.Common().Args
			switch mapField(call) {
			case tCC + fCache:
				idx["cache"]++
				ok := len(args) >= 2 && allIs(vw, args[1], reg)
				c.Check(R, fmt.Sprintf("%s|cache.%s#%d|key-is-registry", fn, op, idx["cache"]), call.Pos(), ok,
					ifelse(ok, "the per-registry map is keyed by the registry parameter", "the per-registry cache map is accessed with a key other than the registry parameter: tokens of one registry are returned for another"))
			case tCE + fTokens:
				idx["tokens"]++
				ok := len(args) >= 2 && allIs(vw, args[1], key)
				c.Check(R, fmt.Sprintf("%s|tokens.%s#%d|key-is-key", fn, op, idx["tokens"]), call.Pos(), ok,
					ifelse(ok, "the token map is keyed by the key parameter", "the token map is accessed with a key other than the key parameter: a token fetched for one scope set is reused for another"))
			case tCC + fStatus:
				idx["status"]++
				ok := reg != nil && scheme != nil && key != nil && len(args) >= 2
				if ok {
					ops := map[ssa.Value]bool{}
					c16Operands(vw, args[1], ops, 0)
					ok = ops[reg] && ops[scheme] && ops[key]
				}
				c.Check(R, fmt.Sprintf("%s|status.%s#%d|key-joins-registry-scheme-key", fn, op, idx["status"]), call.Pos(), ok,
					ifelse(ok, "in-flight fetches are keyed by registry, scheme and key together", "the in-flight fetch table is not keyed by (registry, scheme, key): a waiter can be handed the token another registry / scope set is fetching"))
			default:
				c.Undecided(R, fmt.Sprintf("%s|%s|unknown-map", fn, CalleeName(call)), call.Pos(), "sync.Map operation on an unrecognised map")
			}
		}
		// comparisons of a cached entry's scheme with the requested scheme
		schemeTests := func() (eq, neq []Edge) {
			for _, g := range vw.Funcs() {
				for _, i := range Ifs(g) {
					cond, t, fe := ifEdges(i)
					bo, ok := cond.(*ssa.BinOp)
					if !ok || (bo.Op != token.EQL && bo.Op != token.NEQ) {
						continue
					}
					x, y := bo.X, bo.Y
					if !allIs(vw, y, scheme) {
						x, y = y, x
					}
					if !allIs(vw, y, scheme) || !vw.IsLoadOfField(x, tCE, nm.scheme) {
						continue
					}
					if bo.Op == token.EQL {
						eq, neq = append(eq, t), append(neq, fe)
					} else {
						eq, neq = append(eq, fe), append(neq, t)
					}
				}
			}
			return
		}
		switch mname {
		case "GetToken":
			eq, _ := schemeTests()
			ok := len(eq) > 0
			n := 0
			for _, ret := range Returns(f) {
				if !vw.ReachableFromEntry(ret) || len(ret.Results) != 2 {
					continue
				}
				mayNil := false
				for _, l := range vw.Leaves(ret.Results[1]) {
					if ErrNilStatus(l, 0) != NonNil {
						mayNil = true
					}
				}
				if !mayNil {
					continue
				}
				// per phi edge: only the edges on which the error may be nil matter
				for _, a := range RetAtoms(f, 1) {
					if a.Ret != ret {
						continue
					}
					st := NonNil
					for _, l := range vw.Leaves(a.Val) {
						if ErrNilStatus(l, 0) != NonNil {
							st = MaybeNil
						}
					}
					if _, isZero := a.Val.(zeroMarker); isZero {
						st = MaybeNil
					}
					if st == NonNil {
						continue
					}
					n++
					cu := newCut().Edges(eq...)
					if len(a.Edges) == 0 && a.Store == nil {
						if !vw.MustPass(ret, cu) {
							ok = false
						}
					} else if !AtomMustPass(a, cu) && !vw.MustPass(ret, cu) {
						ok = false
					}
				}
			}
			c.Check(R, fn+"|token-only-after-scheme-match", f.Pos(), ok && n > 0,
				ifelse(ok && n > 0, "every successful return has passed entry.scheme == scheme", "GetToken can return a token without the entry's scheme matching the requested scheme: a Basic credential string is sent as a Bearer token (or the reverse)"))
		case "Set":
			// the in-flight marker is removed only by the caller that performed the fetch
			var first map[ssa.Value]bool
			for _, oc := range vw.CallsTo("(*~/internal/syncutil.Once).Do") {
				if r0 := ResultOf(oc, 0); r0 != nil {
					if first == nil {
						first = map[ssa.Value]bool{}
					}
					for a := range vw.StrictAliases(r0) {
						first[a] = true
					}
				}
			}
			firstT, _ := vw.BoolTests(first)
			nDel := 0
			for _, call := range vw.Calls(isMapOp) {
				op := strings.TrimPrefix(CalleeName(call), "(*sync.Map).")
				if mapField(call) != tCC+fStatus || !strings.Contains(op, "Delete") {
					continue
				}
				nDel++
				ok := len(firstT) > 0 && vw.MustPass(call.(ssa.Instruction), newCut().Edges(firstT...))
				c.Check(R, fmt.Sprintf("%s|status.%s#%d|only-by-the-fetcher", fn, op, nDel), call.Pos(), ok,
					ifelse(ok, "the in-flight marker is removed only on the edge where Once.Do reported that this caller ran the fetch", "the in-flight marker can be removed by a caller that did not perform the fetch (e.g. a waiter whose context was cancelled): the fetch still running is forgotten, the next request starts a second token fetch and the credential is sent twice instead of the waiters sharing one result"))
			}
			_, neq := schemeTests()
			fresh := func(v ssa.Value) bool {
				ls := vw.Leaves(v)
				if len(ls) != 1 {
					return false
				}
				a, ok := ls[0].(*ssa.Alloc)
				if !ok || c14NamedOf(a.Type()) != tCE {
					return false
				}
				okS := false
				for _, r := range *a.Referrers() {
					if fa, isFA := r.(*ssa.FieldAddr); isFA && fieldName(fa.X.Type(), fa.Field) == tCE+fScheme {
						for _, r2 := range *fa.Referrers() {
							if st, isSt := r2.(*ssa.Store); isSt {
								okS = allIs(vw, st.Val, scheme)
							}
						}
					}
				}
				return okS
			}
			var replaces []ssa.CallInstruction
			for _, call := range vw.Calls(isMapOp) {
				args := call.Common().Args
				if mapField(call) == tCC+fCache && strings.HasSuffix(CalleeName(call), ".Store") && len(args) == 3 && allIs(vw, args[1], reg) && fresh(args[2]) {
					replaces = append(replaces, call)
				}
			}
			ok := len(neq) > 0
			nStores := 0
			for _, call := range vw.Calls(isMapOp) {
				if mapField(call) != tCE+fTokens || !strings.HasSuffix(CalleeName(call), ".Store") {
					continue
				}
				nStores++
				fa, isFA := call.Common().Args[0].(*ssa.FieldAddr)
				if !isFA {
					for _, l := range vw.LeavesShallow(call.Common().Args[0]) {
						if x, ok := l.(*ssa.FieldAddr); ok {
							fa, isFA = x, true
						}
					}
				}
				if !isFA {
					ok = false
					continue
				}
				for _, ed := range neq {
					if vw.EdgeReach(ed, call.(ssa.Instruction), newCut().Calls(replaces)) {
						ok = false
					}
					// the entry written on a path coming from the scheme-differs edge is the fresh one
					if phi, isPhi := fa.X.(*ssa.Phi); isPhi && phi.Parent() == ed.To.Parent() {
						for i, p := range phi.Block().Preds {
							from := p == ed.To || reach(ed.To, 0, p.Instrs[len(p.Instrs)-1], nil)
							if from && !fresh(phi.Edges[i]) {
								ok = false
							}
						}
					} else if vw.EdgeReach(ed, call.(ssa.Instruction), nil) {
						// not a local merge: every entry it may denote that was loaded from the map must have been re-checked — require a fresh one
						all := true
						for _, l := range vw.Leaves(fa.X) {
							if !fresh(l) {
								all = false
							}
						}
						if !all && !isPhi {
							ok = false
						}
					}
				}
			}
			c.Check(R, fn+"|scheme-change-replaces-entry", f.Pos(), ok && nStores > 0,
				ifelse(ok && nStores > 0, "when the cached entry has another scheme a fresh entry (scheme = requested scheme) replaces it before the token is stored", "after a scheme change the new token is stored into the old scheme's entry (or the entry is not replaced): GetToken then serves a token of one scheme under the other scheme's key"))
		}
	}
	if nMethods == 0 {
		return
	}
	curView = nil
	// map operations outside the three Cache methods of concurrentCache
	for _, f := range e.fns {
		for _, call := range Calls(f, isMapOp) {
			mf := mapField(call)
			if (mf == tCC+fCache || mf == tCC+fStatus || mf == tCE+fTokens) && !covered[call.(ssa.Instruction)] {
				c.Violation(R, FnName(f)+"|"+CalleeName(call)+"|outside-cache-methods", call.Pos(), "the token cache's maps are accessed by a function that GetScheme/GetToken/Set do not run: its key is not tied to their registry/key parameters")
			}
		}
	}
	// wrapper caches forward registry and scheme unchanged
	nFwd := 0
	for _, f := range e.fns {
		if f.Signature.Recv() == nil || f.Parent() != nil || c14NamedOf(f.Signature.Recv().Type()) == tCC {
			continue
		}
		m, _, _ := types.LookupFieldOrMethod(iface, false, f.Pkg.Pkg, f.Name())
		im, ok := m.(*types.Func)
		if !ok || !types.Identical(im.Type().(*types.Signature).Params(), f.Signature.Params()) {
			continue
		}
		idx := map[string]int{}
		fv := c14NewView(f, 3, c16Unexported)
		for _, a := range Anons(f) {
			fv.AddRoot(a, 3, c16Unexported)
		}
		same := func(v ssa.Value, p *ssa.Parameter) bool {
			if p == nil {
				return false
			}
			ls := fv.Leaves(v)
			for _, l := range ls {
				if l != ssa.Value(p) {
					return false
				}
			}
			return len(ls) > 0
		}
		for _, call := range fv.Calls(func(n string) bool { return strings.HasPrefix(n, c16Cache) }) {
			nFwd++
			name := CalleeName(call)
			idx[name]++
			args := call.Common().Args // invoke: Args exclude the receiver
			ok := len(args) >= 2 && same(args[1], param(f, 1))
			if len(args) >= 3 && param(f, 2) != nil {
				ok = ok && same(args[2], param(f, 2))
			}
			if len(args) >= 4 && param(f, 3) != nil {
				_, isK := constString(args[3])
				ok = ok && (same(args[3], param(f, 3)) || isK)
			}
			c.Check(R, fmt.Sprintf("%s|%s#%d|forwards-registry-scheme", FnName(f), name, idx[name]), call.Pos(), ok,
				ifelse(ok, "the wrapper passes its own registry (and scheme; key or a constant) to the wrapped cache", "a wrapping cache calls the wrapped cache with another registry/scheme/key than it was asked for"))
		}
	}
	if nFwd == 0 {
		c.LostAnchor(R, "wrapper caches (hostCache/fallbackCache) forwarding to a Cache")
	}
	c16BearerKeys(e)
}

func c16BearerKeys(e *c16Env) {
	const R = "C16.R3.bearer-key-is-scope-set"
	c := e.c
	c.Expect(R, 3)
	_, bearer, ok := c16SchemeConsts(c)
	if !ok {
		c.LostAnchor(R, "SchemeBearer")
		return
	}
	producer := func(v ssa.Value) (bool, string) {
		call, ok := v.(*ssa.Call)
		if !ok {
			return false, describe(v)
		}
		switch CalleeName(call) {
		case c16AllScopes, "~/registry/remote/auth.CleanScopes", "~/registry/remote/auth.GetScopesForHost", "~/registry/remote/auth.GetScopes":
			return true, "" // every one of them yields a CleanScopes-canonical list
		}
		return false, CalleeName(call)
	}
	idx := map[string]int{}
	n := 0
	for _, f := range e.SV.Funcs() {
		for _, call := range c16CacheCalls(f) {
			name := CalleeName(call)
			if name != c16Cache+"GetToken" && name != c16Cache+"Set" {
				continue
			}
			args := call.Common().Args
			if k, isK := c16ConstOf(e.SV, args[2]); !isK || k != bearer {
				continue
			}
			n++
			short := strings.TrimPrefix(name, c16Cache)
			idx[FnName(f)+short]++
			key := fmt.Sprintf("%s|%s#%d", FnName(f), short, idx[FnName(f)+short])
			okKey, why := true, ""
			lists := map[ssa.Value]bool{}
			ks := e.SV.Leaves(args[3])
			if len(ks) == 0 {
				okKey, why = false, "no key"
			}
			for _, r := range ks {
				if k, isK := constString(r); isK && k == "" {
					continue // the key of the empty scope list
				}
				j, isCall := r.(*ssa.Call)
				if !isCall || CalleeName(j) != "strings.Join" {
					okKey, why = false, "the key is "+describe(r)+", not strings.Join(scopes, \" \")"
					continue
				}
				if sep, isS := constString(j.Call.Args[1]); !isS || sep != " " {
					okKey, why = false, "the separator is not a single space"
				}
				for _, s := range e.SV.Leaves(j.Call.Args[0]) {
					if c14IsZero(s) {
						continue // nil: the empty scope list is canonical
					}
					lists[s] = true
					if ok, w := producer(s); !ok {
						okKey, why = false, "the joined list comes from "+w+", not from GetAllScopesForHost / CleanScopes"
					}
				}
			}
			c.Check(R, key+"|key-is-clean-scope-list", call.Pos(), okKey,
				ifelse(okKey, "the bearer cache key is strings.Join of the scope list produced by GetAllScopesForHost / CleanScopes", "the bearer cache key is not the canonical scope list: "+why))
			if short != "Set" {
				continue
			}
			// the token is fetched for the very scope list that forms the key
			cc, _ := call.(*ssa.Call)
			var fetch *ssa.Function
			if cc != nil {
				fetch, _ = e.fetchTarget(cc)
			}
			if fetch == nil {
				c.Undecided(R, key+"|fetch-uses-keyed-scopes", call.Pos(), "cannot resolve the fetch argument of Cache.Set to a function")
				continue
			}
			used := map[ssa.Value]bool{}
			for _, fc := range Calls(fetch, func(string) bool { return true }) {
				for _, a := range fc.Common().Args {
					if sl, isSl := a.Type().Underlying().(*types.Slice); isSl {
						if b, isB := sl.Elem().Underlying().(*types.Basic); isB && b.Kind() == types.String {
							for _, l := range e.fetchScopeLeaves(a, call.(ssa.Instruction)) {
								if !c14IsZero(l) {
									used[l] = true
								}
							}
						}
					}
				}
			}
			same := len(used) > 0 && len(used) == len(lists)
			for l := range used {
				if !lists[l] {
					same = false
				}
			}
			detailKS := "the token is fetched for a scope list other than the one it is cached under"
			if cc != nil && same {
				if why := c16KeyMatchesScopesOnPaths(cc); why != "" {
					same, detailKS = false, why
				}
			}
			c.Check(R, key+"|fetch-uses-keyed-scopes", call.Pos(), same,
				ifelse(same, "the fetch callback is given the same scope list the key was computed from (also path by path where the key is computed once)", detailKS))
		}
	}
	if n == 0 {
		c.LostAnchor(R, "bearer cache calls run by Client.Do")
	}
}

// fetchScopeLeaves resolves a value used inside a fetch callback to what it
// denotes when Cache.Set runs the callback at `at`: a captured variable denotes
// the stores that reach `at` (plus any later or foreign store, conservatively).
func (e *c16Env) fetchScopeLeaves(v ssa.Value, at ssa.Instruction) []ssa.Value {
	var out []ssa.Value
	for _, r := range Roots(v) {
		if u, ok := r.(*ssa.UnOp); ok && u.Op == token.MUL {
			if fv, ok := u.X.(*ssa.FreeVar); ok {
				if cell := c14FreeVarAlloc(fv); cell != nil && cell.Parent() == at.Parent() {
					seen := map[*ssa.Store]bool{}
					for _, s := range ReachingStores(cell, at) {
						if s != nil {
							seen[s] = true
							out = append(out, e.SV.Leaves(s.Val)...)
						}
					}
					for _, s := range c14CellStores(cell) {
						if !seen[s] && (s.Parent() != at.Parent() || Reachable(at, s)) {
							out = append(out, e.SV.Leaves(s.Val)...)
						}
					}
					continue
				}
			}
		}
		out = append(out, e.BV.Leaves(r)...)
	}
	return out
}

// ---------- R4 ----------

// c16Budget computes, over the CFG of fn with back edges removed, the maximum
// (and minimum) total weight of instructions on any path from block `from` to
// a function exit.  inLoop reports a weighted instruction inside a loop.
func c16Budget(fn *ssa.Function, from *ssa.BasicBlock, weight func(ssa.Instruction) int) (max, min int, inLoop ssa.Instruction) {
	back := map[Edge]bool{}
	for _, l := range Loops(fn) {
		for _, b := range l.Backs {
			back[b] = true
		}
		for b := range l.Blocks {
			for _, in := range b.Instrs {
				if weight(in) > 0 && inLoop == nil {
					inLoop = in
				}
			}
		}
	}
	type mm struct{ max, min int }
	memo := map[*ssa.BasicBlock]mm{}
	var rec func(b *ssa.BasicBlock) mm
	rec = func(b *ssa.BasicBlock) mm {
		if r, ok := memo[b]; ok {
			return r
		}
		memo[b] = mm{0, 0} // cycle guard (irreducible): treated as exit
		w := 0
		for _, in := range b.Instrs {
			w += weight(in)
		}
		best, least, n := 0, 0, 0
		for _, s := range b.Succs {
			if back[Edge{b, s}] {
				continue
			}
			r := rec(s)
			if n == 0 || r.max > best {
				best = r.max
			}
			if n == 0 || r.min < least {
				least = r.min
			}
			n++
		}
		memo[b] = mm{w + best, w + least}
		return memo[b]
	}
	r := rec(from)
	return r.max, r.min, inLoop
}

// c16Weigher gives every call the maximum leaf weight its in-package static
// callee can accumulate on one path (interprocedural longest path, no recursion).
type c16Weigher struct {
	c         *Ctx
	leaf      func(ssa.CallInstruction) int
	memo      map[*ssa.Function]int
	onStack   map[*ssa.Function]bool
	undecided string
}

func (w *c16Weigher) instr(in ssa.Instruction) int {
	call, ok := in.(ssa.CallInstruction)
	if !ok {
		return 0
	}
	if k := w.leaf(call); k > 0 {
		return k
	}
	g := StaticCallee(call)
	if g == nil || fnPkgPath(g) != pkgPath(c16Pkg) {
		return 0
	}
	return w.fn(g, 1)
}

func (w *c16Weigher) fn(f *ssa.Function, depth int) int {
	if w.memo == nil {
		w.memo, w.onStack = map[*ssa.Function]int{}, map[*ssa.Function]bool{}
	}
	if v, ok := w.memo[f]; ok {
		return v
	}
	if w.onStack[f] || len(w.onStack) > 8 {
		w.undecided = "recursion through " + FnName(f)
		return 0
	}
	if len(f.Blocks) == 0 {
		return 0
	}
	w.onStack[f] = true
	mx, _, loop := c16Budget(f, f.Blocks[0], w.instr)
	delete(w.onStack, f)
	if loop != nil {
		w.undecided = "a counted call sits inside a loop in " + FnName(f) + " at " + w.c.P.Pos(loop.Pos())
	}
	w.memo[f] = mx
	return mx
}

func c16R4(e *c16Env) {
	const R = "C16.R4.send-budget"
	c := e.c
	c.Expect(R, 5)
	D := e.Do
	dn := FnName(D)
	// interprocedural weights: a call weighs what its in-package static callee can do at most
	sendsW := &c16Weigher{c: c, leaf: func(call ssa.CallInstruction) int {
		if CalleeName(call) == c16HTTPDo {
			return 1
		}
		return 0
	}}
	setsW := &c16Weigher{c: c, leaf: func(call ssa.CallInstruction) int {
		if CalleeName(call) == c16Cache+"Set" {
			return 1
		}
		return 0
	}}
	maxSends := func(f *ssa.Function, _ int) int { return sendsW.fn(f, 1) }
	w := sendsW.instr
	mx, _, loop := c16Budget(D, D.Blocks[0], w)
	switch {
	case loop != nil:
		c.Undecided(R, dn+"|sends<=3", loop.Pos(), "a send sits inside a loop of Client.Do: the number of sends is not bounded by the path structure")
	case sendsW.undecided != "":
		c.Undecided(R, dn+"|sends<=3", D.Pos(), sendsW.undecided)
	default:
		c.Check(R, dn+"|sends<=3", D.Pos(), mx <= 3 && mx >= 1,
			ifelse(mx <= 3 && mx >= 1, fmt.Sprintf("the longest path of Client.Do performs %d sends (cached attempt, scope-change attempt, attempt with fresh token)", mx),
				fmt.Sprintf("a path of Client.Do performs %d sends to the registry (at most 3 allowed: the same credentials are replayed against a registry that keeps answering 401)", mx)))
	}
	ms, _, loopS := c16Budget(D, D.Blocks[0], setsW.instr)
	switch {
	case loopS != nil:
		c.Undecided(R, dn+"|token-fetches<=1", loopS.Pos(), "Cache.Set sits inside a loop of Client.Do")
	case setsW.undecided != "":
		c.Undecided(R, dn+"|token-fetches<=1", D.Pos(), setsW.undecided)
	default:
		c.Check(R, dn+"|token-fetches<=1", D.Pos(), ms == 1,
			ifelse(ms == 1, "at most one Cache.Set (token fetch) on any path", fmt.Sprintf("a path of Client.Do runs %d token fetches (Cache.Set); at most one is allowed", ms)))
	}
	// each token fetch is at most one request
	nf := 0
	for _, call := range e.SV.CallsTo(c16Cache + "Set") {
		cc, _ := call.(*ssa.Call)
		var fetch *ssa.Function
		if cc != nil {
			fetch, _ = e.fetchTarget(cc)
		}
		if fetch == nil {
			c.Undecided(R, FnName(call.Parent())+"|fetch-is-one-request", call.Pos(), "cannot resolve the fetch argument of Cache.Set to a function")
			continue
		}
		nf++
		sendsW.undecided = ""
		m := maxSends(fetch, 1)
		if sendsW.undecided != "" {
			c.Undecided(R, fmt.Sprintf("%s|fetch-is-one-request#%d", FnName(call.Parent()), nf), call.Pos(), sendsW.undecided)
			continue
		}
		c.Check(R, fmt.Sprintf("%s|fetch-is-one-request#%d", FnName(call.Parent()), nf), call.Pos(), m <= 1,
			ifelse(m <= 1, fmt.Sprintf("the token fetch sends at most %d request", m), fmt.Sprintf("a token fetch can send %d requests carrying the credential", m)))
	}
	if nf == 0 {
		c.LostAnchor(R, dn+": fetch closures of Cache.Set")
	}
	// preset Authorization: exactly one send, no cache access
	var pre []Edge
	// presetTest: bo is `<originalReq>.Header.Get("Authorization") ==/!= ""`; returns +1 if it is true when preset, -1 if false when preset
	presetTest := func(l ssa.Value) int {
		bo, ok := l.(*ssa.BinOp)
		if !ok || (bo.Op != token.NEQ && bo.Op != token.EQL) {
			return 0
		}
		x, y := bo.X, bo.Y
		if s, isS := constString(y); !isS || s != "" {
			x, y = y, x
		}
		if s, isS := constString(y); !isS || s != "" {
			return 0
		}
		gs := e.SV.Leaves(x)
		if len(gs) == 0 {
			return 0
		}
		for _, gl := range gs {
			get, isGet := gl.(*ssa.Call)
			if !isGet || CalleeName(get) != c16HdrGet {
				return 0
			}
			if k, isK := constString(get.Call.Args[1]); !isK || !strings.EqualFold(k, "Authorization") {
				return 0
			}
			ld, isLd := get.Call.Args[0].(*ssa.UnOp)
			if !isLd {
				return 0
			}
			fa, isFA := ld.X.(*ssa.FieldAddr)
			if !isFA || fieldName(fa.X.Type(), fa.Field) != "net/http.Request.Header" || !e.isOrig(fa.X, e.SV) {
				return 0
			}
		}
		if bo.Op == token.NEQ {
			return 1
		}
		return -1
	}
	for _, g := range e.SV.Funcs() {
		for _, i := range Ifs(g) {
			cond, t, f := ifEdges(i)
			pol := 0
			ls := e.SV.Leaves(cond)
			for j, l := range ls {
				p := presetTest(l)
				if p == 0 || (j > 0 && p != pol) {
					pol = 0
					break
				}
				pol = p
			}
			switch pol {
			case 1:
				pre = append(pre, t)
			case -1:
				pre = append(pre, f)
			}
		}
	}
	if len(pre) == 0 {
		c.Violation(R, dn+"|preset-authorization-passthrough", D.Pos(), "Client.Do does not test for a caller-supplied Authorization header: a preset credential would be overridden or the cache consulted")
		return
	}
	for _, ed := range pre {
		mxp, mnp := e.SV.Weights(e.SV.atBlock(ed.To), func(in ssa.Instruction) int {
			if call, ok := in.(ssa.CallInstruction); ok && CalleeName(call) == c16HTTPDo {
				return 1
			}
			return 0
		})
		cacheTouched := false
		for _, call := range e.SV.Calls(func(n string) bool { return strings.HasPrefix(n, c16Cache) }) {
			if e.SV.EdgeReach(ed, call.(ssa.Instruction), nil) {
				cacheTouched = true
			}
		}
		ok := mxp == 1 && mnp == 1 && !cacheTouched
		c.Check(R, dn+"|preset-authorization-passthrough", blockPos(ed.To), ok,
			ifelse(ok, "with a preset Authorization header exactly one send and no cache access", fmt.Sprintf("with a preset Authorization header Do performs between %d and %d sends, cache touched: %v", mnp, mxp, cacheTouched)))
	}
}

// ---------- R5 ----------

func c16R5(e *c16Env) {
	const R = "C16.R5.once-protocol"
	c := e.c
	c.Expect(R, 7)
	const tOnce = "~/internal/syncutil.Once"
	F := c.P.Fn("internal/syncutil", "Once.Do")
	if F == nil || len(F.Params) != 3 {
		c.LostAnchor(R, "~/internal/syncutil.Once.Do(ctx, f)")
		return
	}
	oResult, oErr, oStatus := c16OnceFields(c)
	if oResult == "" || oErr == "" || oStatus == "" {
		c.LostAnchor(R, "~/internal/syncutil.Once: expected one interface{} (result), one error and one chan bool (status) field")
		return
	}
	fn := FnName(F)
	vw := c14NewView(F, 4, func(g *ssa.Function) bool {
		return fnPkgPath(g) == pkgPath("internal/syncutil") && (g.Parent() != nil || g.Object() == nil || !g.Object().Exported())
	})
	fparam := F.Params[2]
	var fcalls []ssa.CallInstruction
	for _, call := range vw.Calls(func(string) bool { return true }) {
		cv := call.Common().Value
		if call.Common().IsInvoke() || cv == nil {
			continue
		}
		if _, isFn := cv.(*ssa.Function); isFn {
			continue
		}
		if _, isB := cv.(*ssa.Builtin); isB {
			continue
		}
		ls := vw.Leaves(cv)
		if len(ls) == 1 && ls[0] == ssa.Value(fparam) {
			fcalls = append(fcalls, call)
		}
	}
	if len(fcalls) != 1 {
		c.LostAnchor(R, fn+": the single call of f")
		return
	}
	fc := fcalls[0]
	fci := fc.(ssa.Instruction)
	fres, ferr := ResultOf(fc, 0), ResultOf(fc, 1)
	isStatus := func(ch ssa.Value) bool { return vw.IsLoadOfField(ch, tOnce, oStatus) }
	// f runs only with the token (received true from status)
	var sel *ssa.Select
	vw.Instrs(func(in ssa.Instruction) {
		if s, ok := in.(*ssa.Select); ok {
			for _, st := range s.States {
				if st.Dir == types.RecvOnly && isStatus(st.Chan) {
					sel = s
				}
			}
		}
	})
	okTok := false
	if sel != nil {
		k := -1
		for i, st := range sel.States {
			if st.Dir == types.RecvOnly && isStatus(st.Chan) {
				k = i
			}
		}
		ri := 2
		for i := 0; i < k; i++ {
			if sel.States[i].Dir == types.RecvOnly {
				ri++
			}
		}
		recvd := map[ssa.Value]bool{}
		for _, r := range *sel.Referrers() {
			if ex, ok := r.(*ssa.Extract); ok && ex.Index == ri {
				for a := range vw.Aliases(ex) {
					recvd[a] = true
				}
			}
		}
		te, _ := vw.BoolTests(recvd)
		if ce, found := selectCaseEdge(sel, k); found && len(te) > 0 {
			okTok = vw.MustPass(fci, newCut().Edges(ce)) && vw.MustPass(fci, newCut().Edges(te...))
		}
	} else {
		// a plain receive `v := <-o.status` (no cancellation alternative) still gates f
		recvd := map[ssa.Value]bool{}
		vw.Instrs(func(in ssa.Instruction) {
			if u, ok := in.(*ssa.UnOp); ok && u.Op == token.ARROW && isStatus(u.X) {
				for a := range vw.Aliases(u) {
					recvd[a] = true
				}
			}
		})
		te, _ := vw.BoolTests(recvd)
		okTok = len(te) > 0 && vw.MustPass(fci, newCut().Edges(te...))
	}
	c.Check(R, fn+"|f-runs-only-with-token", fc.Pos(), okTok,
		ifelse(okTok, "f is called only after receiving `true` from o.status", "f can run without holding the in-progress token: two fetches with the credential run at once, or f runs after a result was stored"))
	// stores precede close
	var closes []ssa.CallInstruction
	for _, cl := range vw.CallsTo("builtin:close") {
		if isStatus(cl.Common().Args[0]) {
			closes = append(closes, cl)
		}
	}
	resStores, errStores := vw.FieldStores(tOnce, oResult), vw.FieldStores(tOnce, oErr)
	toI := func(ss []*ssa.Store) []ssa.Instruction {
		var o []ssa.Instruction
		for _, s := range ss {
			o = append(o, s)
		}
		return o
	}
	callsI := func(cs []ssa.CallInstruction) []ssa.Instruction {
		var o []ssa.Instruction
		for _, x := range cs {
			o = append(o, x.(ssa.Instruction))
		}
		return o
	}
	only := func(v ssa.Value, want ssa.Value) bool {
		ls := vw.Leaves(v)
		return want != nil && len(ls) == 1 && ls[0] == want
	}
	ok := len(closes) > 0 && len(resStores) > 0 && len(errStores) > 0
	for _, cl := range closes {
		if !vw.MustPass(cl.(ssa.Instruction), newCut().Instr(toI(resStores)...)) || !vw.MustPass(cl.(ssa.Instruction), newCut().Instr(toI(errStores)...)) {
			ok = false
		}
	}
	for _, s := range resStores {
		ok = ok && only(s.Val, fres)
	}
	for _, s := range errStores {
		ok = ok && only(s.Val, ferr)
	}
	for _, s := range append(toI(resStores), toI(errStores)...) {
		for _, cl := range closes {
			if vw.Reachable(cl.(ssa.Instruction), s) {
				ok = false
			}
		}
	}
	c.Check(R, fn+"|result-stored-before-close", F.Pos(), ok,
		ifelse(ok, "o.result and o.err are set from f's results on every path to close(o.status), never after it", "close(o.status) can be reached before o.result/o.err hold f's results: waiters read an empty token (and send it), or a torn result"))
	// cancellation: token handed back, nothing stored, not closed
	if ferr == nil {
		c.Violation(R, fn+"|cancellation-hands-token-back", fc.Pos(), "f's error is discarded")
		return
	}
	var canc []Edge
	errAl := vw.Aliases(ferr)
	perSentinel := map[string][]Edge{}
	for _, g := range vw.Funcs() {
		for _, sn := range []string{"context.Canceled", "context.DeadlineExceeded"} {
			perSentinel[sn] = append(perSentinel[sn], toleratedEdges(g, errAl, []string{sn})...)
		}
	}
	// an equivalent test: the call's own context has ended (ctx.Err() != nil after f returned)
	var ctxEnded []Edge
	for _, ec := range vw.CallsTo("(context.Context).Err") {
		if ec.Value() == nil || !vw.Reachable(fci, ec.(ssa.Instruction)) {
			continue
		}
		_, nn := vw.NilTests(vw.StrictAliases(ec.Value()))
		ctxEnded = append(ctxEnded, nn...)
	}
	missing := ""
	for _, sn := range []string{"context.Canceled", "context.DeadlineExceeded"} {
		if len(perSentinel[sn]) == 0 && len(ctxEnded) == 0 {
			missing += " " + sn
		}
		canc = append(canc, perSentinel[sn]...)
	}
	canc = append(canc, ctxEnded...)
	if missing != "" {
		c.Violation(R, fn+"|cancellation-covers-both-sentinels", fc.Pos(), "Once.Do does not treat f's error"+missing+" as an aborted call: a fetch that died on the fetching request's own cancellation/deadline is memoised, and a waiter with valid credentials and a live context is served that error instead of a token")
	} else {
		c.OK(R, fn+"|cancellation-covers-both-sentinels", fc.Pos(), "both context.Canceled and context.DeadlineExceeded (or the call's ctx.Err()) are recognised as an aborted call")
	}
	var backs []ssa.Instruction
	for _, s := range vw.Sends() {
		if len(CallsTo(s.Parent(), "builtin:recover")) > 0 {
			continue // the panic handler's hand-back is checked separately below
		}
		if b, isB := c14ConstBool(s.X); isB && b && isStatus(s.Chan) {
			backs = append(backs, s)
		}
	}
	okC := len(canc) >= 1 && len(backs) > 0
	for _, ed := range canc {
		if vw.ExitFromEdge(ed, newCut().Instr(backs...)) {
			okC = false
		}
		for _, x := range append(append(toI(resStores), toI(errStores)...), callsI(closes)...) {
			if vw.EdgeReach(ed, x, nil) {
				okC = false
			}
		}
	}
	for _, b := range backs {
		if !vw.MustPass(b, newCut().Edges(canc...)) {
			okC = false
		}
	}
	c.Check(R, fn+"|cancellation-hands-token-back", fc.Pos(), okC,
		ifelse(okC, "on context.Canceled / DeadlineExceeded the token `true` is put back, nothing is stored and the channel stays open", "a cancelled fetch does not hand the in-progress token back exactly once without storing: the next caller parks forever, or every later caller is served the cancellation error as the token result"))
	// after f ran every exit has released the waiters
	okS := !vw.ExitAfter(fci, newCut().Calls(closes).Instr(backs...))
	c.Check(R, fn+"|every-exit-after-f-releases-waiters", fc.Pos(), okS,
		ifelse(okS, "after f ran every return has either closed the status channel or put the token back", "a path returns after running f without closing o.status or handing the token back: requests waiting on the same token fetch park forever"))
	// waiters read the stored result only on a closed channel (received false)
	okW := true
	nW := 0
	for _, g := range vw.Funcs() {
		for _, ret := range Returns(g) {
			if len(ret.Results) != 3 || !vw.ReachableFromEntry(ret) {
				continue
			}
			isStored := false
			for _, l := range Roots(ret.Results[1]) {
				if c14IsLoadOfField(l, tOnce, oResult) {
					isStored = true
				}
			}
			if !isStored {
				continue
			}
			nW++
			first, isK := c14ConstBool(Roots(ret.Results[0])[0])
			if !isK || first || !c14IsLoadOfField(ret.Results[2], tOnce, oErr) || !c14IsLoadOfField(ret.Results[1], tOnce, oResult) {
				okW = false
			}
			// not after f ran in this call
			if vw.Reachable(fci, ret) {
				okW = false
			}
		}
	}
	c.Check(R, fn+"|waiter-returns-stored-result", F.Pos(), okW && nW > 0,
		ifelse(okW && nW > 0, "a caller that finds the channel closed returns (false, o.result, o.err)", "a waiting caller does not return the stored (result, err) with first=false"))
	// panic path: a deferred function (literal or method) of a function on f's call stack hands the token back
	okP := false
	for _, host := range vw.Funcs() {
		AllInstrs(host, func(in ssa.Instruction) {
			d, isD := in.(*ssa.Defer)
			if !isD {
				return
			}
			a := StaticCallee(d)
			if a == nil || len(a.Blocks) == 0 {
				return
			}
			rec := CallsTo(a, "builtin:recover")
			if len(rec) == 0 || !vw.MustPass(fci, newCut().Instr(d)) {
				return
			}
			av := c14NewView(a, 2, nil)
			if recv := d.Call.Args; len(recv) > 0 && len(a.Params) > 0 {
				av.bind[a.Params[0]] = append(av.bind[a.Params[0]], recv[0])
			}
			_, nn, _ := NilTests(a, Aliases(rec[0].Value()))
			var pb []ssa.Instruction
			for _, s := range c14Sends(a) {
				if b, isB := c14ConstBool(s.X); isB && b {
					isSt := len(av.LeavesShallow(s.Chan)) > 0
					for _, r := range av.LeavesShallow(s.Chan) {
						ld, isLd := r.(*ssa.UnOp)
						if !isLd {
							isSt = false
							continue
						}
						fa, isFA := ld.X.(*ssa.FieldAddr)
						if !isFA || fieldName(fa.X.Type(), fa.Field) != tOnce+"."+oStatus {
							isSt = false
						}
					}
					if isSt {
						pb = append(pb, s)
					}
				}
			}
			good := len(nn) > 0 && len(pb) > 0
			for _, ed := range nn {
				for _, b := range a.Blocks {
					if len(b.Instrs) == 0 {
						continue
					}
					last := b.Instrs[len(b.Instrs)-1]
					switch last.(type) {
					case *ssa.Panic, *ssa.Return:
						if reach(ed.To, 0, last, newCut().Instr(pb...)) {
							good = false
						}
					}
				}
			}
			for _, s := range pb {
				if !MustPass(s, newCut().Edges(nn...)) {
					good = false
				}
			}
			if good {
				okP = true
			}
		})
	}
	c.Check(R, fn+"|panic-hands-token-back", F.Pos(), okP,
		ifelse(okP, "a deferred recover handler puts the token back (only) when f panicked", "a panic in f leaves the in-progress token taken (later callers park forever), or the handler puts a second token back on normal exits"))
}

// ---------- R4b: a stale cached token is replaced ----------

// c16StaleToken: every send of Client.Do whose request carries a token taken
// from the cache (Cache.GetToken) is followed — on every path to a return of
// Do — by a test of that response's status against 401 (or by the send's own
// error return), and the 401 side of that test leads on to the token fetch
// (Cache.Set).  Otherwise an expired cached token is handed back to the caller
// as the registry's 401 although valid credentials are at hand.
func c16StaleToken(e *c16Env) {
	const R = "C16.R4.stale-token-replaced"
	c := e.c
	c.Expect(R, 1)
	V := e.SV
	// status tests against 401 and their edges
	var all401, sides401 []Edge // both edges of every test; the "== 401" side
	for _, g := range V.Funcs() {
		for _, i := range Ifs(g) {
			cond, t, f := ifEdges(i)
			bo, ok := cond.(*ssa.BinOp)
			if !ok || (bo.Op != token.EQL && bo.Op != token.NEQ) {
				continue
			}
			x, y := bo.X, bo.Y
			if k, isK := constInt(y); !isK || k != 401 {
				x, y = y, x
			}
			if k, isK := constInt(y); !isK || k != 401 {
				continue
			}
			isStatus := false
			for _, l := range V.Leaves(x) {
				if ld, isLd := l.(*ssa.UnOp); isLd && ld.Op == token.MUL {
					if fa, isFA := ld.X.(*ssa.FieldAddr); isFA && fieldName(fa.X.Type(), fa.Field) == "net/http.Response.StatusCode" {
						isStatus = true
					}
				}
			}
			if !isStatus {
				continue
			}
			all401 = append(all401, t, f)
			if bo.Op == token.EQL {
				sides401 = append(sides401, t)
			} else {
				sides401 = append(sides401, f)
			}
		}
	}
	sets := V.CallsTo(c16Cache + "Set")
	// Authorization assignments with a cached token, per instance: the clone they are made on
	type cv = c14CV
	cachedClones := map[cv]bool{}
	V.Each(func(li c14LI) {
		call, ok := li.In.(*ssa.Call)
		if !ok || CalleeName(call) != c16HdrSet {
			return
		}
		if k, isK := constString(call.Call.Args[1]); !isK || !strings.EqualFold(k, "Authorization") {
			return
		}
		fromCache := false
		for _, ops := range c16Concat(V, call.Call.Args[2], li.Ctx, 0) {
			if len(ops) == 0 {
				continue
			}
			tok := ops[len(ops)-1]
			if ex, isEx := tok.V.(*ssa.Extract); isEx && ex.Index == 0 {
				if cc, isCall := ex.Tuple.(*ssa.Call); isCall && CalleeName(cc) == c16Cache+"GetToken" {
					fromCache = true
				}
			}
		}
		if !fromCache {
			return
		}
		if ld, isLd := call.Call.Args[0].(*ssa.UnOp); isLd {
			if fa, isFA := ld.X.(*ssa.FieldAddr); isFA {
				for _, l := range V.LeavesIn(fa.X, li.Ctx) {
					cachedClones[l] = true
				}
			}
		}
	})
	n := 0
	V.Each(func(li c14LI) {
		call, ok := li.In.(*ssa.Call)
		if !ok || CalleeName(call) != c16HTTPDo || len(call.Call.Args) != 2 {
			return
		}
		// the request is a clone that got a cached token (whatever it denotes; a request that may
		// also be one of the freshly authorised clones is the final attempt, not a cached one)
		cached, nreq := true, 0
		for _, l := range V.LeavesIn(call.Call.Args[1], li.Ctx) {
			if isNilConst(l.V) {
				continue
			}
			nreq++
			if !cachedClones[l] {
				cached = false
			}
		}
		if !cached || nreq == 0 {
			return
		}
		n++
		key := fmt.Sprintf("%s|cached-token-send#%d", FnName(e.Do), n)
		// the send's own error
		var errNonNil []Edge
		if er := ErrOf(call); er != nil {
			_, errNonNil = V.NilTests(V.Aliases(er))
		}
		cu := newCut().Edges(all401...).Edges(errNonNil...)
		escaped, _ := V.walk(V.afterLI(li), nil, cu, true)
		okLeads := len(sets) > 0
		for _, ed := range sides401 {
			// tests reached first after this send
			first, _ := V.walk(V.afterLI(li), c14Is(ed.From.Instrs[len(ed.From.Instrs)-1]), newCut().Edges(all401...), false)
			if !first {
				continue
			}
			leads := false
			for _, sc := range sets {
				if V.EdgeReach(ed, sc.(ssa.Instruction), nil) {
					leads = true
				}
			}
			if !leads {
				okLeads = false
			}
		}
		ok = !escaped && okLeads
		c.Check(R, key, call.Pos(), ok,
			ifelse(ok, "the answer to a request sent with a cached token is tested for 401, and a 401 leads on to the token fetch",
				"a request sent with a cached token can have its answer handed back without the 401 test (or the 401 side never reaches Cache.Set): an expired or revoked cached token keeps failing although valid credentials are configured, and it is never replaced"))
	})
	if n == 0 {
		c.LostAnchor(R, FnName(e.Do)+": a send carrying a token from Cache.GetToken")
	}
}
