package main

// Coverage-review additions for C04 (author A): rule R6.
//   R6 hook-contract : (a) every callback of the graph copy is told about the node being handled;
//                      (b) an error of OnCopySkipped aborts the traversal with that error;
//                      (c) the hook wrappers installed by Copy hand the wrapped callback's error on unchanged.

import (
	"sort"

	"golang.org/x/tools/go/ssa"
)

func runC04Coverage(c *Ctx) {
	c04R6(c)
}

// c04TraversalCode: the functions the copy traversal reaches (static callees and function values, depth 6) and the
// closures made inside them.
func c04TraversalCode(p *Prog) []*ssa.Function {
	set := map[*ssa.Function]bool{}
	for _, tr := range c01Traversals(p) {
		for f := range c01ReachableFns(tr.Entry, 6) {
			set[f] = true
		}
	}
	for changed := true; changed; {
		changed = false
		for _, f := range p.FuncsOfPkg("") {
			if !set[f] && f.Parent() != nil && set[f.Parent()] {
				for g := range c01ReachableFns(f, 6) {
					if !set[g] {
						set[g], changed = true, true
					}
				}
			}
		}
	}
	var out []*ssa.Function
	for f := range set {
		if fnPkgPath(f) == Mod {
			out = append(out, f)
		}
	}
	sort.Slice(out, func(i, j int) bool { return out[i].String() < out[j].String() })
	return out
}

func c04R6(c *Ctx) {
	const R = "C04.R6.hook-contract"
	c.Expect(R, 9)
	trs := c01Traversals(c.P)
	if len(trs) == 0 {
		c.LostAnchor(R, "copy traversal (function handed to syncutil.Go that claims its node with TryCommit)")
		return
	}
	code := c04TraversalCode(c.P)
	// (a) + (b)
	for _, name := range []string{"PreCopy", "PostCopy", "OnCopySkipped", "OnMounted", "MountFrom"} {
		fv := c01FieldOf(c.P, "", "CopyGraphOptions", name)
		if fv == nil {
			c.LostAnchor(R, "~.CopyGraphOptions."+name)
			continue
		}
		n, bad := 0, ""
		var pos = trs[0].Entry.Pos()
		for _, f := range code {
			sites, _ := c01CallbackSites(f, fv)
			for _, s := range sites {
				n++
				okDesc := false
				for _, a := range s.Common().Args {
					if !c01IsOCIDescriptor(a.Type()) {
						continue
					}
					if c01OwnNodeArg(c.P, f, a) {
						okDesc = true
					}
				}
				if !okDesc {
					bad, pos = name+" in "+FnName(f)+" is not called with the descriptor of the node being handled", s.Pos()
				}
				if name == "OnCopySkipped" {
					okE, d := c04Unchanged(s, nil)
					c.Check(R, c01OuterName(f)+"$traverse|OnCopySkipped-error-unchanged", s.Pos(), okE, d)
				}
			}
		}
		if n == 0 {
			c.Undecided(R, "~.Copy-graph|"+name+"-about-own-node", pos, "no call site of CopyGraphOptions."+name+" recognised in the code the traversal reaches")
			continue
		}
		c.Check(R, "~.Copy-graph|"+name+"-about-own-node", pos, bad == "",
			ifelse(bad == "", "every "+name+" call of the graph copy receives the descriptor parameter of its function (the node being handled)", bad+": the callback accounting per node is wrong"))
	}
	// (c) wrappers installed into the option fields: the wrapped callback's error is handed on unchanged
	for _, name := range []string{"PreCopy", "PostCopy", "OnCopySkipped", "OnMounted"} {
		fv := c01FieldOf(c.P, "", "CopyGraphOptions", name)
		if fv == nil {
			continue
		}
		for _, F := range c.P.FuncsOfPkg("") {
			for _, st := range c04FieldStores(F, fv) {
				W, _ := c01FuncOfValue(st.Val)
				if W == nil || len(W.Blocks) == 0 || !inModule(W) {
					continue
				}
				sites, _ := c01CallbackSites(W, fv)
				if len(sites) == 0 {
					continue
				}
				ok, det := true, "the error of the wrapped "+name+" is returned as is on every failure path"
				pos := W.Pos()
				for _, s := range sites {
					var tol []string
					if name == "PreCopy" {
						tol = []string{"~.SkipNode"}
					}
					if okE, d := c04Unchanged(s, tol); !okE {
						ok, det, pos = false, "the wrapper installed into "+name+" does not hand on the wrapped callback's error: "+d, s.Pos()
					}
				}
				c.Check(R, c01OuterName(F)+"$"+name+"|wrapped-error-unchanged", pos, ok, det)
			}
		}
	}
}

// c04CovMutants: mutants of the coverage-review rules. "tests green" = the repository's own test suite passes with the
// mutant applied (go test ./... in a scratch copy; content/file TestStore_Dir_OverwriteSymlink_RemovalFailed fails on the
// pristine tree too when run as root and is disregarded).
var c04CovMutants = []Mutant{
	{Name: "skipped-hook-error-wrapped", File: "copy.go", // tests green
		Old:    "\t\t\t\tif err := opts.OnCopySkipped(ctx, desc); err != nil {\n\t\t\t\t\treturn err\n\t\t\t\t}\n\t\t\t}\n\t\t\treturn nil\n\t\t}\n\n\t\t// find successors",
		New:    "\t\t\t\tif err := opts.OnCopySkipped(ctx, desc); err != nil {\n\t\t\t\t\treturn newCopyError(\"OnCopySkipped\", CopyErrorOriginDestination, err)\n\t\t\t\t}\n\t\t\t}\n\t\t\treturn nil\n\t\t}\n\n\t\t// find successors",
		Expect: "C04.R6.hook-contract|~.copyGraph$traverse|OnCopySkipped-error-unchanged"},
	{Name: "wrapped-postcopy-error-rewrapped", File: "copy.go", // tests green
		Old:    "\t\t\tif postCopy != nil {\n\t\t\t\treturn postCopy(ctx, desc)\n\t\t\t}\n\t\t\treturn nil",
		New:    "\t\t\tif postCopy != nil {\n\t\t\t\tif err := postCopy(ctx, desc); err != nil {\n\t\t\t\t\treturn newCopyError(\"PostCopy\", CopyErrorOriginDestination, err)\n\t\t\t\t}\n\t\t\t}\n\t\t\treturn nil",
		Expect: "C04.R6.hook-contract|~.prepareCopy$PostCopy|wrapped-error-unchanged"},
	{Name: "skipped-hook-told-about-root", File: "copy.go", // tests green
		Old:    "\t\t\t\tif err := opts.OnCopySkipped(ctx, desc); err != nil {\n\t\t\t\t\treturn err\n\t\t\t\t}\n\t\t\t}\n\t\t\treturn nil\n\t\t}\n\n\t\t// find successors",
		New:    "\t\t\t\tif err := opts.OnCopySkipped(ctx, root); err != nil {\n\t\t\t\t\treturn err\n\t\t\t\t}\n\t\t\t}\n\t\t\treturn nil\n\t\t}\n\n\t\t// find successors",
		Expect: "C04.R6.hook-contract|~.Copy-graph|OnCopySkipped-about-own-node"},
}
