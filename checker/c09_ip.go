package main

// Interprocedural helpers used by C08/C09/C10 so that the rules do not care
// whether a piece of logic sits in the anchored function or in an unexported
// helper extracted from it:
//
//   c09CallSites / c09Origins   closed-world call sites of an unexported function; a parameter resolved to the
//                               values passed at every call site
//   c09GuardedUp                "guarded by" evaluated in the function and, failing that, at every call site
//   c09TrueImplies              a bool-returning helper returns true only on given edges (so its true edge in
//                               the caller stands for those edges)
//   c09ReachableInPkg           static in-package reachability (role anchors: "the function reachable from X that …")

import (
	"go/token"
	"go/types"
	"sort"
	"strings"

	"golang.org/x/tools/go/ssa"
)

// c09CallSites returns every static call site of g in its own package.
// closed is false when g can have callers the analysis does not see: it is
// exported, or it is used as a value (callback, method value, go/defer target
// through a variable).
func c09CallSites(p *Prog, g *ssa.Function) (sites []ssa.CallInstruction, closed bool) {
	if g == nil || g.Parent() != nil {
		return nil, false
	}
	if obj := g.Object(); obj == nil || obj.Exported() {
		return nil, false
	}
	closed = true
	for f := range p.All {
		if fnPkgPath(f) != fnPkgPath(g) || len(f.Blocks) == 0 {
			continue
		}
		if !c09IsSourceFn(f) {
			continue // promoted-method wrappers, bound-method thunks: not source call sites
		}
		AllInstrs(f, func(in ssa.Instruction) {
			for _, op := range in.Operands(nil) {
				if op == nil || *op != ssa.Value(g) {
					continue
				}
				if call, ok := in.(ssa.CallInstruction); ok && !call.Common().IsInvoke() && op == &call.Common().Value {
					sites = append(sites, call)
				} else {
					closed = false // used as a value
				}
			}
		})
	}
	sort.Slice(sites, func(i, j int) bool { return sites[i].Pos() < sites[j].Pos() })
	return sites, closed
}

// c09ParamOf: v denotes exactly one parameter of its function (directly, or as
// the single store into an address-taken parameter cell); returns its index.
func c09ParamOf(v ssa.Value) (*ssa.Function, int) {
	if v == nil {
		return nil, -1
	}
	v = strip(v)
	if src := c09CellSource(v); src != nil {
		v = src
	}
	rs := Roots(v)
	if len(rs) != 1 {
		return nil, -1
	}
	r := rs[0]
	if src := c09CellSource(r); src != nil {
		r = src
	}
	prm, ok := r.(*ssa.Parameter)
	if !ok {
		return nil, -1
	}
	for i, q := range prm.Parent().Params {
		if q == prm {
			return prm.Parent(), i
		}
	}
	return nil, -1
}

// c09Origins resolves v upwards: while it is a parameter of an unexported
// function all of whose call sites are known, it is replaced by the values
// passed at those call sites (not above `stop`).  ok is false if some origin cannot be resolved.
func c09Origins(p *Prog, v ssa.Value, depth int, stop *ssa.Function) (vals []ssa.Value, ok bool) {
	// a variable of a step table's owner assigned by an earlier step: the value assigned there
	if w := c09StepCellValue(v); w != nil {
		return []ssa.Value{w}, true
	}
	// a captured variable: the value of the enclosing function's cell
	if r := c09Resolved(v); r != nil && r != v {
		if in, isIn := r.(ssa.Instruction); !isIn || in.Parent() != c09ParentOf(v) {
			return c09Origins(p, r, depth, stop)
		}
	}
	// a field of a carrier struct received by pointer (possibly handed on through several functions):
	// what was put into the field where the carrier was built
	if ld, isLd := strip(v).(*ssa.UnOp); isLd && ld.Op == token.MUL && depth > 0 {
		if fa, isFA := ld.X.(*ssa.FieldAddr); isFA {
			if pf, _ := c09ParamOf(fa.X); pf != nil && pf != stop {
				if bases, ok := c09Origins(p, fa.X, depth, stop); ok && len(bases) > 0 {
					var out []ssa.Value
					okAll := true
					for _, b := range bases {
						w := c09FieldValue(b, fa.Field)
						if w == nil {
							okAll = false
							break
						}
						sub, ok := c09Origins(p, w, depth-1, stop)
						if !ok {
							okAll = false
							break
						}
						out = append(out, sub...)
					}
					if okAll {
						return out, true
					}
				}
			}
		}
	}
	fn, idx := c09ParamOf(v)
	if fn == nil || fn == stop {
		return []ssa.Value{v}, true
	}
	sites, closed := c09SitesOf(p, fn)
	if !closed || len(sites) == 0 || depth <= 0 {
		return []ssa.Value{v}, true // an external input: the parameter itself is the origin
	}
	prm := fn.Params[idx]
	for _, cs := range sites {
		w := cs.Tr(prm)
		if w == nil {
			return nil, false
		}
		sub, ok := c09Origins(p, w, depth-1, stop)
		if !ok {
			return nil, false
		}
		vals = append(vals, sub...)
	}
	return vals, true
}

func c09ParentOf(v ssa.Value) *ssa.Function {
	switch u := v.(type) {
	case ssa.Instruction:
		return u.Parent()
	case *ssa.Parameter:
		return u.Parent()
	case *ssa.FreeVar:
		return u.Parent()
	}
	return nil
}

// c09Vals names the values a guard is about (e.g. "alg", "set"), expressed in
// the function the guard is searched in.
type c09Vals map[string]ssa.Value

// c09GuardedUp: on every execution that reaches `at`, a guard edge was taken —
// either inside at's function (c09Guarded) or, when that function is an
// unexported helper with known call sites, before every call of it, the
// guard's values being translated parameter -> argument.  find returns the
// guard edges of fn for the given values (a missing value means the guard
// cannot be expressed in that function).
func c09GuardedUp(p *Prog, at ssa.Instruction, vals c09Vals, find func(fn *ssa.Function, vals c09Vals) []Edge, depth int) bool {
	fn := at.Parent()
	if c09Guarded(at, find(fn, vals)) {
		return true
	}
	if depth <= 0 {
		return false
	}
	sites, closed := c09SitesOf(p, fn)
	if !closed || len(sites) == 0 {
		return false
	}
	for _, cs := range sites {
		if _, isGo := cs.At.(*ssa.Go); isGo {
			return false
		}
		nv := c09Vals{}
		for role, v := range vals {
			if w := cs.Tr(v); w != nil {
				nv[role] = w
			}
		}
		if !c09GuardedUp(p, cs.At, nv, find, depth-1) {
			return false
		}
	}
	return true
}

// c09TrueImplies: result idx of g (a bool) is true only when one of the guard
// edges of g was taken: every return atom is the constant false, or the
// constant true on a path through a guard edge, or a value accepted by isPred
// (the predicate itself, e.g. `return len(x) == 0`).
func c09TrueImplies(g *ssa.Function, idx int, guards []Edge, isPred func(v ssa.Value) bool) bool {
	if g == nil || len(g.Blocks) == 0 || idx >= g.Signature.Results().Len() {
		return false
	}
	atoms := RetAtoms(g, idx)
	if len(atoms) == 0 {
		return false
	}
	ct := newCut().Edges(guards...)
	for _, a := range atoms {
		if _, isZero := a.Val.(zeroMarker); isZero {
			continue // zero value of a named bool result: false
		}
		if cst, ok := a.Val.(*ssa.Const); ok && cst.Value != nil {
			if cst.Value.String() == "false" {
				continue
			}
			if len(guards) > 0 && AtomMustPass(a, ct) {
				continue
			}
			return false
		}
		if isPred != nil && isPred(a.Val) {
			continue
		}
		return false
	}
	return true
}

// c09TrueCallEdges: out-edges of fn taken when a call to an in-module helper
// returned true / false in result idx, for the calls accepted by accept
// (which names the result index).
func c09BoolCallEdges(fn *ssa.Function, accept func(call *ssa.Call, g *ssa.Function) (idx int, ok bool)) (trueE, falseE []Edge) {
	AllInstrs(fn, func(in ssa.Instruction) {
		call, ok := in.(*ssa.Call)
		if !ok {
			return
		}
		g := StaticCallee(call)
		if g == nil || !inModule(g) || len(g.Blocks) == 0 {
			return
		}
		idx, ok := accept(call, g)
		if !ok {
			return
		}
		v := ResultOf(call, idx)
		if v == nil {
			return
		}
		t, f := BoolTests(fn, Aliases(v))
		trueE, falseE = append(trueE, t...), append(falseE, f...)
	})
	return
}

// c09ReachableInPkg: functions of root's package reachable from root through
// static calls and closures, to the given depth (root first).
func c09ReachableInPkg(root *ssa.Function, depth int) []*ssa.Function {
	seen := map[*ssa.Function]bool{}
	var out []*ssa.Function
	var visit func(f *ssa.Function, d int)
	visit = func(f *ssa.Function, d int) {
		if f == nil || seen[f] || len(f.Blocks) == 0 || fnPkgPath(f) != fnPkgPath(root) {
			return
		}
		seen[f] = true
		out = append(out, f)
		if d == 0 {
			return
		}
		AllInstrs(f, func(in ssa.Instruction) {
			switch x := in.(type) {
			case *ssa.MakeClosure:
				visit(x.Fn.(*ssa.Function), d-1)
			case ssa.CallInstruction:
				visit(StaticCallee(x), d-1)
			}
		})
	}
	visit(root, depth)
	return out
}

// c09Bind maps a value of a helper's body to the value it stands for in the
// function under analysis (nil: not expressible there).
type c09Bind func(v ssa.Value) ssa.Value

func c09Identity(v ssa.Value) ssa.Value { return v }

// c09EffectSites lists the instructions of fn that perform the effect described
// by isEffect: a matching call, or a call of an in-package helper every
// nil-error return of which has performed it (depth <= 2), the helper's
// parameters being bound to the arguments of the call.
func c09EffectSites(fn *ssa.Function, bind c09Bind, isEffect func(call ssa.CallInstruction, bind c09Bind) bool, depth int) []ssa.Instruction {
	var out []ssa.Instruction
	for _, call := range Calls(fn, func(string) bool { return true }) {
		if _, isCall := call.(*ssa.Call); !isCall {
			continue
		}
		if isEffect(call, bind) {
			out = append(out, call.(ssa.Instruction))
			continue
		}
		g := c09Callee(call)
		if g == nil || depth <= 0 || len(g.Blocks) == 0 || fnPkgPath(g) != fnPkgPath(fn) || g == fn {
			continue
		}
		gb := c09HelperBind(call, g, bind)
		inner := c09EffectSites(g, gb, isEffect, depth-1)
		if len(inner) > 0 && c09NilReturnsPassNE(g, inner, c09NonEmptyParams(call, g)) {
			out = append(out, call.(ssa.Instruction))
		}
	}
	// a table of step closures run by a first-error loop is the sequence of its steps: once the table is exhausted
	// every step has returned nil; the first instruction behind the "exhausted" edge stands for the effect of a step
	// all of whose nil returns performed it
	if depth > 0 {
		for _, sl := range c09StepLoops(fn) {
			for _, st := range sl.Steps {
				mc, ok := c09Resolved(st).(*ssa.MakeClosure)
				if !ok {
					continue
				}
				g := mc.Fn.(*ssa.Function)
				if len(g.Blocks) == 0 || g == fn {
					continue
				}
				inner := c09EffectSites(g, bind, isEffect, depth-1)
				if len(inner) > 0 && c09NilReturnsPass(g, inner) && len(sl.Done.To.Instrs) > 0 {
					out = append(out, sl.Done.To.Instrs[0])
					break
				}
			}
		}
	}
	return out
}

// c09StepLoops: the first-error step tables of fn (c11StepLoops) whose loop goes on only when the step returned nil.
func c09StepLoops(fn *ssa.Function) []c11StepLoop {
	var out []c11StepLoop
	for _, sl := range c11StepLoops(fn) {
		_, nonNil, ifs := NilTests(fn, Aliases(sl.Call))
		ok := len(ifs) > 0 && len(sl.Done.To.Preds) == 1
		for _, nn := range nonNil {
			if reach(nn.To, 0, sl.Loop.Header.Instrs[0], nil) {
				ok = false
			}
		}
		if ok {
			out = append(out, sl)
		}
	}
	return out
}

// c09StepTableSuccess: the edges of f on which an effect has succeeded that is made by a step of a first-error step
// table: the "table exhausted" edge, when some step reports success only behind a successful call matching isEffect.
func c09StepTableSuccess(f *ssa.Function, isEffect func(call ssa.CallInstruction) bool) []Edge {
	var out []Edge
	for _, sl := range c09StepLoops(f) {
		for _, st := range sl.Steps {
			mc, ok := c09Resolved(st).(*ssa.MakeClosure)
			if !ok {
				continue
			}
			g := mc.Fn.(*ssa.Function)
			var calls []ssa.Instruction
			for _, call := range Calls(g, func(string) bool { return true }) {
				if _, isCall := call.(*ssa.Call); isCall && isEffect(call) {
					calls = append(calls, call.(ssa.Instruction))
				}
			}
			if len(calls) == 0 {
				continue
			}
			ct := newCut()
			c09SuccessCut(g, calls, ct)
			if ok, _ := c09SuccessImplies(g, ct); ok {
				out = append(out, sl.Done)
				break
			}
		}
	}
	return out
}

// c09MayBeNilAtom: the error value of this return atom can be nil there — it
// is not a constructed error and the return does not sit on the non-nil side of
// the value's own nil test (`if err != nil { return err }`).
func c09MayBeNilAtom(g *ssa.Function, a RetAtom) bool {
	if ErrNilStatus(a.Val, 0) == NonNil {
		return false
	}
	if _, isZero := a.Val.(zeroMarker); isZero {
		return true
	}
	if _, isConst := a.Val.(*ssa.Const); isConst {
		return true
	}
	if _, nonNil, _ := NilTests(g, Aliases(a.Val)); len(nonNil) > 0 && MustPass(a.Ret, newCut().Edges(nonNil...)) {
		return false
	}
	return true
}

// c09AtomReachableFrom: some path from (b, idx) produces the return atom a (its
// value fixed at the atom's anchor, then on to its Return along the phi edges
// that select it) without hitting the cut.
func c09AtomReachableFrom(b *ssa.BasicBlock, idx int, a RetAtom, c *cut) bool {
	ab, ai := a.anchor()
	if !reach(b, idx, ab.Instrs[ai], c) {
		return false
	}
	if len(a.Edges) > 0 {
		cur := a.Edges[len(a.Edges)-1]
		if c.edges[cur] {
			return false
		}
		for i := len(a.Edges) - 2; i >= -1; i-- {
			var tgt ssa.Instruction = a.Ret
			if i >= 0 {
				nb := a.Edges[i].From
				tgt = nb.Instrs[len(nb.Instrs)-1]
			}
			if !reach(cur.To, 0, tgt, c) {
				return false
			}
			if i >= 0 {
				cur = a.Edges[i]
				if c.edges[cur] {
					return false
				}
			}
		}
		return true
	}
	if a.Store != nil {
		return reach(ab, ai+1, a.Ret, c)
	}
	return true
}

// ---------- loops that must run to the end ----------

// c09YieldErrExit: r leaves a range-over-func body for good (`return false`)
// carrying an error that cannot be nil: a non-nil error is stored into a
// captured error variable (the enclosing function's result) on the way.
func c09YieldErrExit(r *ssa.Return) bool {
	if len(r.Results) != 1 {
		return false
	}
	cst, isC := r.Results[0].(*ssa.Const)
	if !isC || cst.Value == nil || cst.Value.String() != "false" {
		return false
	}
	fn := r.Parent()
	ok := false
	for _, in := range r.Block().Instrs {
		st, isSt := in.(*ssa.Store)
		if !isSt {
			continue
		}
		pt, isPtr := st.Addr.Type().Underlying().(*types.Pointer)
		if _, isFV := st.Addr.(*ssa.FreeVar); !isFV || !isPtr || !isErrorType(pt.Elem()) {
			continue
		}
		ok = false
		if ErrNilStatus(st.Val, 0) == NonNil {
			ok = true
		} else if _, isConst := st.Val.(*ssa.Const); !isConst {
			if _, nonNil, _ := NilTests(fn, Aliases(st.Val)); len(nonNil) > 0 && MustPass(r, newCut().Edges(nonNil...)) {
				ok = true
			}
		}
	}
	return ok
}

// c09LoopEarlyExit: once an iteration of loop l of g has begun, g can go on to a
// return that may report success without the loop having been left through its
// header (collection exhausted / condition false) — `return nil`, `break`, … in
// the body.  extra: further edges that count as regular ends (the false edge of
// a yield call in a producer).  In a range-over-func body `return true`
// (continue of the outer loop) and an exit without a non-nil error count as
// success; in a function without an error result every return does.
func c09LoopEarlyExit(g *ssa.Function, l *Loop, extra []Edge) (bad bool, at token.Pos) {
	ct := newCut().Edges(extra...)
	n := len(extra)
	for _, s := range l.Header.Succs {
		if !l.Blocks[s] {
			ct.Edges(Edge{l.Header, s})
			n++
		}
	}
	if n == 0 {
		return false, token.NoPos // no regular end known (`for { … }` without a designated exit)
	}
	return c09LoopLeftOtherThan(g, l, ct)
}

// c09LoopLeftOtherThan: the same with the regular ends given as a cut (for a
// `for { … }` loop whose only regular end is a tested condition in the body).
func c09LoopLeftOtherThan(g *ssa.Function, l *Loop, ct *cut) (bad bool, at token.Pos) {
	// from the header with the regular ends cut = from the beginning of an iteration
	start := l.Header
	switch ei := ErrResultIndex(g.Signature); {
	case c09IsYieldBody(g):
		for _, r := range Returns(g) {
			if !c09YieldErrExit(r) && reach(start, 0, r, ct) {
				return true, r.Pos()
			}
		}
	case ei >= 0:
		for _, a := range RetAtoms(g, ei) {
			if c09MayBeNilAtom(g, a) && c09AtomReachableFrom(start, 0, a, ct) {
				return true, a.Ret.Pos()
			}
		}
	default:
		for _, r := range Returns(g) {
			if reach(start, 0, r, ct) {
				return true, r.Pos()
			}
		}
	}
	return false, token.NoPos
}

// c09IterEarlyExit: the same for an iteration in the uniform view: a classic
// range loop, or a range-over-func loop — its body must not `break` / return
// without a non-nil error, and an in-module producer's own loop ends early only
// where its yield call answered false.
func c09IterEarlyExit(it *c09Iter) (bad bool, at token.Pos) {
	if it.Loop != nil {
		return c09LoopEarlyExit(it.Fn, it.Loop, nil)
	}
	for _, r := range Returns(it.Fn) {
		if cst, isC := r.Results[0].(*ssa.Const); isC && cst.Value != nil && cst.Value.String() == "false" && !c09YieldErrExit(r) {
			return true, it.Stmt.Pos()
		}
	}
	if it.ProdIter != nil && it.ProdIter.Loop != nil && it.Producer != nil {
		var stop []Edge
		for _, yc := range c09YieldCalls(it.Producer) {
			_, fe := BoolTests(it.Producer, Aliases(yc))
			stop = append(stop, fe...)
		}
		if bad, at := c09LoopEarlyExit(it.ProdIter.Fn, it.ProdIter.Loop, stop); bad {
			return true, at
		}
	}
	return false, token.NoPos
}

// c09SuccessCut: the program points of fn after which each of the given calls
// has succeeded: the nil edge of the call's error; the call itself when its
// error is handed back untested (nothing else runs after a failure).
func c09SuccessCut(fn *ssa.Function, calls []ssa.Instruction, ct *cut) {
	for _, in := range calls {
		call, ok := in.(ssa.CallInstruction)
		if !ok {
			// the first instruction behind the "table exhausted" edge of a step table (c09EffectSites): the step
			// that makes the effect has returned nil when it runs
			for _, sl := range c09StepLoops(fn) {
				if len(sl.Done.To.Instrs) > 0 && sl.Done.To.Instrs[0] == in {
					ct.Edges(sl.Done)
				}
			}
			continue
		}
		e := ErrOf(call)
		if e == nil {
			continue
		}
		ne, _, ifs := NilTests(fn, Aliases(e))
		if len(ifs) > 0 {
			ct.Edges(ne...)
		} else if ErrFlow(call, ErrFlowOpts{}).OK {
			ct.Instr(in)
		}
	}
}

// c09SuccessImplies: every return of fn that may report success (nil error)
// lies behind the cut.
func c09SuccessImplies(fn *ssa.Function, ct *cut) (ok bool, at token.Pos) {
	ei := ErrResultIndex(fn.Signature)
	if ei < 0 {
		return true, fn.Pos()
	}
	for _, a := range RetAtoms(fn, ei) {
		if c09MayBeNilAtom(fn, a) && !AtomMustPass(a, ct) {
			return false, a.Ret.Pos()
		}
	}
	return true, fn.Pos()
}

// c09InLoopRegion: in is executed only inside an iteration of l — in the natural
// loop, or in a block that leaves it for good (`…; break`, `…; return`) and is
// entered only from the body.
func c09InLoopRegion(l *Loop, in ssa.Instruction) bool {
	b := in.Block()
	if l.Blocks[b] {
		return true
	}
	for _, s := range l.Header.Succs {
		if l.Blocks[s] && s != l.Header && s.Dominates(b) {
			return true
		}
	}
	return false
}

// c09BodyCalls: the calls made in the body of the iteration (including the
// blocks that leave a classic loop from its body).
func c09BodyCalls(it *c09Iter) []ssa.CallInstruction {
	var out []ssa.CallInstruction
	for _, call := range Calls(it.Fn, func(string) bool { return true }) {
		in := call.(ssa.Instruction)
		if it.InBody(in) || (it.Loop != nil && in.Parent() == it.Fn && c09InLoopRegion(it.Loop, in)) {
			out = append(out, call)
		}
	}
	return out
}

// c09Callee: the function called — also when it is a local closure kept in a
// variable (`keep := func(…) {…}; keep(x)`), possibly captured by another closure.
func c09Callee(call ssa.CallInstruction) *ssa.Function {
	if g := StaticCallee(call); g != nil {
		return g
	}
	cc := call.Common()
	if cc.IsInvoke() {
		return nil
	}
	if mc, ok := c09Resolved(cc.Value).(*ssa.MakeClosure); ok {
		return mc.Fn.(*ssa.Function)
	}
	return nil
}

// c09HelperBind translates values of helper g's frame into the frame of its
// call: parameters -> arguments; a field read through a pointer parameter
// (r.tagResolver with r = &rebuilt) -> the value stored in that field of the
// caller's struct; an element of a variadic/slice parameter -> the single
// element of the literal slice passed.
func c09HelperBind(call ssa.CallInstruction, g *ssa.Function, outer c09Bind) c09Bind {
	args := call.Common().Args
	return func(v ssa.Value) ssa.Value {
		if v == nil {
			return nil
		}
		if pf, i := c09ParamOf(v); pf == g && i < len(args) {
			return outer(args[i])
		}
		ld, ok := strip(c09Resolved(v)).(*ssa.UnOp)
		if !ok || ld.Op != token.MUL {
			// a variable of the enclosing function captured by a local closure: its value there
			if r := c09Resolved(v); r != nil && r != v && c09ParentOf(r) != g {
				return outer(r)
			}
			return nil
		}
		switch a := ld.X.(type) {
		case *ssa.FieldAddr:
			if pf, i := c09ParamOf(a.X); pf == g && i < len(args) {
				if w := c09FieldValue(args[i], a.Field); w != nil {
					return outer(w)
				}
			}
		case *ssa.IndexAddr:
			if pf, i := c09ParamOf(a.X); pf == g && i < len(args) {
				if elems := c09LiteralElems(args[i]); len(elems) == 1 {
					return outer(elems[0])
				}
			}
		}
		return nil
	}
}

// c09FieldValue: base is (a pointer to) a local struct; the value of its field
// #field when it is assigned exactly once.
func c09FieldValue(base ssa.Value, field int) ssa.Value {
	rb := c09Resolved(base)
	for depth := 0; depth < 3; depth++ { // a struct captured by a closure: the cell of the enclosing function
		fv, isFV := rb.(*ssa.FreeVar)
		if !isFV {
			break
		}
		bs := freeVarBindings(fv)
		if len(bs) != 1 {
			return nil
		}
		rb = bs[0]
	}
	a, ok := rb.(*ssa.Alloc)
	if !ok || len(storesTo(a)) > 0 {
		return nil // only structs built field by field (composite literals), never assigned as a whole
	}
	var val ssa.Value
	n := 0
	for _, ref := range *a.Referrers() {
		if fa, ok := ref.(*ssa.FieldAddr); ok && fa.Field == field {
			for _, r2 := range *fa.Referrers() {
				if st, ok := r2.(*ssa.Store); ok && st.Addr == ssa.Value(fa) {
					val = st.Val
					n++
				}
			}
		}
	}
	if n != 1 {
		return nil
	}
	return val
}

// c09LiteralElems: the elements of a slice literal / variadic argument list.
func c09LiteralElems(v ssa.Value) []ssa.Value {
	sl, ok := v.(*ssa.Slice)
	if !ok {
		return nil
	}
	arr, ok := sl.X.(*ssa.Alloc)
	if !ok {
		return nil
	}
	var out []ssa.Value
	for _, ref := range *arr.Referrers() {
		if ia, ok := ref.(*ssa.IndexAddr); ok {
			for _, r2 := range *ia.Referrers() {
				if st, ok := r2.(*ssa.Store); ok && st.Addr == ssa.Value(ia) {
					out = append(out, st.Val)
				}
			}
		}
	}
	return out
}

// c09NonEmptyParams: slice parameters of g that receive a non-empty literal at this call.
func c09NonEmptyParams(call ssa.CallInstruction, g *ssa.Function) map[*ssa.Parameter]bool {
	out := map[*ssa.Parameter]bool{}
	for i, a := range call.Common().Args {
		if i < len(g.Params) && len(c09LiteralElems(a)) > 0 {
			out[g.Params[i]] = true
		}
	}
	return out
}

// c09NilReturnsPassNE = c09NilReturnsPass, where a range loop over a parameter
// known to be non-empty, every iteration of which executes one of the
// instructions, counts as executing it.
func c09NilReturnsPassNE(g *ssa.Function, ins []ssa.Instruction, nonEmpty map[*ssa.Parameter]bool) bool {
	all := append([]ssa.Instruction{}, ins...)
	for _, it := range c09ItersIn(g) {
		if it.Loop == nil || it.Coll == nil {
			continue
		}
		pf, i := c09ParamOf(it.Coll)
		if pf != g || !nonEmpty[g.Params[i]] {
			continue
		}
		b, bi := it.BodyStart()
		if !it.ContinuesWithout(b, bi, newCut().Instr(ins...)) {
			// the loop runs at least once: leaving it means an iteration was completed
			for _, e := range it.Loop.Exits {
				if e.From == it.Loop.Header && len(e.To.Instrs) > 0 {
					all = append(all, e.To.Instrs[0])
				}
			}
		}
	}
	return c09NilReturnsPass(g, all)
}

// c09NilReturnsPass: every return of g that may carry a nil error (every return,
// if g has no error result) has executed one of the instructions.
func c09NilReturnsPass(g *ssa.Function, ins []ssa.Instruction) bool {
	ct := newCut().Instr(ins...)
	errIdx := ErrResultIndex(g.Signature)
	if errIdx < 0 {
		for _, r := range Returns(g) {
			if ReachableFromEntry(r) && !MustPass(r, ct) {
				return false
			}
		}
		return true
	}
	for _, a := range RetAtoms(g, errIdx) {
		if ErrNilStatus(a.Val, 0) == NonNil {
			continue
		}
		// `if err != nil { return err }`: the value is non-nil at this return
		if _, isZero := a.Val.(zeroMarker); !isZero {
			if _, isConst := a.Val.(*ssa.Const); !isConst {
				if _, nonNil, _ := NilTests(g, Aliases(a.Val)); len(nonNil) > 0 && MustPass(a.Ret, newCut().Edges(nonNil...)) {
					continue
				}
			}
		}
		if !AtomMustPass(a, ct) {
			return false
		}
	}
	return true
}

// c09DescBase: x is <D>.Digest (or another field) of a descriptor value: returns D
// (the stored value for a single-store cell).
func c09FieldBase(x ssa.Value, field string) ssa.Value {
	rs := Roots(x)
	if len(rs) != 1 {
		return nil
	}
	switch u := rs[0].(type) {
	case *ssa.UnOp:
		fa, ok := u.X.(*ssa.FieldAddr)
		if !ok || u.Op != token.MUL || !strings.HasSuffix(fieldName(fa.X.Type(), fa.Field), "."+field) {
			return nil
		}
		if a, ok := fa.X.(*ssa.Alloc); ok {
			if st := storesTo(a); len(st) == 1 {
				return st[0].Val
			}
		}
		// the struct is a variable captured by a closure (a step of a table): the cell of the enclosing function
		if fv, ok := fa.X.(*ssa.FreeVar); ok {
			if st := c09CellStores(fv); len(st) == 1 {
				return st[0].Val
			}
		}
		return nil
	case *ssa.Field:
		if strings.HasSuffix(fieldName(u.X.Type(), u.Field), "."+field) {
			return u.X
		}
	}
	return nil
}

// c09SameFieldLoad: a and b are two loads of the same field of the same object
// (`x.F` read twice).
func c09SameFieldLoad(a, b ssa.Value) bool {
	la, ok1 := a.(*ssa.UnOp)
	lb, ok2 := b.(*ssa.UnOp)
	if !ok1 || !ok2 || la.Op != token.MUL || lb.Op != token.MUL {
		return false
	}
	fa, ok1 := la.X.(*ssa.FieldAddr)
	fb, ok2 := lb.X.(*ssa.FieldAddr)
	return ok1 && ok2 && fa.Field == fb.Field && c09SameKey(fa.X, fb.X)
}

// c09CellOrValue: for a load of a single-store struct cell the stored value, else v.
func c09CellOrValue(v ssa.Value) ssa.Value {
	if src := c09CellSource(v); src != nil {
		return src
	}
	return v
}

// c09PureAccessors: methods whose result depends only on the receiver value
// (two calls on the same receiver denote the same value).
var c09PureAccessors = map[string]bool{
	"(io/fs.DirEntry).Name": true, "(io/fs.DirEntry).IsDir": true, "(io/fs.FileInfo).Name": true,
	"(digest.Digest).String": true, "(digest.Digest).Encoded": true, "(digest.Digest).Algorithm": true,
	"(digest.Algorithm).String": true, "(*os.File).Name": true,
}

// c09PureCallEq: a and b are calls of the same pure accessor on the same values.
func c09PureCallEq(a, b ssa.Value, depth int) bool {
	if depth > 3 {
		return false
	}
	ca, ok1 := strip(a).(*ssa.Call)
	cb, ok2 := strip(b).(*ssa.Call)
	if !ok1 || !ok2 || CalleeName(ca) != CalleeName(cb) || !c09PureAccessors[CalleeName(ca)] {
		return false
	}
	if ca.Call.IsInvoke() {
		if !(c09SameKey(ca.Call.Value, cb.Call.Value) || c09PureCallEq(ca.Call.Value, cb.Call.Value, depth+1)) {
			return false
		}
	}
	if len(ca.Call.Args) != len(cb.Call.Args) {
		return false
	}
	for i := range ca.Call.Args {
		if !(c09SameKey(ca.Call.Args[i], cb.Call.Args[i]) || c09PureCallEq(ca.Call.Args[i], cb.Call.Args[i], depth+1)) {
			return false
		}
	}
	return true
}

// c09ValEq: same value, also across repeated calls of a pure accessor.
func c09ValEq(a, b ssa.Value) bool {
	return c09SameKey(a, b) || c09PureCallEq(a, b, 0)
}

var _ = token.NoPos

// ---------- unexported state by role ----------

// c09RoleOverride: field names found semantically by a rule (e.g. the string
// field of oci.Store that holds the path of index.json), keyed "<type>.<role>".
var c09RoleOverride = map[string]string{}

// c09FieldRole maps a role of unexported state to the field that plays it in
// the current tree.  The role names are the field names of the pinned tree; a
// field of that name wins, otherwise the field is identified by its type (the
// map[string]Descriptor of the resolver, the digest -> set map, the
// *graph.Memory of the store, its RWMutex, …).  Unresolvable: the role itself
// (the caller then reports a lost anchor).
func c09FieldRole(named *types.Named, role string) string {
	st, ok := named.Underlying().(*types.Struct)
	if !ok {
		return role
	}
	tname := named.Obj().Name()
	if pk := named.Obj().Pkg(); pk != nil {
		tname = pk.Name() + "." + tname
	}
	if n, ok := c09RoleOverride[tname+"."+role]; ok {
		return n
	}
	for i := 0; i < st.NumFields(); i++ {
		if st.Field(i).Name() == role {
			return role
		}
	}
	isNamed := func(t types.Type, pkg, name string) bool {
		if p, ok := t.(*types.Pointer); ok {
			t = p.Elem()
		}
		n, ok := t.(*types.Named)
		return ok && n.Obj().Name() == name && n.Obj().Pkg() != nil && n.Obj().Pkg().Name() == pkg
	}
	var pred func(t types.Type) bool
	hint := ""
	switch tname + "." + role {
	case "resolver.Memory.index":
		pred = func(t types.Type) bool {
			m, ok := t.Underlying().(*types.Map)
			return ok && isNamed(m.Elem(), "v1", "Descriptor")
		}
	case "resolver.Memory.tags":
		pred = func(t types.Type) bool {
			m, ok := t.Underlying().(*types.Map)
			return ok && c09IsSetType(m.Elem())
		}
	case "oci.Store.tagResolver", "oci.ReadOnlyStore.tagResolver":
		pred = func(t types.Type) bool {
			_, isPtr := t.(*types.Pointer)
			return isPtr && isNamed(t, "resolver", "Memory")
		}
	case "oci.Store.graph", "oci.ReadOnlyStore.graph":
		pred = func(t types.Type) bool { _, isPtr := t.(*types.Pointer); return isPtr && isNamed(t, "graph", "Memory") }
	case "oci.Store.index":
		pred = func(t types.Type) bool { _, isPtr := t.(*types.Pointer); return isPtr && isNamed(t, "v1", "Index") }
	case "oci.Store.storage":
		pred = func(t types.Type) bool { _, isPtr := t.(*types.Pointer); return isPtr && isNamed(t, "oci", "Storage") }
	case "oci.Store.sync":
		pred = func(t types.Type) bool { return isNamed(t, "sync", "RWMutex") }
	case "oci.Store.indexPath":
		pred = func(t types.Type) bool { b, ok := t.(*types.Basic); return ok && b.Kind() == types.String }
		hint = "index"
	case "oci.Store.root":
		pred = func(t types.Type) bool { b, ok := t.(*types.Basic); return ok && b.Kind() == types.String }
		hint = "root"
	case "graph.Memory.nodes":
		pred = func(t types.Type) bool {
			m, ok := t.Underlying().(*types.Map)
			return ok && isNamed(m.Elem(), "v1", "Descriptor")
		}
	case "graph.Memory.predecessors":
		pred = func(t types.Type) bool {
			m, ok := t.Underlying().(*types.Map)
			return ok && c09IsSetType(m.Elem())
		}
		hint = "pred"
	}
	if pred == nil {
		return role
	}
	var cands []string
	for i := 0; i < st.NumFields(); i++ {
		if pred(st.Field(i).Type()) {
			cands = append(cands, st.Field(i).Name())
		}
	}
	if len(cands) == 1 {
		return cands[0]
	}
	if hint != "" {
		var hinted []string
		for _, n := range cands {
			if strings.Contains(strings.ToLower(n), hint) {
				hinted = append(hinted, n)
			}
		}
		if len(hinted) == 1 {
			return hinted[0]
		}
	}
	return role
}

// ---------- source functions, range-over-func ----------

// c09IsSourceFn: f corresponds to source code of the module: declared functions,
// closures, generic instances and the synthesized bodies of range-over-func loops
// (which FuncsOfPkg leaves out).
func c09IsSourceFn(f *ssa.Function) bool {
	return f.Synthetic == "" || strings.HasPrefix(f.Synthetic, "instance of") || c09IsYieldBody(f)
}

// c09IsYieldBody: f is the body of a `for … := range seq` loop over a function iterator.
func c09IsYieldBody(f *ssa.Function) bool { return f != nil && f.Synthetic == "range-over-func yield" }

// c09FuncsOfPkg = FuncsOfPkg plus the range-over-func bodies nested in them.
func c09FuncsOfPkg(p *Prog, rel string) []*ssa.Function {
	out := p.FuncsOfPkg(rel)
	seen := map[*ssa.Function]bool{}
	for _, f := range out {
		seen[f] = true
	}
	for i := 0; i < len(out); i++ {
		for _, a := range out[i].AnonFuncs {
			if !seen[a] && c09IsYieldBody(a) && len(a.Blocks) > 0 {
				seen[a] = true
				out = append(out, a)
			}
		}
	}
	return out
}

// c09Site is a place from which a function is entered, together with the
// translation of values of the entered function's frame (parameters, captured
// variables) into values of the frame the site lives in (nil: not expressible).
type c09Site struct {
	At ssa.Instruction
	Tr func(v ssa.Value) ssa.Value
}

// c09Yielders resolves an iterator value (what `for … := range seq` ranges
// over) to the closures that implement it: seq is the result of a call of an
// in-module maker function that returns a closure (possibly through wrappers
// `func tagRefs(m) iter.Seq2 { return selectRefs(m, false) }`).  For each
// closure the translation of its captured variables / the makers' parameters
// into the frame of the instruction that called the (outermost) maker.
type c09Yielder struct {
	Fn *ssa.Function               // func(yield) { … }
	Tr func(v ssa.Value) ssa.Value // producer frame -> frame of the maker call
}

func c09Yielders(seq ssa.Value, depth int) []c09Yielder {
	var out []c09Yielder
	if depth > 3 {
		return nil
	}
	for _, rt := range Roots(c09Resolved(seq)) {
		switch u := rt.(type) {
		case *ssa.MakeClosure:
			fn := u.Fn.(*ssa.Function)
			mc := u
			out = append(out, c09Yielder{fn, func(v ssa.Value) ssa.Value {
				// a captured variable read inside the closure: the value bound at creation
				r := c09Resolved(v)
				if ld, ok := strip(v).(*ssa.UnOp); ok {
					if fv, ok := ld.X.(*ssa.FreeVar); ok && fv.Parent() == fn {
						for i, f := range fn.FreeVars {
							if f == fv {
								if a, isAlloc := mc.Bindings[i].(*ssa.Alloc); isAlloc {
									if st := storesTo(a); len(st) == 1 {
										return st[0].Val
									}
								}
							}
						}
					}
				}
				if in, ok := r.(ssa.Instruction); ok && in.Parent() == mc.Parent() {
					return r
				}
				if prm, ok := r.(*ssa.Parameter); ok && prm.Parent() == mc.Parent() {
					return r
				}
				return nil
			}})
		case *ssa.Call:
			g := StaticCallee(u)
			if g == nil || !inModule(g) || len(g.Blocks) == 0 {
				continue
			}
			args := u.Call.Args
			for _, a := range RetAtoms(g, 0) {
				for _, y := range c09Yielders(a.Val, depth+1) {
					inner := y.Tr
					out = append(out, c09Yielder{y.Fn, func(v ssa.Value) ssa.Value {
						w := inner(v) // value in g's frame
						if w == nil {
							return nil
						}
						if pf, i := c09ParamOf(w); pf == g && i < len(args) {
							return args[i]
						}
						if _, isConst := w.(*ssa.Const); isConst {
							return w
						}
						return nil
					}})
				}
			}
		}
	}
	return out
}

// c09YieldCalls: the calls of the yield parameter inside a producer closure.
func c09YieldCalls(producer *ssa.Function) []*ssa.Call {
	var out []*ssa.Call
	if len(producer.Params) == 0 {
		return nil
	}
	yield := producer.Params[len(producer.Params)-1]
	AllInstrs(producer, func(in ssa.Instruction) {
		if call, ok := in.(*ssa.Call); ok && !call.Call.IsInvoke() && call.Call.Value == ssa.Value(yield) {
			out = append(out, call)
		}
	})
	return out
}

// c09RangeFuncCall: in.(*ssa.Call) invokes an iterator with a range-over-func body.
func c09RangeFuncCall(in ssa.Instruction) (seq ssa.Value, body *ssa.Function, ok bool) {
	call, isCall := in.(*ssa.Call)
	if !isCall || call.Call.IsInvoke() || len(call.Call.Args) != 1 {
		return nil, nil, false
	}
	mc, isMC := call.Call.Args[0].(*ssa.MakeClosure)
	if !isMC || !c09IsYieldBody(mc.Fn.(*ssa.Function)) {
		return nil, nil, false
	}
	return call.Call.Value, mc.Fn.(*ssa.Function), true
}

// c09SitesOf: where fn is entered from.
//   - named unexported function: its static call sites (closed world);
//   - range-over-func body: the yield calls of the producers of the iterator it is passed to
//     (parameters = the yielded values);
//   - closure called directly where it is created, or immediately applied;
//   - producer closure returned by a maker: the places where the maker's result is invoked.
//
// closed is false when some entry cannot be seen.
func c09SitesOf(p *Prog, fn *ssa.Function) (sites []c09Site, closed bool) {
	if fn.Parent() == nil {
		cs, ok := c09CallSites(p, fn)
		for _, c := range cs {
			args := c.Common().Args
			sites = append(sites, c09Site{c.(ssa.Instruction), func(v ssa.Value) ssa.Value {
				if pf, i := c09ParamOf(v); pf == fn && i < len(args) {
					return args[i]
				}
				// state carried in a field of a struct passed by pointer (r.graph with r = &carrier{…})
				if ld, isLd := strip(v).(*ssa.UnOp); isLd && ld.Op == token.MUL {
					if fa, isFA := ld.X.(*ssa.FieldAddr); isFA {
						if pf, i := c09ParamOf(fa.X); pf == fn && i < len(args) {
							return c09FieldValue(args[i], fa.Field)
						}
					}
				}
				return nil
			}})
		}
		return sites, ok
	}
	closed = true
	parent := fn.Parent()
	AllInstrs(parent, func(in ssa.Instruction) {
		mc, ok := in.(*ssa.MakeClosure)
		if !ok || mc.Fn != fn {
			return
		}
		for _, ref := range *mc.Referrers() {
			switch u := ref.(type) {
			case *ssa.DebugRef:
			case ssa.CallInstruction:
				cc := u.Common()
				if cc.Value == ssa.Value(mc) { // called where created
					args := cc.Args
					sites = append(sites, c09Site{u.(ssa.Instruction), func(v ssa.Value) ssa.Value {
						if pf, i := c09ParamOf(v); pf == fn && i < len(args) {
							return args[i]
						}
						if r := c09Resolved(v); r != v {
							return r
						}
						return nil
					}})
					continue
				}
				if seq, body, isRF := c09RangeFuncCall(u.(ssa.Instruction)); isRF && body == fn {
					ys := c09Yielders(seq, 0)
					if len(ys) == 0 {
						closed = false
					}
					for _, y := range ys {
						for _, yc := range c09YieldCalls(y.Fn) {
							yargs := yc.Call.Args
							sites = append(sites, c09Site{yc, func(v ssa.Value) ssa.Value {
								if pf, i := c09ParamOf(v); pf == fn && i < len(yargs) {
									return yargs[i]
								}
								return nil
							}})
						}
					}
					continue
				}
				closed = false // handed to something else
			case *ssa.Return:
				// a producer: entered wherever the maker's result is invoked
				makerSites, ok := c09CallSites(p, parent)
				if !ok {
					closed = false
				}
				for _, ms := range makerSites {
					v := ms.Value()
					if v == nil {
						closed = false
						continue
					}
					margs := ms.Common().Args
					for _, use := range *v.Referrers() {
						uc, isCall := use.(*ssa.Call)
						if !isCall || uc.Call.Value != v {
							if _, isDbg := use.(*ssa.DebugRef); !isDbg {
								closed = false
							}
							continue
						}
						sites = append(sites, c09Site{uc, func(x ssa.Value) ssa.Value {
							r := c09Resolved(x) // captured variable of the producer -> value in the maker
							if pf, i := c09ParamOf(r); pf == parent && i < len(margs) {
								return margs[i]
							}
							return nil
						}})
					}
				}
			default:
				closed = false
			}
		}
	})
	if len(sites) == 0 {
		closed = false
	}
	return sites, closed
}

// ---------- iteration view ----------

// c09Iter is one loop over a collection, whatever its form: a classic range
// loop (Loop != nil, body = the loop's blocks in Fn) or a range-over-func loop
// (Loop == nil, body = the yield closure Fn) over a standard adapter
// (slices.Values/All, maps.Keys/Values/All) or an in-module iterator.
type c09Iter struct {
	Fn       *ssa.Function
	Loop     *Loop
	Stmt     ssa.Instruction // the loop statement in the enclosing function (range-func: the iterator invocation)
	Coll     ssa.Value       // the collection ranged over, in the frame of Stmt (nil: unknown)
	Key, Val ssa.Value       // per-iteration key / value in Fn (nil if not bound)
	Producer *ssa.Function   // in-module producer closure (nil otherwise)
	ProdIter *c09Iter        // the producer's own loop that yields (for selection tests made by the producer)
	ProdTr   func(ssa.Value) ssa.Value
}

// InBody: in belongs to the loop body.
func (it *c09Iter) InBody(in ssa.Instruction) bool {
	if it.Loop != nil {
		return in.Parent() == it.Fn && it.Loop.Contains(in)
	}
	return in.Parent() == it.Fn
}

// ContinuesWithout: some path from (b, idx) reaches the next iteration (the loop
// header; for a range-func body a return that is not `return false`) without
// hitting the cut.
func (it *c09Iter) ContinuesWithout(b *ssa.BasicBlock, idx int, ct *cut) bool {
	if it.Loop != nil {
		return c08PathExists(b, idx, it.Loop.Header.Instrs[0], false, ct, nil)
	}
	for _, r := range Returns(it.Fn) {
		if len(r.Results) == 1 {
			if cst, ok := r.Results[0].(*ssa.Const); ok && cst.Value != nil && cst.Value.String() == "false" {
				continue // break / early exit
			}
		}
		if c08PathExists(b, idx, r, false, ct, nil) {
			return true
		}
	}
	return false
}

// BodyStart: where an iteration begins.
func (it *c09Iter) BodyStart() (*ssa.BasicBlock, int) {
	if it.Loop != nil {
		if _, _, body, _, ok := it.Loop.RangeIndex(); ok {
			return body.To, 0
		}
		if _, _, body, _, ok := it.Loop.RangeMap(); ok {
			return body.To, 0
		}
		return it.Loop.Header, 0
	}
	return it.Fn.Blocks[0], 0
}

// c09ItersIn lists the loops whose statement is in fn.
func c09ItersIn(fn *ssa.Function) []*c09Iter {
	var out []*c09Iter
	for _, l := range Loops(fn) {
		if ranged, idx, _, _, ok := l.RangeIndex(); ok {
			it := &c09Iter{Fn: fn, Loop: l, Stmt: l.Header.Instrs[0], Coll: ranged, Key: idx}
			for _, ref := range *idx.Referrers() {
				if ia, ok := ref.(*ssa.IndexAddr); ok && (c09SameKey(ia.X, ranged) || c09SameFieldLoad(ia.X, ranged)) {
					for _, r2 := range *ia.Referrers() {
						if ld, ok := r2.(*ssa.UnOp); ok && ld.Op == token.MUL {
							it.Val = ld
						}
					}
				}
			}
			out = append(out, it)
		} else if ranged, next, _, _, ok := l.RangeMap(); ok {
			it := &c09Iter{Fn: fn, Loop: l, Stmt: l.Header.Instrs[0], Coll: ranged}
			for _, r := range *next.Referrers() {
				if e, ok := r.(*ssa.Extract); ok {
					if e.Index == 1 {
						it.Key = e
					} else if e.Index == 2 {
						it.Val = e
					}
				}
			}
			out = append(out, it)
		}
	}
	AllInstrs(fn, func(in ssa.Instruction) {
		seq, body, ok := c09RangeFuncCall(in)
		if !ok {
			return
		}
		prm := func(i int) ssa.Value {
			if i < len(body.Params) {
				return body.Params[i]
			}
			return nil
		}
		if mk, isCall := c09Resolved(seq).(*ssa.Call); isCall && len(mk.Call.Args) >= 1 {
			it := &c09Iter{Fn: body, Stmt: in, Coll: mk.Call.Args[0]}
			switch CalleeName(mk) {
			case "slices.Values", "maps.Values":
				it.Val = prm(0)
			case "maps.Keys":
				it.Key = prm(0)
			case "slices.All", "maps.All":
				it.Key, it.Val = prm(0), prm(1)
			default:
				it = nil
			}
			if it != nil {
				out = append(out, it)
				return
			}
		}
		for _, y := range c09Yielders(seq, 0) {
			y := y
			for _, yc := range c09YieldCalls(y.Fn) {
				for _, pit := range c09ItersIn(y.Fn) {
					if !pit.InBody(yc) {
						continue
					}
					it := &c09Iter{Fn: body, Stmt: in, Producer: y.Fn, ProdIter: pit, ProdTr: y.Tr}
					if pit.Coll != nil {
						it.Coll = y.Tr(pit.Coll)
					}
					for i, a := range yc.Call.Args {
						if pit.Key != nil && c09SameKey(a, pit.Key) {
							it.Key = prm(i)
						}
						if pit.Val != nil && (c09SameKey(a, pit.Val) || c09DescObjOf(pit.Val).vals[a]) {
							it.Val = prm(i)
						}
					}
					out = append(out, it)
				}
			}
		}
	})
	return out
}

// c09CellStores: every store to the local variable behind addr (an Alloc, or a
// free variable bound to one), in its function and in the closures that capture it.
func c09CellStores(addr ssa.Value) []*ssa.Store {
	var cell *ssa.Alloc
	switch a := addr.(type) {
	case *ssa.Alloc:
		cell = a
	case *ssa.FreeVar:
		v := ssa.Value(a)
		for depth := 0; depth < 4; depth++ {
			fv, ok := v.(*ssa.FreeVar)
			if !ok {
				break
			}
			bs := freeVarBindings(fv)
			if len(bs) == 0 {
				return nil
			}
			v = bs[0]
		}
		cell, _ = v.(*ssa.Alloc)
	}
	if cell == nil {
		return nil
	}
	var out []*ssa.Store
	var visit func(x ssa.Value, depth int)
	visit = func(x ssa.Value, depth int) {
		if depth > 4 || x.Referrers() == nil {
			return
		}
		for _, r := range *x.Referrers() {
			switch u := r.(type) {
			case *ssa.Store:
				if u.Addr == x {
					out = append(out, u)
				}
			case *ssa.MakeClosure:
				fn := u.Fn.(*ssa.Function)
				for i, b := range u.Bindings {
					if b == x && i < len(fn.FreeVars) {
						visit(fn.FreeVars[i], depth+1)
					}
				}
			}
		}
	}
	visit(cell, 0)
	return out
}

// ---------- step tables as sequences (Storage.Push as a table of step closures) ----------

// c09StepFns: the step closures of a first-error step table in the order of the table (nil when some element is
// not a closure literal at a constant index).
func c09StepFns(sl c11StepLoop) []*ssa.Function {
	out := make([]*ssa.Function, len(sl.Steps))
	for _, st := range sl.Steps {
		mc, ok := c09Resolved(st).(*ssa.MakeClosure)
		if !ok || st.Referrers() == nil {
			return nil
		}
		placed := false
		for _, ref := range *st.Referrers() {
			s, isStore := ref.(*ssa.Store)
			if !isStore || s.Val != st {
				continue
			}
			ia, isIA := s.Addr.(*ssa.IndexAddr)
			if !isIA {
				continue
			}
			k, isConst := constInt(ia.Index)
			if !isConst || k < 0 || int(k) >= len(out) || out[k] != nil {
				return nil
			}
			out[k], placed = mc.Fn.(*ssa.Function), true
		}
		if !placed {
			return nil
		}
	}
	for _, g := range out {
		if g == nil {
			return nil
		}
	}
	return out
}

// c09StepOf: g is step #idx of a first-error step table of its parent (the loop goes on only on a nil result, so
// step idx runs only after the steps before it returned nil).
func c09StepOf(g *ssa.Function) (fns []*ssa.Function, idx int, sl c11StepLoop, ok bool) {
	if g == nil || g.Parent() == nil {
		return nil, -1, sl, false
	}
	for _, l := range c09StepLoops(g.Parent()) {
		fs := c09StepFns(l)
		for i, f := range fs {
			if f == g {
				return fs, i, l, true
			}
		}
	}
	return nil, -1, sl, false
}

// c09StepBodies: fn and the step closures of its first-error step tables (the bodies that together are fn's sequence).
func c09StepBodies(fn *ssa.Function) []*ssa.Function {
	out := []*ssa.Function{fn}
	for _, l := range c09StepLoops(fn) {
		out = append(out, c09StepFns(l)...)
	}
	return out
}

// c09StepCellValue: v is read in (a closure nested in) step j from a variable of the function that owns the table,
// which is declared without a value there and assigned exactly once, by an earlier step i < j, on every path on
// which that step returns nil (`ingest, err = s.ingest(…); return err`): the value assigned.
func c09StepCellValue(v ssa.Value) ssa.Value {
	ld, ok := strip(v).(*ssa.UnOp)
	if !ok || ld.Op != token.MUL {
		return nil
	}
	fv, ok := ld.X.(*ssa.FreeVar)
	if !ok {
		return nil
	}
	reader := fv.Parent()
	bs := freeVarBindings(fv)
	if len(bs) != 1 {
		return nil
	}
	a, ok := bs[0].(*ssa.Alloc)
	if !ok || len(storesTo(a)) != 0 {
		return nil
	}
	fns, j, _, ok := c09StepOf(reader)
	if !ok || a.Parent() != reader.Parent() {
		return nil
	}
	ws := closureWriters(a)
	if len(ws) != 1 {
		return nil
	}
	w := ws[0]
	i := -1
	for k, f := range fns {
		if f == w {
			i = k
		}
	}
	if i < 0 || i >= j {
		return nil
	}
	var stores []*ssa.Store
	for _, wfv := range w.FreeVars {
		if wb := freeVarBindings(wfv); len(wb) == 1 && wb[0] == ssa.Value(a) {
			for _, r := range *wfv.Referrers() {
				switch u := r.(type) {
				case *ssa.Store:
					if u.Addr == ssa.Value(wfv) {
						stores = append(stores, u)
					}
				case *ssa.MakeClosure:
					return nil
				}
			}
		}
	}
	if len(stores) != 1 || !c09NilReturnsPass(w, []ssa.Instruction{stores[0]}) {
		return nil
	}
	return stores[0].Val
}

// c09BehindStepSuccess: `at` runs only inside a step of a first-error step table (in the step closure or in
// helpers entered only from it) and an earlier step of the same table reports success only behind a successful
// call accepted by isEffect.
func c09BehindStepSuccess(p *Prog, at ssa.Instruction, isEffect func(call ssa.CallInstruction) bool, depth int) bool {
	fn := at.Parent()
	if fns, j, _, ok := c09StepOf(fn); ok {
		for _, g := range fns[:j] {
			var calls []ssa.Instruction
			for _, call := range Calls(g, func(string) bool { return true }) {
				if _, isCall := call.(*ssa.Call); isCall && isEffect(call) {
					calls = append(calls, call.(ssa.Instruction))
				}
			}
			if len(calls) == 0 {
				continue
			}
			ct := newCut()
			c09SuccessCut(g, calls, ct)
			if ok, _ := c09SuccessImplies(g, ct); ok {
				return true
			}
		}
		return false
	}
	if depth <= 0 {
		return false
	}
	sites, closed := c09SitesOf(p, fn)
	if !closed || len(sites) == 0 {
		return false
	}
	for _, cs := range sites {
		if _, isGo := cs.At.(*ssa.Go); isGo {
			return false
		}
		if !c09BehindStepSuccess(p, cs.At, isEffect, depth-1) {
			return false
		}
	}
	return true
}
