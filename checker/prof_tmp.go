package main

import (
	"os"
	"runtime/pprof"
)

func init() {
	if p := os.Getenv("ORASCHECK_PROF"); p != "" {
		f, _ := os.Create(p)
		pprof.StartCPUProfile(f)
		profStop = pprof.StopCPUProfile
	}
}

var profStop = func() {}
