package main

// C08 — an OCI layout reopens to the same observable state.
//
//   R1 index projection       saveIndex: every resolver entry is emitted once, ref-name annotation on a fresh map
//   R2 persist tag mutations  every change of s.tagResolver is followed by saveIndex under AutoSaveIndex
//   R3 load protocol          loadIndex re-creates digest tag, ref tag and graph; constructors validate the layout
//   R4 path agreement         writer and readers derive blob paths from the same function

import (
	"fmt"
	"go/constant"
	"go/token"
	"go/types"
	"strings"

	"golang.org/x/tools/go/ssa"
)

func init() {
	register(&propDef{
		ID: "C08",
		Explain: "Decided: (R1) the function that projects the tag resolver into index.json ranges twice over the resolver's map with complementary ref!=digest / ref==digest guards; " +
			"every ref!=digest entry is appended with the ref-name annotation set to the reference on a freshly made copy of the annotations; every ref==digest entry is appended with the ref-name annotation stripped, " +
			"and may be skipped only if its digest was recorded at an append of the first pass; no map owned by the resolver is written; the result is assigned to s.index.Manifests, written, and the write error returned; " +
			"(R2) in oci.Store every change of the tag map (resolver Tag/Untag, replacement of s.tagResolver, call of a helper that leaves the change unsaved) is followed, on every path that returns a nil error " +
			"with AutoSaveIndex on, by a call of that projection whose error is surfaced; (R3) loadIndex tags every index entry by digest with the ref-name annotation stripped, by reference iff the annotation is non-empty, " +
			"indexes its graph, and returns all three errors; both store constructors load the index and compare oci-layout's version with ImageLayoutVersion; " +
			"(R4) Storage.Push/Delete, ReadOnlyStorage.Fetch/Exists and resolveBlob all obtain the blob path from the same function. " +
			"NOT decided (not applicable to static analysis): observable equality after arbitrary operation histories, JSON round-trip of descriptors, tarfs offset arithmetic, on-disk validity at every quiescent time.",
		Run:     runC08,
		Mutants: c08Mutants,
	})
}

func runC08(c *Ctx) {
	r := c08FindRoles(c, "C08.R2.persist-tag-mutations")
	if r == nil {
		return
	}
	c08R1(c, r)
	c08R2(c, r)
	c08R3(c, r)
	c08R4(c, r)
	c08R5(c)
}

// ---------------------------------------------------------------- R2

func c08R2(c *Ctx, r *c08Roles) {
	const R2 = "C08.R2.persist-tag-mutations"
	c.Expect(R2, 12)
	c08ComputeDirty(c.P, r)
	nMut := 0
	for _, f := range c09FuncsOfPkg(c.P, c08Pkg) {
		if c09IsYieldBody(f) {
			continue // judged as part of the function whose loop it is
		}
		fname := FnName(f)
		muts := c08Mutations(f, r)
		if len(muts) > 0 && r.dirty[f] {
			nMut += len(muts)
			c.Exists(R2, fname+"|save-delegated-to-callers", f.Pos(), true, "unexported helper changes the tag map and returns without saving; every call of it is checked as a mutation in its caller")
		} else if len(muts) > 0 {
			_, off := c08AutoSaveEdges(f, r.store)
			saves := c08SaveCalls(f, r)
			seen := map[string]int{}
			for _, M := range muts {
				nMut++
				lbl := c08MutationLabel(M)
				seen[lbl]++
				key := fmt.Sprintf("%s|%s#%d", fname, lbl, seen[lbl])
				mkCut := func() *cut { return newCut().Calls(saves).Edges(off...).Edges(c08InfeasibleAfter(M, r)...) }
				ret := c08NilReturnAfter(M, mkCut())
				if ret == nil {
					c.OK(R2, key, M.Pos(), "every path from this change of the tag map to a nil-error return calls saveIndex (or takes the AutoSaveIndex==false edge)")
				} else if g := c08BlamedGuards(f, r, M, mkCut, func(ct *cut) bool { return c08NilReturnAfter(M, ct) != nil }); len(g) > 0 {
					c.Undecided(R2, key, M.Pos(), "after this change of the tag map, saveIndex runs only under a condition the rule cannot relate to the change ("+strings.Join(g, "; ")+
						"); if the condition can be false after a change, index.json is not updated (return at "+c.P.Pos(ret.Pos())+")")
				} else {
					c.Violation(R2, key, M.Pos(), "the tag map is changed here but the function can return success at "+c.P.Pos(ret.Pos())+
						" without saving index.json although AutoSaveIndex is on: the layout on disk keeps the old tags — a reopened store resolves references (and lists tags) the live store no longer has")
				}
			}
		}
		for i, sc := range c08SaveCalls(f, r) {
			res := ErrFlow(sc, ErrFlowOpts{})
			c.Check(R2, fmt.Sprintf("%s|save-error-surfaced#%d", fname, i+1), sc.Pos(), res.OK, ifelse(res.OK, "saveIndex error: "+res.How, "a failed save of index.json is not reported to the caller: "+res.Detail))
		}
	}
	if nMut == 0 {
		c.LostAnchor(R2, "mutations of s.tagResolver in ~/content/oci")
	}
	// success promises persistence, whether or not memory changed on the path
	promises, lost := c08PersistPromises(c.P, r)
	for _, l := range lost {
		c.LostAnchor(R2, l)
	}
	for _, pr := range promises {
		key := FnName(pr.Fn) + "|" + pr.What
		if pr.Bad == nil {
			c.OK(R2, key, pr.Fn.Pos(), "every nil-error return passes a successful saveIndex (or the AutoSaveIndex==false edge) from function entry")
		} else {
			c.Violation(R2, key, pr.Bad.Pos(), "the operation can return success at "+c.P.Pos(pr.Bad.Pos())+" without having saved index.json although AutoSaveIndex is on. "+
				"Skipping the save because the in-memory tag map already looks right is not safe: memory can be ahead of the file (an earlier Tag whose index write failed, or a Tag made while AutoSaveIndex was off), "+
				"so the caller is told the tag is stored while a reopened store does not have it")
		}
	}
}

// ---------------------------------------------------------------- R1

// c08RefNameConst resolves ocispec.AnnotationRefName.
func c08RefNameConst(p *Prog) (string, bool) {
	o := p.Obj("github.com/opencontainers/image-spec/specs-go/v1", "AnnotationRefName")
	cst, ok := o.(*types.Const)
	if !ok || cst.Val().Kind() != constant.String {
		return "", false
	}
	return constant.StringVal(cst.Val()), true
}

type c08Pass struct {
	it      *c09Iter
	fn      *ssa.Function
	l       *Loop
	k, v    ssa.Value
	obj     c09DescObj
	eq, neq []Edge // ref == digest / ref != digest, decided in the body
	sel     int    // decided by the iterator that feeds the body: +1 only ref == digest entries are yielded (all of them), -1 only ref != digest, 0 no selection
}

// starts: where the handling of an entry of the given kind (+1: ref == digest,
// -1: ref != digest) begins in the body.
func (p *c08Pass) starts(sign int) (bs []*ssa.BasicBlock) {
	if p.sel == sign {
		b, _ := p.it.BodyStart()
		return []*ssa.BasicBlock{b}
	}
	if p.sel != 0 {
		return nil
	}
	es := p.eq
	if sign < 0 {
		es = p.neq
	}
	for _, e := range es {
		bs = append(bs, e.To)
	}
	return bs
}

// c08KeyDigestSign: cond is true exactly when key == string(digest of obj) (+1)
// or exactly when key != … (-1); 0 if it is not such a test.  Understands
// `(ref == d) != flag` with a flag whose value constOf knows.
func c08KeyDigestSign(cond ssa.Value, k ssa.Value, obj c09DescObj, constOf func(ssa.Value) (bool, bool)) int {
	switch u := cond.(type) {
	case *ssa.UnOp:
		if u.Op == token.NOT {
			return -c08KeyDigestSign(u.X, k, obj, constOf)
		}
	case *ssa.BinOp:
		if u.Op != token.EQL && u.Op != token.NEQ {
			return 0
		}
		isDg := func(x ssa.Value) bool { return c09DigestString(obj, x) || c09DigestString(obj, strip(x)) }
		if (c09SameKey(u.X, k) && isDg(u.Y)) || (c09SameKey(u.Y, k) && isDg(u.X)) {
			if u.Op == token.EQL {
				return 1
			}
			return -1
		}
		// boolean (in)equality with a known flag
		for _, pair := range [][2]ssa.Value{{u.X, u.Y}, {u.Y, u.X}} {
			inner := c08KeyDigestSign(pair[0], k, obj, constOf)
			if inner == 0 {
				continue
			}
			flag, known := false, false
			if cst, isC := pair[1].(*ssa.Const); isC && cst.Value != nil {
				flag, known = cst.Value.String() == "true", true
			} else if constOf != nil {
				flag, known = constOf(pair[1])
			}
			if !known {
				return 0
			}
			if (u.Op == token.EQL) == flag {
				return inner
			}
			return -inner
		}
	}
	return 0
}

// c08SignEdges: the branch edges of the body of it on which an entry is known
// to have key == digest / key != digest.
func c08SignEdges(it *c09Iter, k ssa.Value, obj c09DescObj, constOf func(ssa.Value) (bool, bool)) (eq, neq []Edge) {
	for _, i := range Ifs(it.Fn) {
		if !it.InBody(i) {
			continue
		}
		cond, t, fe := ifEdges(i)
		switch c08KeyDigestSign(cond, k, obj, constOf) {
		case 1:
			eq, neq = append(eq, t), append(neq, fe)
		case -1:
			eq, neq = append(eq, fe), append(neq, t)
		}
	}
	return
}

// c08Passes: the loops of f (classic or range-over-func) over a value in
// `maps`, with the key-vs-digest selection made in the body or by the iterator.
func c08Passes(p *Prog, f *ssa.Function, maps map[ssa.Value]bool) []c08Pass {
	var out []c08Pass
	for _, it := range c09ItersIn(f) {
		if it.Coll == nil || it.Val == nil {
			continue
		}
		if !(maps[it.Coll] || maps[c09Resolved(it.Coll)]) {
			// … or handed in through a parameter / a field of a carrier struct
			os, ok := c09Origins(p, it.Coll, 2, nil)
			all := ok && len(os) > 0
			for _, o := range os {
				all = all && (maps[o] || maps[c09Resolved(o)])
			}
			if !all {
				continue
			}
		}
		p := c08Pass{it: it, fn: it.Fn, l: it.Loop, k: it.Key, v: it.Val}
		p.obj = c09DescObjOf(p.v)
		if p.k != nil {
			p.eq, p.neq = c08SignEdges(it, p.k, p.obj, nil)
		}
		// selection made by the in-module iterator that feeds the body
		if pit := it.ProdIter; pit != nil && pit.Key != nil && pit.Val != nil {
			constOf := func(v ssa.Value) (bool, bool) {
				w := it.ProdTr(v)
				if cst, isC := w.(*ssa.Const); w != nil && isC && cst.Value != nil {
					return cst.Value.String() == "true", true
				}
				return false, false
			}
			peq, pneq := c08SignEdges(pit, pit.Key, c09DescObjOf(pit.Val), constOf)
			var ycs []ssa.Instruction
			for _, yc := range c09YieldCalls(it.Producer) {
				if pit.InBody(yc) {
					ycs = append(ycs, yc)
				}
			}
			for _, cand := range []struct {
				sign  int
				edges []Edge
			}{{1, peq}, {-1, pneq}} {
				if len(cand.edges) == 0 || len(ycs) == 0 {
					continue
				}
				exact := true
				for _, yc := range ycs {
					if !c09Guarded(yc, cand.edges) { // only entries of that kind are yielded
						exact = false
					}
				}
				for _, e := range cand.edges { // and every one of them
					if pit.ContinuesWithout(e.To, 0, newCut().Instr(ycs...)) {
						exact = false
					}
				}
				if exact {
					p.sel = cand.sign
				}
			}
		}
		out = append(out, p)
	}
	return out
}

func c08IsStripHelper(p *Prog, g *ssa.Function) bool {
	ref, ok := c08RefNameConst(p)
	if !ok || g == nil || !inModule(g) || g.Signature.Params().Len() != 1 || g.Signature.Results().Len() != 1 {
		return false
	}
	uses := false
	AllInstrs(g, func(in ssa.Instruction) {
		if lk, isLk := in.(*ssa.Lookup); isLk {
			if s, ok := constString(lk.Index); ok && s == ref {
				uses = true
			}
		}
		if bo, isBo := in.(*ssa.BinOp); isBo {
			if s, ok := constString(bo.Y); ok && s == ref {
				uses = true
			}
			if s, ok := constString(bo.X); ok && s == ref {
				uses = true
			}
		}
	})
	return uses
}

// c08RefNameSet: at the load `e` of the entry's cell (in fn), the entry's
// Annotations field holds a map made in fn in which refName is set to k; copied
// reports whether the entry's previous annotations were copied into that map.
func c08RefNameSet(fn *ssa.Function, obj c09DescObj, k ssa.Value, e ssa.Value, refName string) (ok bool, why string, copied bool) {
	ld, isLoad := e.(*ssa.UnOp)
	if !isLoad {
		return false, "appended value is not a load of the entry's cell", false
	}
	var st *ssa.Store
	for cell := range obj.cells {
		for _, ref := range *cell.Referrers() {
			if fa, isFA := ref.(*ssa.FieldAddr); isFA && strings.HasSuffix(fieldName(fa.X.Type(), fa.Field), ".Annotations") {
				for _, r2 := range *fa.Referrers() {
					if s, isSt := r2.(*ssa.Store); isSt && s.Addr == fa && Dominates(s, ld) {
						st = s
					}
				}
			}
		}
	}
	if st == nil {
		return false, "the entry's Annotations are not replaced before it is appended (the reference name is not recorded)", false
	}
	if !c08FreshMap(st.Val) {
		// built by a helper on the map level: withAnnotationRefName(desc.Annotations, ref)
		if ok, cp := c08RefNameMapHelper(st.Val, obj, k, refName); ok {
			return true, "", cp
		}
		return false, "the annotations map assigned to the entry is not freshly made (writing the reference name into it would modify the descriptor held by the resolver)", false
	}
	set := false
	AllInstrs(fn, func(in ssa.Instruction) {
		if mu, isMU := in.(*ssa.MapUpdate); isMU && c09SameKey(mu.Map, st.Val) {
			if s, isC := constString(mu.Key); isC && s == refName && c09SameKey(mu.Value, k) && Dominates(mu, ld) {
				set = true
			}
		}
	})
	if !set {
		return false, "annotations[" + refName + "] is not set to the reference of the entry", false
	}
	for _, cc := range Calls(fn, func(n string) bool { return n == "maps.Copy" || n == "maps.Insert" }) {
		args := cc.Common().Args
		if c09SameKey(args[0], st.Val) && obj.fieldOf(args[1], "Annotations") {
			copied = true
		}
	}
	for _, rt := range Roots(st.Val) {
		if call, isCall := rt.(*ssa.Call); isCall && CalleeName(call) == "maps.Clone" && obj.fieldOf(call.Call.Args[0], "Annotations") {
			copied = true
		}
	}
	return true, "", copied
}

// c08RefNameMapHelper: v is the result of an in-module helper that returns a
// freshly made map in which refName is set to the argument that is the entry's
// reference; copied reports that the entry's annotations are copied into it.
func c08RefNameMapHelper(v ssa.Value, obj c09DescObj, k ssa.Value, refName string) (ok, copied bool) {
	rs := Roots(v)
	if len(rs) != 1 {
		return false, false
	}
	call, isCall := rs[0].(*ssa.Call)
	if !isCall {
		return false, false
	}
	h := StaticCallee(call)
	if h == nil || !inModule(h) || len(h.Blocks) == 0 {
		return false, false
	}
	pr, pa := -1, -1
	for i, a := range call.Call.Args {
		if c09SameKey(a, k) {
			pr = i
		}
		if obj.fieldOf(a, "Annotations") {
			pa = i
		}
	}
	if pr < 0 || pr >= len(h.Params) {
		return false, false
	}
	atoms := RetAtoms(h, 0)
	if len(atoms) == 0 {
		return false, false
	}
	copied = pa >= 0
	for _, a := range atoms {
		if !c08FreshMap(a.Val) {
			return false, false
		}
		set, cp := false, false
		AllInstrs(h, func(in ssa.Instruction) {
			switch u := in.(type) {
			case *ssa.MapUpdate:
				if c09SameKey(u.Map, a.Val) {
					if s, isC := constString(u.Key); isC && s == refName && c09SameKey(u.Value, h.Params[pr]) && Dominates(u, a.Ret) {
						set = true
					}
				}
			case ssa.CallInstruction:
				if n := CalleeName(u); (n == "maps.Copy" || n == "maps.Insert") && pa >= 0 && pa < len(h.Params) {
					ca := u.Common().Args
					if c09SameKey(ca[0], a.Val) && c09SameKey(ca[1], h.Params[pa]) {
						cp = true
					}
				}
			}
		})
		for _, rt := range Roots(a.Val) {
			if cl, isCl := rt.(*ssa.Call); isCl && CalleeName(cl) == "maps.Clone" && pa >= 0 && pa < len(h.Params) && c09SameKey(cl.Call.Args[0], h.Params[pa]) {
				cp = true
			}
		}
		if !set {
			return false, false
		}
		copied = copied && cp
	}
	return true, copied
}

// c08FreshMap: every value m may denote is a map made in this function (make / maps.Clone).
func c08FreshMap(m ssa.Value) bool {
	rs := Roots(m)
	if len(rs) == 0 {
		return false
	}
	for _, rt := range rs {
		switch u := rt.(type) {
		case *ssa.MakeMap:
		case *ssa.Call:
			if CalleeName(u) != "maps.Clone" {
				return false
			}
		default:
			return false
		}
	}
	return true
}

func c08R1(c *Ctx, r *c08Roles) {
	const R1 = "C08.R1.index-projection"
	c.Expect(R1, 11)
	refName, okRef := c08RefNameConst(c.P)
	if !okRef {
		c.LostAnchor(R1, "ocispec.AnnotationRefName")
		return
	}
	for S := range r.savers {
		sn := FnName(S)
		// the projection may be spread over unexported helpers below S (passes extracted into functions)
		var hosts []*ssa.Function
		for _, h := range c09ReachableInPkg(S, 2) {
			if h == S || (!r.indexWriter[h] && !c08IsStripHelper(c.P, h) && (h.Object() == nil || !h.Object().Exported())) {
				hosts = append(hosts, h)
			}
		}
		maps := map[ssa.Value]bool{}
		for _, h := range hosts {
			resolver := c08StoreFieldLoads(h, r.store, "tagResolver")
			for _, mc := range CallsTo(h, c08nResMap) {
				if resolver[mc.Common().Args[0]] {
					for a := range Aliases(mc.Value()) {
						maps[a] = true
					}
				}
			}
		}
		for round := 0; round < 2; round++ {
			for _, h := range hosts {
				if h == S {
					continue
				}
				for _, prm := range h.Params {
					os, ok := c09Origins(c.P, prm, 1, nil)
					all := ok && len(os) > 0
					for _, o := range os {
						all = all && maps[o]
					}
					if all {
						for a := range Aliases(prm) {
							maps[a] = true
						}
					}
				}
			}
		}
		if len(maps) == 0 {
			c.LostAnchor(R1, sn+": s.tagResolver.Map()")
			continue
		}
		// the accumulator stored into s.index.Manifests
		var stManifests *ssa.Store
		AllInstrs(S, func(in ssa.Instruction) {
			if st, ok := in.(*ssa.Store); ok {
				if fa, ok := st.Addr.(*ssa.FieldAddr); ok && strings.HasSuffix(fieldName(fa.X.Type(), fa.Field), "ocispec.Index.Manifests") {
					stManifests = st
				}
			}
		})
		acc := map[ssa.Value]bool{}
		var grow func(v ssa.Value)
		grow = func(v ssa.Value) {
			if v == nil || acc[v] {
				return
			}
			acc[v] = true
			switch u := v.(type) {
			case *ssa.Phi:
				for _, e := range u.Edges {
					grow(e)
				}
			case *ssa.Parameter:
				// the accumulator handed to a helper that appends to it: what the call sites pass
				if os, ok := c09Origins(c.P, u, 1, nil); ok && !(len(os) == 1 && os[0] == ssa.Value(u)) {
					for _, o := range os {
						grow(o)
					}
				}
			case *ssa.UnOp:
				// a local accumulated in a cell (captured by the body of a range-over-func loop): everything stored to it
				if u.Op == token.MUL {
					for _, st := range c09CellStores(u.X) {
						grow(st.Val)
					}
				}
			case *ssa.Extract:
				if call, ok := u.Tuple.(*ssa.Call); ok {
					if g := StaticCallee(call); g != nil && len(g.Blocks) > 0 && fnPkgPath(g) == pkgPath(c08Pkg) {
						for _, a := range RetAtoms(g, u.Index) {
							grow(a.Val)
						}
						for _, r := range Returns(g) {
							if u.Index < len(r.Results) {
								grow(r.Results[u.Index])
							}
						}
					}
				}
			case *ssa.Call:
				if CalleeName(u) == "builtin:append" {
					grow(u.Call.Args[0])
					if _, whole := c09AppendedElems(u); whole != nil {
						grow(whole) // append(a, b...): b's elements are emitted too
					}
				} else if g := StaticCallee(u); g != nil && len(g.Blocks) > 0 && fnPkgPath(g) == pkgPath(c08Pkg) {
					for _, a := range RetAtoms(g, 0) {
						grow(a.Val) // the slice built by an extracted pass
					}
					for _, r := range Returns(g) {
						if len(r.Results) > 0 {
							grow(r.Results[0]) // … also when it is accumulated in a captured variable
						}
					}
				}
			}
		}
		grow(stManifests.Val)
		type emit struct {
			call  ssa.CallInstruction
			elems []ssa.Value
		}
		var emits []emit
		var passes []c08Pass
		for _, h := range hosts {
			for _, ap := range CallsTo(h, "builtin:append") {
				if acc[ap.Value()] {
					if el, _ := c09AppendedElems(ap); len(el) > 0 {
						emits = append(emits, emit{ap, el})
					}
				}
			}
			passes = append(passes, c08Passes(c.P, h, maps)...)
		}
		// pass 1: every ref != digest entry is appended
		var p1 *c08Pass
		var p1Emits []emit
		for i := range passes {
			p := &passes[i]
			if len(p.starts(-1)) == 0 {
				continue
			}
			var mine []emit
			ct := newCut()
			for _, em := range emits {
				for _, e := range em.elems {
					fromEntry := p.obj.vals[e]
					if call, isCall := e.(*ssa.Call); isCall && !fromEntry {
						if g := StaticCallee(call); g != nil && inModule(g) && !c08IsStripHelper(c.P, g) {
							for _, a := range call.Call.Args {
								fromEntry = fromEntry || p.obj.vals[a]
							}
						}
					}
					if p.it.InBody(em.call.(ssa.Instruction)) && fromEntry {
						mine = append(mine, em)
						ct.Instr(em.call.(ssa.Instruction))
					}
				}
			}
			ok := len(mine) > 0
			for _, b := range p.starts(-1) {
				if p.it.ContinuesWithout(b, 0, ct) {
					ok = false
				}
			}
			if ok {
				p1, p1Emits = p, mine
			}
		}
		anyNeq := false
		for i := range passes {
			if len(passes[i].starts(-1)) > 0 {
				anyNeq = true
			}
		}
		if !anyNeq {
			c.Undecided(R1, sn+"|every-tagged-entry-emitted", S.Pos(), "no range over s.tagResolver.Map() with a `ref != desc.Digest.String()` test was found: projection shape not recognised")
			continue
		}
		if !c.Check(R1, sn+"|every-tagged-entry-emitted", S.Pos(), p1 != nil, ifelse(p1 != nil, "a pass over the resolver map appends every entry with ref != digest to the manifests written to index.json",
			"no pass over the resolver map appends every ref != digest entry: a tag can be missing from index.json, the reopened store does not resolve it")) {
			continue
		}
		// the appended descriptor carries refName = ref on a fresh annotations map, other annotations copied
		okAnn, why := true, ""
		copied, nChecked := true, 0
		for _, em := range p1Emits {
			for _, e := range em.elems {
				nChecked++
				if p1.obj.vals[e] {
					ok, w, cp := c08RefNameSet(p1.fn, p1.obj, p1.k, e, refName)
					if !ok {
						okAnn, why = false, w
					}
					copied = copied && cp
					continue
				}
				// built by a helper: withRefName(desc, ref)
				call, isCall := e.(*ssa.Call)
				g := (*ssa.Function)(nil)
				if isCall {
					g = StaticCallee(call)
				}
				pd, pr := -1, -1
				if g != nil && len(g.Blocks) > 0 {
					for ai, a := range call.Call.Args {
						if p1.obj.vals[a] {
							pd = ai
						}
						if c09SameKey(a, p1.k) {
							pr = ai
						}
					}
				}
				if pd < 0 || pr < 0 || pd >= len(g.Params) || pr >= len(g.Params) {
					okAnn, why = false, "the appended value is neither the entry nor built by a helper from the entry and its reference"
					continue
				}
				gobj := c09DescObjOf(g.Params[pd])
				atoms := RetAtoms(g, 0)
				if len(atoms) == 0 {
					okAnn, why = false, "helper "+FnName(g)+" returns nothing"
				}
				for _, a := range atoms {
					ok, w, cp := c08RefNameSet(g, gobj, g.Params[pr], a.Val, refName)
					if !ok {
						okAnn, why = false, FnName(g)+": "+w
					}
					copied = copied && cp
				}
			}
		}
		c.Check(R1, sn+"|tagged-entry-carries-ref-name", S.Pos(), okAnn, ifelse(okAnn, "each appended tagged entry has "+refName+" = ref on a map made for it", why))
		if okAnn && nChecked > 0 {
			if copied {
				c.OK(R1, sn+"|other-annotations-preserved", S.Pos(), "the entry's other annotations are copied into the fresh map")
			} else {
				c.Undecided(R1, sn+"|other-annotations-preserved", S.Pos(), "cannot find the copy of the entry's annotations into the fresh map (maps.Copy / maps.Clone): shape not recognised")
			}
		}
		// pass 2: every ref == digest entry is appended stripped, or skipped because its digest was emitted in pass 1
		var dedupSets = map[ssa.Value]bool{}
		for _, h := range hosts {
			for _, sc := range CallsTo(h, "~/internal/container/set.New") {
				for a := range Aliases(sc.Value()) {
					dedupSets[a] = true
				}
			}
			// the same empty set made in place (`make(set.Set[K], n)`: the capacity hint does not change its content)
			AllInstrs(h, func(in ssa.Instruction) {
				if mm, ok := in.(*ssa.MakeMap); ok && c09IsSetType(mm.Type()) {
					for a := range Aliases(mm) {
						dedupSets[a] = true
					}
				}
			})
		}
		// the set handed on to / returned by an extracted pass
		var isDedup func(v ssa.Value, d int) bool
		isDedup = func(v ssa.Value, d int) bool {
			if v == nil || d > 3 {
				return false
			}
			if dedupSets[v] {
				return true
			}
			rs := Roots(v)
			if len(rs) == 0 {
				return false
			}
			for _, rt := range rs {
				ok := dedupSets[rt]
				switch u := rt.(type) {
				case *ssa.Parameter:
					if os, okO := c09Origins(c.P, u, 1, nil); okO && len(os) > 0 && !(len(os) == 1 && os[0] == ssa.Value(u)) {
						ok = true
						for _, o := range os {
							ok = ok && isDedup(o, d+1)
						}
					}
				case *ssa.Call, *ssa.Extract:
					var call *ssa.Call
					idx := 0
					if ex, isEx := u.(*ssa.Extract); isEx {
						call, _ = ex.Tuple.(*ssa.Call)
						idx = ex.Index
					} else {
						call = u.(*ssa.Call)
					}
					if call != nil {
						if g := StaticCallee(call); g != nil && len(g.Blocks) > 0 && fnPkgPath(g) == pkgPath(c08Pkg) && idx < g.Signature.Results().Len() {
							as := RetAtoms(g, idx)
							ok = len(as) > 0
							for _, a := range as {
								ok = ok && isDedup(a.Val, d+1)
							}
						}
					}
				}
				if !ok {
					return false
				}
			}
			return true
		}
		for _, h := range hosts {
			for _, prm := range h.Params {
				if c09IsSetType(prm.Type()) && isDedup(prm, 0) {
					for a := range Aliases(prm) {
						dedupSets[a] = true
					}
				}
			}
			AllInstrs(h, func(in ssa.Instruction) {
				if v, ok := in.(ssa.Value); ok && c09IsSetType(v.Type()) && !dedupSets[v] {
					switch v.(type) {
					case *ssa.Call, *ssa.Extract:
						if isDedup(v, 0) {
							for a := range Aliases(v) {
								dedupSets[a] = true
							}
						}
					}
				}
			})
		}
		var p2 *c08Pass
		okStrip := true
		for i := range passes {
			p := &passes[i]
			if len(p.starts(1)) == 0 || p == p1 {
				continue
			}
			ct := newCut()
			n := 0
			for _, em := range emits {
				if !p.it.InBody(em.call.(ssa.Instruction)) {
					continue
				}
				for _, e := range em.elems {
					if p.obj.vals[e] {
						n++
						okStrip = false
						ct.Instr(em.call.(ssa.Instruction))
					} else if call, ok := e.(*ssa.Call); ok && len(call.Call.Args) == 1 && p.obj.vals[call.Call.Args[0]] {
						n++
						if !c08IsStripHelper(c.P, StaticCallee(call)) {
							okStrip = false
						}
						ct.Instr(em.call.(ssa.Instruction))
					}
				}
			}
			dup, _, _ := CallTests(p.fn, "(~/internal/container/set.Set[T]).Contains", func(x *ssa.Call) bool {
				return (dedupSets[x.Call.Args[0]] || dedupSets[c09Resolved(x.Call.Args[0])]) && p.obj.fieldOf(x.Call.Args[1], "Digest")
			})
			ct.Edges(dup...)
			ok := n > 0
			for _, b := range p.starts(1) {
				if p.it.ContinuesWithout(b, 0, ct) {
					ok = false
				}
			}
			if ok {
				p2 = p
			}
		}
		c.Check(R1, sn+"|every-untagged-entry-emitted", S.Pos(), p2 != nil, ifelse(p2 != nil, "a second pass appends every ref == digest entry unless its digest is in the de-duplication set",
			"no pass appends every ref == digest entry (other than de-duplicated ones): a manifest that is only known by digest disappears from index.json and is not resolvable/indexed after reopen"))
		for i, pp := range []*c08Pass{p1, p2} {
			if pp == nil {
				continue
			}
			bad, at := c09IterEarlyExit(pp.it)
			if !bad {
				at = S.Pos()
			}
			c.Check(R1, sn+fmt.Sprintf("|pass%d-runs-to-the-end", i+1), at, !bad, ifelse(!bad, "the pass over the resolver map is left only when the map is exhausted (or with an error)",
				"the pass over the resolver map can be left early while the projection is still written: the entries not visited are missing from index.json"))
		}
		if p2 != nil {
			c.Check(R1, sn+"|untagged-entry-stripped", S.Pos(), okStrip, ifelse(okStrip, "digest-only entries are emitted through the helper that removes the ref-name annotation",
				"a digest-only entry is written with whatever "+refName+" annotation its descriptor carries: reopening the layout would create a tag that the live store does not have"))
		}
		// de-duplication set: only digests emitted in pass 1
		okDedup, nAdd := true, 0
		for _, h := range hosts {
			AllInstrs(h, func(in ssa.Instruction) {
				op, set, elem := c09SetOp(in)
				if op != "add" || !(dedupSets[set] || dedupSets[c09Resolved(set)]) {
					return
				}
				nAdd++
				if !p1.it.InBody(in) || !p1.obj.fieldOf(elem, "Digest") {
					okDedup = false
					return
				}
				ct := newCut()
				for _, em := range p1Emits {
					ct.Instr(em.call.(ssa.Instruction))
				}
				// an iteration that marks the digest has also appended the entry
				sb, si := p1.it.BodyStart()
				if reach(sb, si, in, ct) && p1.it.ContinuesWithout(in.Block(), instrIndex(in)+1, ct) {
					okDedup = false
				}
			})
		}
		if nAdd > 0 {
			c.Check(R1, sn+"|dedup-only-emitted-digests", S.Pos(), okDedup, ifelse(okDedup, "a digest enters the de-duplication set only in an iteration of the first pass that appends the entry",
				"a digest can be marked as already written without its entry having been appended: the second pass then skips a manifest that is in no index entry"))
		}
		// no map owned by the resolver is written
		okFresh, whyFresh := true, ""
		check := func(f *ssa.Function) {
			AllInstrs(f, func(in ssa.Instruction) {
				var m ssa.Value
				switch u := in.(type) {
				case *ssa.MapUpdate:
					m = u.Map
				case ssa.CallInstruction:
					switch CalleeName(u) {
					case "builtin:delete", "builtin:clear", "maps.Copy", "maps.DeleteFunc", "maps.Insert":
						m = u.Common().Args[0]
					}
				}
				if m == nil {
					return
				}
				if !c08FreshMap(m) {
					okFresh, whyFresh = false, FnName(f)+" writes a map it did not make at "+c.P.Pos(in.Pos())
				}
			})
		}
		for _, h := range c09ReachableInPkg(S, 2) {
			if !r.indexWriter[h] && (h == S || h.Object() == nil || !h.Object().Exported()) {
				check(h) // the projection and the helpers that build or strip the emitted descriptors
			}
		}
		c.Check(R1, sn+"|resolver-maps-not-written", S.Pos(), okFresh, ifelse(okFresh, "every map written by the projection (and the strip helper) is made locally", whyFresh+": the descriptor held by the resolver (and returned by Resolve) would change"))
		// snapshot, assignment and file write form one critical section of the index lock
		for _, cs := range c08IndexCriticalSections(c.P, r) {
			if cs.Fn == S {
				c.Check(R1, cs.Key, cs.Pos, cs.OK, ifelse(cs.OK, cs.How, cs.Why+" — concurrent savers (Tag and Untag hold s.sync only in read mode) can write index.json in the reverse order of their snapshots, so the file no longer reflects the tag map"))
			}
		}
		// result stored, written, error returned
		var wr []ssa.CallInstruction
		for _, call := range Calls(S, func(string) bool { return true }) {
			if g := StaticCallee(call); g != nil && (r.indexWriter[g] || c08FileWriters[CalleeName(call)]) {
				wr = append(wr, call)
			}
		}
		okW := len(wr) > 0
		for _, w := range wr {
			if !Dominates(stManifests, w.(ssa.Instruction)) || !ErrFlow(w, ErrFlowOpts{}).OK {
				okW = false
			}
		}
		var wrIns []ssa.Instruction
		for _, w := range wr {
			wrIns = append(wrIns, w.(ssa.Instruction))
		}
		if !c09NilReturnsPass(S, wrIns) { // a failure before the write (marshalling) returns its error
			okW = false
		}
		c.Check(R1, sn+"|result-written-and-error-returned", S.Pos(), okW, ifelse(okW, "s.index.Manifests is assigned before the index file is written on every path, and the write error is returned", "the projection is not written on every path, is written before it is assigned, or the write error is dropped"))
	}
}

// ---------------------------------------------------------------- R3

func c08R3(c *Ctx, r *c08Roles) {
	const R3 = "C08.R3.load-protocol"
	c.Expect(R3, 11)
	refName, _ := c08RefNameConst(c.P)
	isTag := func(n string) bool { return n == "(~/content.Tagger).Tag" || n == c08nResTag }
	// loadIndex role: a range over ocispec.Index.Manifests below which (directly or in a helper) every entry is tagged
	var loaders []*c09Iter
	for _, f := range c09FuncsOfPkg(c.P, c08Pkg) {
		if r.savers[f] || c09IsYieldBody(f) {
			continue
		}
		for _, it := range c09ItersIn(f) {
			isManifests := false
			if it.Coll != nil {
				for _, rt := range Roots(it.Coll) {
					if u, ok := rt.(*ssa.UnOp); ok {
						if fa, ok := u.X.(*ssa.FieldAddr); ok && strings.HasSuffix(fieldName(fa.X.Type(), fa.Field), "ocispec.Index.Manifests") {
							isManifests = true
						}
					}
				}
			}
			if isManifests && reachesCall(it.Fn, 2, func(n string, _ ssa.CallInstruction) bool { return isTag(n) }) {
				loaders = append(loaders, it)
			}
		}
	}
	if len(loaders) == 0 {
		c.LostAnchor(R3, "loadIndex role (ranges over Index.Manifests and tags each entry)")
		return
	}
	var loaderFns []*ssa.Function
	for _, it := range loaders {
		it := it
		L, l := it.Fn, it.Loop
		outer := it.Stmt.Parent()
		loaderFns = append(loaderFns, outer)
		ln := FnName(outer)
		lpos := it.Stmt.Pos()
		if l != nil {
			lpos = blockPos(l.Header)
		}
		elem := it.Val
		if elem == nil {
			c.Undecided(R3, ln+"|every-entry-tagged-by-digest-stripped", lpos, "the element of the range over Index.Manifests is not bound to a value")
			continue
		}
		obj := c09DescObjOf(elem)
		inObj := func(v ssa.Value) bool { return v != nil && (obj.vals[v] || obj.vals[strip(v)]) }
		inLoop := func(ins []ssa.Instruction) []ssa.Instruction {
			var out []ssa.Instruction
			for _, in := range ins {
				if it.InBody(in) {
					out = append(out, in)
				}
			}
			return out
		}
		bodyB, bodyI := it.BodyStart()
		// Tag(strip(desc), desc.Digest.String()) / IndexAll(plain(desc)) — performed in the loop or by a helper called from it
		byDigest := inLoop(c09EffectSites(L, c09Identity, func(call ssa.CallInstruction, bind c09Bind) bool {
			a := call.Common().Args
			if !isTag(CalleeName(call)) || len(a) < 2 {
				return false
			}
			desc, ref := a[len(a)-2], a[len(a)-1]
			rc, ok := strip(ref).(*ssa.Call)
			if !ok || CalleeName(rc) != "(digest.Digest).String" || !inObj(bind(c09FieldBase(rc.Call.Args[0], "Digest"))) {
				return false
			}
			sc, ok := desc.(*ssa.Call)
			return ok && len(sc.Call.Args) == 1 && c08IsStripHelper(c.P, StaticCallee(sc)) && inObj(bind(c09CellOrValue(sc.Call.Args[0])))
		}, 2))
		idxAll := inLoop(c09EffectSites(L, c09Identity, func(call ssa.CallInstruction, bind c09Bind) bool {
			a := call.Common().Args
			if CalleeName(call) != "(*~/internal/graph.Memory).IndexAll" || len(a) == 0 {
				return false
			}
			last := a[len(a)-1]
			if pc, ok := last.(*ssa.Call); ok && len(pc.Call.Args) == 1 {
				last = pc.Call.Args[0]
			}
			return inObj(bind(c09CellOrValue(last)))
		}, 2))
		ok1 := len(byDigest) > 0 && !it.ContinuesWithout(bodyB, bodyI, newCut().Instr(byDigest...))
		c.Check(R3, ln+"|every-entry-tagged-by-digest-stripped", lpos, ok1, ifelse(ok1, "each index entry is tagged by its digest with the ref-name annotation removed", "an index entry can be skipped (or keeps its ref-name annotation) when tagging by digest: Resolve(digest) differs after reopen"))
		ok2 := len(idxAll) > 0 && !it.ContinuesWithout(bodyB, bodyI, newCut().Instr(idxAll...))
		c.Check(R3, ln+"|every-entry-indexed", lpos, ok2, ifelse(ok2, "each index entry's graph is indexed", "an index entry's graph may not be indexed: Predecessors differ after reopen"))
		// Tag(desc, desc.Annotations[refName]) exactly when the annotation is non-empty: evaluated in the
		// function that hosts that call (the loader, or the helper that handles one entry)
		ok3, found := true, false
		var errCalls []ssa.CallInstruction
		hosts := []struct {
			fn   *ssa.Function
			bind c09Bind
			loop *Loop
		}{{L, c09Identity, l}}
		selfIsBody := l == nil
		for _, call := range Calls(L, func(string) bool { return true }) {
			g := StaticCallee(call)
			if _, isCall := call.(*ssa.Call); !isCall || g == nil || !it.InBody(call.(ssa.Instruction)) || fnPkgPath(g) != fnPkgPath(L) || len(g.Blocks) == 0 {
				continue
			}
			args := call.Common().Args
			hosts = append(hosts, struct {
				fn   *ssa.Function
				bind c09Bind
				loop *Loop
			}{g, func(v ssa.Value) ssa.Value {
				if pf, i := c09ParamOf(v); pf == g && i < len(args) {
					return args[i]
				}
				return nil
			}, nil})
		}
		for _, h := range hosts {
			for _, tc := range Calls(h.fn, isTag) {
				if h.loop != nil && !h.loop.Contains(tc.(ssa.Instruction)) {
					continue
				}
				a := tc.Common().Args
				desc, ref := a[len(a)-2], a[len(a)-1]
				var lk *ssa.Lookup
				for _, rt := range Roots(ref) {
					switch u := rt.(type) {
					case *ssa.Lookup:
						lk = u
					case *ssa.Extract:
						if x, ok := u.Tuple.(*ssa.Lookup); ok && u.Index == 0 {
							lk = x
						}
					}
				}
				if lk == nil {
					continue
				}
				if sv, ok := constString(lk.Index); !ok || sv != refName {
					continue
				}
				if !inObj(h.bind(c09FieldBase(lk.X, "Annotations"))) || !inObj(h.bind(c09CellOrValue(desc))) {
					continue
				}
				found = true
				errCalls = append(errCalls, tc)
				refVals := Aliases(ref)
				for _, rt := range Roots(ref) {
					for a := range Aliases(rt) {
						refVals[a] = true
					}
				}
				var nonEmpty []Edge
				for _, i := range Ifs(h.fn) {
					cond, t, fe := ifEdges(i)
					bo, isBo := cond.(*ssa.BinOp)
					if !isBo || (bo.Op != token.EQL && bo.Op != token.NEQ) {
						continue
					}
					other := bo.Y
					if !refVals[bo.X] {
						if !refVals[bo.Y] {
							continue
						}
						other = bo.X
					}
					if sv, isC := constString(other); isC && sv == "" {
						if bo.Op == token.NEQ {
							nonEmpty = append(nonEmpty, t)
						} else {
							nonEmpty = append(nonEmpty, fe)
						}
					}
				}
				if len(nonEmpty) == 0 || !c09Guarded(tc.(ssa.Instruction), nonEmpty) {
					ok3 = false
				}
				ct := newCut().Instr(tc.(ssa.Instruction))
				for _, e := range nonEmpty {
					if h.loop != nil {
						if c08PathExists(e.To, 0, h.loop.Header.Instrs[0], false, ct, nil) {
							ok3 = false
						}
					} else if h.fn == L && selfIsBody {
						if it.ContinuesWithout(e.To, 0, ct) {
							ok3 = false
						}
					} else if c08NilReturnFrom(e.To, 0, ct) != nil {
						ok3 = false
					}
				}
			}
		}
		if !found {
			// list shape: the reference is collected into a (0- or 1-element) list exactly when it is non-empty, and
			// the per-entry helper tags the entry by every element of that list
			for _, ap := range CallsTo(L, "builtin:append") {
				elems, _ := c09AppendedElems(ap)
				if len(elems) != 1 || !it.InBody(ap.(ssa.Instruction)) {
					continue
				}
				ref := elems[0]
				var lk *ssa.Lookup
				for _, rt := range Roots(ref) {
					switch u := rt.(type) {
					case *ssa.Lookup:
						lk = u
					case *ssa.Extract:
						if x, ok := u.Tuple.(*ssa.Lookup); ok && u.Index == 0 {
							lk = x
						}
					}
				}
				if lk == nil || !inObj(c09FieldBase(lk.X, "Annotations")) {
					continue
				}
				if sv, ok := constString(lk.Index); !ok || sv != refName {
					continue
				}
				refVals := Aliases(ref)
				var nonEmpty []Edge
				for _, i := range Ifs(L) {
					cond, t, fe := ifEdges(i)
					bo, isBo := cond.(*ssa.BinOp)
					if !isBo || (bo.Op != token.EQL && bo.Op != token.NEQ) || !(refVals[bo.X] || refVals[bo.Y]) {
						continue
					}
					other := bo.Y
					if !refVals[bo.X] {
						other = bo.X
					}
					if sv, isC := constString(other); isC && sv == "" {
						if bo.Op == token.NEQ {
							nonEmpty = append(nonEmpty, t)
						} else {
							nonEmpty = append(nonEmpty, fe)
						}
					}
				}
				collected := len(nonEmpty) > 0 && c09Guarded(ap.(ssa.Instruction), nonEmpty)
				for _, e := range nonEmpty {
					if it.ContinuesWithout(e.To, 0, newCut().Instr(ap.(ssa.Instruction))) {
						collected = false
					}
				}
				// the helper that receives the list and the entry
				list := Aliases(ap.Value())
				for _, call := range Calls(L, func(string) bool { return true }) {
					g := StaticCallee(call)
					if _, isCall := call.(*ssa.Call); !isCall || g == nil || !it.InBody(call.(ssa.Instruction)) || fnPkgPath(g) != fnPkgPath(L) || len(g.Blocks) == 0 {
						continue
					}
					args := call.Common().Args
					pl, pd := -1, -1
					for i, a := range args {
						for _, rt := range Roots(a) {
							if list[rt] {
								pl = i
							}
						}
						if inObj(c09CellOrValue(a)) {
							pd = i
						}
					}
					if pl < 0 || pd < 0 || pl >= len(g.Params) || pd >= len(g.Params) {
						continue
					}
					gobj := c09DescObjOf(g.Params[pd])
					for _, git := range c09ItersIn(g) {
						if git.Loop == nil || git.Coll == nil || !c09SameKey(git.Coll, g.Params[pl]) || git.Val == nil {
							continue
						}
						var tags []ssa.Instruction
						for _, tc := range c09BodyCalls(git) {
							if !isTag(CalleeName(tc)) {
								continue
							}
							a := tc.Common().Args
							if c09SameKey(a[len(a)-1], git.Val) && (gobj.vals[a[len(a)-2]] || gobj.vals[c09CellOrValue(a[len(a)-2])]) {
								tags = append(tags, tc.(ssa.Instruction))
								errCalls = append(errCalls, tc)
							}
						}
						b, bi := git.BodyStart()
						early, _ := c09IterEarlyExit(git)
						everyElem := len(tags) > 0 && !git.ContinuesWithout(b, bi, newCut().Instr(tags...)) && !early
						reached := c09NilReturnsPass(g, []ssa.Instruction{git.Loop.Header.Instrs[0]})
						found = true
						if !(collected && everyElem && reached) {
							ok3 = false
						}
					}
				}
			}
		}
		c.Check(R3, ln+"|tagged-by-ref-iff-annotated", lpos, ok3 && found, ifelse(ok3 && found, "an entry is tagged by its ref-name annotation exactly when the annotation is non-empty", "the reference tag is not (re)created exactly for the entries that carry a ref-name annotation: tags differ after reopen"))
		// errors of the load steps are returned (in the function that makes the call, and by the loader for helper calls)
		okErr, detail := true, ""
		var checkErr func(fn *ssa.Function, depth int)
		checkErr = func(fn *ssa.Function, depth int) {
			for _, call := range Calls(fn, func(string) bool { return true }) {
				if _, isCall := call.(*ssa.Call); !isCall {
					continue
				}
				n := CalleeName(call)
				g := StaticCallee(call)
				helper := g != nil && depth > 0 && fnPkgPath(g) == fnPkgPath(L) && len(g.Blocks) > 0 && ErrResultIndex(g.Signature) >= 0 &&
					reachesCall(g, 1, func(n string, _ ssa.CallInstruction) bool { return isTag(n) })
				if fn == L && !it.InBody(call.(ssa.Instruction)) {
					continue
				}
				if isTag(n) || n == "(*~/internal/graph.Memory).IndexAll" || helper {
					if c09IsYieldBody(fn) {
						// inside a range-over-func body: the error is parked in a variable of the enclosing
						// function, which returns it after the loop was left with `return false`
						if !c08YieldBodyReturnsErr(call) {
							okErr, detail = false, FnName(fn)+": the error of "+n+" does not leave the range-over-func loop"
						}
					} else if res := ErrFlow(call, ErrFlowOpts{}); !res.OK {
						// chained form (`err := a(); if err == nil { err = b() }; if err != nil { return err }`):
						// decided with the nil facts carried along each path
						in := call.(ssa.Instruction)
						e := ErrOf(call)
						swallowed := e == nil || c08PathExists(in.Block(), instrIndex(in)+1, nil, true, nil, []ssa.Value{e})
						if !swallowed && fn == L && l != nil {
							swallowed = c08PathExists(in.Block(), instrIndex(in)+1, l.Header.Instrs[0], false, nil, []ssa.Value{e})
						}
						if swallowed {
							okErr, detail = false, FnName(fn)+": "+res.Detail
						}
					}
				}
				if helper {
					checkErr(g, depth-1)
				}
			}
		}
		checkErr(L, 2)
		c.Check(R3, ln+"|load-errors-returned", lpos, okErr, ifelse(okErr, "errors of the three load steps are returned", "a load error is dropped: "+detail))
		badEnd, atEnd := c09IterEarlyExit(it)
		if !badEnd {
			atEnd = lpos
		}
		c.Check(R3, ln+"|every-entry-visited", atEnd, !badEnd, ifelse(!badEnd, "the loop over index.Manifests is left without an error only when every entry was visited",
			"the loop over index.Manifests can be left early while the load reports success: the entries after that point are neither tagged nor indexed, the reopened store lacks them"))
	}
	loadersContain := func(g *ssa.Function) bool {
		for _, L := range loaderFns {
			if L == g {
				return true
			}
		}
		return false
	}
	ver, okVer := c.P.Obj("github.com/opencontainers/image-spec/specs-go/v1", "ImageLayoutVersion").(*types.Const)
	for _, name := range []string{"NewWithContext", "NewFromFS"} {
		f := c.P.Fn(c08Pkg, name)
		if f == nil || !okVer {
			c.LostAnchor(R3, "~/content/oci."+name+" / ocispec.ImageLayoutVersion")
			continue
		}
		loads := reachesCall(f, 3, func(_ string, call ssa.CallInstruction) bool { return loadersContain(StaticCallee(call)) })
		want := constant.StringVal(ver.Val())
		validates := reachesCall(f, 3, func(_ string, call ssa.CallInstruction) bool {
			g := StaticCallee(call)
			if g == nil || !inModule(g) {
				return false
			}
			for _, s := range StringConstsComparedWith(g, func(v ssa.Value) bool { return isFieldLoad(v, "Version") }) {
				if s == want {
					return true
				}
			}
			return false
		})
		c.Check(R3, FnName(f)+"|loads-index", f.Pos(), loads, ifelse(loads, "the constructor loads index.json through the common loader", "the constructor does not load index.json through the common loader"))
		c.Check(R3, FnName(f)+"|validates-layout-version", f.Pos(), validates, ifelse(validates, "oci-layout's imageLayoutVersion is compared with ocispec.ImageLayoutVersion", "the constructor does not validate oci-layout's version"))
		// a store is handed out only when both steps succeeded (a load cut short by an error or a cancelled
		// context must not yield a half-loaded store)
		isValidator := func(g *ssa.Function) bool {
			if g == nil || !inModule(g) {
				return false
			}
			for _, s := range StringConstsComparedWith(g, func(v ssa.Value) bool { return isFieldLoad(v, "Version") }) {
				if s == want {
					return true
				}
			}
			return false
		}
		direct := func(pred func(*ssa.Function) bool) []ssa.Instruction {
			var out []ssa.Instruction
			for _, call := range Calls(f, func(string) bool { return true }) {
				g := StaticCallee(call)
				if _, isCall := call.(*ssa.Call); !isCall || g == nil || !inModule(g) {
					continue
				}
				if pred(g) || reachesCall(g, 2, func(_ string, cc ssa.CallInstruction) bool { return pred(StaticCallee(cc)) }) {
					out = append(out, call.(ssa.Instruction))
				}
			}
			return out
		}
		for _, step := range []struct {
			what  string
			calls []ssa.Instruction
		}{{"index-loaded", direct(loadersContain)}, {"layout-validated", direct(isValidator)}} {
			if len(step.calls) == 0 {
				continue // the step is inlined into the constructor: its own rules judge it
			}
			ct := newCut()
			c09SuccessCut(f, step.calls, ct)
			okS, at := c09SuccessImplies(f, ct)
			c.Check(R3, FnName(f)+"|success-implies-"+step.what, at, okS, ifelse(okS, "every return of the constructor that may report success lies behind the success of this step",
				"the constructor can hand out a store although this step failed or did not run (error dropped, early success): the store is half-loaded — tags / predecessors of the layout on disk are missing"))
		}
	}
	// sibling agreement writer / validator of oci-layout: the document created for a new layout carries the very
	// version the openers insist on (otherwise a layout this library created cannot be reopened)
	if okVer {
		want := constant.StringVal(ver.Val())
		for _, f := range c09FuncsOfPkg(c.P, c08Pkg) {
			for _, mc := range CallsTo(f, "encoding/json.Marshal") {
				mi, ok := mc.Common().Args[0].(*ssa.MakeInterface)
				if !ok {
					continue
				}
				t := mi.X.Type()
				if pt, isPtr := t.Underlying().(*types.Pointer); isPtr {
					t = pt.Elem()
				}
				if short(t.String()) != "ocispec.ImageLayout" {
					continue
				}
				st, _ := t.Underlying().(*types.Struct)
				vi := -1
				for i := 0; st != nil && i < st.NumFields(); i++ {
					if st.Field(i).Name() == "Version" {
						vi = i
					}
				}
				got, known := "", false
				if vi >= 0 {
					base := ssa.Value(mi.X)
					if ld, isLd := base.(*ssa.UnOp); isLd && ld.Op == token.MUL {
						base = ld.X
					}
					if fv := c09FieldValue(base, vi); fv != nil {
						got, known = constString(fv)
					}
				}
				if !known {
					c.Undecided(R3, "oci-layout|written-version-is-the-validated-version", mc.Pos(), "the Version of the ImageLayout document that is marshalled is not a constant the rule can read")
					continue
				}
				c.Check(R3, "oci-layout|written-version-is-the-validated-version", mc.Pos(), got == want, ifelse(got == want, "the oci-layout document created for a new layout carries ocispec.ImageLayoutVersion, the version the openers require",
					"the oci-layout document created for a new layout carries version \""+got+"\" while the openers require \""+want+"\": a layout created by this library cannot be opened again"))
			}
		}
	}
	// sibling agreement: the read-write and the read-only opener accept the same documents — once index.json /
	// oci-layout decoded, a document is rejected only by the shared load protocol (the common loader, the version
	// comparison), never by an additional test on the decoded value in one of the openers
	isShared := func(g *ssa.Function) bool {
		if g == nil || !inModule(g) {
			return false
		}
		if loadersContain(g) {
			return true
		}
		for _, sv := range StringConstsComparedWith(g, func(v ssa.Value) bool { return isFieldLoad(v, "Version") }) {
			if okVer && sv == constant.StringVal(ver.Val()) {
				return true
			}
		}
		return false
	}
	nDec := 0
	for _, f := range c09FuncsOfPkg(c.P, c08Pkg) {
		if isShared(f) {
			continue
		}
		for _, dc := range Calls(f, func(n string) bool { return n == "(*encoding/json.Decoder).Decode" || n == "encoding/json.Unmarshal" }) {
			args := dc.Common().Args
			doc, isAlloc := strip(args[len(args)-1]).(*ssa.Alloc)
			if !isAlloc {
				continue
			}
			tn := short(doc.Type().(*types.Pointer).Elem().String())
			if tn != "ocispec.Index" && tn != "ocispec.ImageLayout" {
				continue
			}
			nDec++
			key := FnName(f) + "|no-extra-rejection-of-decoded-" + tn[strings.LastIndex(tn, ".")+1:]
			e := ErrOf(dc)
			if e == nil {
				c.Violation(R3, key, dc.Pos(), "the decode error is discarded")
				continue
			}
			decoded, _, _ := NilTests(f, Aliases(e))
			ct := newCut()
			for _, call := range Calls(f, func(string) bool { return true }) {
				if isShared(StaticCallee(call)) {
					ct.Instr(call.(ssa.Instruction))
				}
			}
			bad := ""
			var badPos = dc.Pos()
			errIdx := ErrResultIndex(f.Signature)
			for _, i := range Ifs(f) {
				if !c09Uses(i.Cond, doc, 0) {
					continue
				}
				// reachable after a successful decode without having entered the shared protocol
				reachable := false
				for _, de := range decoded {
					if reach(de.To, 0, i, ct) {
						reachable = true
					}
				}
				if !reachable || errIdx < 0 {
					continue
				}
				// one of its branches returns an error without going through the shared protocol
				for _, sb := range i.Block().Succs {
					for _, ret := range Returns(f) {
						if !reach(sb, 0, ret, ct) {
							continue
						}
						for _, v := range resolveAt(ret.Results[errIdx], ret.Block(), nil, ret, map[ssa.Value]bool{}) {
							if cst, isC := v.(*ssa.Const); isC && cst.Value == nil {
								continue
							}
							if _, isZero := v.(zeroMarker); isZero {
								continue
							}
							badPos = i.Cond.Pos()
							if !badPos.IsValid() {
								badPos = blockPos(i.Block())
							}
							bad = c09Trunc(i.Cond.String()) + " at " + c.P.Pos(badPos)
						}
					}
				}
			}
			c.Check(R3, key, badPos, bad == "", ifelse(bad == "", "after the document decoded, it is rejected only by the shared load protocol",
				"the decoded document is rejected by an extra test ("+bad+") that the other way of opening the layout does not make: a layout that one constructor opens is refused by another "+
					"(e.g. `\"manifests\": null`, which Store.saveIndex writes for an emptied store)"))
			// the opener reports success only when the document went through the shared protocol, or was created
			// because it did not exist (a file write): an unreadable index.json must not yield an empty store whose
			// next save overwrites the tags on disk
			var steps []ssa.Instruction
			for _, call := range Calls(f, func(string) bool { return true }) {
				g := StaticCallee(call)
				n := CalleeName(call)
				if isShared(g) || n == "os.WriteFile" || (g != nil && inModule(g) && reachesCall(g, 2, func(n string, _ ssa.CallInstruction) bool { return n == "os.WriteFile" || n == "os.Rename" })) {
					if _, isCall := call.(*ssa.Call); isCall {
						steps = append(steps, call.(ssa.Instruction))
					}
				}
			}
			if len(steps) > 0 {
				sct := newCut()
				c09SuccessCut(f, steps, sct)
				okS, at := c09SuccessImplies(f, sct)
				c.Check(R3, FnName(f)+"|success-implies-"+tn[strings.LastIndex(tn, ".")+1:]+"-loaded-or-created", at, okS, ifelse(okS, "every return that may report success lies behind the shared load protocol or the creation of the missing file",
					"the opener can report success without having read the document (and without having created it): a store over an unreadable index.json starts empty and its next save overwrites the tags on disk"))
			}
		}
	}
	if nDec == 0 {
		c.LostAnchor(R3, "decoding of index.json / oci-layout in ~/content/oci")
	}
}

// c08PathBase: a wrapper (descriptorBlobPath(desc) = blobPath(desc.Digest) with its
// own error text) counts as the function it wraps.
func c08PathBase(g *ssa.Function) *ssa.Function {
	for depth := 0; g != nil && depth < 3; depth++ {
		var inner *ssa.Function
		for _, a := range RetAtoms(g, 0) {
			if s, isC := constString(a.Val); isC && s == "" {
				continue
			}
			// the returned path is computed from the result of another one-argument path function of the package
			var via *ssa.Function
			for _, pc := range Calls(g, func(string) bool { return true }) {
				h := StaticCallee(pc)
				if h == nil || h == g || fnPkgPath(h) != fnPkgPath(g) || h.Signature.Params().Len() != 1 {
					continue
				}
				if v := ResultOf(pc, 0); v != nil && (a.Val == v || c09Uses(a.Val, v, 0)) {
					via = h
				}
			}
			if via == nil {
				return g
			}
			inner = via
		}
		if inner == nil {
			return g
		}
		g = inner
	}
	return g
}

// c08YieldBodyReturnsErr: the error of a call inside a range-over-func body is
// stored into a captured variable and the body returns false on its non-nil
// edge; the enclosing function returns that variable.
func c08YieldBodyReturnsErr(call ssa.CallInstruction) bool {
	fn := call.Parent()
	e := ErrOf(call)
	if e == nil || fn.Parent() == nil {
		return false
	}
	al := Aliases(e)
	_, nonNil, _ := NilTests(fn, al)
	if len(nonNil) == 0 {
		return false
	}
	var cells []ssa.Value
	var stores []ssa.Instruction
	AllInstrs(fn, func(in ssa.Instruction) {
		if st, ok := in.(*ssa.Store); ok && al[st.Val] {
			if fv, isFV := st.Addr.(*ssa.FreeVar); isFV {
				stores = append(stores, st)
				cells = append(cells, freeVarBindings(fv)...)
			}
		}
	})
	if len(stores) == 0 {
		return false
	}
	for _, ne := range nonNil {
		for _, r := range Returns(fn) {
			if !reach(ne.To, 0, r, nil) {
				continue
			}
			cst, isC := r.Results[0].(*ssa.Const)
			if !isC || cst.Value == nil || cst.Value.String() != "false" || reach(ne.To, 0, r, newCut().Instr(stores...)) {
				return false
			}
		}
	}
	// the enclosing function hands the variable back
	parent := fn.Parent()
	errIdx := ErrResultIndex(parent.Signature)
	if errIdx < 0 {
		return false
	}
	for _, r := range Returns(parent) {
		if ld, ok := r.Results[errIdx].(*ssa.UnOp); ok && ld.Op == token.MUL {
			for _, cell := range cells {
				if ld.X == cell {
					return true
				}
			}
		}
	}
	return false
}

// ---------------------------------------------------------------- R4

func c08R4(c *Ctx, r *c08Roles) {
	const R4 = "C08.R4.path-agreement"
	c.Expect(R4, 5)
	type site struct {
		pkgFn string
		ops   map[string]int // fs operation -> index of the path argument
	}
	sites := []site{
		{"Storage.Push", map[string]int{"os.Rename": 1}},
		{"Storage.Delete", map[string]int{"os.Remove": 0}},
		{"ReadOnlyStorage.Fetch", map[string]int{"(io/fs.FS).Open": 0}},
		{"ReadOnlyStorage.Exists", map[string]int{"io/fs.Stat": 1}},
		{"resolveBlob", map[string]int{"io/fs.Stat": 1}},
	}
	var pathFn *ssa.Function
	for _, s := range sites {
		f := c.P.Fn(c08Pkg, s.pkgFn)
		if f == nil {
			c.LostAnchor(R4, "~/content/oci."+s.pkgFn)
			continue
		}
		fn := FnName(f)
		ok, n := true, 0
		why := ""
		// the access may sit in an unexported helper below f; its path argument is resolved back into f
		for _, host := range c09ReachableInPkg(f, 2) {
			if host != f && host.Object() != nil && host.Object().Exported() {
				continue
			}
			for _, call := range Calls(host, func(nm string) bool { _, hit := s.ops[nm]; return hit }) {
				args, okA := c09Origins(c.P, call.Common().Args[s.ops[CalleeName(call)]], 2, f)
				if !okA || len(args) == 0 {
					continue
				}
				inF := true
				for _, a := range args {
					if in, isIn := a.(ssa.Instruction); !isIn || in.Parent() != f {
						if prm, isP := a.(*ssa.Parameter); !isP || prm.Parent() != f {
							inF = false
						}
					}
				}
				if !inF {
					continue // reached from another operation as well; judged there
				}
				n++
				for _, arg := range args {
					// the path derives from result 0 of an in-package function of the digest
					var src *ssa.Function
					for _, pc := range Calls(f, func(string) bool { return true }) {
						g := StaticCallee(pc)
						if g == nil || fnPkgPath(g) != pkgPath(c08Pkg) || g.Signature.Params().Len() != 1 {
							continue
						}
						if v := ResultOf(pc, 0); v != nil && c09Uses(arg, v, 0) {
							src = g
						}
					}
					src = c08PathBase(src)
					switch {
					case src == nil:
						ok, why = false, "the path passed to "+CalleeName(call)+" is not produced by the package's blob-path function"
					case pathFn == nil:
						pathFn = src
					case pathFn != src:
						ok, why = false, "uses "+FnName(src)+" while other sites use "+FnName(pathFn)
					}
				}
			}
		}
		if n == 0 {
			c.LostAnchor(R4, fn+": file-system access by blob path")
			continue
		}
		c.Check(R4, fn+"|blob-path-from-common-function", f.Pos(), ok, ifelse(ok, "the accessed path comes from the common blob-path function", why+": writer and readers may disagree on where a blob lives"))
	}
}

// ---------------------------------------------------------------- R5 (tar view)

// c08R5: in internal/fs/tarfs a "does not exist" answer is produced only on
// the miss edge of the lookup of the requested name in the entries index.
func c08R5(c *Ctx) {
	const R5 = "C08.R5.tar-not-exist-only-when-absent"
	c.Expect(R5, 1)
	tfs := c.P.Named("internal/fs/tarfs", "TarFS")
	if tfs == nil {
		c.LostAnchor(R5, "~/internal/fs/tarfs.TarFS")
		return
	}
	isIndex := func(v ssa.Value) bool { // a load of the map[string]… field of TarFS
		for _, rt := range Roots(v) {
			u, ok := rt.(*ssa.UnOp)
			if !ok || u.Op != token.MUL {
				return false
			}
			fa, ok := u.X.(*ssa.FieldAddr)
			if !ok {
				return false
			}
			pt, ok := fa.X.Type().Underlying().(*types.Pointer)
			if !ok || !types.Identical(pt.Elem(), tfs) {
				return false
			}
			if _, isMap := u.Type().Underlying().(*types.Map); !isMap {
				return false
			}
		}
		return true
	}
	miss := func(fn *ssa.Function, _ c09Vals) []Edge {
		var out []Edge
		AllInstrs(fn, func(in ssa.Instruction) {
			lk, ok := in.(*ssa.Lookup)
			if !ok || !isIndex(lk.X) {
				return
			}
			if pf, _ := c09ParamOf(lk.Index); pf == nil {
				return // not the requested name
			}
			if lk.CommaOk {
				for _, r := range *lk.Referrers() {
					if e, ok := r.(*ssa.Extract); ok {
						if e.Index == 1 {
							_, fe := BoolTests(fn, Aliases(e))
							out = append(out, fe...)
						} else {
							ne, _, _ := NilTests(fn, Aliases(e))
							out = append(out, ne...)
						}
					}
				}
			} else {
				ne, _, _ := NilTests(fn, Aliases(lk))
				out = append(out, ne...)
			}
		})
		return out
	}
	n := 0
	for _, f := range c09FuncsOfPkg(c.P, "internal/fs/tarfs") {
		AllInstrs(f, func(in ssa.Instruction) {
			u, ok := in.(*ssa.UnOp)
			if !ok || u.Op != token.MUL {
				return
			}
			g, ok := u.X.(*ssa.Global)
			if !ok || g.Name() != "ErrNotExist" || g.Pkg == nil || (g.Pkg.Pkg.Path() != "io/fs" && g.Pkg.Pkg.Path() != "os") {
				return
			}
			// only where it is produced as an answer (not where it is merely compared with)
			produced := false
			for _, r := range *u.Referrers() {
				switch x := r.(type) {
				case *ssa.Store, *ssa.Return, *ssa.MakeInterface, *ssa.ChangeInterface, *ssa.Phi:
					produced = true
				case ssa.CallInstruction:
					if n := CalleeName(x); n != "errors.Is" {
						produced = true
					}
				}
			}
			if !produced {
				return
			}
			n++
			ok = c09GuardedUp(c.P, u, nil, miss, 2)
			c.Check(R5, FnName(f)+"|fs.ErrNotExist", u.Pos(), ok, ifelse(ok, "fs.ErrNotExist is answered only on the miss edge of the lookup of the requested name in the entries index",
				"a \"does not exist\" answer is produced for a name that is present in the index of the archive: the OCI store turns it into ErrNotFound, graph indexing silently skips the node, "+
					"so a layout opened from a tar loses content (Fetch fails, predecessors missing) that the same layout opened from a directory has"))
		})
	}
	if n == 0 {
		c.LostAnchor(R5, "production of fs.ErrNotExist in ~/internal/fs/tarfs")
	}
	// index building: the loop that reads the headers (tar.Reader.Next) and fills the entries index
	//  - ends with success only at the end of the archive (io.EOF of Next),
	//  - records every header it read before it moves on,
	// and the constructor hands out a TarFS only when the index was built.
	const nNext = "(*archive/tar.Reader).Next"
	var indexers []*ssa.Function
	for _, f := range c09FuncsOfPkg(c.P, "internal/fs/tarfs") {
		if c09IsYieldBody(f) {
			continue
		}
		var fills []ssa.Instruction
		AllInstrs(f, func(in ssa.Instruction) {
			if mu, ok := in.(*ssa.MapUpdate); ok && isIndex(mu.Map) {
				fills = append(fills, in)
			}
		})
		if len(fills) == 0 {
			continue
		}
		for _, l := range Loops(f) {
			var next ssa.CallInstruction
			for _, nc := range CallsTo(f, nNext) {
				if c09InLoopRegion(l, nc.(ssa.Instruction)) {
					next = nc
				}
			}
			inLoop := false
			for _, fi := range fills {
				inLoop = inLoop || c09InLoopRegion(l, fi)
			}
			if next == nil || !inLoop {
				continue
			}
			indexers = append(indexers, f)
			e := ErrOf(next)
			if e == nil {
				c.Violation(R5, FnName(f)+"|index-ends-only-at-end-of-archive", next.Pos(), "the error of tar.Reader.Next is dropped in the indexing loop")
				continue
			}
			errs := Aliases(e)
			nilE, _, _ := NilTests(f, errs)
			// edges on which the error is known to be io.EOF
			var eof []Edge
			isEOF := func(v ssa.Value) bool {
				ld, ok := v.(*ssa.UnOp)
				if !ok || ld.Op != token.MUL {
					return false
				}
				g, ok := ld.X.(*ssa.Global)
				return ok && g.Pkg != nil && g.Pkg.Pkg.Path() == "io" && g.Name() == "EOF"
			}
			for _, i := range Ifs(f) {
				cond, t, fe := ifEdges(i)
				switch u := cond.(type) {
				case *ssa.Call:
					if CalleeName(u) == "errors.Is" && errs[u.Call.Args[0]] && isEOF(u.Call.Args[1]) {
						eof = append(eof, t)
					}
				case *ssa.BinOp:
					if (errs[u.X] && isEOF(u.Y)) || (errs[u.Y] && isEOF(u.X)) {
						if u.Op == token.EQL {
							eof = append(eof, t)
						} else if u.Op == token.NEQ {
							eof = append(eof, fe)
						}
					}
				}
			}
			bad, at := c09LoopLeftOtherThan(f, l, newCut().Edges(eof...))
			if len(eof) == 0 {
				bad, at = true, next.Pos()
			}
			if !bad {
				at = blockPos(l.Header)
			}
			c.Check(R5, FnName(f)+"|index-ends-only-at-end-of-archive", at, !bad, ifelse(!bad, "the indexing loop reports success only after tar.Reader.Next answered io.EOF",
				"the indexing loop can stop with success before the end of the archive: the entries behind that point are missing from the index, the layout opened from the tar lacks blobs the directory has"))
			okF := true
			for _, ne := range nilE {
				if l.Blocks[ne.From] && c08PathExists(ne.To, 0, l.Header.Instrs[0], false, newCut().Instr(fills...), nil) {
					okF = false
				}
			}
			c.Check(R5, FnName(f)+"|every-header-indexed", next.Pos(), okF && len(nilE) > 0, ifelse(okF && len(nilE) > 0, "every header read without error is recorded in the entries index before the next one is read",
				"a header can be read and passed over without being recorded: that file of the archive does not exist for the store"))
		}
	}
	for _, f := range c09FuncsOfPkg(c.P, "internal/fs/tarfs") {
		if f.Object() == nil || !f.Object().Exported() || f.Signature.Recv() != nil || ErrResultIndex(f.Signature) < 0 {
			continue
		}
		var calls []ssa.Instruction
		for _, call := range Calls(f, func(string) bool { return true }) {
			g := StaticCallee(call)
			for _, ix := range indexers {
				if g == ix {
					calls = append(calls, call.(ssa.Instruction))
				}
			}
		}
		if len(calls) == 0 {
			continue
		}
		ct := newCut()
		c09SuccessCut(f, calls, ct)
		okS, at := c09SuccessImplies(f, ct)
		c.Check(R5, FnName(f)+"|success-implies-index-built", at, okS, ifelse(okS, "the constructor hands out a TarFS only when the entries index was built",
			"the constructor can hand out a TarFS whose entries index was not (completely) built"))
	}
}

var c08Mutants = []Mutant{
	// mutation-sweep triage C2 (test-green survivors judged V)
	{Name: "saveindex-api-does-nothing", File: "content/oci/oci.go",
		Old: "\treturn s.saveIndex()\n}\n\nfunc (s *Store) saveIndex", New: "\treturn nil\n}\n\nfunc (s *Store) saveIndex",
		Expect: "C08.R2.persist-tag-mutations|(*~/content/oci.Store).SaveIndex|explicit-save-success-implies-index-saved"},
	{Name: "unreadable-index-opens-empty-store", File: "content/oci/oci.go",
		Old: "\t\t\treturn fmt.Errorf(\"failed to open index file: %w\", err)\n", New: "\t\t\treturn nil\n",
		Expect: "C08.R3.load-protocol|(*~/content/oci.Store).loadIndexFile|success-implies-Index-loaded-or-created"},
	{Name: "unreadable-layout-file-accepted", File: "content/oci/oci.go",
		Old: "\t\t\treturn fmt.Errorf(\"failed to open OCI layout file: %w\", err)\n", New: "\t\t\treturn nil\n",
		Expect: "C08.R3.load-protocol|(*~/content/oci.Store).ensureOCILayoutFile|success-implies-ImageLayout-loaded-or-created"},
	// coverage review: loops that must run to the end, constructors, tarfs index (all keep the repository's tests green)
	{Name: "loader-stops-at-foreign-entry", File: "content/oci/readonlyoci.go",
		Old: "\tfor _, desc := range index.Manifests {\n", New: "\tfor _, desc := range index.Manifests {\n\t\tif desc.MediaType == \"\" {\n\t\t\t// not an OCI descriptor: stop here\n\t\t\tbreak\n\t\t}\n",
		Expect: "C08.R3.load-protocol|~/content/oci.loadIndex|every-entry-visited"},
	{Name: "saveindex-pass2-stops-early", File: "content/oci/oci.go",
		Old:    "\tfor ref, desc := range refMap {\n\t\tif ref == desc.Digest.String() && !tagged.Contains(desc.Digest) {",
		New:    "\tfor ref, desc := range refMap {\n\t\tif ref == \"\" {\n\t\t\tbreak\n\t\t}\n\t\tif ref == desc.Digest.String() && !tagged.Contains(desc.Digest) {",
		Expect: "C08.R1.index-projection|(*~/content/oci.Store).saveIndex|pass2-runs-to-the-end"},
	{Name: "new-swallows-cancelled-load", File: "content/oci/oci.go",
		Old:    "\tif err := store.loadIndexFile(ctx); err != nil {\n",
		New:    "\tif err := store.loadIndexFile(ctx); err != nil && !errors.Is(err, context.Canceled) {\n",
		Expect: "C08.R3.load-protocol|~/content/oci.NewWithContext|success-implies-index-loaded"},
	{Name: "layout-created-with-spec-version", File: "content/oci/oci.go", // killed by the repository's tests as well (TestStore_Success pins the version)
		Old: "\t\t\tVersion: ocispec.ImageLayoutVersion,\n", New: "\t\t\tVersion: specs.Version,\n",
		Expect: "C08.R3.load-protocol|oci-layout|written-version-is-the-validated-version"},
	{Name: "tar-index-accepts-truncated-archive", File: "internal/fs/tarfs/tarfs.go",
		Old: "\t\t\tif errors.Is(err, io.EOF) {\n", New: "\t\t\tif errors.Is(err, io.EOF) || errors.Is(err, io.ErrUnexpectedEOF) {\n",
		Expect: "C08.R5.tar-not-exist-only-when-absent|(*~/internal/fs/tarfs.TarFS).indexEntries|index-ends-only-at-end-of-archive"},
	{Name: "tar-index-skips-global-headers", File: "internal/fs/tarfs/tarfs.go",
		Old: "\t\tname := path.Clean(header.Name)\n", New: "\t\tif header.Typeflag == tar.TypeXGlobalHeader {\n\t\t\tcontinue\n\t\t}\n\t\tname := path.Clean(header.Name)\n",
		Expect: "C08.R5.tar-not-exist-only-when-absent|(*~/internal/fs/tarfs.TarFS).indexEntries|every-header-indexed"},
	// R3 sibling agreement, R5
	{Name: "rw-open-rejects-empty-index", File: "content/oci/oci.go",
		Old: "\ts.index = &index\n", New: "\tif len(index.Manifests) == 0 && index.MediaType == \"\" {\n\t\treturn errors.New(\"empty index\")\n\t}\n\ts.index = &index\n",
		Expect: "C08.R3.load-protocol|(*~/content/oci.Store).loadIndexFile|no-extra-rejection-of-decoded-Index"},
	{Name: "readonly-open-requires-manifests", File: "content/oci/readonlyoci.go",
		Old:    "\treturn loadIndex(ctx, &index, s.storage, s.tagResolver, s.graph)\n",
		New:    "\tif index.Manifests == nil {\n\t\treturn fmt.Errorf(\"missing manifests: %w\", errdef.ErrUnsupported)\n\t}\n\treturn loadIndex(ctx, &index, s.storage, s.tagResolver, s.graph)\n",
		Expect: "C08.R3.load-protocol|(*~/content/oci.ReadOnlyStore).loadIndexFile|no-extra-rejection-of-decoded-Index"},
	{Name: "tar-stat-not-exist-for-present-entry", File: "internal/fs/tarfs/tarfs.go",
		Old:    "\treturn entry.header.FileInfo(), nil\n}\n\n// getEntry",
		New:    "\tif entry.header.Size < 0 {\n\t\treturn nil, &fs.PathError{Op: \"stat\", Path: name, Err: fs.ErrNotExist}\n\t}\n\treturn entry.header.FileInfo(), nil\n}\n\n// getEntry",
		Expect: "C08.R5.tar-not-exist-only-when-absent|(*~/internal/fs/tarfs.TarFS).Stat"},

	// R1
	{Name: "saveindex-drops-multi-tagged", File: "content/oci/oci.go",
		Old: "\t\tif ref != desc.Digest.String() {\n\t\t\tannotations := make(", New: "\t\tif ref != desc.Digest.String() && !tagged.Contains(desc.Digest) {\n\t\t\tannotations := make(",
		Expect: "C08.R1.index-projection|(*~/content/oci.Store).saveIndex|every-tagged-entry-emitted"},
	{Name: "saveindex-writes-shared-annotations", File: "content/oci/oci.go",
		Old:    "\t\t\tannotations := make(map[string]string, len(desc.Annotations)+1)\n\t\t\tmaps.Copy(annotations, desc.Annotations)\n",
		New:    "\t\t\tannotations := desc.Annotations\n\t\t\tif annotations == nil {\n\t\t\t\tannotations = make(map[string]string, 1)\n\t\t\t}\n\t\t\tmaps.Copy(annotations, desc.Annotations)\n",
		Expect: "C08.R1.index-projection|(*~/content/oci.Store).saveIndex"},
	{Name: "saveindex-forgets-ref-name", File: "content/oci/oci.go",
		Old: "\t\t\tannotations[ocispec.AnnotationRefName] = ref\n", New: "\t\t\tannotations[ocispec.AnnotationTitle] = ref\n",
		Expect: "C08.R1.index-projection|(*~/content/oci.Store).saveIndex|tagged-entry-carries-ref-name"},
	{Name: "saveindex-skips-untagged", File: "content/oci/oci.go",
		Old: "\t\tif ref == desc.Digest.String() && !tagged.Contains(desc.Digest) {", New: "\t\tif ref == desc.Digest.String() && !tagged.Contains(desc.Digest) && len(desc.Annotations) == 0 {",
		Expect: "C08.R1.index-projection|(*~/content/oci.Store).saveIndex|every-untagged-entry-emitted"},
	{Name: "saveindex-untagged-not-stripped", File: "content/oci/oci.go",
		Old: "\t\t\tmanifests = append(manifests, deleteAnnotationRefName(desc))\n\t\t}\n\t}\n\n\ts.index.Manifests", New: "\t\t\tmanifests = append(manifests, desc)\n\t\t}\n\t}\n\n\ts.index.Manifests",
		Expect: "C08.R1.index-projection|(*~/content/oci.Store).saveIndex|untagged-entry-stripped"},
	{Name: "saveindex-dedup-before-filter", File: "content/oci/oci.go",
		Old:    "\tfor ref, desc := range refMap {\n\t\tif ref != desc.Digest.String() {\n\t\t\tannotations",
		New:    "\tfor ref, desc := range refMap {\n\t\ttagged.Add(desc.Digest)\n\t\tif ref != desc.Digest.String() {\n\t\t\tannotations",
		Expect: "C08.R1.index-projection|(*~/content/oci.Store).saveIndex|dedup-only-emitted-digests"},
	{Name: "strip-helper-deletes-in-place", File: "content/oci/readonlyoci.go",
		Old:    "\tannotations := make(map[string]string, size)\n\tfor k, v := range desc.Annotations {\n\t\tif k != ocispec.AnnotationRefName {\n\t\t\tannotations[k] = v\n\t\t}\n\t}\n\tdesc.Annotations = annotations\n\treturn desc\n",
		New:    "\tdelete(desc.Annotations, ocispec.AnnotationRefName)\n\treturn desc\n",
		Expect: "C08.R1.index-projection|(*~/content/oci.Store).saveIndex|resolver-maps-not-written"},
	{Name: "saveindex-unlocks-before-write", File: "content/oci/oci.go",
		Old:    "\ts.index.Manifests = manifests\n\treturn s.writeIndexFile()\n",
		New:    "\ts.index.Manifests = manifests\n\ts.indexLock.Unlock()\n\tdefer s.indexLock.Lock()\n\treturn s.writeIndexFile()\n",
		Expect: "C08.R1.index-projection|(*~/content/oci.Store).saveIndex|snapshot-assignment-write-one-critical-section"},
	{Name: "saveindex-write-error-dropped", File: "content/oci/oci.go",
		Old: "\ts.index.Manifests = manifests\n\treturn s.writeIndexFile()\n", New: "\ts.index.Manifests = manifests\n\ts.writeIndexFile()\n\treturn nil\n",
		Expect: "C08.R1.index-projection|(*~/content/oci.Store).saveIndex|result-written-and-error-returned"},
	// R2
	{Name: "untag-not-saved", File: "content/oci/oci.go",
		Old:    "\ts.tagResolver.Untag(reference)\n\tif s.AutoSaveIndex {\n\t\treturn s.saveIndex()\n\t}\n\treturn nil\n",
		New:    "\ts.tagResolver.Untag(reference)\n\treturn nil\n",
		Expect: "C08.R2.persist-tag-mutations|(*~/content/oci.Store).Untag"},
	{Name: "tag-saved-only-for-named-refs", File: "content/oci/oci.go",
		Old:    "\tif s.AutoSaveIndex {\n\t\treturn s.saveIndex()\n\t}\n\treturn nil\n}\n\n// Resolve",
		New:    "\tif s.AutoSaveIndex && reference != dgst {\n\t\treturn s.saveIndex()\n\t}\n\treturn nil\n}\n\n// Resolve",
		Expect: "C08.R2.persist-tag-mutations|(*~/content/oci.Store).tag"},
	{Name: "delete-forgets-untagged-flag", File: "content/oci/oci.go",
		Old: "\t\t\ts.tagResolver.Untag(reference)\n\t\t\tuntagged = true\n", New: "\t\t\ts.tagResolver.Untag(reference)\n",
		Expect: "C08.R2.persist-tag-mutations|(*~/content/oci.Store).Delete|(*~/content/oci.Store).delete"},
	{Name: "delete-save-error-swallowed", File: "content/oci/oci.go",
		Old:    "\t\terr := s.saveIndex()\n\t\tif err != nil {\n\t\t\treturn nil, err\n\t\t}\n",
		New:    "\t\tif err := s.saveIndex(); err != nil && !s.AutoGC {\n\t\t\treturn nil, err\n\t\t}\n",
		Expect: "C08.R2.persist-tag-mutations|(*~/content/oci.Store).delete|save-error-surfaced"},
	{Name: "tag-shortcut-when-memory-matches", File: "content/oci/oci.go",
		Old:    "\tdgst := desc.Digest.String()\n\tif reference != dgst {\n\t\t// also tag desc by its digest",
		New:    "\tdgst := desc.Digest.String()\n\tif current, err := s.tagResolver.Resolve(ctx, reference); err == nil && content.Equal(current, desc) {\n\t\treturn nil\n\t}\n\tif reference != dgst {\n\t\t// also tag desc by its digest",
		Expect: "C08.R2.persist-tag-mutations|(*~/content/oci.Store).tag|success-implies-index-saved"},
	// applies once D4 is repaired
	{Name: "gc-not-saved", File: "content/oci/oci.go",
		Old:    "\tif s.AutoSaveIndex {\n\t\tif err := s.saveIndex(); err != nil {\n\t\t\treturn err\n\t\t}\n\t}\n\treachableNodes",
		New:    "\treachableNodes",
		Expect: "C08.R2.persist-tag-mutations|(*~/content/oci.Store).GC"},
	// R3
	{Name: "load-digest-tag-keeps-ref-name", File: "content/oci/readonlyoci.go",
		Old: "\t\tif err := tagger.Tag(ctx, deleteAnnotationRefName(desc), desc.Digest.String()); err != nil {", New: "\t\tif err := tagger.Tag(ctx, desc, desc.Digest.String()); err != nil {",
		Expect: "C08.R3.load-protocol|~/content/oci.loadIndex|every-entry-tagged-by-digest-stripped"},
	{Name: "load-skips-graph-of-tagged", File: "content/oci/readonlyoci.go",
		Old:    "\t\t\tif err := tagger.Tag(ctx, desc, ref); err != nil {\n\t\t\t\treturn err\n\t\t\t}\n",
		New:    "\t\t\tif err := tagger.Tag(ctx, desc, ref); err != nil {\n\t\t\t\treturn err\n\t\t\t}\n\t\t\tcontinue\n",
		Expect: "C08.R3.load-protocol|~/content/oci.loadIndex|every-entry-indexed"},
	{Name: "load-ref-tag-error-dropped", File: "content/oci/readonlyoci.go",
		Old:    "\t\t\tif err := tagger.Tag(ctx, desc, ref); err != nil {\n\t\t\t\treturn err\n\t\t\t}\n",
		New:    "\t\t\t_ = tagger.Tag(ctx, desc, ref)\n",
		Expect: "C08.R3.load-protocol|~/content/oci.loadIndex|load-errors-returned"},
	{Name: "readonly-skips-layout-validation", File: "content/oci/readonlyoci.go",
		Old: "\treturn validateOCILayout(&layout)\n}\n\n// validateOCILayout validates layout.", New: "\treturn nil\n}\n\n// validateOCILayout validates layout.",
		Expect: "C08.R3.load-protocol|~/content/oci.NewFromFS|validates-layout-version"},
	// R4
	{Name: "exists-uses-own-path", File: "content/oci/readonlystorage.go",
		Old:    "\t_, err = fs.Stat(s.fsys, path)\n\tif err != nil {\n\t\tif errors.Is(err, fs.ErrNotExist) {\n\t\t\treturn false, nil",
		New:    "\t_ = path\n\t_, err = fs.Stat(s.fsys, \"blobs/\"+target.Digest.Algorithm().String()+\"/\"+target.Digest.Hex())\n\tif err != nil {\n\t\tif errors.Is(err, fs.ErrNotExist) {\n\t\t\treturn false, nil",
		Expect: "C08.R4.path-agreement|(*~/content/oci.ReadOnlyStorage).Exists"},
}
