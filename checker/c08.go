package main

func init() {
	register(&propDef{ID: "C08", Explain: "TODO", Run: runC08, Mutants: nil})
}

func runC08(c *Ctx) {}
