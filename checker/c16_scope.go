package main

// C16.R7 — parsing that the credential flow depends on:
//  (a) the challenge tokenizer's character class is exactly RFC 7230 tchar
//      (decided by evaluating the predicate's SSA for every rune of interest);
//  (b) CleanScopes rebuilds the scope list exhaustively: its range loops end
//      only by exhaustion, except an exit taken on the wildcard action "*";
//  (c) OnceOrRetry.Do runs f while holding its lock.

import (
	"fmt"
	"go/constant"
	"go/token"
	"go/types"
	"strings"

	"golang.org/x/tools/go/ssa"
)

// c16EvalRunePred interprets a func(rune) bool whose body consists of integer
// comparisons of the parameter with constants, !, short-circuit phis and
// strings.ContainsRune / IndexRune / IndexByte on constant strings.
func c16EvalRunePred(f *ssa.Function, r rune) (result bool, ok bool) {
	if len(f.Params) != 1 || len(f.Blocks) == 0 {
		return false, false
	}
	type val struct {
		i   int64
		b   bool
		s   string
		typ byte // 'i', 'b', 's'
	}
	env := map[ssa.Value]val{f.Params[0]: {i: int64(r), typ: 'i'}}
	get := func(v ssa.Value) (val, bool) {
		if x, ok := env[v]; ok {
			return x, true
		}
		if k, isK := v.(*ssa.Const); isK && k.Value != nil {
			switch k.Value.Kind() {
			case constant.Int:
				n, _ := constant.Int64Val(k.Value)
				return val{i: n, typ: 'i'}, true
			case constant.Bool:
				return val{b: constant.BoolVal(k.Value), typ: 'b'}, true
			case constant.String:
				return val{s: constant.StringVal(k.Value), typ: 's'}, true
			}
		}
		return val{}, false
	}
	b := f.Blocks[0]
	var pred *ssa.BasicBlock
	for steps := 0; steps < 400; steps++ {
		var next *ssa.BasicBlock
		for _, in := range b.Instrs {
			switch x := in.(type) {
			case *ssa.DebugRef:
			case *ssa.Phi:
				found := false
				for j, p := range b.Preds {
					if p == pred {
						v, ok := get(x.Edges[j])
						if !ok {
							return false, false
						}
						env[x], found = v, true
					}
				}
				if !found {
					return false, false
				}
			case *ssa.BinOp:
				l, ok1 := get(x.X)
				rr, ok2 := get(x.Y)
				if !ok1 || !ok2 {
					return false, false
				}
				switch {
				case l.typ == 'i' && rr.typ == 'i':
					var res bool
					switch x.Op {
					case token.LSS:
						res = l.i < rr.i
					case token.LEQ:
						res = l.i <= rr.i
					case token.GTR:
						res = l.i > rr.i
					case token.GEQ:
						res = l.i >= rr.i
					case token.EQL:
						res = l.i == rr.i
					case token.NEQ:
						res = l.i != rr.i
					case token.ADD:
						env[x] = val{i: l.i + rr.i, typ: 'i'}
						continue
					case token.SUB:
						env[x] = val{i: l.i - rr.i, typ: 'i'}
						continue
					default:
						return false, false
					}
					env[x] = val{b: res, typ: 'b'}
				case l.typ == 'b' && rr.typ == 'b' && (x.Op == token.EQL || x.Op == token.NEQ):
					env[x] = val{b: (l.b == rr.b) == (x.Op == token.EQL), typ: 'b'}
				default:
					return false, false
				}
			case *ssa.UnOp:
				v, ok := get(x.X)
				if !ok || x.Op != token.NOT || v.typ != 'b' {
					return false, false
				}
				env[x] = val{b: !v.b, typ: 'b'}
			case *ssa.Convert:
				v, ok := get(x.X)
				if !ok || v.typ != 'i' {
					return false, false
				}
				env[x] = v
			case *ssa.ChangeType:
				v, ok := get(x.X)
				if !ok {
					return false, false
				}
				env[x] = v
			case *ssa.Call:
				name := CalleeName(x)
				args := x.Call.Args
				if len(args) != 2 {
					return false, false
				}
				s, ok1 := get(args[0])
				c, ok2 := get(args[1])
				if !ok1 || !ok2 || s.typ != 's' || c.typ != 'i' {
					return false, false
				}
				switch name {
				case "strings.ContainsRune":
					env[x] = val{b: strings.ContainsRune(s.s, rune(c.i)), typ: 'b'}
				case "strings.IndexRune":
					env[x] = val{i: int64(strings.IndexRune(s.s, rune(c.i))), typ: 'i'}
				case "strings.IndexByte":
					env[x] = val{i: int64(strings.IndexByte(s.s, byte(c.i))), typ: 'i'}
				default:
					return false, false
				}
			case *ssa.If:
				v, ok := get(x.Cond)
				if !ok || v.typ != 'b' {
					return false, false
				}
				if v.b {
					next = b.Succs[0]
				} else {
					next = b.Succs[1]
				}
			case *ssa.Jump:
				next = b.Succs[0]
			case *ssa.Return:
				if len(x.Results) != 1 {
					return false, false
				}
				v, ok := get(x.Results[0])
				if !ok || v.typ != 'b' {
					return false, false
				}
				return v.b, true
			default:
				return false, false
			}
		}
		if next == nil {
			return false, false
		}
		pred, b = b, next
	}
	return false, false
}

func c16IsTchar(r rune) bool {
	return (r >= 'A' && r <= 'Z') || (r >= 'a' && r <= 'z') || (r >= '0' && r <= '9') || (r < 128 && strings.ContainsRune("!#$%&'*+-.^_`|~", r))
}

func c16ParsingRules(e *c16Env) {
	const R = "C16.R7.parsing"
	c := e.c
	c.Expect(R, 2)
	// (a) the predicates handed to strings.IndexFunc by what parses the challenge
	var parsers []*ssa.Function
	for _, f := range e.SV.Funcs() {
		for _, call := range Calls(f, func(string) bool { return true }) {
			g := StaticCallee(call)
			if g == nil || fnPkgPath(g) != pkgPath(c16Pkg) || len(call.Common().Args) != 1 {
				continue
			}
			for _, h := range e.SV.Leaves(call.Common().Args[0]) {
				if e.isChallengeHeader(h) {
					parsers = append(parsers, g)
				}
			}
		}
	}
	nT := 0
	seen := map[*ssa.Function]bool{}
	for _, pz := range parsers {
		vw := c14NewView(pz, 4, c16Unexported)
		for _, call := range vw.CallsTo("strings.IndexFunc") {
			var pf *ssa.Function
			switch x := call.Common().Args[1].(type) {
			case *ssa.Function:
				pf = x
			case *ssa.MakeClosure:
				pf = x.Fn.(*ssa.Function)
			}
			if pf == nil || seen[pf] {
				continue
			}
			seen[pf] = true
			// the token-character predicate is the one that classifies letters/digits as token characters
			votes := 0
			for _, r := range "bQ5mX7" {
				if v, ok := c16EvalRunePred(pf, r); ok && !v {
					votes++
				}
			}
			if votes < 4 {
				continue
			}
			nT++
			okSet, undecided := true, false
			witness := ""
			for r := rune(0); r < 0x300 && !undecided; r++ {
				v, ok := c16EvalRunePred(pf, r)
				if !ok {
					undecided = true
					break
				}
				if v == c16IsTchar(r) { // the predicate is "is NOT a token character"
					okSet = false
					witness = fmt.Sprintf("%q", r)
				}
			}
			for _, r := range []rune{0x2028, 0x4e2d, 0x1f600} {
				if v, ok := c16EvalRunePred(pf, r); !ok {
					undecided = true
				} else if !v {
					okSet, witness = false, fmt.Sprintf("%q", r)
				}
			}
			key := FnName(pf) + "|token-characters-are-rfc7230-tchar"
			if undecided {
				c.Undecided(R, key, pf.Pos(), "the challenge tokenizer's character predicate is not a combination of rune comparisons and constant-string lookups: cannot evaluate it")
				continue
			}
			c.Check(R, key, pf.Pos(), okSet,
				ifelse(okSet, "the challenge tokenizer accepts exactly the RFC 7230 token characters (evaluated for every rune below U+0300 and samples above)",
					"the challenge tokenizer misclassifies "+witness+": a scheme or an unquoted parameter containing it is cut short (e.g. `BEARER` → `BE`, or `service=…z…` truncated), the challenge is not understood and the 401 is returned although valid credentials are configured"))
		}
	}
	if nT == 0 {
		c.LostAnchor(R, "the token-character predicate of the Www-Authenticate parser (strings.IndexFunc argument)")
	}
	// (b) CleanScopes: loops end by exhaustion, or on the wildcard
	cs := c.P.Fn(c16Pkg, "CleanScopes")
	if cs == nil {
		c.LostAnchor(R, "~/registry/remote/auth.CleanScopes")
	} else {
		vw := c14NewView(cs, 3, c16Unexported)
		okL, where := true, ""
		nL := 0
		for _, f := range vw.Funcs() {
			for _, l := range Loops(f) {
				var exhaust Edge
				found := false
				if _, _, _, ex, ok := l.RangeMap(); ok {
					exhaust, found = ex, true
				} else if _, _, _, ex, ok := l.RangeIndex(); ok {
					exhaust, found = ex, true
				}
				if !found {
					continue
				}
				nL++
				for _, ex := range l.Exits {
					if ex == exhaust {
						continue
					}
					// an early exit: allowed only on the edge where a value is "*" (wildcard absorbs the rest),
					// or by a return/panic of an error path
					if c16IsStarEdge(ex) {
						continue
					}
					okL, where = false, c.P.Pos(blockPos(ex.To))
				}
			}
		}
		c.Check(R, FnName(cs)+"|loops-exhaustive", cs.Pos(), okL && nL > 0,
			ifelse(okL && nL > 0, fmt.Sprintf("%d range loops end only by exhaustion (or on the wildcard action)", nL),
				"a range loop of CleanScopes can be left early ("+where+") other than on the wildcard action: later resources / scopes are dropped depending on map iteration order, so the canonical scope set — the bearer cache key — is not a function of the input set"))
	}
	// (c) OnceOrRetry.Do
	if f := c.P.Fn("internal/syncutil", "OnceOrRetry.Do"); f != nil && len(f.Params) == 2 {
		h := heldAt(f, heldSet{})
		okH, n := true, 0
		for _, call := range Calls(f, func(string) bool { return true }) {
			if call.Common().Value != ssa.Value(f.Params[1]) {
				continue
			}
			n++
			held := false
			for _, mode := range h[call.(ssa.Instruction)] {
				if mode >= modeW {
					held = true
				}
			}
			if !held {
				okH = false
			}
		}
		var doneStores []ssa.Instruction
		for _, call := range Calls(f, func(n string) bool { return n == "(*sync/atomic.Bool).Store" }) {
			doneStores = append(doneStores, call.(ssa.Instruction))
			held := false
			for _, mode := range h[call.(ssa.Instruction)] {
				if mode >= modeW {
					held = true
				}
			}
			if !held {
				okH = false
			}
		}
		c.Check(R, FnName(f)+"|f-runs-under-the-lock", f.Pos(), okH && n > 0,
			ifelse(okH && n > 0, "f and the done flag are executed while holding the mutex", "OnceOrRetry.Do runs f (or sets done) without holding its mutex: two first callers run the action concurrently (the credentials store is detected and written twice)"))
	}
	_ = types.Typ
}

// c16IsStarEdge: the edge is taken when a string value equals "*".
func c16IsStarEdge(e Edge) bool {
	if len(e.From.Instrs) == 0 {
		return false
	}
	ifi, ok := e.From.Instrs[len(e.From.Instrs)-1].(*ssa.If)
	if !ok {
		return false
	}
	cond, t, f := ifEdges(ifi)
	bo, ok := cond.(*ssa.BinOp)
	if !ok || (bo.Op != token.EQL && bo.Op != token.NEQ) {
		return false
	}
	sx, okx := constString(bo.X)
	sy, oky := constString(bo.Y)
	if !(okx && sx == "*") && !(oky && sy == "*") {
		return false
	}
	if bo.Op == token.EQL {
		return e == t
	}
	return e == f
}
