package main

// C19 — PackManifest produces a valid, self-consistent, pushable manifest.
//
// R1 validate-before-push (+ subject rejection for 1.0, missing artifact type
//    for 1.1, version dispatch), R2 created-time checked and used,
// R3 descriptor ⇔ bytes identity, R4 invented blobs are pushed,
// R5 requested fields are emitted, R6 media-type language (RFC 6838).
//
// All path rules run on the symbolic path enumeration of c19_util.go: a rule
// is evaluated on every feasible path of the packer, at every call that can
// reach content.Pusher.Push.  Unexported helpers are located by role.

import (
	"fmt"
	"go/constant"
	"go/token"
	"go/types"
	"sort"
	"strings"

	"golang.org/x/tools/go/ssa"
)

func init() {
	register(&propDef{
		ID: "C19",
		Explain: "Decided: (R1) on every path of the 1.0/1.1 packers, at every call that can reach Pusher.Push, the artifactType parameter and " +
			"opts.ConfigDescriptor.MediaType — whenever they flow into what is pushed — were accepted by the media-type validator or are known empty; " +
			"a 1.0 subject and a missing 1.1 artifact type are rejected before any such call; PackManifest dispatches only on the two known versions; " +
			"(R2) the created-time helper succeeded before the manifest push and its result is what becomes Annotations; it fails iff time.Parse(RFC3339) fails; " +
			"(R3) the bytes described (NewDescriptorFromBytes) are the bytes pushed (bytes.NewReader) in pushManifest/pushCustomEmptyConfig/pushIfNotExist, the returned " +
			"descriptor is the pushed one, only ErrAlreadyExists is tolerated; (R4) every descriptor the packer invents (empty JSON config/layer, generated config) " +
			"has been pushed on the same path, pushIfNotExist skips only on Exists==true; (R5) the manifest literal carries the requested config, layers, subject, " +
			"artifact type, annotations and media type; (R6) the media-type pattern is language-equivalent to RFC 6838 restricted-name \"/\" restricted-name. " +
			"NOT decided (not applicable to static analysis): that the stored bytes parse back to the requested values (encoding/json semantics), digest/size arithmetic, " +
			"determinism beyond the single time source, behaviour of the caller's Pusher.",
		Run:     runC19,
		Mutants: c19Mutants,
	})
}

const (
	c19NPush    = "(~/content.Pusher).Push"
	c19NNewDesc = "~/content.NewDescriptorFromBytes"
	c19NMarshal = "encoding/json.Marshal"
	c19NReader  = "bytes.NewReader"
)

// c19Anchors holds the role-resolved functions.
type c19Anchors struct {
	packManifest, pack         *ssa.Function
	v10, v11, rc2, artifact    *ssa.Function
	validator                  *ssa.Function // func(string) error using a regexp
	annot                      *ssa.Function // created-time helper (calls time.Parse)
	manifestPusher             *ssa.Function // json.Marshal + Push
	blobPusher                 *ssa.Function // Push of (desc, data) parameters
	configPusher               *ssa.Function // NewDescriptorFromBytes + blobPusher, returns the descriptor
	mpManifest, mpMedia        int           // manifestPusher parameter indexes
	mpArtifact, mpAnnotations  int
	bpDesc, bpData             int // blobPusher parameter indexes
	verKey, k10, k11           string
}

// inline: unexported helpers that are not role anchors are executed in place
// (so extracting a helper from a packer does not change what the rules see).
func (a *c19Anchors) inline(g *ssa.Function) bool {
	switch g {
	case a.validator, a.annot, a.manifestPusher, a.blobPusher, a.configPusher, a.v10, a.v11, a.rc2, a.artifact:
		return false
	}
	return !token.IsExported(g.Name())
}

func (a *c19Anchors) paths(fn *ssa.Function) *sxResult { return sxPathsInline(fn, "c19", a.inline) }

func c19ReachesPush(f *ssa.Function) bool {
	return f != nil && inModule(f) && reachesCall(f, 3, func(n string, _ ssa.CallInstruction) bool { return n == c19NPush })
}

func c19IsPushCall(r *sxCallRec) bool {
	if r.Deferred {
		return false
	}
	return r.Name == c19NPush || c19ReachesPush(r.Callee)
}

func c19ConstString(p *Prog, pkg, name string) (string, bool) {
	c, ok := p.Obj(pkg, name).(*types.Const)
	if !ok || c.Val().Kind() != constant.String {
		return "", false
	}
	return constant.StringVal(c.Val()), true
}

func c19ParamIndexByType(f *ssa.Function, pred func(t types.Type) bool) int {
	idx := -1
	for i, p := range f.Params {
		if pred(p.Type()) {
			if idx >= 0 {
				return -2 // ambiguous
			}
			idx = i
		}
	}
	return idx
}

func c19IsNamed(t types.Type, pkgSuffix, name string) bool {
	n, ok := t.(*types.Named)
	return ok && n.Obj().Name() == name && n.Obj().Pkg() != nil && strings.HasSuffix(n.Obj().Pkg().Path(), pkgSuffix)
}

func c19Resolve(c *Ctx) *c19Anchors {
	const R = "C19.anchors"
	a := &c19Anchors{mpManifest: -1, mpMedia: -1, mpArtifact: -1, mpAnnotations: -1, bpDesc: -1, bpData: -1}
	a.packManifest = c.P.Fn("", "PackManifest")
	a.pack = c.P.Fn("", "Pack")
	if a.packManifest == nil || a.pack == nil {
		c.LostAnchor(R, "~.PackManifest / ~.Pack")
		return nil
	}
	// version constants → packers
	verConst := func(name string) string {
		if k, ok := c.P.Obj("", name).(*types.Const); ok {
			return "const:" + k.Val().ExactString()
		}
		return ""
	}
	k10, k11 := verConst("PackManifestVersion1_0"), verConst("PackManifestVersion1_1")
	if k10 == "" || k11 == "" {
		c.LostAnchor(R, "~.PackManifestVersion1_0 / 1_1")
		return nil
	}
	verIdx := c19ParamIndexByType(a.packManifest, func(t types.Type) bool { return c19IsNamed(t, Mod, "PackManifestVersion") })
	if verIdx < 0 {
		c.LostAnchor(R, "PackManifest: parameter of type PackManifestVersion")
		return nil
	}
	ver := sxParam{a.packManifest.Params[verIdx]}
	a.verKey, a.k10, a.k11 = ver.key(), k10, k11
	res := sxPaths(a.packManifest)
	if res.Err != "" {
		c.Undecided(R, "PackManifest|paths", a.packManifest.Pos(), res.Err)
		return nil
	}
	for _, p := range res.Paths {
		for _, r := range p.Calls {
			if !c19ReachesPush(r.Callee) {
				continue
			}
			for _, f := range p.Facts[:r.NFacts] {
				if !f.Val {
					continue
				}
				switch f.Key {
				case sxEqKeyStr(ver.key(), k10):
					a.v10 = r.Callee
				case sxEqKeyStr(ver.key(), k11):
					a.v11 = r.Callee
				}
			}
		}
	}
	// Pack: PackImageManifest true → rc2, false → artifact
	optsIdx := c19ParamIndexByType(a.pack, func(t types.Type) bool { return c19IsNamed(t, Mod, "PackOptions") })
	if optsIdx < 0 {
		c.LostAnchor(R, "Pack: parameter of type PackOptions")
		return nil
	}
	res = sxPaths(a.pack)
	if res.Err != "" {
		c.Undecided(R, "Pack|paths", a.pack.Pos(), res.Err)
		return nil
	}
	flag, _ := sxFieldByName(sxParam{a.pack.Params[optsIdx]}, a.pack.Params[optsIdx].Type(), "PackImageManifest")
	for _, p := range res.Paths {
		for _, r := range p.Calls {
			if !c19ReachesPush(r.Callee) || flag == nil {
				continue
			}
			if v, ok := p.Fact(r.NFacts, flag.key()); ok {
				if v {
					a.rc2 = r.Callee
				} else {
					a.artifact = r.Callee
				}
			}
		}
	}
	for what, f := range map[string]*ssa.Function{"1.0 packer (called by PackManifest under PackManifestVersion1_0)": a.v10,
		"1.1 packer (called by PackManifest under PackManifestVersion1_1)": a.v11,
		"image packer of Pack (PackImageManifest==true)":                   a.rc2,
		"artifact packer of Pack (PackImageManifest==false)":               a.artifact} {
		if f == nil {
			c.LostAnchor(R, what)
			return nil
		}
	}
	// helpers by role among the static callees of the packers
	callees := map[*ssa.Function]bool{}
	var collect func(f *ssa.Function, depth int)
	collect = func(f *ssa.Function, depth int) {
		for _, call := range Calls(f, func(string) bool { return true }) {
			if g := StaticCallee(call); g != nil && inModule(g) && len(g.Blocks) > 0 && !callees[g] {
				callees[g] = true
				if depth < sxInlineDepth {
					collect(g, depth+1)
				}
			}
		}
	}
	for _, P := range []*ssa.Function{a.v10, a.v11, a.rc2, a.artifact} {
		collect(P, 0)
	}
	for _, P := range []*ssa.Function{a.v10, a.v11, a.rc2, a.artifact} {
		delete(callees, P)
	}
	var sorted []*ssa.Function
	for g := range callees {
		sorted = append(sorted, g)
	}
	sort.Slice(sorted, func(i, j int) bool { return sorted[i].String() < sorted[j].String() })
	for _, g := range sorted {
		sig := g.Signature
		switch {
		case len(CallsTo(g, c19NMarshal)) > 0 && len(CallsTo(g, c19NPush)) > 0:
			a.manifestPusher = g
		case len(CallsTo(g, "time.Parse")) > 0:
			a.annot = g
		case sig.Params().Len() == 1 && isStringType(sig.Params().At(0).Type()) && ErrResultIndex(sig) == 0 && len(reGlobalsUsedBy(g)) > 0:
			a.validator = g
		case len(CallsTo(g, c19NPush)) > 0:
			a.blobPusher = g
		}
	}
	for _, g := range sorted {
		if a.blobPusher != nil && g != a.blobPusher && len(CallsTo(g, c19NNewDesc)) > 0 && len(CallsTo(g, fnFullName(a.blobPusher))) > 0 {
			a.configPusher = g
		}
	}
	for what, f := range map[string]*ssa.Function{"manifest pusher (json.Marshal + Pusher.Push)": a.manifestPusher,
		"created-time helper (calls time.Parse)":                           a.annot,
		"media type validator (func(string) error matching a regexp)":      a.validator,
		"blob pusher (Pusher.Push of a descriptor and its bytes)":          a.blobPusher,
		"generated-config pusher (NewDescriptorFromBytes + blob pusher)":   a.configPusher} {
		if f == nil {
			c.LostAnchor(R, what)
			return nil
		}
	}
	isDesc := func(t types.Type) bool { return c19IsNamed(t, "image-spec/specs-go/v1", "Descriptor") }
	isBytes := func(t types.Type) bool {
		s, ok := t.Underlying().(*types.Slice)
		if !ok {
			return false
		}
		b, ok := s.Elem().Underlying().(*types.Basic)
		return ok && b.Kind() == types.Byte
	}
	isAnnMap := func(t types.Type) bool { _, ok := t.Underlying().(*types.Map); return ok }
	a.bpDesc = c19ParamIndexByType(a.blobPusher, isDesc)
	a.bpData = c19ParamIndexByType(a.blobPusher, isBytes)
	a.mpAnnotations = c19ParamIndexByType(a.manifestPusher, isAnnMap)
	// manifest parameter: the one handed to json.Marshal
	for _, m := range CallsTo(a.manifestPusher, c19NMarshal) {
		for i, p := range a.manifestPusher.Params {
			if SameValue(m.Common().Args[0], p) {
				a.mpManifest = i
			}
		}
	}
	// mediaType parameter: the one handed to NewDescriptorFromBytes; the other string is the artifact type
	for _, m := range CallsTo(a.manifestPusher, c19NNewDesc) {
		for i, p := range a.manifestPusher.Params {
			if SameValue(m.Common().Args[0], p) {
				a.mpMedia = i
			}
		}
	}
	for i, p := range a.manifestPusher.Params {
		if isStringType(p.Type()) && i != a.mpMedia {
			a.mpArtifact = i
		}
	}
	if a.bpDesc < 0 || a.bpData < 0 || a.mpAnnotations < 0 || a.mpManifest < 0 || a.mpMedia < 0 || a.mpArtifact < 0 {
		c.LostAnchor(R, fmt.Sprintf("parameter roles of %s / %s", FnName(a.blobPusher), FnName(a.manifestPusher)))
		return nil
	}
	return a
}

func sxEqKeyStr(ka, kb string) string {
	if ka > kb {
		ka, kb = kb, ka
	}
	return "==(" + ka + "," + kb + ")"
}

// c19Site names a call site without positions: callee plus its ordinal among
// the calls of the same callee in block order.
func c19Site(fn *ssa.Function, call ssa.CallInstruction) string {
	own := call.Parent()
	n, k := CalleeName(call), 0
	for _, x := range Calls(own, func(s string) bool { return s == n }) {
		k++
		if x == call {
			break
		}
	}
	n = strings.TrimPrefix(n, "~.")
	if own != fn {
		return fmt.Sprintf("%s/%s#%d", own.Name(), n, k) // call inside an inlined helper
	}
	return fmt.Sprintf("%s#%d", n, k)
}

// c19Agg aggregates per-path verdicts into one obligation per key.
type c19Agg struct {
	c     *Ctx
	rule  string
	order []string
	m     map[string]*c19AggE
}
type c19AggE struct {
	pos     ssa.Instruction
	fn      *ssa.Function
	bad     []string
	undec   []string
	okNotes []string
	n       int
}

func newC19Agg(c *Ctx, rule string) *c19Agg { return &c19Agg{c: c, rule: rule, m: map[string]*c19AggE{}} }

func (a *c19Agg) entry(key string, fn *ssa.Function, at ssa.Instruction) *c19AggE {
	e, ok := a.m[key]
	if !ok {
		e = &c19AggE{pos: at, fn: fn}
		a.m[key] = e
		a.order = append(a.order, key)
	}
	e.n++
	return e
}
func (a *c19Agg) ok(key string, fn *ssa.Function, at ssa.Instruction, note string) {
	e := a.entry(key, fn, at)
	for _, x := range e.okNotes {
		if x == note {
			return
		}
	}
	e.okNotes = append(e.okNotes, note)
}
func (a *c19Agg) fail(key string, fn *ssa.Function, at ssa.Instruction, p *sxPath, msg string) {
	e := a.entry(key, fn, at)
	e.bad = append(e.bad, msg+c19PathNote(p))
}
func (a *c19Agg) undecided(key string, fn *ssa.Function, at ssa.Instruction, msg string) {
	e := a.entry(key, fn, at)
	e.undec = append(e.undec, msg)
}
func (a *c19Agg) flush() {
	for _, k := range a.order {
		e := a.m[k]
		pos := e.fn.Pos()
		if e.pos != nil && e.pos.Pos().IsValid() {
			pos = e.pos.Pos()
		}
		switch {
		case len(e.bad) > 0:
			a.c.Violation(a.rule, k, pos, fmt.Sprintf("%s (%d of %d path evaluations fail)", e.bad[0], len(e.bad), e.n))
		case len(e.undec) > 0:
			a.c.Undecided(a.rule, k, pos, e.undec[0])
		default:
			a.c.OK(a.rule, k, pos, fmt.Sprintf("%s (%d path evaluations)", strings.Join(e.okNotes, " / "), e.n))
		}
	}
}

func c19PathNote(p *sxPath) string {
	if p == nil {
		return ""
	}
	var bs []string
	for _, b := range p.Blocks {
		bs = append(bs, fmt.Sprint(b.Index))
	}
	return " [path: blocks " + strings.Join(bs, "→") + "]"
}

func runC19(c *Ctx) {
	a := c19Resolve(c)
	if a == nil {
		return
	}
	c19R1(c, a)
	c19R2(c, a)
	c19R3(c, a)
	c19R4(c, a)
	c19R5(c, a)
	c19R6(c, a)
}

// ---------- R1 ----------

type c19Subject struct {
	label string
	term  sxVal   // the string itself
	whole []sxVal // container terms that include it (whole descriptor copy)
}

func c19Opts(P *ssa.Function) (sxVal, types.Type) {
	i := c19ParamIndexByType(P, func(t types.Type) bool {
		return c19IsNamed(t, Mod, "PackManifestOptions") || c19IsNamed(t, Mod, "PackOptions")
	})
	if i < 0 {
		return nil, nil
	}
	return sxParam{P.Params[i]}, P.Params[i].Type()
}

func c19StringParam(P *ssa.Function) sxVal {
	i := c19ParamIndexByType(P, isStringType)
	if i < 0 {
		return nil
	}
	return sxParam{P.Params[i]}
}

// c19ConfigTerms: opts.ConfigDescriptor (pointer), *opts.ConfigDescriptor, (*opts.ConfigDescriptor).MediaType.
func c19ConfigTerms(opts sxVal, optsT types.Type) (ptr, deref, media sxVal) {
	ptr, ok := sxFieldByName(opts, optsT, "ConfigDescriptor")
	if !ok {
		return nil, nil, nil
	}
	deref = sxInit{ptr}
	media = sxField{x: deref, field: 0, name: "MediaType"}
	return
}

func c19Validated(p *sxPath, n int, a *c19Anchors, x sxVal) bool {
	for _, v := range p.Calls {
		if v.Callee == a.validator && v.NFacts <= n && len(v.Args) == 1 && sxSame(v.Args[0], x) && p.ErrNil(n, v) {
			return true
		}
	}
	return false
}

func c19NonEmptyString(p *sxPath, n int, v sxVal) bool {
	if val, known := p.KnownEq(n, v, sxStr("")); known && !val {
		return true
	}
	if val, known := p.KnownEq(n, sxOp{"len", []sxVal{v}}, sxInt(0)); known && !val {
		return true
	}
	return false
}

func c19R1(c *Ctx, a *c19Anchors) {
	const R1 = "C19.R1.validate-before-push"
	c.Expect(R1, 16)
	agg := newC19Agg(c, R1)
	emptyJSON, okE := c19ConstString(c.P, "github.com/opencontainers/image-spec/specs-go/v1", "MediaTypeEmptyJSON")
	if !okE {
		c.LostAnchor(R1, "ocispec.MediaTypeEmptyJSON")
	}
	for _, P := range []*ssa.Function{a.v10, a.v11} {
		pn := FnName(P)
		opts, optsT := c19Opts(P)
		art := c19StringParam(P)
		if opts == nil || art == nil {
			c.LostAnchor(R1, pn+": options / artifactType parameters")
			continue
		}
		cfgPtr, cfgDeref, cfgMedia := c19ConfigTerms(opts, optsT)
		subjPtr, _ := sxFieldByName(opts, optsT, "Subject")
		if cfgPtr == nil || subjPtr == nil {
			c.LostAnchor(R1, pn+": PackManifestOptions.ConfigDescriptor / Subject")
			continue
		}
		subjects := []c19Subject{
			{label: "artifactType", term: art},
			{label: "config.mediaType", term: cfgMedia, whole: []sxVal{cfgDeref}},
		}
		res := a.paths(P)
		if res.Err != "" {
			c.Undecided(R1, pn+"|paths", P.Pos(), res.Err)
			continue
		}
		nPush := 0
		for _, p := range res.Paths {
			// first pass: at which push-reaching calls of this path does each subject flow into the arguments
			type flowInfo struct{ flows, wholesale bool }
			var pushes []*sxCallRec
			for _, r := range p.Calls {
				if c19IsPushCall(r) {
					pushes = append(pushes, r)
				}
			}
			flow := make([][]flowInfo, len(pushes))
			lastFlow := make([]int, len(subjects)) // index of the last push of the path the subject flows into
			for si := range lastFlow {
				lastFlow[si] = -1
			}
			for pi, r := range pushes {
				flow[pi] = make([]flowInfo, len(subjects))
				for si, s := range subjects {
					fi := &flow[pi][si]
					for _, arg := range r.Args {
						sxWalk(arg, func(x sxVal) bool {
							if sxSame(x, s.term) {
								fi.flows = true
							}
							for _, w := range s.whole {
								if sxSame(x, w) {
									fi.flows = true
								}
							}
							if sxSame(x, opts) {
								// only a wholesale use counts (a field selection of opts is a different term)
								fi.wholesale = true
							}
							if f, ok := x.(sxField); ok && sxSame(f.x, opts) {
								return false // do not descend from opts.F into opts
							}
							return true
						})
					}
					if fi.flows || fi.wholesale {
						lastFlow[si] = pi
					}
				}
			}
			for pi, r := range pushes {
				nPush++
				site := c19Site(P, r.Call)
				in := r.Call.(ssa.Instruction)
				for si, s := range subjects {
					key := pn + "|" + site + "|" + s.label
					for _, arg := range r.Args {
						if why, unk := sxUnknownIn(arg); unk {
							agg.undecided(key, P, in, "an argument of this call could not be evaluated: "+why)
						}
					}
					fi := flow[pi][si]
					switch {
					case fi.wholesale:
						agg.undecided(key, P, in, "the options struct is passed wholesale to "+r.Name+"; cannot follow the media type into it")
					case lastFlow[si] < pi:
						agg.ok(key, P, in, "the string is not used by this or any later push of these paths")
					case c19Validated(p, r.NFacts, a, s.term):
						agg.ok(key, P, in, "validated by "+FnName(a.validator)+" (nil result) before the call")
					case p.IsEmptyString(r.NFacts, s.term):
						agg.ok(key, P, in, "known empty before the call")
					case fi.flows:
						agg.fail(key, P, in, p, fmt.Sprintf("%s reaches what %s pushes without having passed %s (a media type violating RFC 6838 would be pushed instead of rejected)",
							s.label, r.Name, FnName(a.validator)))
					default:
						agg.fail(key, P, in, p, fmt.Sprintf("%s is used by a later push of this path (%s) but has not passed %s yet when %s pushes: a media type violating RFC 6838 would be rejected only after something was pushed",
							s.label, pushes[lastFlow[si]].Name, FnName(a.validator), r.Name))
					}
				}
				if P == a.v10 {
					key := pn + "|" + site + "|subject-rejected"
					if p.IsNil(r.NFacts, subjPtr) {
						agg.ok(key, P, in, "opts.Subject == nil is established before the call")
					} else {
						agg.fail(key, P, in, p, "a push is reachable with opts.Subject set: version 1.0 has no subject field, the request must be rejected before anything is pushed")
					}
				}
				if P == a.v11 && okE {
					key := pn + "|" + site + "|artifact-type-present"
					eq, known := p.KnownEq(r.NFacts, cfgMedia, sxStr(emptyJSON))
					if c19NonEmptyString(p, r.NFacts, art) || (p.NonNil(r.NFacts, cfgPtr) && known && !eq) {
						agg.ok(key, P, in, "artifactType is non-empty, or a non-empty-JSON config descriptor is given, before the call")
					} else {
						agg.fail(key, P, in, p, "a push is reachable with an empty artifactType and no (or the empty-JSON) config media type: ErrMissingArtifactType must be returned before anything is pushed")
					}
				}
			}
		}
		if nPush == 0 {
			c.LostAnchor(R1, pn+": no call reaching Pusher.Push")
		}
	}
	agg.flush()
	// PackManifest dispatch: unknown versions are rejected without a call
	P := a.packManifest
	res := a.paths(P)
	okDispatch, detail := true, "only the 1.0 and 1.1 packers are called, under their version constants; every other path returns a non-nil error without pushing"
	for _, p := range res.Paths {
		called := false
		for _, r := range p.Calls {
			if c19IsPushCall(r) {
				called = true
				want := ""
				switch r.Callee {
				case a.v10:
					want = sxEqKeyStr(a.verKey, a.k10)
				case a.v11:
					want = sxEqKeyStr(a.verKey, a.k11)
				default:
					okDispatch, detail = false, "PackManifest reaches a push through "+r.Name
				}
				if v, known := p.Fact(r.NFacts, want); want != "" && !(known && v) {
					okDispatch, detail = false, r.Name+" is called on a path where the version is not known to be its own (an unsupported version would be packed instead of rejected)"+c19PathNote(p)
				}
				// parameters are forwarded unchanged
				for i, arg := range r.Args {
					if _, isParam := arg.(sxParam); !isParam {
						okDispatch, detail = false, fmt.Sprintf("argument %d of %s is not a parameter of PackManifest", i, r.Name)
					}
				}
			}
		}
		if !called && p.Ret != nil {
			e := p.Ret[len(p.Ret)-1]
			if !c19NonNilErr(e) {
				okDispatch, detail = false, "a path of PackManifest returns without packing and without a non-nil error"+c19PathNote(p)
			}
		}
	}
	c.Check(R1, FnName(P)+"|version-dispatch", P.Pos(), okDispatch, detail)
}

func c19NonNilErr(e sxVal) bool {
	switch u := e.(type) {
	case sxCall:
		return u.rec.Name == "fmt.Errorf" || u.rec.Name == "errors.New"
	case sxInit:
		_, ok := u.addr.(sxGlobal)
		return ok
	}
	return false
}

// ---------- R2 ----------

func c19ManifestArg(a *c19Anchors, r *sxCallRec) (sxVal, types.Type) {
	v := r.Call.Common().Args[a.mpManifest]
	t := v.Type()
	if mi, ok := v.(*ssa.MakeInterface); ok {
		t = mi.X.Type()
	}
	return r.Args[a.mpManifest], t
}

func c19R2(c *Ctx, a *c19Anchors) {
	const R2 = "C19.R2.created-time-checked"
	c.Expect(R2, 6)
	agg := newC19Agg(c, R2)
	created := map[string]bool{}
	for _, k := range [][2]string{{"github.com/opencontainers/image-spec/specs-go/v1", "AnnotationCreated"}, {"internal/spec", "AnnotationArtifactCreated"}} {
		if s, ok := c19ConstString(c.P, k[0], k[1]); ok {
			created["const:"+constant.MakeString(s).ExactString()] = true
		} else {
			c.LostAnchor(R2, k[0]+"."+k[1])
		}
	}
	for _, P := range []*ssa.Function{a.v10, a.v11, a.rc2, a.artifact} {
		pn := FnName(P)
		opts, optsT := c19Opts(P)
		if opts == nil {
			c.LostAnchor(R2, pn+": options parameter")
			continue
		}
		want, _ := sxFieldByName(opts, optsT, "ManifestAnnotations")
		res := a.paths(P)
		if res.Err != "" {
			c.Undecided(R2, pn+"|paths", P.Pos(), res.Err)
			continue
		}
		found := false
		for _, p := range res.Paths {
			for _, r := range p.Calls {
				if r.Callee != a.manifestPusher {
					continue
				}
				found = true
				in := r.Call.(ssa.Instruction)
				key := pn + "|annotations"
				m, mt := c19ManifestArg(a, r)
				ann, ok := sxFieldByName(m, mt, "Annotations")
				if !ok {
					agg.undecided(key, P, in, "the manifest value has no Annotations field")
					continue
				}
				call, isCall := ann.(sxCall)
				switch {
				case !isCall || call.rec.Callee != a.annot || call.idx != 0:
					agg.fail(key, P, in, p, "manifest.Annotations is not the result of "+FnName(a.annot)+" (got "+sxDescribe(ann)+"): the created time is neither validated nor filled in")
				case !p.ErrNil(r.NFacts, call.rec):
					agg.fail(key, P, in, p, "the manifest is pushed although "+FnName(a.annot)+" may have failed (malformed created time must be rejected without pushing a manifest)")
				case want == nil || !sxSame(call.rec.Args[0], want):
					agg.fail(key, P, in, p, "the created-time helper is not given opts.ManifestAnnotations (got "+sxDescribe(call.rec.Args[0])+")")
				case !created[call.rec.Args[1].key()]:
					agg.fail(key, P, in, p, "the created-time helper is not keyed by an OCI created annotation (got "+sxDescribe(call.rec.Args[1])+")")
				case !sxSame(r.Args[a.mpAnnotations], ann):
					agg.fail(key, P, in, p, "the annotations copied into the returned descriptor differ from manifest.Annotations")
				default:
					agg.ok(key, P, in, "manifest.Annotations and the descriptor annotations are the checked result of "+FnName(a.annot)+"(opts.ManifestAnnotations, created-key), error nil")
				}
			}
		}
		if !found {
			c.LostAnchor(R2, pn+": call of "+FnName(a.manifestPusher))
		}
	}
	agg.flush()
	// the helper itself
	E := a.annot
	en := FnName(E)
	rfc3339 := ""
	if k, ok := c.P.Obj("time", "RFC3339").(*types.Const); ok {
		rfc3339 = "const:" + k.Val().ExactString()
	} else {
		c.LostAnchor(R2, "time.RFC3339")
		return
	}
	mapIdx := c19ParamIndexByType(E, func(t types.Type) bool { _, ok := t.Underlying().(*types.Map); return ok })
	keyIdx := c19ParamIndexByType(E, isStringType)
	if mapIdx < 0 || keyIdx < 0 {
		c.LostAnchor(R2, en+": (map, key) parameters")
		return
	}
	pm, pk := sxParam{E.Params[mapIdx]}, sxParam{E.Params[keyIdx]}
	lookup := sxOp{"lookup,ok", []sxVal{pm, pk}}
	lval, lok := sxOp{"extract#0", []sxVal{lookup}}, sxOp{"extract#1", []sxVal{lookup}}
	res := a.paths(E)
	if res.Err != "" {
		c.Undecided(R2, en+"|paths", E.Pos(), res.Err)
		return
	}
	agg = newC19Agg(c, R2)
	for _, p := range res.Paths {
		if p.Ret == nil {
			continue
		}
		present, known := p.Fact(-1, lok.key())
		if !known {
			agg.undecided(en+"|lookup", E, p.RetInstr, "a path does not test whether the created key is present"+c19PathNote(p))
			continue
		}
		errNil := sxSame(p.Ret[1], sxNil)
		if present {
			key := en+"|given-time-parsed"
			var parse *sxCallRec
			for _, r := range p.CallsNamed("time.Parse") {
				if r.Args[0].key() == rfc3339 && sxSame(r.Args[1], lval) {
					parse = r
				}
			}
			switch {
			case parse == nil:
				agg.fail(key, E, p.RetInstr, p, "the given created time is not parsed with time.Parse(time.RFC3339, value)")
			case errNil && !p.ErrNil(-1, parse):
				agg.fail(key, E, p.RetInstr, p, "success is returned although time.Parse may have failed")
			case errNil && !sxSame(p.Ret[0], pm):
				agg.fail(key, E, p.RetInstr, p, "with a valid created time the annotations returned are not the caller's")
			case !errNil && p.ErrNil(-1, parse):
				agg.fail(key, E, p.RetInstr, p, "an error is returned although the given created time parsed")
			case !errNil && !c19NonNilErr(p.Ret[1]):
				agg.fail(key, E, p.RetInstr, p, "the parse failure is not returned as a non-nil error")
			default:
				agg.ok(key, E, p.RetInstr, "a given created time is parsed as RFC 3339; success ⇔ parse succeeded; the caller's map is returned")
			}
			continue
		}
		key := en+"|missing-time-filled"
		if !errNil {
			agg.fail(key, E, p.RetInstr, p, "an error is returned although no created time was given")
			continue
		}
		okFill, okCopy := false, false
		for _, u := range p.Updates {
			if sxSame(u.Map, p.Ret[0]) && sxSame(u.Key, pk) {
				fromNow, rfc := false, false
				sxWalk(u.Val, func(x sxVal) bool {
					if cl, ok := x.(sxCall); ok {
						if cl.rec.Name == "time.Now" {
							fromNow = true
						}
						if cl.rec.Name == "(time.Time).Format" && len(cl.rec.Args) == 2 && cl.rec.Args[1].key() == rfc3339 {
							rfc = true
						}
					}
					return true
				})
				okFill = fromNow && rfc
			}
		}
		for _, r := range p.CallsNamed("maps.Copy") {
			if sxSame(r.Args[0], p.Ret[0]) && sxSame(r.Args[1], pm) {
				okCopy = true
			}
		}
		if cl, ok := p.Ret[0].(sxCall); ok && cl.rec.Name == "maps.Clone" && sxSame(cl.rec.Args[0], pm) {
			okCopy = true
		}
		switch {
		case sxSame(p.Ret[0], pm):
			agg.fail(key, E, p.RetInstr, p, "the caller's annotation map is returned (and would be mutated) instead of a copy")
		case !okCopy:
			agg.undecided(key, E, p.RetInstr, "cannot see the caller's annotations being copied into the returned map (maps.Copy / maps.Clone expected)")
		case !okFill:
			agg.fail(key, E, p.RetInstr, p, "the returned map does not get the created key set to time.Now() formatted as RFC 3339")
		default:
			agg.ok(key, E, p.RetInstr, "a copy of the annotations with the created key set to time.Now().Format(RFC3339) is returned")
		}
	}
	agg.flush()
}

// ---------- R3 ----------

// c19PairOK checks that descriptor term d describes bytes term b.
func c19PairOK(d, b sxVal, allowed map[string]bool) (bool, string) {
	for _, f := range sxOverridden(d) {
		if !allowed[f] {
			return false, "field " + f + " of the descriptor is overwritten after it was computed from the bytes"
		}
	}
	switch base := sxBase(d).(type) {
	case sxCall:
		if base.rec.Name != c19NNewDesc || base.idx != 0 {
			return false, "the descriptor is not the result of content.NewDescriptorFromBytes (got " + sxDescribe(base) + ")"
		}
		if !sxSame(base.rec.Args[1], b) {
			return false, "the bytes described (" + sxDescribe(base.rec.Args[1]) + ") are not the bytes pushed (" + sxDescribe(b) + ")"
		}
		return true, "descriptor = NewDescriptorFromBytes(_, B) and B is what is pushed"
	case sxInit:
		g, ok := base.addr.(sxGlobal)
		if !ok || g.g.Name() != "DescriptorEmptyJSON" || !strings.HasSuffix(g.g.Pkg.Pkg.Path(), "image-spec/specs-go/v1") {
			return false, "descriptor copied from " + sxDescribe(base)
		}
		want := sxField{x: base, field: 5, name: "Data"}
		if !sxSame(b, want) {
			return false, "ocispec.DescriptorEmptyJSON is pushed with bytes other than DescriptorEmptyJSON.Data (" + sxDescribe(b) + ")"
		}
		return true, "ocispec.DescriptorEmptyJSON pushed with its own Data"
	}
	return false, "cannot relate the descriptor " + sxDescribe(d) + " to the bytes pushed"
}

func c19FirstArgIs(v sxVal, want sxVal) bool {
	cl, ok := v.(sxCall)
	return ok && len(cl.rec.Args) > 0 && sxSame(cl.rec.Args[0], want)
}

func c19R3(c *Ctx, a *c19Anchors) {
	const R3 = "C19.R3.descriptor-matches-bytes"
	c.Expect(R3, 14)
	agg := newC19Agg(c, R3)
	// (a) manifest pusher
	MP := a.manifestPusher
	mn := FnName(MP)
	pusherIdx := c19ParamIndexByType(MP, func(t types.Type) bool { return c19IsNamed(t, "/content", "Pusher") })
	res := a.paths(MP)
	if res.Err != "" {
		c.Undecided(R3, mn+"|paths", MP.Pos(), res.Err)
	}
	for _, p := range res.Paths {
		if p.Ret == nil {
			continue
		}
		errNil := sxSame(p.Ret[len(p.Ret)-1], sxNil)
		pushes := p.CallsNamed(c19NPush)
		if errNil {
			key := mn + "|success-implies-push"
			if len(pushes) == 0 {
				agg.fail(key, MP, p.RetInstr, p, "a path returns success without pushing the manifest")
			} else {
				agg.ok(key, MP, p.RetInstr, "every successful return has pushed")
			}
		}
		for _, r := range pushes {
			in := r.Call.(ssa.Instruction)
			d, rd := r.Args[1], r.Args[2]
			key := mn + "|push-pair"
			reader, ok := rd.(sxCall)
			if !ok || reader.rec.Name != c19NReader {
				agg.undecided(key, MP, in, "the pushed reader is not bytes.NewReader(...): "+sxDescribe(rd))
				continue
			}
			b := reader.rec.Args[0]
			okPair, why := c19PairOK(d, b, map[string]bool{"ArtifactType": true, "Annotations": true})
			mar, isMar := b.(sxCall)
			switch {
			case !okPair:
				agg.fail(key, MP, in, p, why+": the returned digest/size would not be those of the stored bytes")
			case !isMar || mar.rec.Name != c19NMarshal || mar.idx != 0 || !sxSame(mar.rec.Args[0], sxParam{MP.Params[a.mpManifest]}):
				agg.fail(key, MP, in, p, "the pushed bytes are not json.Marshal(manifest) (got "+sxDescribe(b)+")")
			case !p.ErrNil(r.NFacts, mar.rec):
				agg.fail(key, MP, in, p, "the manifest is pushed although json.Marshal may have failed")
			case !c19FirstArgIs(sxBase(d), sxParam{MP.Params[a.mpMedia]}):
				agg.fail(key, MP, in, p, "the descriptor's media type is not the mediaType parameter")
			case pusherIdx < 0 || !sxSame(r.Recv, sxParam{MP.Params[pusherIdx]}):
				agg.fail(key, MP, in, p, "Push is not invoked on the pusher parameter")
			default:
				agg.ok(key, MP, in, why+"; B = json.Marshal(manifest) with nil error")
			}
			// descriptor decorations
			key = mn + "|descriptor-decorated"
			at, _ := sxFieldByName(d, r.Call.Common().Args[1].Type(), "ArtifactType")
			an, _ := sxFieldByName(d, r.Call.Common().Args[1].Type(), "Annotations")
			if sxSame(at, sxParam{MP.Params[a.mpArtifact]}) && sxSame(an, sxParam{MP.Params[a.mpAnnotations]}) {
				agg.ok(key, MP, in, "ArtifactType and Annotations of the descriptor are the corresponding parameters")
			} else {
				agg.fail(key, MP, in, p, "the pushed descriptor does not carry the artifactType/annotations parameters")
			}
			if errNil {
				key = mn + "|returns-pushed-descriptor"
				if sxSame(p.Ret[0], d) {
					agg.ok(key, MP, in, "the descriptor returned on success is the one pushed")
				} else {
					agg.fail(key, MP, in, p, "the descriptor returned ("+sxDescribe(p.Ret[0])+") is not the one pushed")
				}
			}
		}
	}
	// (b) blob pusher: pushes its own (desc, data) parameters
	BP := a.blobPusher
	bn := FnName(BP)
	res = a.paths(BP)
	if res.Err != "" {
		c.Undecided(R3, bn+"|paths", BP.Pos(), res.Err)
	}
	for _, p := range res.Paths {
		for _, r := range p.CallsNamed(c19NPush) {
			in := r.Call.(ssa.Instruction)
			key := bn + "|push-pair"
			reader, ok := r.Args[2].(sxCall)
			switch {
			case !ok || reader.rec.Name != c19NReader:
				agg.undecided(key, BP, in, "the pushed reader is not bytes.NewReader(...)")
			case !sxSame(r.Args[1], sxParam{BP.Params[a.bpDesc]}) || !sxSame(reader.rec.Args[0], sxParam{BP.Params[a.bpData]}):
				agg.fail(key, BP, in, p, "Push is not given the (desc, data) parameters unchanged")
			default:
				agg.ok(key, BP, in, "Push(desc, bytes.NewReader(data)) with the parameters unchanged")
			}
		}
	}
	// (c) every caller of the blob pusher passes a consistent pair
	nCallers := 0
	for _, F := range c.P.FuncsOfPkg("") {
		calls := CallsTo(F, fnFullName(BP))
		if len(calls) == 0 {
			continue
		}
		fn := FnName(F)
		res := a.paths(F)
		if res.Err != "" {
			c.Undecided(R3, fn+"|paths", F.Pos(), res.Err)
			continue
		}
		for _, p := range res.Paths {
			for _, r := range p.Calls {
				if r.Callee != BP || r.Deferred {
					continue
				}
				nCallers++
				in := r.Call.(ssa.Instruction)
				key := fn + "|" + c19Site(F, r.Call) + "|pair"
				ok, why := c19PairOK(r.Args[a.bpDesc], r.Args[a.bpData], map[string]bool{"Annotations": true})
				if ok {
					agg.ok(key, F, in, why)
				} else {
					agg.fail(key, F, in, p, why)
				}
			}
		}
	}
	if nCallers == 0 {
		c.LostAnchor(R3, "callers of "+bn)
	}
	// (d) generated-config pusher returns the descriptor it pushed
	CP := a.configPusher
	cn := FnName(CP)
	res = a.paths(CP)
	if res.Err != "" {
		c.Undecided(R3, cn+"|paths", CP.Pos(), res.Err)
	}
	for _, p := range res.Paths {
		if p.Ret == nil || !sxSame(p.Ret[len(p.Ret)-1], sxNil) {
			continue
		}
		key := cn + "|returns-pushed-descriptor"
		ok := false
		for _, r := range p.Calls {
			if r.Callee == BP && p.ErrNil(-1, r) && sxSame(r.Args[a.bpDesc], p.Ret[0]) {
				ok = true
			}
		}
		if ok {
			agg.ok(key, CP, p.RetInstr, "the descriptor returned on success was pushed (nil error) on the same path")
		} else {
			agg.fail(key, CP, p.RetInstr, p, "a successful return yields a descriptor that was not pushed successfully")
		}
		// media type and annotations requested by the caller
		key = cn + "|requested-fields"
		mt, _ := sxFieldByName(p.Ret[0], CP.Signature.Results().At(0).Type(), "MediaType")
		an, _ := sxFieldByName(p.Ret[0], CP.Signature.Results().At(0).Type(), "Annotations")
		sIdx := c19ParamIndexByType(CP, isStringType)
		mIdx := c19ParamIndexByType(CP, func(t types.Type) bool { _, ok := t.Underlying().(*types.Map); return ok })
		okMT := false
		if base, isCall := sxBase(p.Ret[0]).(sxCall); isCall && sIdx >= 0 && base.rec.Name == c19NNewDesc && sxSame(base.rec.Args[0], sxParam{CP.Params[sIdx]}) {
			okMT = true
		}
		_ = mt
		if okMT && mIdx >= 0 && sxSame(an, sxParam{CP.Params[mIdx]}) {
			agg.ok(key, CP, p.RetInstr, "the generated config carries the requested media type and annotations")
		} else {
			agg.fail(key, CP, p.RetInstr, p, "the generated config descriptor does not carry the requested media type / annotations")
		}
	}
	agg.flush()
	// (e) error discipline at the pushes
	for _, F := range []*ssa.Function{MP, BP} {
		for _, call := range CallsTo(F, c19NPush) {
			r := ErrFlow(call, ErrFlowOpts{Tolerated: []string{"~/errdef.ErrAlreadyExists"}})
			c.Check(R3, FnName(F)+"|push-error-surfaces", call.Pos(), r.OK, r.How+r.Detail)
		}
	}
	for _, call := range CallsTo(MP, c19NMarshal) {
		r := ErrFlow(call, ErrFlowOpts{})
		c.Check(R3, mn+"|marshal-error-surfaces", call.Pos(), r.OK, r.How+r.Detail)
	}
	for _, call := range CallsTo(CP, fnFullName(BP)) {
		r := ErrFlow(call, ErrFlowOpts{})
		c.Check(R3, cn+"|push-error-surfaces", call.Pos(), r.OK, r.How+r.Detail)
	}
}

// ---------- R4 ----------

// c19Invented: the descriptor term was built by the packer itself.
func c19Invented(d sxVal) bool {
	switch b := sxBase(d).(type) {
	case sxCall:
		return b.rec.Name == c19NNewDesc
	case sxInit:
		_, ok := b.addr.(sxGlobal)
		return ok
	}
	return false
}

func c19R4(c *Ctx, a *c19Anchors) {
	const R4 = "C19.R4.invented-blobs-pushed"
	c.Expect(R4, 7)
	agg := newC19Agg(c, R4)
	for _, P := range []*ssa.Function{a.v10, a.v11, a.rc2} {
		pn := FnName(P)
		opts, optsT := c19Opts(P)
		res := a.paths(P)
		if res.Err != "" || opts == nil {
			c.Undecided(R4, pn+"|paths", P.Pos(), res.Err)
			continue
		}
		callerLayers, _ := sxFieldByName(opts, optsT, "Layers")
		pushedBefore := func(p *sxPath, n int, d sxVal) bool {
			for _, b := range p.Calls {
				if b.Callee == a.blobPusher && b.NFacts <= n && p.ErrNil(n, b) && sxSame(sxBase(b.Args[a.bpDesc]), sxBase(d)) {
					return true
				}
			}
			return false
		}
		for _, p := range res.Paths {
			for _, r := range p.Calls {
				if r.Callee != a.manifestPusher {
					continue
				}
				in := r.Call.(ssa.Instruction)
				m, mt := c19ManifestArg(a, r)
				cfg, ok1 := sxFieldByName(m, mt, "Config")
				lay, ok2 := sxFieldByName(m, mt, "Layers")
				if !ok1 || !ok2 {
					agg.undecided(pn+"|config", P, in, "manifest value without Config/Layers")
					continue
				}
				key := pn + "|config"
				switch cv := sxBase(cfg).(type) {
				case sxCall:
					switch {
					case cv.rec.Callee == a.configPusher && p.ErrNil(r.NFacts, cv.rec):
						agg.ok(key, P, in, "generated config: "+FnName(a.configPusher)+" succeeded before the manifest push")
					case c19Invented(cfg) && pushedBefore(p, r.NFacts, cfg):
						agg.ok(key, P, in, "config built here was pushed before the manifest")
					default:
						agg.fail(key, P, in, p, "the manifest references a config descriptor ("+sxDescribe(cv)+") that was not pushed successfully on this path")
					}
				case sxInit:
					if _, isGlobal := cv.addr.(sxGlobal); isGlobal {
						if pushedBefore(p, r.NFacts, cfg) {
							agg.ok(key, P, in, "the empty-JSON config was pushed before the manifest")
						} else {
							agg.fail(key, P, in, p, "the manifest references the empty-JSON config blob, which was not pushed on this path (the result cannot be copied)")
						}
					} else {
						agg.ok(key, P, in, "config is the caller's descriptor")
					}
				default:
					agg.undecided(key, P, in, "cannot classify the config descriptor "+sxDescribe(cfg))
				}
				key = pn + "|layers"
				if elems, isLit := sxSliceElems(lay, r.Mem); isLit {
					bad := ""
					for _, e := range elems {
						if c19Invented(e) && !pushedBefore(p, r.NFacts, e) {
							bad = sxDescribe(sxBase(e))
						} else if !c19Invented(e) {
							if _, isZero := e.(sxZero); !isZero {
								if why, unk := sxUnknownIn(e); unk {
									bad = "unevaluated element: " + why
								}
							}
						}
					}
					if bad == "" {
						agg.ok(key, P, in, "every placeholder layer was pushed before the manifest (identity up to the global it was copied from)")
					} else {
						agg.fail(key, P, in, p, "the manifest lists a placeholder layer ("+bad+") that was not pushed on this path (the result cannot be copied)")
					}
				} else if sxSame(lay, callerLayers) || c19IsParam(lay) {
					agg.ok(key, P, in, "layers are the caller's")
				} else if op, isOp := lay.(sxOp); isOp && strings.HasPrefix(op.op, "make:") {
					agg.ok(key, P, in, "layers are a fresh empty slice")
				} else {
					agg.undecided(key, P, in, "cannot classify the layers value "+sxDescribe(lay))
				}
			}
		}
	}
	agg.flush()
	// pushIfNotExist skips only when the blob exists
	BP := a.blobPusher
	bn := FnName(BP)
	agg = newC19Agg(c, R4)
	for _, p := range a.paths(BP).Paths {
		if p.Ret == nil || !sxSame(p.Ret[len(p.Ret)-1], sxNil) {
			continue
		}
		key := bn + "|skips-only-when-present"
		ok := len(p.CallsNamed(c19NPush)) > 0
		for _, e := range p.Calls {
			if strings.HasSuffix(e.Name, ").Exists") && p.ErrNil(-1, e) && sxSame(e.Args[len(e.Args)-1], sxParam{BP.Params[a.bpDesc]}) {
				if v, known := p.Fact(-1, e.Result(0).key()); known && v {
					ok = true
				}
			}
		}
		if ok {
			agg.ok(key, BP, p.RetInstr, "every successful return has pushed, or Exists(desc) returned (true, nil)")
		} else {
			agg.fail(key, BP, p.RetInstr, p, "success is returned without pushing although the blob is not known to exist")
		}
	}
	agg.flush()
}

func c19IsParam(v sxVal) bool { _, ok := v.(sxParam); return ok }

// ---------- R5 ----------

func c19R5(c *Ctx, a *c19Anchors) {
	const R5 = "C19.R5.requested-fields-emitted"
	c.Expect(R5, 18)
	agg := newC19Agg(c, R5)
	imageMT, ok1 := c19ConstString(c.P, "github.com/opencontainers/image-spec/specs-go/v1", "MediaTypeImageManifest")
	artMT, ok2 := c19ConstString(c.P, "internal/spec", "MediaTypeArtifactManifest")
	unkCfg, ok3 := c19ConstString(c.P, "", "MediaTypeUnknownConfig")
	unkArt, ok4 := c19ConstString(c.P, "", "MediaTypeUnknownArtifact")
	if !ok1 || !ok2 || !ok3 || !ok4 {
		c.LostAnchor(R5, "media type constants")
		return
	}
	for _, P := range []*ssa.Function{a.v10, a.v11, a.rc2, a.artifact} {
		pn := FnName(P)
		opts, optsT := c19Opts(P)
		art := c19StringParam(P)
		res := a.paths(P)
		if res.Err != "" || opts == nil || art == nil {
			c.Undecided(R5, pn+"|paths", P.Pos(), res.Err)
			continue
		}
		layersIdx := c19ParamIndexByType(P, func(t types.Type) bool {
			s, ok := t.Underlying().(*types.Slice)
			return ok && c19IsNamed(s.Elem(), "image-spec/specs-go/v1", "Descriptor")
		})
		var reqLayers sxVal
		if layersIdx >= 0 {
			reqLayers = sxParam{P.Params[layersIdx]}
		} else {
			reqLayers, _ = sxFieldByName(opts, optsT, "Layers")
		}
		reqSubject, _ := sxFieldByName(opts, optsT, "Subject")
		cfgPtr, cfgDeref, _ := c19ConfigTerms(opts, optsT)
		cfgAnn, _ := sxFieldByName(opts, optsT, "ConfigAnnotations")
		for _, p := range res.Paths {
			for _, r := range p.Calls {
				if r.Callee != a.manifestPusher {
					continue
				}
				in := r.Call.(ssa.Instruction)
				m, mt := c19ManifestArg(a, r)
				n := r.NFacts
				field := func(name string) sxVal { v, _ := sxFieldByName(m, mt, name); return v }
				check := func(what string, ok bool, okNote, bad string) {
					key := pn + "|" + what
					if ok {
						agg.ok(key, P, in, okNote)
					} else {
						agg.fail(key, P, in, p, bad)
					}
				}
				wantMT := imageMT
				if P == a.artifact {
					wantMT = artMT
				}
				check("mediaType", sxSame(field("MediaType"), sxStr(wantMT)) && sxSame(r.Args[a.mpMedia], sxStr(wantMT)),
					"manifest.MediaType and the descriptor media type are "+wantMT, "manifest.MediaType / the descriptor media type is not "+wantMT)
				if P != a.v10 {
					check("subject", reqSubject != nil && sxSame(field("Subject"), reqSubject), "manifest.Subject = opts.Subject",
						"manifest.Subject is not opts.Subject (got "+sxDescribe(field("Subject"))+"): the requested subject is lost")
				}
				// layers / blobs
				lname := "Layers"
				if P == a.artifact {
					lname = "Blobs"
				}
				lay := field(lname)
				switch {
				case lay == nil:
					check("layers", false, "", "manifest has no "+lname+" field")
				case sxSame(lay, reqLayers):
					emptyKnown := p.IsEmptyString(n, reqLayers) || p.IsNil(n, reqLayers) // len(x)==0 / x==nil
					if P == a.v11 && emptyKnown {
						check("layers", false, "", "empty layers are not replaced by the empty-JSON layer in a 1.1 manifest")
					} else {
						check("layers", true, "manifest."+lname+" = the requested layers (non-empty where the version requires)", "")
					}
				default:
					elems, isLit := sxSliceElems(lay, r.Mem)
					_, isMake := lay.(sxOp)
					emptyKnown := p.IsEmptyString(n, reqLayers) || p.IsNil(n, reqLayers)
					switch {
					case P == a.v11 && isLit && len(elems) == 1 && c19IsEmptyJSON(elems[0]) && emptyKnown:
						check("layers", true, "empty layers become the single empty-JSON layer", "")
					case (P == a.v10 || P == a.rc2) && emptyKnown && (isLit && len(elems) == 0 || isMake):
						check("layers", true, "nil layers become an empty array", "")
					default:
						check("layers", false, "", "manifest."+lname+" ("+sxDescribe(lay)+") is neither the requested layers nor the documented placeholder")
					}
				}
				// config
				if P != a.artifact {
					cfg := field("Config")
					switch {
					case p.NonNil(n, cfgPtr):
						check("config", sxSame(cfg, cfgDeref), "manifest.Config = *opts.ConfigDescriptor when given", "a given config descriptor is not what the manifest carries (got "+sxDescribe(cfg)+")")
					case p.IsNil(n, cfgPtr) && P == a.v11:
						an, _ := sxFieldByName(cfg, c19DescType(c), "Annotations")
						check("config", c19IsEmptyJSON(cfg) && sxSame(an, cfgAnn) && len(sxOverridden(cfg)) <= 1,
							"without a config descriptor the empty-JSON config with opts.ConfigAnnotations is used", "the default config is not DescriptorEmptyJSON + ConfigAnnotations (got "+sxDescribe(cfg)+")")
					case p.IsNil(n, cfgPtr):
						cv, isCall := cfg.(sxCall)
						okc := isCall && cv.rec.Callee == a.configPusher
						if okc {
							sIdx := c19ParamIndexByType(a.configPusher, isStringType)
							mIdx := c19ParamIndexByType(a.configPusher, func(t types.Type) bool { _, ok := t.Underlying().(*types.Map); return ok })
							mtArg := cv.rec.Args[sIdx]
							wantDefault := p.IsEmptyString(n, art)
							okc = sxSame(cv.rec.Args[mIdx], cfgAnn) && (wantDefault && sxSame(mtArg, sxStr(unkCfg)) || !wantDefault && sxSame(mtArg, art))
						}
						check("config", okc, "without a config descriptor a generated config of media type artifactType (default "+unkCfg+") with opts.ConfigAnnotations is used",
							"the generated config does not carry artifactType / the default / ConfigAnnotations (got "+sxDescribe(cfg)+")")
					default:
						agg.undecided(pn+"|config", P, in, "opts.ConfigDescriptor is neither known nil nor non-nil at the manifest push")
					}
				}
				// artifact type
				switch P {
				case a.v11:
					check("artifactType", sxSame(field("ArtifactType"), art) && sxSame(r.Args[a.mpArtifact], art), "manifest.ArtifactType and descriptor.ArtifactType = artifactType",
						"artifactType is not what the manifest / descriptor carry")
				case a.artifact:
					want := art
					if p.IsEmptyString(n, art) {
						want = sxStr(unkArt)
					}
					check("artifactType", sxSame(field("ArtifactType"), want) && sxSame(r.Args[a.mpArtifact], want), "manifest.ArtifactType = artifactType (default "+unkArt+")",
						"artifactType (or its default) is not what the artifact manifest carries")
				default:
					cm, _ := sxFieldByName(field("Config"), c19DescType(c), "MediaType")
					check("artifactType", sxSame(r.Args[a.mpArtifact], cm), "descriptor.ArtifactType = manifest.Config.MediaType",
						"the descriptor's artifact type is not the config media type (got "+sxDescribe(r.Args[a.mpArtifact])+")")
				}
			}
		}
	}
	agg.flush()
}

func c19DescType(c *Ctx) types.Type {
	if n := c.P.Named("github.com/opencontainers/image-spec/specs-go/v1", "Descriptor"); n != nil {
		return n
	}
	return types.Typ[types.Invalid]
}

func c19IsEmptyJSON(d sxVal) bool {
	i, ok := sxBase(d).(sxInit)
	if !ok {
		return false
	}
	g, ok := i.addr.(sxGlobal)
	return ok && g.g.Name() == "DescriptorEmptyJSON"
}

// ---------- R6 ----------

// RFC 6838 §4.2:
//   restricted-name = restricted-name-first *126restricted-name-chars
//   restricted-name-first = ALPHA / DIGIT
//   restricted-name-chars = ALPHA / DIGIT / "!" / "#" / "$" / "&" / "-" / "^" / "_" / "." / "+"
// media type = restricted-name "/" restricted-name  (type and subtype, each ≤127 chars)
const c19RFC6838 = `\A(?:[[:alpha:]]|[[:digit:]])(?:[[:alpha:]]|[[:digit:]]|!|#|\$|&|\-|\^|_|\.|\+){0,126}` +
	`/(?:[[:alpha:]]|[[:digit:]])(?:[[:alpha:]]|[[:digit:]]|!|#|\$|&|\-|\^|_|\.|\+){0,126}\z`

func c19R6(c *Ctx, a *c19Anchors) {
	const R6 = "C19.R6.media-type-language"
	c.Expect(R6, 2)
	V := a.validator
	vn := FnName(V)
	if err := reSelfTest(); err != nil {
		c.Undecided(R6, "engine-self-test", V.Pos(), err.Error())
		return
	}
	gs := reGlobalsUsedBy(V)
	if len(gs) != 1 {
		c.LostAnchor(R6, vn+": the pattern variable it matches against")
		return
	}
	// the validator accepts exactly the strings the pattern matches
	ms := Calls(V, func(n string) bool { return n == "(*regexp.Regexp).MatchString" })
	okUse := len(ms) == 1
	if okUse {
		okUse = SameValue(ms[0].Common().Args[1], V.Params[0])
		te, _ := BoolTests(V, Aliases(ms[0].Value()))
		if len(te) == 0 {
			okUse = false
		}
		for _, at := range RetAtoms(V, 0) {
			if ErrNilStatus(at.Val, 0) != NonNil && !AtomMustPass(at, newCut().Edges(te...)) {
				okUse = false
			}
		}
		for _, r := range Returns(V) {
			_ = r
		}
		// and on the match edge nil is returned: no non-nil return reachable from the true edges
		for _, e := range te {
			if bad := c19NonNilReturnFrom(V, e); bad {
				okUse = false
			}
		}
	}
	c.Check(R6, vn+"|accepts-iff-match", V.Pos(), okUse, ifelse(okUse, "the validator returns nil exactly on the true edge of pattern.MatchString(mediaType)",
		"the validator does not return nil exactly when the pattern matches its parameter"))
	src, err := reGlobalSource(gs[0], 0)
	if err != nil {
		c.Undecided(R6, vn+"|pattern≡RFC6838", V.Pos(), "cannot obtain the pattern text: "+err.Error())
		return
	}
	l, err := reParse(src.Src, src.Flags)
	if err != nil {
		c.Violation(R6, vn+"|pattern≡RFC6838", src.Pos, "the pattern does not compile: "+err.Error())
		return
	}
	eq, w, inRepo, err := reEquivalent(l, reMust(c19RFC6838))
	switch {
	case err != nil:
		c.Undecided(R6, vn+"|pattern≡RFC6838", src.Pos, err.Error())
	case eq:
		c.OK(R6, vn+"|pattern≡RFC6838", src.Pos, "L("+src.Src+") = RFC 6838 restricted-name \"/\" restricted-name (automata equivalence)")
	case inRepo:
		c.Violation(R6, vn+"|pattern≡RFC6838", src.Pos, fmt.Sprintf("the media type pattern accepts %q, which RFC 6838 §4.2 does not allow", w))
	default:
		c.Violation(R6, vn+"|pattern≡RFC6838", src.Pos, fmt.Sprintf("the media type pattern rejects %q, which RFC 6838 §4.2 allows", w))
	}
}

// c19NonNilReturnFrom: a Return with a possibly non-nil error is reachable
// from edge e.
func c19NonNilReturnFrom(fn *ssa.Function, e Edge) bool {
	idx := ErrResultIndex(fn.Signature)
	for _, at := range RetAtoms(fn, idx) {
		if ErrNilStatus(at.Val, 0) == IsNil {
			continue
		}
		// is this atom's return reachable from e.To without leaving through… (plain reachability)
		if reach(e.To, 0, at.Ret, nil) {
			if len(at.Edges) == 0 {
				return true
			}
			// the phi edge must itself be reachable from e
			inner := at.Edges[len(at.Edges)-1]
			if inner.From == e.To || reach(e.To, 0, inner.From.Instrs[len(inner.From.Instrs)-1], nil) || inner == e {
				return true
			}
		}
	}
	return false
}

var c19Mutants = []Mutant{
	{Name: "v11-config-mediatype-not-validated", File: "pack.go",
		Old: "\t\tif err := validateMediaType(opts.ConfigDescriptor.MediaType); err != nil {\n\t\t\treturn ocispec.Descriptor{}, fmt.Errorf(\"invalid config mediaType format: %w\", err)\n\t\t}\n\t\tconfigDesc = *opts.ConfigDescriptor\n\t} else {\n\t\t// use the empty descriptor for config",
		New: "\t\tconfigDesc = *opts.ConfigDescriptor\n\t} else {\n\t\t// use the empty descriptor for config", Expect: "C19.R1"},
	{Name: "v11-artifacttype-validated-after-config-push", File: "pack.go",
		Old: "\tif artifactType != \"\" {\n\t\tif err := validateMediaType(artifactType); err != nil {\n\t\t\treturn ocispec.Descriptor{}, fmt.Errorf(\"invalid artifactType format: %w\", err)\n\t\t}\n\t}\n\n\t// prepare config\n\tvar emptyBlobExists bool\n\tvar configDesc ocispec.Descriptor\n\tif opts.ConfigDescriptor != nil {\n\t\tif err := validateMediaType(opts.ConfigDescriptor.MediaType); err != nil {\n\t\t\treturn ocispec.Descriptor{}, fmt.Errorf(\"invalid config mediaType format: %w\", err)\n\t\t}\n\t\tconfigDesc = *opts.ConfigDescriptor\n\t} else {\n\t\t// use the empty descriptor for config\n\t\tconfigDesc = ocispec.DescriptorEmptyJSON\n\t\tconfigDesc.Annotations = opts.ConfigAnnotations\n\t\tconfigBytes := ocispec.DescriptorEmptyJSON.Data\n\t\t// push config\n\t\tif err := pushIfNotExist(ctx, pusher, configDesc, configBytes); err != nil {\n\t\t\treturn ocispec.Descriptor{}, fmt.Errorf(\"failed to push config: %w\", err)\n\t\t}\n\t\temptyBlobExists = true\n\t}\n",
		New: "\n\t// prepare config\n\tvar emptyBlobExists bool\n\tvar configDesc ocispec.Descriptor\n\tif opts.ConfigDescriptor != nil {\n\t\tif err := validateMediaType(opts.ConfigDescriptor.MediaType); err != nil {\n\t\t\treturn ocispec.Descriptor{}, fmt.Errorf(\"invalid config mediaType format: %w\", err)\n\t\t}\n\t\tconfigDesc = *opts.ConfigDescriptor\n\t} else {\n\t\t// use the empty descriptor for config\n\t\tconfigDesc = ocispec.DescriptorEmptyJSON\n\t\tconfigDesc.Annotations = opts.ConfigAnnotations\n\t\tconfigBytes := ocispec.DescriptorEmptyJSON.Data\n\t\t// push config\n\t\tif err := pushIfNotExist(ctx, pusher, configDesc, configBytes); err != nil {\n\t\t\treturn ocispec.Descriptor{}, fmt.Errorf(\"failed to push config: %w\", err)\n\t\t}\n\t\temptyBlobExists = true\n\t}\n\tif artifactType != \"\" {\n\t\tif err := validateMediaType(artifactType); err != nil {\n\t\t\treturn ocispec.Descriptor{}, fmt.Errorf(\"invalid artifactType format: %w\", err)\n\t\t}\n\t}\n", Expect: "C19.R1"},
	{Name: "v10-validates-the-default-instead", File: "pack.go",
		Old: "\t\t} else if err := validateMediaType(artifactType); err != nil {", New: "\t\t} else if err := validateMediaType(MediaTypeUnknownConfig); err != nil {", Expect: "C19.R1"},
	{Name: "v11-artifacttype-validation-error-ignored", File: "pack.go",
		Old: "\tif artifactType != \"\" {\n\t\tif err := validateMediaType(artifactType); err != nil {\n\t\t\treturn ocispec.Descriptor{}, fmt.Errorf(\"invalid artifactType format: %w\", err)\n\t\t}\n\t}",
		New: "\tif artifactType != \"\" {\n\t\t_ = validateMediaType(artifactType)\n\t}", Expect: "C19.R1"},
	{Name: "v10-subject-accepted", File: "pack.go",
		Old: "\tif opts.Subject != nil {\n\t\treturn ocispec.Descriptor{}, fmt.Errorf(\"subject is not supported", New: "\tif opts.Subject != nil && opts.Layers == nil {\n\t\treturn ocispec.Descriptor{}, fmt.Errorf(\"subject is not supported", Expect: "C19.R1"},
	{Name: "v11-missing-artifacttype-with-empty-config", File: "pack.go",
		Old: "\tif artifactType == \"\" && (opts.ConfigDescriptor == nil || opts.ConfigDescriptor.MediaType == ocispec.MediaTypeEmptyJSON) {", New: "\tif artifactType == \"\" && opts.ConfigDescriptor == nil {", Expect: "C19.R1"},
	{Name: "unknown-version-falls-back-to-1.1", File: "pack.go",
		Old: "\tdefault:\n\t\treturn ocispec.Descriptor{}, fmt.Errorf(\"PackManifestVersion(%v): %w\", packManifestVersion, errdef.ErrUnsupported)", New: "\tdefault:\n\t\treturn packManifestV1_1(ctx, pusher, artifactType, opts)", Expect: "C19.R1"},
	{Name: "artifact-created-time-error-ignored", File: "pack.go",
		Old: "\tannotations, err := ensureAnnotationCreated(opts.ManifestAnnotations, spec.AnnotationArtifactCreated)\n\tif err != nil {\n\t\treturn ocispec.Descriptor{}, err\n\t}",
		New: "\tannotations, _ := ensureAnnotationCreated(opts.ManifestAnnotations, spec.AnnotationArtifactCreated)", Expect: "C19.R2"},
	{Name: "created-time-parsed-with-other-layout", File: "pack.go",
		Old: "\t\tif _, err := time.Parse(time.RFC3339, createdTime); err != nil {", New: "\t\tif _, err := time.Parse(time.RFC1123, createdTime); err != nil {", Expect: "C19.R2"},
	{Name: "rc2-raw-annotations-in-manifest", File: "pack.go",
		Old: "\t\tSubject:     opts.Subject,\n\t\tAnnotations: annotations,\n\t}\n\treturn pushManifest(ctx, pusher, manifest, manifest.MediaType, manifest.Config.MediaType, manifest.Annotations)",
		New: "\t\tSubject:     opts.Subject,\n\t\tAnnotations: opts.ManifestAnnotations,\n\t}\n\t_ = annotations\n\treturn pushManifest(ctx, pusher, manifest, manifest.MediaType, manifest.Config.MediaType, manifest.Annotations)", Expect: "C19.R2"},
	{Name: "created-time-set-in-callers-map", File: "pack.go",
		Old: "\tcopied := make(map[string]string, len(annotations)+1)\n\tmaps.Copy(copied, annotations)", New: "\tcopied := annotations\n\tif copied == nil {\n\t\tcopied = map[string]string{}\n\t}\n\tmaps.Copy(copied, annotations)", Expect: "C19.R2"},
	{Name: "manifest-descriptor-of-other-bytes", File: "pack.go",
		Old: "\tmanifestDesc := content.NewDescriptorFromBytes(mediaType, manifestJSON)", New: "\tmanifestDesc := content.NewDescriptorFromBytes(mediaType, append(manifestJSON, '\\n'))", Expect: "C19.R3"},
	{Name: "empty-config-pushed-with-empty-bytes", File: "pack.go",
		Old: "\tif err := pushIfNotExist(ctx, pusher, configDesc, configBytes); err != nil {\n\t\treturn ocispec.Descriptor{}, fmt.Errorf(\"failed to push config: %w\", err)\n\t}\n\treturn configDesc, nil",
		New: "\tif err := pushIfNotExist(ctx, pusher, configDesc, []byte{}); err != nil {\n\t\treturn ocispec.Descriptor{}, fmt.Errorf(\"failed to push config: %w\", err)\n\t}\n\treturn configDesc, nil", Expect: "C19.R3"},
	{Name: "manifest-push-error-swallowed", File: "pack.go",
		Old: "\tif err := pusher.Push(ctx, manifestDesc, bytes.NewReader(manifestJSON)); err != nil && !errors.Is(err, errdef.ErrAlreadyExists) {", New: "\tif err := pusher.Push(ctx, manifestDesc, bytes.NewReader(manifestJSON)); err != nil && !errors.Is(err, errdef.ErrAlreadyExists) && !errors.Is(err, errdef.ErrUnsupported) {", Expect: "C19.R3"},
	{Name: "manifest-size-overwritten", File: "pack.go",
		Old: "\tmanifestDesc.ArtifactType = artifactType\n", New: "\tmanifestDesc.ArtifactType = artifactType\n\tmanifestDesc.Size = int64(len(mediaType))\n", Expect: "C19.R3"},
	{Name: "empty-layer-never-pushed", File: "pack.go",
		Old: "\tvar emptyBlobExists bool\n", New: "\temptyBlobExists := true\n", Expect: "C19.R4"},
	{Name: "v11-empty-config-not-pushed", File: "pack.go",
		Old: "\t\tif err := pushIfNotExist(ctx, pusher, configDesc, configBytes); err != nil {\n\t\t\treturn ocispec.Descriptor{}, fmt.Errorf(\"failed to push config: %w\", err)\n\t\t}\n\t\temptyBlobExists = true",
		New: "\t\t_ = configBytes\n\t\temptyBlobExists = len(opts.Layers) > 0", Expect: "C19.R4"},
	{Name: "push-skipped-on-small-blobs", File: "pack.go",
		Old: "\t\tif exists {\n\t\t\treturn nil\n\t\t}\n\t}\n\n\tif err := pusher.Push(ctx, desc, bytes.NewReader(data))", New: "\t\tif exists || desc.Size == 2 {\n\t\t\treturn nil\n\t\t}\n\t}\n\n\tif err := pusher.Push(ctx, desc, bytes.NewReader(data))", Expect: "C19.R4"},
	{Name: "v11-subject-dropped", File: "pack.go",
		Old: "\t\tSubject:      opts.Subject,\n\t\tArtifactType: artifactType,\n\t\tAnnotations:  annotations,\n\t}\n\treturn pushManifest(ctx, pusher, manifest, manifest.MediaType, manifest.ArtifactType, manifest.Annotations)\n}\n\n// pushIfNotExist",
		New: "\t\tArtifactType: artifactType,\n\t\tAnnotations:  annotations,\n\t}\n\treturn pushManifest(ctx, pusher, manifest, manifest.MediaType, manifest.ArtifactType, manifest.Annotations)\n}\n\n// pushIfNotExist", Expect: "C19.R5"},
	{Name: "v11-empty-layers-kept-empty", File: "pack.go",
		Old: "\t\topts.Layers = []ocispec.Descriptor{layerDesc}\n", New: "\t\t_ = layerDesc\n", Expect: "C19.R5"},
	{Name: "v10-config-annotations-dropped", File: "pack.go",
		Old: "\t\tconfigDesc, err = pushCustomEmptyConfig(ctx, pusher, artifactType, opts.ConfigAnnotations)\n\t\tif err != nil {\n\t\t\treturn ocispec.Descriptor{}, err\n\t\t}\n\t}\n\n\tannotations, err := ensureAnnotationCreated(opts.ManifestAnnotations, ocispec.AnnotationCreated)\n\tif err != nil {\n\t\treturn ocispec.Descriptor{}, err\n\t}\n\tif opts.Layers == nil {",
		New: "\t\tconfigDesc, err = pushCustomEmptyConfig(ctx, pusher, artifactType, nil)\n\t\tif err != nil {\n\t\t\treturn ocispec.Descriptor{}, err\n\t\t}\n\t}\n\n\tannotations, err := ensureAnnotationCreated(opts.ManifestAnnotations, ocispec.AnnotationCreated)\n\tif err != nil {\n\t\treturn ocispec.Descriptor{}, err\n\t}\n\tif opts.Layers == nil {", Expect: "C19.R5"},
	{Name: "media-type-128-chars", File: "pack.go",
		Old: "{0,126}/[A-Za-z0-9]", New: "{0,127}/[A-Za-z0-9]", Expect: "C19.R6"},
	{Name: "media-type-unanchored-end", File: "pack.go",
		Old: "[A-Za-z0-9!#$&^_.+-]{0,126}$`)", New: "[A-Za-z0-9!#$&^_.+-]{0,126}`)", Expect: "C19.R6"},
	{Name: "media-type-allows-star", File: "pack.go",
		Old: "/[A-Za-z0-9][A-Za-z0-9!#$&^_.+-]{0,126}$", New: "/[A-Za-z0-9][A-Za-z0-9!#$&^_.+*-]{0,126}$", Expect: "C19.R6"},
	{Name: "validator-accepts-empty", File: "pack.go",
		Old: "\tif !mediaTypeRegexp.MatchString(mediaType) {", New: "\tif !mediaTypeRegexp.MatchString(mediaType) && mediaType != \"\" {", Expect: "C19.R6"},
	{Name: "validator-inverted", File: "pack.go",
		Old: "\tif !mediaTypeRegexp.MatchString(mediaType) {", New: "\tif mediaTypeRegexp.MatchString(mediaType) && len(mediaType) > 255 {", Expect: "C19.R6"},
}
