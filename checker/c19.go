package main

// C19 — PackManifest produces a valid, self-consistent, pushable manifest.
//
// R1 validate-before-push (+ subject rejection for 1.0, missing artifact type
//    for 1.1, version dispatch), R2 created-time checked and used,
// R3 descriptor ⇔ bytes identity, R4 invented blobs are pushed,
// R5 requested fields are emitted, R6 media-type language (RFC 6838).
//
// All path rules run on the symbolic path enumeration of c19_util.go: a rule
// is evaluated on every feasible path of the packer, at every call that can
// reach content.Pusher.Push.  Unexported helpers are located by role.

import (
	"fmt"
	"go/constant"
	"go/types"
	"strings"

	"golang.org/x/tools/go/ssa"
)

func init() {
	register(&propDef{
		ID: "C19",
		Explain: "Decided: (R1) on every path of the 1.0/1.1 packers, at every call that can reach Pusher.Push, the artifactType parameter and " +
			"opts.ConfigDescriptor.MediaType — whenever they flow into what is pushed — were accepted by the media-type validator or are known empty; " +
			"a 1.0 subject and a missing 1.1 artifact type are rejected before any such call; PackManifest dispatches only on the two known versions; " +
			"(R2) the created-time helper succeeded before the manifest push and its result is what becomes Annotations; it fails iff time.Parse(RFC3339) fails; " +
			"(R3) at every execution of Pusher.Push reached from a packer (unexported helpers executed in place) the bytes described (NewDescriptorFromBytes / " +
			"DescriptorEmptyJSON.Data) are the bytes pushed (bytes.NewReader), the manifest bytes are json.Marshal(manifest) with nil error, the returned descriptor is the " +
			"one pushed, success is returned only if every push returned nil or ErrAlreadyExists; (R4) every descriptor the packer invents (empty JSON config/layer, " +
			"generated config) has been pushed, or found by Exists==(true,nil), earlier on the same path; (R5) the manifest literal carries the requested config, layers, subject, " +
			"artifact type, annotations and media type; (R6) the media-type pattern is language-equivalent to RFC 6838 restricted-name \"/\" restricted-name. " +
			"NOT decided (not applicable to static analysis): that the stored bytes parse back to the requested values (encoding/json semantics), digest/size arithmetic, " +
			"determinism beyond the single time source, behaviour of the caller's Pusher.",
		Run:     runC19,
		Mutants: c19Mutants,
	})
}

const (
	c19NPush    = "(~/content.Pusher).Push"
	c19NNewDesc = "~/content.NewDescriptorFromBytes"
	c19NMarshal = "encoding/json.Marshal"
	c19NReader  = "bytes.NewReader"
)

// c19Mode is one documented way of packing: an exported entry point plus the
// condition under which it is selected (a manifest version, or the
// PackImageManifest flag).  The only anchors are the two exported entry points;
// everything unexported below them (packers, helpers, function literals,
// dispatch tables) is executed in place, so the rules see Pusher.Push,
// json.Marshal, NewDescriptorFromBytes, time.Parse, pattern matches …
// themselves, however the code between them is cut into functions.
type c19Mode struct {
	name  string
	entry *ssa.Function
	key   string // fact key that selects the mode
	val   bool   // its required value
}

// of: the path belongs to this mode.
func (m *c19Mode) of(p *sxPath) bool {
	v, known := p.Fact(-1, m.key)
	return known && v == m.val
}

type c19Anchors struct {
	packManifest, pack      *ssa.Function
	v10, v11, rc2, artifact *c19Mode
	rfcPatterns             map[string]bool // pattern texts proved ≡ RFC 6838 (R6)
}

func (a *c19Anchors) paths(fn *ssa.Function) *sxResult { return sxPathsInline(fn, "c19", sxHelper) }

// modePaths: the feasible paths of the mode's entry point that belong to it.
func (a *c19Anchors) modePaths(m *c19Mode) (paths []*sxPath, err string) {
	res := a.paths(m.entry)
	for _, p := range res.Paths {
		if m.of(p) {
			paths = append(paths, p)
		}
	}
	return paths, res.Err
}

func c19ReachesPush(f *ssa.Function) bool {
	return f != nil && inModule(f) && reachesCall(f, 6, func(n string, _ ssa.CallInstruction) bool { return n == c19NPush })
}

func c19IsPushCall(r *sxCallRec) bool {
	if r.Deferred {
		return false
	}
	return r.Name == c19NPush || c19ReachesPush(r.Callee)
}

func c19ConstString(p *Prog, pkg, name string) (string, bool) {
	c, ok := p.Obj(pkg, name).(*types.Const)
	if !ok || c.Val().Kind() != constant.String {
		return "", false
	}
	return constant.StringVal(c.Val()), true
}

func c19ParamIndexByType(f *ssa.Function, pred func(t types.Type) bool) int {
	idx := -1
	for i, p := range f.Params {
		if pred(p.Type()) {
			if idx >= 0 {
				return -2 // ambiguous
			}
			idx = i
		}
	}
	return idx
}

func c19IsNamed(t types.Type, pkgSuffix, name string) bool {
	n, ok := t.(*types.Named)
	return ok && n.Obj().Name() == name && n.Obj().Pkg() != nil && strings.HasSuffix(n.Obj().Pkg().Path(), pkgSuffix)
}

func c19Resolve(c *Ctx) *c19Anchors {
	const R = "C19.anchors"
	a := &c19Anchors{}
	a.packManifest = c.P.Fn("", "PackManifest")
	a.pack = c.P.Fn("", "Pack")
	if a.packManifest == nil || a.pack == nil {
		c.LostAnchor(R, "~.PackManifest / ~.Pack")
		return nil
	}
	verConst := func(name string) string {
		if k, ok := c.P.Obj("", name).(*types.Const); ok {
			return "const:" + k.Val().ExactString()
		}
		return ""
	}
	k10, k11 := verConst("PackManifestVersion1_0"), verConst("PackManifestVersion1_1")
	if k10 == "" || k11 == "" {
		c.LostAnchor(R, "~.PackManifestVersion1_0 / 1_1")
		return nil
	}
	verIdx := c19ParamIndexByType(a.packManifest, func(t types.Type) bool { return c19IsNamed(t, Mod, "PackManifestVersion") })
	if verIdx < 0 {
		c.LostAnchor(R, "PackManifest: parameter of type PackManifestVersion")
		return nil
	}
	ver := sxParam{a.packManifest.Params[verIdx]}
	optsIdx := c19ParamIndexByType(a.pack, func(t types.Type) bool { return c19IsNamed(t, Mod, "PackOptions") })
	if optsIdx < 0 {
		c.LostAnchor(R, "Pack: parameter of type PackOptions")
		return nil
	}
	flag, ok := sxFieldByName(sxParam{a.pack.Params[optsIdx]}, a.pack.Params[optsIdx].Type(), "PackImageManifest")
	if !ok {
		c.LostAnchor(R, "PackOptions.PackImageManifest")
		return nil
	}
	a.v10 = &c19Mode{"~.PackManifest[1.0]", a.packManifest, sxEqKeyStr(ver.key(), k10), true}
	a.v11 = &c19Mode{"~.PackManifest[1.1]", a.packManifest, sxEqKeyStr(ver.key(), k11), true}
	a.rc2 = &c19Mode{"~.Pack[image]", a.pack, flag.key(), true}
	a.artifact = &c19Mode{"~.Pack[artifact]", a.pack, flag.key(), false}
	for _, f := range []*ssa.Function{a.packManifest, a.pack} {
		if res := a.paths(f); res.Err != "" {
			c.Undecided(R, FnName(f)+"|paths", f.Pos(), res.Err)
			return nil
		}
	}
	for _, m := range []*c19Mode{a.v10, a.v11, a.rc2, a.artifact} {
		if ps, _ := a.modePaths(m); len(ps) == 0 {
			c.LostAnchor(R, m.name+": no path of "+FnName(m.entry)+" is selected by its version / flag")
			return nil
		}
	}
	return a
}

func sxEqKeyStr(ka, kb string) string {
	if ka > kb {
		ka, kb = kb, ka
	}
	return "==(" + ka + "," + kb + ")"
}

type c19Agg struct {
	c     *Ctx
	rule  string
	order []string
	m     map[string]*c19AggE
}
type c19AggE struct {
	pos     ssa.Instruction
	fn      *ssa.Function
	bad     []string
	undec   []string
	okNotes []string
	n       int
}

func newC19Agg(c *Ctx, rule string) *c19Agg {
	return &c19Agg{c: c, rule: rule, m: map[string]*c19AggE{}}
}

func (a *c19Agg) entry(key string, fn *ssa.Function, at ssa.Instruction) *c19AggE {
	e, ok := a.m[key]
	if !ok {
		e = &c19AggE{pos: at, fn: fn}
		a.m[key] = e
		a.order = append(a.order, key)
	}
	e.n++
	return e
}
func (a *c19Agg) ok(key string, fn *ssa.Function, at ssa.Instruction, note string) {
	e := a.entry(key, fn, at)
	for _, x := range e.okNotes {
		if x == note {
			return
		}
	}
	e.okNotes = append(e.okNotes, note)
}
func (a *c19Agg) fail(key string, fn *ssa.Function, at ssa.Instruction, p *sxPath, msg string) {
	e := a.entry(key, fn, at)
	e.bad = append(e.bad, msg+c19PathNote(p))
}
func (a *c19Agg) undecided(key string, fn *ssa.Function, at ssa.Instruction, msg string) {
	e := a.entry(key, fn, at)
	e.undec = append(e.undec, msg)
}
func (a *c19Agg) flush() {
	for _, k := range a.order {
		e := a.m[k]
		pos := e.fn.Pos()
		if e.pos != nil && e.pos.Pos().IsValid() {
			pos = e.pos.Pos()
		}
		switch {
		case len(e.bad) > 0:
			a.c.Violation(a.rule, k, pos, fmt.Sprintf("%s (%d of %d path evaluations fail)", e.bad[0], len(e.bad), e.n))
		case len(e.undec) > 0:
			a.c.Undecided(a.rule, k, pos, e.undec[0])
		default:
			a.c.OK(a.rule, k, pos, fmt.Sprintf("%s (%d path evaluations)", strings.Join(e.okNotes, " / "), e.n))
		}
	}
}

func c19PathNote(p *sxPath) string {
	if p == nil {
		return ""
	}
	var bs []string
	for _, b := range p.Blocks {
		bs = append(bs, fmt.Sprint(b.Index))
	}
	return " [path: blocks " + strings.Join(bs, "→") + "]"
}

func c19NonNilErr(e sxVal) bool {
	switch u := e.(type) {
	case sxCall:
		if u.rec.Name == "fmt.Errorf" || u.rec.Name == "errors.New" {
			return true
		}
		// an error constructor of the module: every return of it is non-nil
		if v := u.rec.Call.Value(); v != nil && u.rec.Callee != nil && inModule(u.rec.Callee) && isErrorType(v.Type()) {
			return ErrNilStatus(v, 0) == NonNil
		}
		return false
	case sxInit:
		_, ok := u.addr.(sxGlobal)
		return ok
	}
	return false
}

// ---------- R2 ----------

func runC19(c *Ctx) {
	a := c19Resolve(c)
	if a == nil {
		return
	}
	c19R6(c, a) // first: R1 needs to know which patterns are RFC 6838
	c19R1(c, a)
	c19R2(c, a)
	c19R3(c, a)
	c19R4(c, a)
	c19R5(c, a)
}

// ---------- push events ----------

// c19Push is one execution of Pusher.Push on a path (helpers inlined).
type c19Push struct {
	rec      *sxCallRec
	desc     sxVal
	data     sxVal      // the bytes given to bytes.NewReader (nil: reader of another shape)
	marshal  *sxCallRec // json.Marshal producing data: this is a manifest push
	manifest sxVal      // the value marshalled
	kind     string     // manifest | empty-json | generated-blob | blob
}

func c19PushEvents(p *sxPath) []c19Push {
	var out []c19Push
	for _, r := range p.Calls {
		if r.Name != c19NPush || r.Deferred || len(r.Args) != 3 {
			continue
		}
		e := c19Push{rec: r, desc: r.Args[1], kind: "blob"}
		if rd, ok := r.Args[2].(sxCall); ok && (rd.rec.Name == c19NReader || rd.rec.Name == "bytes.NewBuffer") && len(rd.rec.Args) == 1 {
			e.data = rd.rec.Args[0]
		}
		if m, ok := e.data.(sxCall); ok && m.rec.Name == c19NMarshal && m.idx == 0 {
			e.marshal, e.manifest, e.kind = m.rec, m.rec.Args[0], "manifest"
		} else if c19IsEmptyJSON(e.desc) {
			e.kind = "empty-json"
		} else if b, ok := sxBase(e.desc).(sxCall); ok && b.rec.Name == c19NNewDesc {
			e.kind = "generated-blob"
		}
		out = append(out, e)
	}
	return out
}

func c19IsAlreadyExists(v sxVal) bool {
	i, ok := v.(sxInit)
	if !ok {
		return false
	}
	g, ok := i.addr.(sxGlobal)
	return ok && g.g.Name() == "ErrAlreadyExists" && strings.HasSuffix(g.g.Pkg.Pkg.Path(), "/errdef")
}

// c19Succeeded: among the first n facts the push is known to have returned
// nil or errdef.ErrAlreadyExists (errors.Is / ==).
func c19Succeeded(p *sxPath, n int, r *sxCallRec) bool {
	if p.ErrNil(n, r) {
		return true
	}
	errT := r.Result(-1)
	for _, c := range p.Calls {
		if c.Name == "errors.Is" && len(c.Args) == 2 && sxSame(c.Args[0], errT) && c19IsAlreadyExists(c.Args[1]) {
			if v, known := p.Fact(n, c.Result(0).key()); known && v {
				return true
			}
		}
	}
	for _, f := range p.Facts {
		if op, ok := f.Cond.(sxOp); ok && (op.op == "==" || op.op == "!=") && f.Val {
			x, y := op.args[0], op.args[1]
			if (sxSame(x, errT) && c19IsAlreadyExists(y)) || (sxSame(y, errT) && c19IsAlreadyExists(x)) {
				if v, known := p.Fact(n, f.Key); known && v {
					return true
				}
			}
		}
	}
	return false
}

// c19Present: before call `at`, the blob described by d was pushed
// successfully, or Exists(d) returned (true, nil) — identity up to the value
// the descriptor was copied from.
func c19Present(p *sxPath, at *sxCallRec, d sxVal) bool {
	n := at.NFacts
	for _, r := range p.Calls {
		if r == at {
			break
		}
		if r.Deferred {
			continue
		}
		if r.Name == c19NPush && len(r.Args) == 3 && sxSame(sxBase(r.Args[1]), sxBase(d)) && c19Succeeded(p, n, r) {
			return true
		}
		if strings.HasSuffix(r.Name, ").Exists") && len(r.Args) > 0 && sxSame(sxBase(r.Args[len(r.Args)-1]), sxBase(d)) && p.ErrNil(n, r) {
			if v, known := p.Fact(n, r.Result(0).key()); known && v {
				return true
			}
		}
	}
	return false
}

// c19Opaque: a call on the path that can reach Pusher.Push but was not
// executed in place (inline depth / recursion): the rules cannot see through it.
func c19Opaque(p *sxPath, a *c19Anchors) string {
	for _, r := range p.Calls {
		if r.Callee != nil && r.Name != c19NPush && c19ReachesPush(r.Callee) {
			return r.Name
		}
	}
	return ""
}

// sxFieldNamed: field `name` of a struct term built on the path.
func sxFieldNamed(v sxVal, name string) (sxVal, bool) {
	for {
		s, ok := v.(sxStruct)
		if !ok {
			return nil, false
		}
		for k, n := range s.names {
			if n == name {
				return s.fields[k], true
			}
		}
		if s.base == nil {
			return sxZero{}, false
		}
		v = s.base
	}
}

// ---------- R1 ----------

type c19Subject struct {
	label string
	term  sxVal   // the string itself
	whole []sxVal // container terms that include it (whole descriptor copy)
}

func c19Opts(P *ssa.Function) (sxVal, types.Type) {
	i := c19ParamIndexByType(P, func(t types.Type) bool {
		return c19IsNamed(t, Mod, "PackManifestOptions") || c19IsNamed(t, Mod, "PackOptions")
	})
	if i < 0 {
		return nil, nil
	}
	return sxParam{P.Params[i]}, P.Params[i].Type()
}

func c19StringParam(P *ssa.Function) sxVal {
	i := c19ParamIndexByType(P, isStringType)
	if i < 0 {
		return nil
	}
	return sxParam{P.Params[i]}
}

// c19ConfigTerms: opts.ConfigDescriptor (pointer), *opts.ConfigDescriptor, (*opts.ConfigDescriptor).MediaType.
func c19ConfigTerms(opts sxVal, optsT types.Type) (ptr, deref, media sxVal) {
	ptr, ok := sxFieldByName(opts, optsT, "ConfigDescriptor")
	if !ok {
		return nil, nil, nil
	}
	deref = sxInit{ptr}
	media = sxField{x: deref, field: 0, name: "MediaType"}
	return
}

// c19PatternCalls: the pattern matches of x on the path — calls
// (*regexp.Regexp).MatchString(<pattern>, x) — with the pattern each one uses
// (package-level variable, accessor or lazily initialised; nil if unresolved).
func c19PatternCalls(p *sxPath, x sxVal) (calls []*sxCallRec, srcs []*reSource) {
	for _, r := range p.Calls {
		if r.Name != "(*regexp.Regexp).MatchString" || len(r.Args) == 0 || !sxSame(r.Args[len(r.Args)-1], x) {
			continue
		}
		var recv ssa.Value
		switch {
		case r.RecvSSA != nil: // method value: isValid := pattern.MatchString
			recv = r.RecvSSA
		case len(r.Args) == 2 && len(r.Call.Common().Args) == 2:
			recv = r.Call.Common().Args[0]
		}
		var src *reSource
		if recv != nil {
			if s, err := reSourceOfReceiver(recv, 0); err == nil {
				src = s
			}
		}
		calls = append(calls, r)
		srcs = append(srcs, src)
	}
	return
}

func c19PatternKey(src *reSource) string { return fmt.Sprintf("%d:%s", src.Flags, src.Src) }

// c19Validated: among the first n facts, x is known to match a pattern that
// was proved language-equivalent to RFC 6838 (wherever the match is written:
// a validator function, a helper, or the packer itself).
func c19Validated(p *sxPath, n int, a *c19Anchors, x sxVal) bool {
	direct := func(x sxVal) bool {
		calls, srcs := c19PatternCalls(p, x)
		for i, r := range calls {
			if srcs[i] == nil || !a.rfcPatterns[c19PatternKey(srcs[i])] {
				continue
			}
			if v, known := p.Fact(n, r.Result(0).key()); known && v {
				return true
			}
		}
		return false
	}
	if direct(x) {
		return true
	}
	// x is known equal to a string that matched (a pure re-validation of an identical value may be skipped)
	for _, r := range p.Calls {
		if r.Name == "(*regexp.Regexp).MatchString" && len(r.Args) > 0 {
			y := r.Args[len(r.Args)-1]
			if eq, known := p.KnownEq(n, x, y); known && eq && !sxSame(x, y) && direct(y) {
				return true
			}
		}
	}
	return false
}

func c19NonEmptyString(p *sxPath, n int, v sxVal) bool {
	if val, known := p.KnownEq(n, v, sxStr("")); known && !val {
		return true
	}
	if val, known := p.KnownEq(n, sxOp{"len", []sxVal{v}}, sxInt(0)); known && !val {
		return true
	}
	return false
}

func c19R1(c *Ctx, a *c19Anchors) {
	const R1 = "C19.R1.validate-before-push"
	c.Expect(R1, 13)
	agg := newC19Agg(c, R1)
	emptyJSON, okE := c19ConstString(c.P, "github.com/opencontainers/image-spec/specs-go/v1", "MediaTypeEmptyJSON")
	if !okE {
		c.LostAnchor(R1, "ocispec.MediaTypeEmptyJSON")
	}
	for _, M := range []*c19Mode{a.v10, a.v11} {
		P := M.entry
		pn := M.name
		opts, optsT := c19Opts(P)
		art := c19StringParam(P)
		if opts == nil || art == nil {
			c.LostAnchor(R1, pn+": options / artifactType parameters")
			continue
		}
		cfgPtr, cfgDeref, cfgMedia := c19ConfigTerms(opts, optsT)
		subjPtr, _ := sxFieldByName(opts, optsT, "Subject")
		if cfgPtr == nil || subjPtr == nil {
			c.LostAnchor(R1, pn+": PackManifestOptions.ConfigDescriptor / Subject")
			continue
		}
		subjects := []c19Subject{
			{label: "artifactType", term: art},
			{label: "config.mediaType", term: cfgMedia, whole: []sxVal{cfgDeref}},
		}
		res := a.paths(P)
		if res.Err != "" {
			c.Undecided(R1, pn+"|paths", P.Pos(), res.Err)
			continue
		}
		nPush := 0
		for _, p := range res.Paths {
			if !M.of(p) {
				continue
			}
			if name := c19Opaque(p, a); name != "" {
				agg.undecided(pn+"|helpers", P, nil, "the helper "+name+" reaches Pusher.Push but lies too deep to be followed (inlining depth "+fmt.Sprint(sxInlineDepth)+")")
				continue
			}
			pushes := c19PushEvents(p)
			// first pass: into which pushes of this path does each subject flow
			type flowInfo struct{ flows, wholesale bool }
			flow := make([][]flowInfo, len(pushes))
			lastFlow := make([]int, len(subjects))
			for si := range lastFlow {
				lastFlow[si] = -1
			}
			for pi, e := range pushes {
				flow[pi] = make([]flowInfo, len(subjects))
				for si, s := range subjects {
					fi := &flow[pi][si]
					for _, arg := range e.rec.Args {
						sxWalk(arg, func(x sxVal) bool {
							if sxSame(x, s.term) {
								fi.flows = true
							}
							for _, w := range s.whole {
								if sxSame(x, w) {
									fi.flows = true
								}
							}
							if sxSame(x, opts) {
								fi.wholesale = true // only a wholesale use counts
							}
							if f, ok := x.(sxField); ok && sxSame(f.x, opts) {
								return false // do not descend from opts.F into opts
							}
							return true
						})
					}
					if fi.flows || fi.wholesale {
						lastFlow[si] = pi
					}
				}
			}
			for pi, e := range pushes {
				nPush++
				r := e.rec
				site := "push:" + e.kind
				in := r.Call.(ssa.Instruction)
				for si, s := range subjects {
					key := pn + "|" + site + "|" + s.label
					undec := false
					for _, arg := range r.Args {
						if why, unk := sxUnknownIn(arg); unk {
							agg.undecided(key, P, in, "what is pushed here could not be evaluated: "+why)
							undec = true
						}
					}
					if undec {
						continue
					}
					fi := flow[pi][si]
					switch {
					case fi.wholesale:
						agg.undecided(key, P, in, "the options struct itself flows into what is pushed; cannot follow the media type into it")
					case lastFlow[si] < pi:
						agg.ok(key, P, in, "the string is not used by this or any later push of these paths")
					case c19Validated(p, r.NFacts, a, s.term):
						agg.ok(key, P, in, "known to match the RFC 6838 pattern before the push")
					case si == 0 && p.IsEmptyString(r.NFacts, s.term):
						agg.ok(key, P, in, "known empty before the push (an empty artifactType is documented as \"not given\")")
					case fi.flows:
						agg.fail(key, P, in, p, fmt.Sprintf("%s reaches what is pushed here (%s) without being known to match the RFC 6838 media type pattern (a violating media type would be pushed instead of rejected)",
							s.label, e.kind))
					default:
						agg.fail(key, P, in, p, fmt.Sprintf("%s is used by a later push of this path (%s) but is not yet known to match the RFC 6838 pattern when the %s is pushed: a violating media type would be rejected only after something was pushed",
							s.label, pushes[lastFlow[si]].kind, e.kind))
					}
				}
				if M == a.v10 {
					key := pn + "|" + site + "|subject-rejected"
					if p.IsNil(r.NFacts, subjPtr) {
						agg.ok(key, P, in, "opts.Subject == nil is established before the push")
					} else {
						agg.fail(key, P, in, p, "a push is reachable with opts.Subject set: version 1.0 has no subject field, the request must be rejected before anything is pushed")
					}
				}
				if M == a.v11 && okE {
					key := pn + "|" + site + "|artifact-type-present"
					eq, known := p.KnownEq(r.NFacts, cfgMedia, sxStr(emptyJSON))
					if c19NonEmptyString(p, r.NFacts, art) || (p.NonNil(r.NFacts, cfgPtr) && known && !eq) {
						agg.ok(key, P, in, "artifactType is non-empty, or a non-empty-JSON config descriptor is given, before the push")
					} else {
						agg.fail(key, P, in, p, "a push is reachable with an empty artifactType and no (or the empty-JSON) config media type: ErrMissingArtifactType must be returned before anything is pushed")
					}
				}
			}
		}
		if nPush == 0 {
			c.LostAnchor(R1, pn+": no Pusher.Push reached")
		}
	}
	agg.flush()
	// PackManifest dispatch: a version that is neither 1.0 nor 1.1 is rejected without any push
	P := a.packManifest
	res := a.paths(P)
	okDispatch, detail := true, "a push is reachable only under PackManifestVersion1_0 or 1_1; every other path returns a non-nil error without pushing"
	for _, p := range res.Paths {
		if a.v10.of(p) || a.v11.of(p) {
			continue
		}
		if len(c19PushEvents(p)) > 0 || c19Opaque(p, a) != "" {
			okDispatch, detail = false, "something is pushed on a path where the version is known to be neither 1.0 nor 1.1 (an unsupported version would be packed instead of rejected)"+c19PathNote(p)
		}
		if p.Ret != nil && !c19NonNilErr(p.Ret[len(p.Ret)-1]) {
			okDispatch, detail = false, "a path of PackManifest for an unsupported version returns without a non-nil error"+c19PathNote(p)
		}
	}
	c.Check(R1, FnName(P)+"|version-dispatch", P.Pos(), okDispatch, detail)
}

// ---------- R2 ----------

func c19R2(c *Ctx, a *c19Anchors) {
	const R2 = "C19.R2.created-time-checked"
	c.Expect(R2, 4)
	agg := newC19Agg(c, R2)
	var createdKeys []sxVal
	for _, k := range [][2]string{{"github.com/opencontainers/image-spec/specs-go/v1", "AnnotationCreated"}, {"internal/spec", "AnnotationArtifactCreated"}} {
		if s, ok := c19ConstString(c.P, k[0], k[1]); ok {
			createdKeys = append(createdKeys, sxStr(s))
		} else {
			c.LostAnchor(R2, k[0]+"."+k[1])
		}
	}
	rfc3339 := ""
	if k, ok := c.P.Obj("time", "RFC3339").(*types.Const); ok {
		rfc3339 = "const:" + k.Val().ExactString()
	} else {
		c.LostAnchor(R2, "time.RFC3339")
		return
	}
	for _, M := range []*c19Mode{a.v10, a.v11, a.rc2, a.artifact} {
		P := M.entry
		pn := M.name
		opts, optsT := c19Opts(P)
		if opts == nil {
			c.LostAnchor(R2, pn+": options parameter")
			continue
		}
		req, _ := sxFieldByName(opts, optsT, "ManifestAnnotations")
		res := a.paths(P)
		if res.Err != "" || req == nil {
			c.Undecided(R2, pn+"|paths", P.Pos(), res.Err)
			continue
		}
		key := pn + "|created-time"
		found := false
		for _, p := range res.Paths {
			if !M.of(p) {
				continue
			}
			if name := c19Opaque(p, a); name != "" {
				agg.undecided(key, P, nil, "the helper "+name+" reaches Pusher.Push but lies too deep to be followed")
				continue
			}
			for _, e := range c19PushEvents(p) {
				if e.kind != "manifest" {
					continue
				}
				found = true
				r := e.rec
				n := r.NFacts
				in := r.Call.(ssa.Instruction)
				ann, ok := sxFieldNamed(e.manifest, "Annotations")
				if !ok {
					agg.fail(key, P, in, p, "the manifest pushed carries no Annotations (the created time is neither validated nor filled in)")
					continue
				}
				dann, _ := sxFieldByName(e.desc, c19DescType(c), "Annotations")
				// which created key, and was its presence decided by the comma-ok lookup
				var K, okT, valT sxVal
				present, known := false, false
				for _, k := range createdKeys {
					lk := sxOp{"lookup,ok", []sxVal{req, k}}
					o := sxOp{"extract#1", []sxVal{lk}}
					if v, kn := p.Fact(n, o.key()); kn {
						K, okT, valT, present, known = k, o, sxOp{"extract#0", []sxVal{lk}}, v, true
					}
				}
				_ = okT
				switch {
				case !known:
					agg.fail(key, P, in, p, "the manifest is pushed without having decided, by a comma-ok lookup of the created key in opts.ManifestAnnotations, whether a created time was given (a given but malformed or empty value would not be rejected)")
				case present:
					var parse *sxCallRec
					for _, t := range p.CallsNamed("time.Parse") {
						if len(t.Args) == 2 && t.Args[0].key() == rfc3339 && sxSame(t.Args[1], valT) {
							parse = t
						}
					}
					switch {
					case parse == nil:
						agg.fail(key, P, in, p, "a given created time is not parsed with time.Parse(time.RFC3339, value) before the manifest push")
					case !p.ErrNil(n, parse):
						agg.fail(key, P, in, p, "the manifest is pushed although time.Parse of the given created time may have failed (a malformed created time must be rejected without pushing a manifest)")
					case !sxSame(ann, req):
						agg.fail(key, P, in, p, "with a valid created time the manifest annotations are not the caller's (got "+sxDescribe(ann)+")")
					case c19Updated(p, n, req):
						agg.fail(key, P, in, p, "with a valid created time the caller's annotation map is written to: the manifest annotations are not exactly the requested ones")
					case c19UsesClock(e.manifest) || c19UsesClock(e.desc):
						agg.fail(key, P, in, p, "although a created time is given, the current time flows into the manifest or its descriptor: identical inputs would not give an identical descriptor")
					case !sxSame(dann, ann):
						agg.fail(key, P, in, p, "the annotations of the returned descriptor differ from manifest.Annotations")
					default:
						agg.ok(key, P, in, "given created time: parsed as RFC 3339 with nil error before the manifest push; the caller's annotations are used")
					}
				default:
					okCopy, okFill := false, false
					for _, cp := range p.CallsNamed("maps.Copy") {
						if cp.NFacts <= n && sxSame(cp.Args[0], ann) && sxSame(cp.Args[1], req) {
							okCopy = true
						}
					}
					if cl, isCall := ann.(sxCall); isCall && cl.rec.Name == "maps.Clone" && sxSame(cl.rec.Args[0], req) {
						okCopy = true
					}
					// maps.Collect(maps.All(src)) / maps.Insert(dst, maps.All(src))
					isAll := func(v sxVal) bool {
						cl, ok := v.(sxCall)
						return ok && cl.rec.Name == "maps.All" && len(cl.rec.Args) == 1 && sxSame(cl.rec.Args[0], req)
					}
					if cl, isCall := ann.(sxCall); isCall && cl.rec.Name == "maps.Collect" && len(cl.rec.Args) == 1 && isAll(cl.rec.Args[0]) {
						okCopy = true
					}
					for _, cp := range p.CallsNamed("maps.Insert") {
						if cp.NFacts <= n && len(cp.Args) == 2 && sxSame(cp.Args[0], ann) && isAll(cp.Args[1]) {
							okCopy = true
						}
					}
					if !okCopy {
						okCopy = c19RangeCopied(p, n, ann, req)
					}
					for _, u := range p.Updates {
						if u.NFacts <= n && sxSame(u.Map, ann) && sxSame(u.Key, K) {
							fromNow, rfc := false, false
							sxWalk(u.Val, func(x sxVal) bool {
								if cl, ok := x.(sxCall); ok {
									if cl.rec.Name == "time.Now" {
										fromNow = true
									}
									if cl.rec.Name == "(time.Time).Format" && len(cl.rec.Args) == 2 && cl.rec.Args[1].key() == rfc3339 {
										rfc = true
									}
								}
								return true
							})
							okFill = fromNow && rfc
						}
					}
					switch {
					case sxSame(ann, req):
						agg.fail(key, P, in, p, "without a created time the caller's annotation map itself is used (it would be mutated, or no created time is filled in)")
					case !okFill:
						agg.fail(key, P, in, p, "without a created time the manifest annotations do not get the created key set to time.Now() formatted as RFC 3339")
					case !okCopy:
						agg.undecided(key, P, in, "cannot see the caller's annotations being copied into the new map (maps.Copy / maps.Clone / maps.Collect(maps.All) / maps.Insert / a range loop expected)")
					case !sxSame(dann, ann):
						agg.fail(key, P, in, p, "the annotations of the returned descriptor differ from manifest.Annotations")
					default:
						agg.ok(key, P, in, "no created time given: a copy of the annotations with the created key set to time.Now().Format(RFC3339) is used")
					}
				}
			}
		}
		if !found {
			c.LostAnchor(R2, pn+": manifest push (Pusher.Push of json.Marshal bytes)")
		}
	}
	agg.flush()
}

// c19Updated: the map is stored into before fact index n.
func c19Updated(p *sxPath, n int, m sxVal) bool {
	for _, u := range p.Updates {
		if u.NFacts <= n && sxSame(u.Map, m) {
			return true
		}
	}
	return false
}

// c19UsesClock: a time.Now() result flows into the term.
func c19UsesClock(v sxVal) bool {
	found := false
	sxWalk(v, func(x sxVal) bool {
		if cl, ok := x.(sxCall); ok && cl.rec.Name == "time.Now" {
			found = true
		}
		return !found
	})
	return found
}

// c19RangeCopied: a `for k, v := range src { dst[k] = v }` loop ran on the
// path: every iteration taken stored its (key, value) pair into dst, and the
// loop was left only when the iterator was exhausted.
func c19RangeCopied(p *sxPath, n int, dst, src sxVal) bool {
	rng := sxOp{"range", []sxVal{src}}
	seen := false
	for i, f := range p.Facts {
		if i >= n {
			break
		}
		ex, ok := f.Cond.(sxOp)
		for ok && ex.op == "!" {
			ex, ok = ex.args[0].(sxOp)
		}
		if !ok || ex.op != "extract#0" {
			continue
		}
		next, ok := ex.args[0].(sxOp)
		if !ok || !strings.HasPrefix(next.op, "next#") || len(next.args) != 1 || !sxSame(next.args[0], rng) {
			continue
		}
		seen = true
		if v, known := p.Fact(n, f.Key); !known || !v {
			continue // exhausted: the loop ends here
		}
		k, v := sxOp{"extract#1", []sxVal{next}}, sxOp{"extract#2", []sxVal{next}}
		stored := false
		for _, u := range p.Updates {
			if u.NFacts <= n && sxSame(u.Map, dst) && sxSame(u.Key, k) && sxSame(u.Val, v) {
				stored = true
			}
		}
		if !stored {
			return false
		}
	}
	return seen
}

// ---------- R3 ----------

// c19PairOK checks that descriptor term d describes bytes term b.
func c19PairOK(d, b sxVal, allowed map[string]bool) (bool, string) {
	for _, f := range sxOverridden(d) {
		if !allowed[f] {
			return false, "field " + f + " of the descriptor is overwritten after it was computed from the bytes"
		}
	}
	switch base := sxBase(d).(type) {
	case sxCall:
		if base.rec.Name != c19NNewDesc || base.idx != 0 {
			return false, "the descriptor is not the result of content.NewDescriptorFromBytes (got " + sxDescribe(base) + ")"
		}
		if !sxSame(base.rec.Args[1], b) {
			return false, "the bytes described (" + sxDescribe(base.rec.Args[1]) + ") are not the bytes pushed (" + sxDescribe(b) + ")"
		}
		return true, "descriptor = NewDescriptorFromBytes(_, B) and B is what is pushed"
	case sxInit:
		g, ok := base.addr.(sxGlobal)
		if !ok || g.g.Name() != "DescriptorEmptyJSON" || !strings.HasSuffix(g.g.Pkg.Pkg.Path(), "image-spec/specs-go/v1") {
			return false, "descriptor copied from " + sxDescribe(base)
		}
		want := sxField{x: base, field: 5, name: "Data"}
		if !sxSame(b, want) {
			return false, "ocispec.DescriptorEmptyJSON is pushed with bytes other than DescriptorEmptyJSON.Data (" + sxDescribe(b) + ")"
		}
		return true, "ocispec.DescriptorEmptyJSON pushed with its own Data"
	}
	return false, "cannot relate the descriptor " + sxDescribe(d) + " to the bytes pushed"
}

func c19R3(c *Ctx, a *c19Anchors) {
	const R3 = "C19.R3.descriptor-matches-bytes"
	c.Expect(R3, 17) // the optional-interface obligations exist only while Exists is consulted
	agg := newC19Agg(c, R3)
	for _, M := range []*c19Mode{a.v10, a.v11, a.rc2, a.artifact} {
		P := M.entry
		pn := M.name
		res := a.paths(P)
		if res.Err != "" {
			c.Undecided(R3, pn+"|paths", P.Pos(), res.Err)
			continue
		}
		pusherIdx := c19ParamIndexByType(P, func(t types.Type) bool { return c19IsNamed(t, "/content", "Pusher") })
		if pusherIdx < 0 {
			c.LostAnchor(R3, pn+": content.Pusher parameter")
			continue
		}
		pusher := sxParam{P.Params[pusherIdx]}
		for _, p := range res.Paths {
			if !M.of(p) {
				continue
			}
			if name := c19Opaque(p, a); name != "" {
				agg.undecided(pn+"|push-pair", P, nil, "the helper "+name+" reaches Pusher.Push but lies too deep to be followed")
				continue
			}
			pushes := c19PushEvents(p)
			var man *c19Push
			for i := range pushes {
				e := &pushes[i]
				in := e.rec.Call.(ssa.Instruction)
				key := pn + "|push-pair"
				allowed := map[string]bool{"Annotations": true, "MediaType": true} // neither depends on the bytes
				if e.kind == "manifest" {
					allowed["ArtifactType"] = true
					man = e
				}
				switch {
				case e.data == nil:
					agg.undecided(key, P, in, "the content pushed is not bytes.NewReader(<bytes>): "+sxDescribe(e.rec.Args[2]))
				case !sxSame(e.rec.Recv, pusher):
					agg.fail(key, P, in, p, "Push is not invoked on the caller's pusher")
				default:
					if ok, why := c19PairOK(e.desc, e.data, allowed); ok {
						agg.ok(key, P, in, why)
					} else {
						agg.fail(key, P, in, p, why+": the descriptor would not describe the stored bytes")
					}
				}
				if e.kind == "manifest" {
					key = pn + "|manifest-bytes"
					if p.ErrNil(e.rec.NFacts, e.marshal) {
						agg.ok(key, P, in, "the manifest pushed is json.Marshal(manifest) with nil error")
					} else {
						agg.fail(key, P, in, p, "the manifest is pushed although json.Marshal may have failed")
					}
				}
			}
			// a comma-ok type assertion's value is used as a receiver only where ok held
			// (target kinds that do not implement the optional interface must not crash)
			for _, r := range p.Calls {
				ex, isOp := r.Recv.(sxOp)
				if !isOp || ex.op != "extract#0" || len(ex.args) != 1 {
					continue
				}
				as, isAssert := ex.args[0].(sxOp)
				if !isAssert || !strings.HasPrefix(as.op, "assert:") || !strings.HasSuffix(as.op, ",ok") {
					continue
				}
				key := pn + "|optional-interface-used-only-when-asserted"
				okT := sxOp{"extract#1", []sxVal{as}}
				if v, known := p.Fact(r.NFacts, okT.key()); known && v {
					agg.ok(key, P, r.Call.(ssa.Instruction), "a method of the asserted optional interface ("+r.Name+") is called only where the assertion succeeded")
				} else {
					agg.fail(key, P, r.Call.(ssa.Instruction), p, r.Name+" is invoked on the result of a failed (or untested) type assertion: packing into a target that lacks the optional interface would panic")
				}
			}
			if p.Ret == nil || !sxSame(p.Ret[len(p.Ret)-1], sxNil) {
				continue
			}
			// successful return
			key := pn + "|returns-pushed-descriptor"
			switch {
			case man == nil:
				agg.fail(key, P, p.RetInstr, p, "a path returns success without pushing a manifest")
			case !sxSame(p.Ret[0], man.desc):
				agg.fail(key, P, p.RetInstr, p, "the descriptor returned ("+sxDescribe(p.Ret[0])+") is not the one the manifest was pushed with")
			default:
				agg.ok(key, P, p.RetInstr, "the descriptor returned on success is the one the manifest was pushed with")
			}
			key = pn + "|failures-surface"
			bad := ""
			for _, e := range pushes {
				if !c19Succeeded(p, -1, e.rec) {
					bad = "the push of the " + e.kind
				}
				if e.marshal != nil && !p.ErrNil(-1, e.marshal) {
					bad = "json.Marshal"
				}
			}
			for _, x := range p.Calls {
				if strings.HasSuffix(x.Name, ").Exists") && !p.ErrNil(-1, x) {
					bad = "the existence check"
				}
			}
			if bad == "" {
				agg.ok(key, P, p.RetInstr, "success is returned only if every push returned nil or ErrAlreadyExists, and marshalling and existence checks returned nil")
			} else {
				agg.fail(key, P, p.RetInstr, p, "success is returned although "+bad+" may have failed with an error other than ErrAlreadyExists")
			}
		}
	}
	agg.flush()
	// the constructor every descriptor above rests on: digest and size are those of the bytes given
	c19Constructor(c, R3)
}

// c19Constructor: content.NewDescriptorFromBytes(mediaType, b) returns
// {Digest: digest.FromBytes(b), Size: len(b), MediaType: mediaType or, when empty, the default}.
func c19Constructor(c *Ctx, rule string) {
	N := c.P.Fn("content", "NewDescriptorFromBytes")
	if N == nil || len(N.Params) != 2 {
		c.LostAnchor(rule, "content.NewDescriptorFromBytes(mediaType, content)")
		return
	}
	def, okDef := c19ConstString(c.P, "internal/descriptor", "DefaultMediaType")
	mt, b := sxParam{N.Params[0]}, sxParam{N.Params[1]}
	res := sxPathsInline(N, "c19", sxHelper)
	ok, why := res.Err == "" && len(res.Paths) > 0, res.Err
	descT := c19DescType(c)
	for _, p := range res.Paths {
		if p.Ret == nil {
			continue
		}
		d := p.Ret[0]
		dg, _ := sxFieldByName(d, descT, "Digest")
		sz, _ := sxFieldByName(d, descT, "Size")
		m, _ := sxFieldByName(d, descT, "MediaType")
		okDg := false
		if cl, isCall := dg.(sxCall); isCall && (cl.rec.Name == "digest.FromBytes" || cl.rec.Name == "(digest.Algorithm).FromBytes") && sxSame(cl.rec.Args[len(cl.rec.Args)-1], b) {
			okDg = true
		}
		okSz := false
		if op, isOp := sz.(sxOp); isOp && strings.HasPrefix(op.op, "convert:") && len(op.args) == 1 && sxSame(op.args[0], sxOp{"len", []sxVal{b}}) {
			okSz = true
		}
		okMT := sxSame(m, mt) && !p.IsEmptyString(-1, mt) || okDef && p.IsEmptyString(-1, mt) && sxSame(m, sxStr(def))
		switch {
		case !okDg:
			ok, why = false, "Digest is not digest.FromBytes(content) (got "+sxDescribe(dg)+")"
		case !okSz:
			ok, why = false, "Size is not len(content) (got "+sxDescribe(sz)+")"
		case !okMT:
			ok, why = false, "MediaType is neither the given one nor, for an empty one, the default (got "+sxDescribe(m)+")"
		}
	}
	c.Check(rule, "~/content.NewDescriptorFromBytes|describes-its-bytes", N.Pos(), ok,
		ifelse(ok, "Digest = digest.FromBytes(content), Size = len(content), MediaType = the given one (default when empty) on every path", why))
}

// ---------- R4 ----------

// c19Invented: the descriptor term was built by the packer itself.
func c19Invented(d sxVal) bool {
	switch b := sxBase(d).(type) {
	case sxCall:
		return b.rec.Name == c19NNewDesc
	case sxInit:
		_, ok := b.addr.(sxGlobal)
		return ok
	}
	return false
}

func c19IsParam(v sxVal) bool { _, ok := v.(sxParam); return ok }

func c19R4(c *Ctx, a *c19Anchors) {
	const R4 = "C19.R4.invented-blobs-pushed"
	c.Expect(R4, 6)
	agg := newC19Agg(c, R4)
	for _, M := range []*c19Mode{a.v10, a.v11, a.rc2} {
		P := M.entry
		pn := M.name
		opts, optsT := c19Opts(P)
		res := a.paths(P)
		if res.Err != "" || opts == nil {
			c.Undecided(R4, pn+"|paths", P.Pos(), res.Err)
			continue
		}
		callerLayers, _ := sxFieldByName(opts, optsT, "Layers")
		cfgPtr, cfgDeref, _ := c19ConfigTerms(opts, optsT)
		_ = cfgPtr
		for _, p := range res.Paths {
			if !M.of(p) {
				continue
			}
			if c19Opaque(p, a) != "" {
				continue // reported by R1/R3
			}
			for _, e := range c19PushEvents(p) {
				if e.kind != "manifest" {
					continue
				}
				r := e.rec
				in := r.Call.(ssa.Instruction)
				cfg, ok1 := sxFieldNamed(e.manifest, "Config")
				lay, ok2 := sxFieldNamed(e.manifest, "Layers")
				if !ok1 || !ok2 {
					agg.undecided(pn+"|config", P, in, "the manifest value has no Config/Layers set")
					continue
				}
				key := pn + "|config"
				switch {
				case sxSame(cfg, cfgDeref):
					agg.ok(key, P, in, "config is the caller's descriptor")
				case c19Invented(cfg):
					if c19Present(p, r, cfg) {
						agg.ok(key, P, in, "the config invented here was pushed (or found to exist) before the manifest")
					} else {
						agg.fail(key, P, in, p, "the manifest references a config blob ("+sxDescribe(sxBase(cfg))+") that the packer invented but did not push on this path (the result cannot be copied)")
					}
				default:
					agg.undecided(key, P, in, "cannot classify the config descriptor "+sxDescribe(cfg))
				}
				key = pn + "|layers"
				if elems, isLit := sxSliceElems(lay, r.Mem); isLit {
					bad := ""
					for _, el := range elems {
						if c19Invented(el) {
							if !c19Present(p, r, el) {
								bad = sxDescribe(sxBase(el))
							}
						} else if _, isZero := el.(sxZero); !isZero {
							bad = "unclassified element " + sxDescribe(el)
						}
					}
					if bad == "" {
						agg.ok(key, P, in, "every placeholder layer was pushed (or found to exist) before the manifest — identity up to the value it was copied from")
					} else {
						agg.fail(key, P, in, p, "the manifest lists a placeholder layer ("+bad+") that was not pushed on this path (the result cannot be copied)")
					}
				} else if sxSame(lay, callerLayers) || c19IsParam(lay) {
					agg.ok(key, P, in, "layers are the caller's")
				} else if op, isOp := lay.(sxOp); isOp && strings.HasPrefix(op.op, "make:") {
					agg.ok(key, P, in, "layers are a fresh empty slice")
				} else {
					agg.undecided(key, P, in, "cannot classify the layers value "+sxDescribe(lay))
				}
			}
		}
	}
	agg.flush()
}

// ---------- R5 ----------

func c19R5(c *Ctx, a *c19Anchors) {
	const R5 = "C19.R5.requested-fields-emitted"
	c.Expect(R5, 21)
	agg := newC19Agg(c, R5)
	imageMT, ok1 := c19ConstString(c.P, "github.com/opencontainers/image-spec/specs-go/v1", "MediaTypeImageManifest")
	artMT, ok2 := c19ConstString(c.P, "internal/spec", "MediaTypeArtifactManifest")
	unkCfg, ok3 := c19ConstString(c.P, "", "MediaTypeUnknownConfig")
	unkArt, ok4 := c19ConstString(c.P, "", "MediaTypeUnknownArtifact")
	if !ok1 || !ok2 || !ok3 || !ok4 {
		c.LostAnchor(R5, "media type constants")
		return
	}
	descT := c19DescType(c)
	for _, M := range []*c19Mode{a.v10, a.v11, a.rc2, a.artifact} {
		P := M.entry
		pn := M.name
		opts, optsT := c19Opts(P)
		art := c19StringParam(P)
		res := a.paths(P)
		if res.Err != "" || opts == nil || art == nil {
			c.Undecided(R5, pn+"|paths", P.Pos(), res.Err)
			continue
		}
		layersIdx := c19ParamIndexByType(P, func(t types.Type) bool {
			s, ok := t.Underlying().(*types.Slice)
			return ok && c19IsNamed(s.Elem(), "image-spec/specs-go/v1", "Descriptor")
		})
		var reqLayers sxVal
		if layersIdx >= 0 {
			reqLayers = sxParam{P.Params[layersIdx]}
		} else {
			reqLayers, _ = sxFieldByName(opts, optsT, "Layers")
		}
		reqSubject, _ := sxFieldByName(opts, optsT, "Subject")
		cfgPtr, cfgDeref, _ := c19ConfigTerms(opts, optsT)
		cfgAnn, _ := sxFieldByName(opts, optsT, "ConfigAnnotations")
		for _, p := range res.Paths {
			if !M.of(p) {
				continue
			}
			if c19Opaque(p, a) != "" {
				continue
			}
			for _, e := range c19PushEvents(p) {
				if e.kind != "manifest" {
					continue
				}
				r := e.rec
				in := r.Call.(ssa.Instruction)
				n := r.NFacts
				field := func(name string) sxVal { v, _ := sxFieldNamed(e.manifest, name); return v }
				check := func(what string, ok bool, okNote, bad string) {
					key := pn + "|" + what
					if ok {
						agg.ok(key, P, in, okNote)
					} else {
						agg.fail(key, P, in, p, bad)
					}
				}
				descMT := c19DescMediaType(e.desc, descT)
				descAT, _ := sxFieldByName(e.desc, descT, "ArtifactType")
				wantMT := imageMT
				if M == a.artifact {
					wantMT = artMT
				}
				check("mediaType", sxSame(field("MediaType"), sxStr(wantMT)) && sxSame(descMT, sxStr(wantMT)),
					"manifest.MediaType and the descriptor media type are "+wantMT, "manifest.MediaType / the descriptor media type is not "+wantMT)
				if M != a.artifact {
					sv := sxVal(nil)
					if v, ok := sxFieldNamed(e.manifest, "Versioned"); ok {
						sv, _ = sxFieldNamed(v, "SchemaVersion")
					}
					check("schemaVersion", sv != nil && sxSame(sv, sxInt(2)), "manifest.schemaVersion = 2",
						"the image manifest does not carry schemaVersion 2 (got "+sxDescribe(sv)+"): registries reject it")
				}
				if M != a.v10 {
					check("subject", reqSubject != nil && sxSame(field("Subject"), reqSubject), "manifest.Subject = opts.Subject",
						"manifest.Subject is not opts.Subject (got "+sxDescribe(field("Subject"))+"): the requested subject is lost")
				}
				// layers / blobs
				lname := "Layers"
				if M == a.artifact {
					lname = "Blobs"
				}
				lay := field(lname)
				emptyKnown := p.IsEmptyString(n, reqLayers) || p.IsNil(n, reqLayers) // len(x)==0 / x==nil
				switch {
				case lay == nil:
					check("layers", false, "", "the manifest has no "+lname+" set")
				case sxSame(lay, reqLayers):
					if M == a.v11 && emptyKnown {
						check("layers", false, "", "empty layers are not replaced by the empty-JSON layer in a 1.1 manifest")
					} else {
						check("layers", true, "manifest."+lname+" = the requested layers (non-empty where the version requires)", "")
					}
				default:
					elems, isLit := sxSliceElems(lay, r.Mem)
					op, isOp := lay.(sxOp)
					isMake := isOp && strings.HasPrefix(op.op, "make:")
					switch {
					case M == a.v11 && isLit && len(elems) == 1 && c19IsEmptyJSON(elems[0]) && emptyKnown:
						check("layers", true, "empty layers become the single empty-JSON layer", "")
					case (M == a.v10 || M == a.rc2) && emptyKnown && (isLit && len(elems) == 0 || isMake):
						check("layers", true, "nil layers become an empty array", "")
					default:
						check("layers", false, "", "manifest."+lname+" ("+sxDescribe(lay)+") is neither the requested layers nor the documented placeholder")
					}
				}
				// config
				if M != a.artifact {
					cfg := field("Config")
					switch {
					case p.NonNil(n, cfgPtr):
						check("config", sxSame(cfg, cfgDeref), "manifest.Config = *opts.ConfigDescriptor when given", "a given config descriptor is not what the manifest carries (got "+sxDescribe(cfg)+")")
					case p.IsNil(n, cfgPtr) && M == a.v11:
						an, _ := sxFieldByName(cfg, descT, "Annotations")
						check("config", c19IsEmptyJSON(cfg) && sxSame(an, cfgAnn) && len(sxOverridden(cfg)) <= 1,
							"without a config descriptor the empty-JSON config with opts.ConfigAnnotations is used", "the default config is not DescriptorEmptyJSON + ConfigAnnotations (got "+sxDescribe(cfg)+")")
					case p.IsNil(n, cfgPtr):
						okc := false
						if b, isCall := sxBase(cfg).(sxCall); isCall && b.rec.Name == c19NNewDesc {
							an, _ := sxFieldByName(cfg, descT, "Annotations")
							wantDefault := p.IsEmptyString(n, art)
							mtArg := c19DescMediaType(cfg, descT)
							only := true
							for _, f := range sxOverridden(cfg) {
								if f != "Annotations" && f != "MediaType" {
									only = false
								}
							}
							okc = sxSame(an, cfgAnn) && only && mtArg != nil && (wantDefault && sxSame(mtArg, sxStr(unkCfg)) || !wantDefault && sxSame(mtArg, art))
						}
						check("config", okc, "without a config descriptor a generated config of media type artifactType (default "+unkCfg+") with opts.ConfigAnnotations is used",
							"the generated config does not carry artifactType / the default / ConfigAnnotations (got "+sxDescribe(cfg)+")")
					default:
						agg.undecided(pn+"|config", P, in, "opts.ConfigDescriptor is neither known nil nor non-nil at the manifest push")
					}
				}
				// artifact type
				switch M {
				case a.v11:
					check("artifactType", sxSame(field("ArtifactType"), art) && sxSame(descAT, art), "manifest.ArtifactType and descriptor.ArtifactType = artifactType",
						"artifactType is not what the manifest / descriptor carry")
				case a.artifact:
					want := art
					if p.IsEmptyString(n, art) {
						want = sxStr(unkArt)
					}
					check("artifactType", sxSame(field("ArtifactType"), want) && sxSame(descAT, want), "manifest.ArtifactType = artifactType (default "+unkArt+")",
						"artifactType (or its default) is not what the artifact manifest carries")
				default:
					cm, _ := sxFieldByName(field("Config"), descT, "MediaType")
					check("artifactType", cm != nil && sxSame(descAT, cm), "descriptor.ArtifactType = manifest.Config.MediaType",
						"the descriptor's artifact type is not the config media type (got "+sxDescribe(descAT)+")")
				}
			}
		}
	}
	agg.flush()
}

// c19DescMediaType: the media type a descriptor term carries: the MediaType
// field if it was set after construction, else the one given to
// NewDescriptorFromBytes.
func c19DescMediaType(d sxVal, descT types.Type) sxVal {
	if st, ok := d.(sxStruct); ok {
		for k, n := range st.names {
			if n == "MediaType" {
				return st.fields[k]
			}
		}
	}
	if b, ok := sxBase(d).(sxCall); ok && b.rec.Name == c19NNewDesc && len(b.rec.Args) == 2 {
		return b.rec.Args[0]
	}
	return nil
}

func c19DescType(c *Ctx) types.Type {
	if n := c.P.Named("github.com/opencontainers/image-spec/specs-go/v1", "Descriptor"); n != nil {
		return n
	}
	return types.Typ[types.Invalid]
}

func c19IsEmptyJSON(d sxVal) bool {
	i, ok := sxBase(d).(sxInit)
	if !ok {
		return false
	}
	g, ok := i.addr.(sxGlobal)
	return ok && g.g.Name() == "DescriptorEmptyJSON"
}

// ---------- R6 ----------

// RFC 6838 §4.2:
//
//	restricted-name = restricted-name-first *126restricted-name-chars
//	restricted-name-first = ALPHA / DIGIT
//	restricted-name-chars = ALPHA / DIGIT / "!" / "#" / "$" / "&" / "-" / "^" / "_" / "." / "+"
//
// media type = restricted-name "/" restricted-name  (type and subtype, each ≤127 chars)
const c19RFC6838 = `\A(?:[[:alpha:]]|[[:digit:]])(?:[[:alpha:]]|[[:digit:]]|!|#|\$|&|\-|\^|_|\.|\+){0,126}` +
	`/(?:[[:alpha:]]|[[:digit:]])(?:[[:alpha:]]|[[:digit:]]|!|#|\$|&|\-|\^|_|\.|\+){0,126}\z`

// c19R6 finds the pattern variables the packers match artifactType /
// config media type against (on the inlined paths) and decides their language.
func c19R6(c *Ctx, a *c19Anchors) {
	const R6 = "C19.R6.media-type-language"
	c.Expect(R6, 1)
	a.rfcPatterns = map[string]bool{}
	if err := reSelfTest(); err != nil {
		c.Undecided(R6, "engine-self-test", a.packManifest.Pos(), err.Error())
		return
	}
	found := map[string]bool{}
	var order []*reSource
	for _, M := range []*c19Mode{a.v10, a.v11} {
		P := M.entry
		opts, optsT := c19Opts(P)
		art := c19StringParam(P)
		if opts == nil || art == nil {
			continue
		}
		_, _, cfgMedia := c19ConfigTerms(opts, optsT)
		res := a.paths(P)
		for _, p := range res.Paths {
			if !M.of(p) {
				continue
			}
			for _, x := range []sxVal{art, cfgMedia} {
				if x == nil {
					continue
				}
				calls, srcs := c19PatternCalls(p, x)
				for i, src := range srcs {
					if src == nil {
						c.Undecided(R6, FnName(P)+"|pattern", calls[i].Call.Pos(), "the media type is matched against a pattern whose text cannot be resolved")
						return
					}
					if k := c19PatternKey(src); !found[k] {
						found[k] = true
						order = append(order, src)
					}
				}
			}
		}
	}
	if len(order) == 0 {
		c.LostAnchor(R6, "no (*regexp.Regexp).MatchString of artifactType / opts.ConfigDescriptor.MediaType on any path of the 1.0/1.1 packers")
		return
	}
	for i, src := range order {
		key := "media-type-pattern|pattern≡RFC6838"
		if i > 0 {
			key = fmt.Sprintf("media-type-pattern#%d|pattern≡RFC6838", i+1)
		}
		l, err := reParse(src.Src, src.Flags)
		if err != nil {
			c.Violation(R6, key, src.Pos, "the pattern does not compile: "+err.Error())
			continue
		}
		eq, w, inRepo, err := reEquivalent(l, reMust(c19RFC6838))
		switch {
		case err != nil:
			c.Undecided(R6, key, src.Pos, err.Error())
		case eq:
			a.rfcPatterns[c19PatternKey(src)] = true
			c.OK(R6, key, src.Pos, "L("+src.Src+") = RFC 6838 restricted-name \"/\" restricted-name (automata equivalence)")
		case inRepo:
			c.Violation(R6, key, src.Pos, fmt.Sprintf("the media type pattern accepts %q, which RFC 6838 §4.2 does not allow", w))
		default:
			c.Violation(R6, key, src.Pos, fmt.Sprintf("the media type pattern rejects %q, which RFC 6838 §4.2 allows", w))
		}
	}
}

var c19Mutants = []Mutant{
	{Name: "v11-config-mediatype-not-validated", File: "pack.go",
		Old: "\t\tif err := validateMediaType(opts.ConfigDescriptor.MediaType); err != nil {\n\t\t\treturn ocispec.Descriptor{}, fmt.Errorf(\"invalid config mediaType format: %w\", err)\n\t\t}\n\t\tconfigDesc = *opts.ConfigDescriptor\n\t} else {\n\t\t// use the empty descriptor for config",
		New: "\t\tconfigDesc = *opts.ConfigDescriptor\n\t} else {\n\t\t// use the empty descriptor for config", Expect: "C19.R1"},
	{Name: "v11-artifacttype-validated-after-config-push", File: "pack.go",
		Old: "\tif artifactType != \"\" {\n\t\tif err := validateMediaType(artifactType); err != nil {\n\t\t\treturn ocispec.Descriptor{}, fmt.Errorf(\"invalid artifactType format: %w\", err)\n\t\t}\n\t}\n\n\t// prepare config\n\tvar emptyBlobExists bool\n\tvar configDesc ocispec.Descriptor\n\tif opts.ConfigDescriptor != nil {\n\t\tif err := validateMediaType(opts.ConfigDescriptor.MediaType); err != nil {\n\t\t\treturn ocispec.Descriptor{}, fmt.Errorf(\"invalid config mediaType format: %w\", err)\n\t\t}\n\t\tconfigDesc = *opts.ConfigDescriptor\n\t} else {\n\t\t// use the empty descriptor for config\n\t\tconfigDesc = ocispec.DescriptorEmptyJSON\n\t\tconfigDesc.Annotations = opts.ConfigAnnotations\n\t\tconfigBytes := ocispec.DescriptorEmptyJSON.Data\n\t\t// push config\n\t\tif err := pushIfNotExist(ctx, pusher, configDesc, configBytes); err != nil {\n\t\t\treturn ocispec.Descriptor{}, fmt.Errorf(\"failed to push config: %w\", err)\n\t\t}\n\t\temptyBlobExists = true\n\t}\n",
		New: "\n\t// prepare config\n\tvar emptyBlobExists bool\n\tvar configDesc ocispec.Descriptor\n\tif opts.ConfigDescriptor != nil {\n\t\tif err := validateMediaType(opts.ConfigDescriptor.MediaType); err != nil {\n\t\t\treturn ocispec.Descriptor{}, fmt.Errorf(\"invalid config mediaType format: %w\", err)\n\t\t}\n\t\tconfigDesc = *opts.ConfigDescriptor\n\t} else {\n\t\t// use the empty descriptor for config\n\t\tconfigDesc = ocispec.DescriptorEmptyJSON\n\t\tconfigDesc.Annotations = opts.ConfigAnnotations\n\t\tconfigBytes := ocispec.DescriptorEmptyJSON.Data\n\t\t// push config\n\t\tif err := pushIfNotExist(ctx, pusher, configDesc, configBytes); err != nil {\n\t\t\treturn ocispec.Descriptor{}, fmt.Errorf(\"failed to push config: %w\", err)\n\t\t}\n\t\temptyBlobExists = true\n\t}\n\tif artifactType != \"\" {\n\t\tif err := validateMediaType(artifactType); err != nil {\n\t\t\treturn ocispec.Descriptor{}, fmt.Errorf(\"invalid artifactType format: %w\", err)\n\t\t}\n\t}\n", Expect: "C19.R1"},
	{Name: "v10-validates-the-default-instead", File: "pack.go",
		Old: "\t\t} else if err := validateMediaType(artifactType); err != nil {", New: "\t\t} else if err := validateMediaType(MediaTypeUnknownConfig); err != nil {", Expect: "C19.R1"},
	{Name: "v11-artifacttype-validation-error-ignored", File: "pack.go",
		Old: "\tif artifactType != \"\" {\n\t\tif err := validateMediaType(artifactType); err != nil {\n\t\t\treturn ocispec.Descriptor{}, fmt.Errorf(\"invalid artifactType format: %w\", err)\n\t\t}\n\t}",
		New: "\tif artifactType != \"\" {\n\t\t_ = validateMediaType(artifactType)\n\t}", Expect: "C19.R1"},
	{Name: "v10-subject-accepted", File: "pack.go",
		Old: "\tif opts.Subject != nil {\n\t\treturn ocispec.Descriptor{}, fmt.Errorf(\"subject is not supported", New: "\tif opts.Subject != nil && opts.Layers == nil {\n\t\treturn ocispec.Descriptor{}, fmt.Errorf(\"subject is not supported", Expect: "C19.R1"},
	{Name: "v11-missing-artifacttype-with-empty-config", File: "pack.go",
		Old: "\tif artifactType == \"\" && (opts.ConfigDescriptor == nil || opts.ConfigDescriptor.MediaType == ocispec.MediaTypeEmptyJSON) {", New: "\tif artifactType == \"\" && opts.ConfigDescriptor == nil {", Expect: "C19.R1"},
	{Name: "unknown-version-falls-back-to-1.1", File: "pack.go",
		Old: "\tdefault:\n\t\treturn ocispec.Descriptor{}, fmt.Errorf(\"PackManifestVersion(%v): %w\", packManifestVersion, errdef.ErrUnsupported)", New: "\tdefault:\n\t\treturn packManifestV1_1(ctx, pusher, artifactType, opts)", Expect: "C19.R1"},
	{Name: "artifact-created-time-error-ignored", File: "pack.go",
		Old: "\tannotations, err := ensureAnnotationCreated(opts.ManifestAnnotations, spec.AnnotationArtifactCreated)\n\tif err != nil {\n\t\treturn ocispec.Descriptor{}, err\n\t}",
		New: "\tannotations, _ := ensureAnnotationCreated(opts.ManifestAnnotations, spec.AnnotationArtifactCreated)", Expect: "C19.R2"},
	{Name: "created-time-parsed-with-other-layout", File: "pack.go",
		Old: "\t\tif _, err := time.Parse(time.RFC3339, createdTime); err != nil {", New: "\t\tif _, err := time.Parse(time.RFC1123, createdTime); err != nil {", Expect: "C19.R2"},
	{Name: "rc2-raw-annotations-in-manifest", File: "pack.go",
		Old: "\t\tSubject:     opts.Subject,\n\t\tAnnotations: annotations,\n\t}\n\treturn pushManifest(ctx, pusher, manifest, manifest.MediaType, manifest.Config.MediaType, manifest.Annotations)",
		New: "\t\tSubject:     opts.Subject,\n\t\tAnnotations: opts.ManifestAnnotations,\n\t}\n\t_ = annotations\n\treturn pushManifest(ctx, pusher, manifest, manifest.MediaType, manifest.Config.MediaType, manifest.Annotations)", Expect: "C19.R2"},
	{Name: "created-time-set-in-callers-map", File: "pack.go",
		Old: "\tcopied := make(map[string]string, len(annotations)+1)\n\tmaps.Copy(copied, annotations)", New: "\tcopied := annotations\n\tif copied == nil {\n\t\tcopied = map[string]string{}\n\t}\n\tmaps.Copy(copied, annotations)", Expect: "C19.R2"},
	{Name: "manifest-descriptor-of-other-bytes", File: "pack.go",
		Old: "\tmanifestDesc := content.NewDescriptorFromBytes(mediaType, manifestJSON)", New: "\tmanifestDesc := content.NewDescriptorFromBytes(mediaType, append(manifestJSON, '\\n'))", Expect: "C19.R3"},
	{Name: "empty-config-pushed-with-empty-bytes", File: "pack.go",
		Old: "\tif err := pushIfNotExist(ctx, pusher, configDesc, configBytes); err != nil {\n\t\treturn ocispec.Descriptor{}, fmt.Errorf(\"failed to push config: %w\", err)\n\t}\n\treturn configDesc, nil",
		New: "\tif err := pushIfNotExist(ctx, pusher, configDesc, []byte{}); err != nil {\n\t\treturn ocispec.Descriptor{}, fmt.Errorf(\"failed to push config: %w\", err)\n\t}\n\treturn configDesc, nil", Expect: "C19.R3"},
	{Name: "manifest-push-error-swallowed", File: "pack.go",
		Old: "\tif err := pusher.Push(ctx, manifestDesc, bytes.NewReader(manifestJSON)); err != nil && !errors.Is(err, errdef.ErrAlreadyExists) {", New: "\tif err := pusher.Push(ctx, manifestDesc, bytes.NewReader(manifestJSON)); err != nil && !errors.Is(err, errdef.ErrAlreadyExists) && !errors.Is(err, errdef.ErrUnsupported) {", Expect: "C19.R3"},
	{Name: "existence-check-error-ignored", File: "pack.go",
		Old: "\t\texists, err := ros.Exists(ctx, desc)\n\t\tif err != nil {\n\t\t\treturn fmt.Errorf(\"failed to check existence: %s: %s: %w\", desc.Digest.String(), desc.MediaType, err)\n\t\t}\n",
		New: "\t\texists, _ := ros.Exists(ctx, desc)\n", Expect: "C19.R3"},
	{Name: "exists-asked-of-targets-that-cannot-answer", File: "pack.go",
		Old: "\tif ros, ok := pusher.(content.ReadOnlyStorage); ok {", New: "\tif ros, ok := pusher.(content.ReadOnlyStorage); !ok {", Expect: "C19.R3"},
	{Name: "manifest-size-overwritten", File: "pack.go",
		Old: "\tmanifestDesc.ArtifactType = artifactType\n", New: "\tmanifestDesc.ArtifactType = artifactType\n\tmanifestDesc.Size = int64(len(mediaType))\n", Expect: "C19.R3"},
	{Name: "empty-layer-never-pushed", File: "pack.go",
		Old: "\tvar emptyBlobExists bool\n", New: "\temptyBlobExists := true\n", Expect: "C19.R4"},
	{Name: "v11-empty-config-not-pushed", File: "pack.go",
		Old: "\t\tif err := pushIfNotExist(ctx, pusher, configDesc, configBytes); err != nil {\n\t\t\treturn ocispec.Descriptor{}, fmt.Errorf(\"failed to push config: %w\", err)\n\t\t}\n\t\temptyBlobExists = true",
		New: "\t\t_ = configBytes\n\t\temptyBlobExists = len(opts.Layers) > 0", Expect: "C19.R4"},
	{Name: "push-skipped-on-small-blobs", File: "pack.go",
		Old: "\t\tif exists {\n\t\t\treturn nil\n\t\t}\n\t}\n\n\tif err := pusher.Push(ctx, desc, bytes.NewReader(data))", New: "\t\tif exists || desc.Size == 2 {\n\t\t\treturn nil\n\t\t}\n\t}\n\n\tif err := pusher.Push(ctx, desc, bytes.NewReader(data))", Expect: "C19.R4"},
	{Name: "descriptor-size-is-capacity", File: "content/descriptor.go",
		Old: "\t\tSize:      int64(len(content)),", New: "\t\tSize:      int64(cap(content)),", Expect: "C19.R3"},
	{Name: "v10-schema-version-dropped", File: "pack.go",
		Old: "\t\t\tSchemaVersion: 2, // historical value. does not pertain to OCI or docker version\n\t\t},\n\t\tConfig:      configDesc,\n\t\tMediaType:   ocispec.MediaTypeImageManifest,\n\t\tLayers:      opts.Layers,\n\t\tAnnotations: annotations,",
		New: "\t\t},\n\t\tConfig:      configDesc,\n\t\tMediaType:   ocispec.MediaTypeImageManifest,\n\t\tLayers:      opts.Layers,\n\t\tAnnotations: annotations,", Expect: "C19.R5"},
	{Name: "given-created-time-normalised-in-place", File: "pack.go",
		Old: "\t\tif _, err := time.Parse(time.RFC3339, createdTime); err != nil {\n\t\t\treturn nil, fmt.Errorf(\"%w: %v\", ErrInvalidDateTimeFormat, err)\n\t\t}\n\t\treturn annotations, nil",
		New: "\t\tt, err := time.Parse(time.RFC3339, createdTime)\n\t\tif err != nil {\n\t\t\treturn nil, fmt.Errorf(\"%w: %v\", ErrInvalidDateTimeFormat, err)\n\t\t}\n\t\tannotations[annotationCreatedKey] = t.Format(time.RFC3339)\n\t\treturn annotations, nil", Expect: "C19.R2"},
	{Name: "created-time-restamped-when-given", File: "pack.go",
		Old: "\t\treturn annotations, nil\n\t}\n\n\t// copy the original annotation map", New: "\t\tannotations[\"org.opencontainers.image.packed\"] = time.Now().UTC().Format(time.RFC3339)\n\t\treturn annotations, nil\n\t}\n\n\t// copy the original annotation map", Expect: "C19.R2"},
	{Name: "v11-subject-dropped", File: "pack.go",
		Old: "\t\tSubject:      opts.Subject,\n\t\tArtifactType: artifactType,\n\t\tAnnotations:  annotations,\n\t}\n\treturn pushManifest(ctx, pusher, manifest, manifest.MediaType, manifest.ArtifactType, manifest.Annotations)\n}\n\n// pushIfNotExist",
		New: "\t\tArtifactType: artifactType,\n\t\tAnnotations:  annotations,\n\t}\n\treturn pushManifest(ctx, pusher, manifest, manifest.MediaType, manifest.ArtifactType, manifest.Annotations)\n}\n\n// pushIfNotExist", Expect: "C19.R5"},
	{Name: "v11-empty-layers-kept-empty", File: "pack.go",
		Old: "\t\topts.Layers = []ocispec.Descriptor{layerDesc}\n", New: "\t\t_ = layerDesc\n", Expect: "C19.R5"},
	{Name: "v10-config-annotations-dropped", File: "pack.go",
		Old: "\t\tconfigDesc, err = pushCustomEmptyConfig(ctx, pusher, artifactType, opts.ConfigAnnotations)\n\t\tif err != nil {\n\t\t\treturn ocispec.Descriptor{}, err\n\t\t}\n\t}\n\n\tannotations, err := ensureAnnotationCreated(opts.ManifestAnnotations, ocispec.AnnotationCreated)\n\tif err != nil {\n\t\treturn ocispec.Descriptor{}, err\n\t}\n\tif opts.Layers == nil {",
		New: "\t\tconfigDesc, err = pushCustomEmptyConfig(ctx, pusher, artifactType, nil)\n\t\tif err != nil {\n\t\t\treturn ocispec.Descriptor{}, err\n\t\t}\n\t}\n\n\tannotations, err := ensureAnnotationCreated(opts.ManifestAnnotations, ocispec.AnnotationCreated)\n\tif err != nil {\n\t\treturn ocispec.Descriptor{}, err\n\t}\n\tif opts.Layers == nil {", Expect: "C19.R5"},
	{Name: "media-type-128-chars", File: "pack.go",
		Old: "{0,126}/[A-Za-z0-9]", New: "{0,127}/[A-Za-z0-9]", Expect: "C19.R6"},
	{Name: "media-type-unanchored-end", File: "pack.go",
		Old: "[A-Za-z0-9!#$&^_.+-]{0,126}$`)", New: "[A-Za-z0-9!#$&^_.+-]{0,126}`)", Expect: "C19.R6"},
	{Name: "media-type-allows-star", File: "pack.go",
		Old: "/[A-Za-z0-9][A-Za-z0-9!#$&^_.+-]{0,126}$", New: "/[A-Za-z0-9][A-Za-z0-9!#$&^_.+*-]{0,126}$", Expect: "C19.R6"},
	{Name: "validator-accepts-empty", File: "pack.go",
		Old: "\tif !mediaTypeRegexp.MatchString(mediaType) {", New: "\tif !mediaTypeRegexp.MatchString(mediaType) && mediaType != \"\" {", Expect: "C19.R1"},
	{Name: "validator-inverted", File: "pack.go",
		Old: "\tif !mediaTypeRegexp.MatchString(mediaType) {", New: "\tif mediaTypeRegexp.MatchString(mediaType) && len(mediaType) > 255 {", Expect: "C19.R1"},
}
