package main

// Inlined view of a function (used by C14 and C16).
//
// A view expands, context-sensitively and to a bounded depth, the calls a root
// function makes to in-module helpers, so that path questions ("every path to
// X passes Y") and value questions ("which values can this denote") give the
// same answer whether a piece of code sits in the root, in an extracted helper
// method or in a top-level function.  Cuts and targets stay context-free
// (*ssa.Instruction / Edge): an instruction counts wherever its function is
// inlined; the call/return matching of paths is exact.

import (
	"fmt"
	"go/constant"
	"go/token"
	"go/types"
	"sort"
	"strings"

	"golang.org/x/tools/go/ssa"
)

type c14Ctx struct {
	parent *c14Ctx
	site   ssa.CallInstruction // *ssa.Call, or the *ssa.Defer whose callee runs at `at`
	at     *ssa.RunDefers      // for deferred callees: the exit they run at
	fn     *ssa.Function
	depth  int
	kids   map[*ssa.Call]*c14Ctx
	// dkids: per RunDefers of fn, the deferred callees that may run there (LIFO order);
	// dmust tells whether the defer statement is executed on every path to that exit
	dkids map[*ssa.RunDefers][]*c14Ctx
	dmust map[*c14Ctx]bool
	// virtual: the callee is a callback handed to the call (arguments do not map to parameters)
	virtual bool
}

type c14View struct {
	Root *ssa.Function
	ctxs []*c14Ctx
	byFn map[*ssa.Function][]*c14Ctx
	// extra parameter bindings (receivers of method values used as callbacks)
	bind  map[*ssa.Parameter][]ssa.Value
	roots []*ssa.Function // additional entry points (AddRoot)
	// cur: during walk, the point whose instruction is being offered to the target predicate
	cur c14Pt
	// liCut: located instructions added to a cut (CutLI)
	liCut map[*cut]map[c14LI]bool
	// triCut: edges of a cut that count only when their source block was entered from a given predecessor
	triCut map[*cut]map[[3]*ssa.BasicBlock]bool
	// inCarried: nesting depth of carriedField (a carrier reached through another carrier)
	inCarried int
}

type c14Pt struct {
	ctx *c14Ctx
	b   *ssa.BasicBlock
	i   int
	// the inlined call that returned most recently on this path and what is
	// known about the error it returned (prunes the caller's `err != nil` test)
	errOf *ssa.Call
	errSt NilStatus
	// pred: the block control came from when it entered b at its first instruction (nil otherwise)
	pred *ssa.BasicBlock
	// the value most recently tested against nil on this path and the outcome
	nvVal ssa.Value
	nvSt  NilStatus
}

// c14NewView builds the view of root; expand decides which static callees are
// looked into (nil: every function of the module that has a body).
func c14NewView(root *ssa.Function, maxDepth int, expand func(g *ssa.Function) bool) *c14View {
	return c14NewViewV(root, maxDepth, expand, nil)
}

// c14NewViewV additionally expands, at the call sites for which virt returns a
// function, that function as if it were called there (callbacks run by the callee).
func c14NewViewV(root *ssa.Function, maxDepth int, expand func(g *ssa.Function) bool, virt func(call *ssa.Call) *ssa.Function) *c14View {
	v := &c14View{Root: root, byFn: map[*ssa.Function][]*c14Ctx{}, bind: map[*ssa.Parameter][]ssa.Value{}}
	if expand == nil {
		expand = func(g *ssa.Function) bool { return inModule(g) }
	}
	rootCtx := &c14Ctx{fn: root, kids: map[*ssa.Call]*c14Ctx{}}
	v.ctxs = append(v.ctxs, rootCtx)
	for qi := 0; qi < len(v.ctxs) && len(v.ctxs) < 400; qi++ {
		cx := v.ctxs[qi]
		v.byFn[cx.fn] = append(v.byFn[cx.fn], cx)
		if cx.depth >= maxDepth {
			continue
		}
		v.expandDefers(cx, expand)
		for _, b := range cx.fn.Blocks {
			for _, in := range b.Instrs {
				call, ok := in.(*ssa.Call)
				if !ok {
					continue
				}
				g := StaticCallee(call)
				if g == nil && !call.Call.IsInvoke() && cx.site != nil && !cx.virtual {
					// a call of a func-typed parameter: at this call site of the helper the parameter is a known
					// function literal / function — the helper is instantiated with it
					if p, isP := call.Call.Value.(*ssa.Parameter); isP {
						for i, q := range cx.fn.Params {
							if q == p && i < len(cx.site.Common().Args) {
								if rs := Roots(cx.site.Common().Args[i]); len(rs) == 1 {
									switch x := rs[0].(type) {
									case *ssa.MakeClosure:
										g = x.Fn.(*ssa.Function)
									case *ssa.Function:
										g = x
									}
								}
							}
						}
					}
				}
				virtual := false
				if virt != nil {
					if vg := virt(call); vg != nil {
						g, virtual = vg, true
					}
				}
				if g == nil || len(g.Blocks) == 0 || (!virtual && !expand(g)) {
					continue
				}
				rec := false
				for p := cx; p != nil; p = p.parent {
					if p.fn == g {
						rec = true
					}
				}
				if rec {
					continue
				}
				k := &c14Ctx{parent: cx, site: call, fn: g, depth: cx.depth + 1, kids: map[*ssa.Call]*c14Ctx{}, virtual: virtual}
				if cx.kids == nil {
					cx.kids = map[*ssa.Call]*c14Ctx{}
				}
				cx.kids[call] = k
				v.ctxs = append(v.ctxs, k)
			}
		}
	}
	return v
}

// expandDefers registers, for every exit of cx.fn, the deferred in-module
// callees (static functions and function literals) that may run there.
func (v *c14View) expandDefers(cx *c14Ctx, expand func(g *ssa.Function) bool) {
	var defers []*ssa.Defer
	var exits []*ssa.RunDefers
	AllInstrs(cx.fn, func(in ssa.Instruction) {
		switch x := in.(type) {
		case *ssa.Defer:
			if g := StaticCallee(x); g != nil && len(g.Blocks) > 0 && expand(g) {
				defers = append(defers, x)
			}
		case *ssa.RunDefers:
			exits = append(exits, x)
		}
	})
	if len(defers) == 0 {
		return
	}
	cx.dkids, cx.dmust = map[*ssa.RunDefers][]*c14Ctx{}, map[*c14Ctx]bool{}
	for _, r := range exits {
		for i := len(defers) - 1; i >= 0; i-- {
			d := defers[i]
			if !Reachable(d, r) {
				continue
			}
			g := StaticCallee(d)
			rec := false
			for p := cx; p != nil; p = p.parent {
				if p.fn == g {
					rec = true
				}
			}
			if rec {
				continue
			}
			k := &c14Ctx{parent: cx, site: d, at: r, fn: g, depth: cx.depth + 1, kids: map[*ssa.Call]*c14Ctx{}}
			cx.dkids[r] = append(cx.dkids[r], k)
			cx.dmust[k] = MustPass(r, newCut().Instr(d))
			v.ctxs = append(v.ctxs, k)
		}
	}
}

// AddRoot adds fn as a further entry point of the view (a callback the root's
// callees run): its body and helpers become part of the view; its returns are exits.
func (v *c14View) AddRoot(fn *ssa.Function, maxDepth int, expand func(g *ssa.Function) bool) {
	if fn == nil || len(fn.Blocks) == 0 || v.Has(fn) {
		return
	}
	if expand == nil {
		expand = func(g *ssa.Function) bool { return inModule(g) }
	}
	sub := c14NewViewV(fn, maxDepth, expand, nil)
	for _, cx := range sub.ctxs {
		v.ctxs = append(v.ctxs, cx)
		v.byFn[cx.fn] = append(v.byFn[cx.fn], cx)
	}
	v.roots = append(v.roots, fn)
}

// Funcs lists the functions present in the view (root first, then by name).
func (v *c14View) Funcs() []*ssa.Function {
	var out []*ssa.Function
	for f := range v.byFn {
		if f != v.Root {
			out = append(out, f)
		}
	}
	sort.Slice(out, func(i, j int) bool { return out[i].String() < out[j].String() })
	return append([]*ssa.Function{v.Root}, out...)
}

func (v *c14View) Has(f *ssa.Function) bool { return len(v.byFn[f]) > 0 }

func (v *c14View) isRoot(f *ssa.Function) bool {
	for _, r := range v.roots {
		if r == f {
			return true
		}
	}
	return f == v.Root
}

// Inlined reports whether call is expanded in the view.
func (v *c14View) Inlined(call ssa.CallInstruction) bool {
	c, ok := call.(*ssa.Call)
	if !ok {
		return false
	}
	for _, cx := range v.byFn[c.Parent()] {
		if cx.kids[c] != nil {
			return true
		}
	}
	return false
}

// inlinedStatic: call is expanded into its static callee (not a callback).
func (v *c14View) inlinedStatic(c *ssa.Call) bool {
	for _, cx := range v.byFn[c.Parent()] {
		if k := cx.kids[c]; k != nil && !k.virtual {
			return true
		}
	}
	return false
}

// Instrs visits every instruction of every function of the view (once).
func (v *c14View) Instrs(f func(in ssa.Instruction)) {
	for _, fn := range v.Funcs() {
		AllInstrs(fn, f)
	}
}

// Calls lists the call instructions (any function of the view) whose callee name satisfies pred.
func (v *c14View) Calls(pred func(n string) bool) []ssa.CallInstruction {
	var out []ssa.CallInstruction
	for _, fn := range v.Funcs() {
		out = append(out, Calls(fn, pred)...)
	}
	return out
}

func (v *c14View) CallsTo(names ...string) []ssa.CallInstruction {
	var out []ssa.CallInstruction
	for _, fn := range v.Funcs() {
		out = append(out, CallsTo(fn, names...)...)
	}
	return out
}

// ---------- paths ----------

func (v *c14View) entry() []c14Pt {
	return []c14Pt{{ctx: v.ctxs[0], b: v.Root.Blocks[0]}}
}

func (v *c14View) after(in ssa.Instruction) []c14Pt {
	var out []c14Pt
	for _, cx := range v.byFn[in.Parent()] {
		out = append(out, c14Pt{ctx: cx, b: in.Block(), i: instrIndex(in) + 1})
	}
	return out
}

func (v *c14View) atBlock(b *ssa.BasicBlock) []c14Pt {
	var out []c14Pt
	for _, cx := range v.byFn[b.Parent()] {
		out = append(out, c14Pt{ctx: cx, b: b})
	}
	return out
}

// walk explores forward from the start points.  It reports whether a target
// instruction (any context) or — with toExit — a Return of the root is reached
// without executing a cut instruction or taking a cut edge.
func (v *c14View) walk(starts []c14Pt, target func(ssa.Instruction) bool, cu *cut, toExit bool) (bool, ssa.Instruction) {
	visited := map[c14Pt]bool{}
	stack := append([]c14Pt{}, starts...)
	for len(stack) > 0 {
		pt := stack[len(stack)-1]
		stack = stack[:len(stack)-1]
		if visited[pt] {
			continue
		}
		visited[pt] = true
		b := pt.b
		done := false
		for i := pt.i; i < len(b.Instrs) && !done; i++ {
			in := b.Instrs[i]
			if target != nil {
				v.cur = pt
				if target(in) {
					return true, in
				}
			}
			if cu != nil && (cu.instrs[in] || (v.liCut != nil && v.liCut[cu][c14LI{in, pt.ctx}])) {
				done = true
				break
			}
			switch x := in.(type) {
			case *ssa.Call:
				if k := pt.ctx.kids[x]; k != nil {
					stack = append(stack, c14Pt{ctx: k, b: k.fn.Blocks[0]})
					done = true
				}
			case *ssa.RunDefers:
				if ds := pt.ctx.dkids[x]; len(ds) > 0 {
					stack = append(stack, v.deferChain(pt.ctx, x, 0)...)
					done = true
				}
			case *ssa.Return:
				switch {
				case pt.ctx.parent == nil:
					if toExit {
						return true, in
					}
				case pt.ctx.at != nil:
					// a deferred callee returns: the next deferred callee, or the rest of the exit
					par := pt.ctx.parent
					ds := par.dkids[pt.ctx.at]
					next := len(ds)
					for j, k := range ds {
						if k == pt.ctx {
							next = j + 1
						}
					}
					stack = append(stack, v.deferChain(par, pt.ctx.at, next)...)
				default:
					s := pt.ctx.site.(*ssa.Call)
					np := c14Pt{ctx: pt.ctx.parent, b: s.Block(), i: instrIndex(s) + 1}
					if !pt.ctx.virtual {
						if st := v.retErrStatusAt(x, pt); st != MaybeNil {
							np.errOf, np.errSt = s, st
						}
					}
					stack = append(stack, np)
				}
				done = true
			case *ssa.Panic:
				done = true
			}
		}
		if done {
			continue
		}
		only := v.constBranch(pt.ctx, b)
		if only < 0 && pt.errOf != nil {
			only = c14ErrBranch(b, pt.errOf, pt.errSt)
		}
		// a nil test at the end of b: decided if it repeats the last one on this path; remembered otherwise
		tested, nilIdx := c14NilTestOf(b, pt.pred)
		if only < 0 && tested != nil && pt.nvVal == tested && pt.nvSt != MaybeNil {
			only = nilIdx
			if pt.nvSt == NonNil {
				only = 1 - nilIdx
			}
		}
		for i, s := range b.Succs {
			if only >= 0 && i != only {
				continue // the branch is decided by a constant argument / by the error just returned
			}
			if cu != nil && cu.edges[Edge{b, s}] {
				continue
			}
			if cu != nil && pt.pred != nil && v.triCut != nil && v.triCut[cu][[3]*ssa.BasicBlock{pt.pred, b, s}] {
				continue
			}
			if pt.pred != nil && c14PhiInfeasible(pt.pred, b, i) {
				continue // the branch condition is a phi that is a constant when coming from pred
			}
			np := c14Pt{ctx: pt.ctx, b: s, errOf: pt.errOf, errSt: pt.errSt, pred: b, nvVal: pt.nvVal, nvSt: pt.nvSt}
			if tested != nil {
				np.nvVal, np.nvSt = tested, NonNil
				if i == nilIdx {
					np.nvSt = IsNil
				}
			}
			stack = append(stack, np)
		}
	}
	return false, nil
}

// deferChain: the points control may continue at when exit r of cx has run the
// first `from` deferred callees: the next one (and, if its defer statement is
// not executed on every path to r, also what follows it), or the instruction
// after the rundefers.
func (v *c14View) deferChain(cx *c14Ctx, r *ssa.RunDefers, from int) []c14Pt {
	ds := cx.dkids[r]
	var out []c14Pt
	for j := from; j < len(ds); j++ {
		k := ds[j]
		out = append(out, c14Pt{ctx: k, b: k.fn.Blocks[0]})
		if cx.dmust[k] {
			return out
		}
	}
	return append(out, c14Pt{ctx: cx, b: r.Block(), i: instrIndex(r) + 1})
}

// constBranch: block b of cx.fn ends in `if p` (or `if !p`) with p a boolean
// parameter that this call site binds to a constant: returns the index of the
// only feasible successor, else -1.
func (v *c14View) constBranch(cx *c14Ctx, b *ssa.BasicBlock) int {
	if cx.site == nil || cx.virtual || len(b.Instrs) == 0 {
		return -1
	}
	ifi, ok := b.Instrs[len(b.Instrs)-1].(*ssa.If)
	if !ok {
		return -1
	}
	cond, neg := ifi.Cond, false
	for {
		u, isNot := cond.(*ssa.UnOp)
		if !isNot || u.Op != token.NOT {
			break
		}
		cond, neg = u.X, !neg
	}
	p, ok := cond.(*ssa.Parameter)
	if !ok {
		return -1
	}
	for i, q := range cx.fn.Params {
		if q != p || i >= len(cx.site.Common().Args) {
			continue
		}
		k, isK := cx.site.Common().Args[i].(*ssa.Const)
		if !isK || k.Value == nil || k.Value.Kind() != constant.Bool {
			return -1
		}
		val := constant.BoolVal(k.Value) != neg
		if val {
			return 0
		}
		return 1
	}
	return -1
}

// retErrStatusAt: c14RetErrStatus, refined by the path: a Return that hands on
// exactly the error of the inlined call that just returned inherits what is
// known about that error.
func (v *c14View) retErrStatusAt(ret *ssa.Return, pt c14Pt) NilStatus {
	st := c14RetErrStatus(ret)
	if st != MaybeNil || pt.errOf == nil || pt.errOf.Parent() != ret.Parent() {
		return st
	}
	idx := ErrResultIndex(ret.Parent().Signature)
	if idx < 0 || idx >= len(ret.Results) {
		return st
	}
	rs := Roots(ret.Results[idx])
	if e := ErrOf(pt.errOf); e != nil && len(rs) == 1 && rs[0] == e {
		return pt.errSt
	}
	return st
}

// c14RetErrStatus: what is known about the error result of this Return:
// IsNil (literal nil), NonNil (constructed error, or returned under its own
// `!= nil` test), MaybeNil otherwise.
func c14RetErrStatus(ret *ssa.Return) NilStatus {
	f := ret.Parent()
	idx := ErrResultIndex(f.Signature)
	if idx < 0 || idx >= len(ret.Results) {
		return MaybeNil
	}
	rs := Roots(ret.Results[idx])
	if len(rs) == 0 {
		return MaybeNil
	}
	allNil, allNon := true, true
	for _, r := range rs {
		if isNilConst(r) {
			allNon = false
			continue
		}
		allNil = false
		if ErrNilStatus(r, 0) == NonNil {
			continue
		}
		_, nn, _ := NilTests(f, Aliases(r))
		if len(nn) > 0 && MustPass(ret, newCut().Edges(nn...)) {
			continue
		}
		allNon = false
	}
	switch {
	case allNil:
		return IsNil
	case allNon:
		return NonNil
	}
	return MaybeNil
}

// c14ErrBranch: block b ends in a nil test of the error returned by call;
// returns the index of the only feasible successor given its status, else -1.
func c14ErrBranch(b *ssa.BasicBlock, call *ssa.Call, st NilStatus) int {
	if len(b.Instrs) == 0 || b.Parent() != call.Parent() {
		return -1
	}
	ifi, ok := b.Instrs[len(b.Instrs)-1].(*ssa.If)
	if !ok {
		return -1
	}
	e := ErrOf(call)
	if e == nil {
		return -1
	}
	cond, t, f := ifEdges(ifi)
	bo, ok := cond.(*ssa.BinOp)
	if !ok || (bo.Op != token.EQL && bo.Op != token.NEQ) {
		return -1
	}
	var x ssa.Value
	if isNilConst(bo.Y) {
		x = bo.X
	} else if isNilConst(bo.X) {
		x = bo.Y
	} else {
		return -1
	}
	// x must denote exactly this call's error
	rs := Roots(x)
	if len(rs) != 1 || rs[0] != e {
		return -1
	}
	nilEdge, nonNilEdge := t, f
	if bo.Op == token.NEQ {
		nilEdge, nonNilEdge = f, t
	}
	want := nilEdge
	if st == NonNil {
		want = nonNilEdge
	}
	for i, s := range b.Succs {
		if s == want.To && want.From == b {
			return i
		}
	}
	return -1
}

func c14Is(to ssa.Instruction) func(ssa.Instruction) bool {
	return func(in ssa.Instruction) bool { return in == to }
}

// MustPass: every path from the root's entry to `to` (in any context) hits the cut.
func (v *c14View) MustPass(to ssa.Instruction, cu *cut) bool {
	r, _ := v.walk(v.entry(), c14Is(to), cu, false)
	return !r
}

// ReachableFromEntry: `to` occurs on some path from the root's entry.
func (v *c14View) ReachableFromEntry(to ssa.Instruction) bool {
	r, _ := v.walk(v.entry(), c14Is(to), nil, false)
	return r
}

// Reach: `to` reachable from just after `from` avoiding the cut.
func (v *c14View) Reach(from, to ssa.Instruction, cu *cut) bool {
	r, _ := v.walk(v.after(from), c14Is(to), cu, false)
	return r
}

func (v *c14View) Reachable(from, to ssa.Instruction) bool { return v.Reach(from, to, nil) }

func (v *c14View) MustPassBetween(from, to ssa.Instruction, cu *cut) bool {
	return !v.Reach(from, to, cu)
}

// EdgeReach: `to` reachable from the target block of edge e avoiding the cut.
func (v *c14View) EdgeReach(e Edge, to ssa.Instruction, cu *cut) bool {
	r, _ := v.walk(v.atBlock(e.To), c14Is(to), cu, false)
	return r
}

// ExitFromEdge: a Return of the root reachable from edge e avoiding the cut.
func (v *c14View) ExitFromEdge(e Edge, cu *cut) bool {
	r, _ := v.walk(v.atBlock(e.To), nil, cu, true)
	return r
}

// ExitAfter: a Return of the root reachable after `from` avoiding the cut.
func (v *c14View) ExitAfter(from ssa.Instruction, cu *cut) bool {
	r, _ := v.walk(v.after(from), nil, cu, true)
	return r
}

// ExitFromEntry: a Return of the root reachable from entry avoiding the cut.
func (v *c14View) ExitFromEntry(cu *cut) bool {
	r, _ := v.walk(v.entry(), nil, cu, true)
	return r
}

// ---------- values ----------

// Leaves resolves val to the values it may denote, looking through phis and
// local cells (Roots), parameters of inlined functions (arguments at their
// call sites in the view), results of inlined calls (the callee's returned
// values), captured variables of closures, and fields of struct objects that
// merely carry values between functions of the view.
func (v *c14View) Leaves(val ssa.Value) []ssa.Value { return v.leaves(val, true) }

// LeavesShallow is Leaves without looking into the results of inlined calls
// (a call result stays a leaf): used to find which helper produced a value.
func (v *c14View) LeavesShallow(val ssa.Value) []ssa.Value { return v.leaves(val, false) }

func (v *c14View) leaves(val ssa.Value, intoCalls bool) []ssa.Value {
	var out []ssa.Value
	seen := map[ssa.Value]bool{}
	var rec func(x ssa.Value, depth int)
	rec = func(x ssa.Value, depth int) {
		for _, r := range Roots(x) {
			if seen[r] {
				continue
			}
			seen[r] = true
			if depth > 12 {
				out = append(out, r)
				continue
			}
			switch u := r.(type) {
			case *ssa.Parameter:
				if bs := v.bind[u]; len(bs) > 0 {
					for _, b := range bs {
						rec(b, depth+1)
					}
					continue
				}
				f := u.Parent()
				if f != v.Root && v.Has(f) && !v.isRoot(f) {
					idx := -1
					for i, p := range f.Params {
						if p == u {
							idx = i
						}
					}
					n := 0
					for _, cx := range v.byFn[f] {
						if cx.site != nil && !cx.virtual && idx >= 0 && idx < len(cx.site.Common().Args) {
							rec(cx.site.Common().Args[idx], depth+1)
							n++
						}
					}
					if n > 0 {
						continue
					}
				}
			case *ssa.Call:
				if g := StaticCallee(u); intoCalls && g != nil && v.inlinedStatic(u) && g.Signature.Results().Len() == 1 {
					for _, ret := range Returns(g) {
						rec(ret.Results[0], depth+1)
					}
					continue
				}
			case *ssa.Extract:
				if call, ok := u.Tuple.(*ssa.Call); ok {
					if g := StaticCallee(call); intoCalls && g != nil && v.inlinedStatic(call) {
						for _, ret := range Returns(g) {
							if u.Index < len(ret.Results) {
								rec(ret.Results[u.Index], depth+1)
							}
						}
						continue
					}
				}
			case *ssa.UnOp:
				if u.Op == token.MUL {
					if fv, ok := u.X.(*ssa.FreeVar); ok {
						if cell := c14FreeVarAlloc(fv); cell != nil {
							sts := c14DeferredCellStores(fv, cell)
							if sts == nil {
								sts = c14CellStores(cell)
							}
							if len(sts) > 0 {
								for _, s := range sts {
									rec(s.Val, depth+1)
								}
								continue
							}
						}
					}
					if fa, ok := u.X.(*ssa.FieldAddr); ok {
						if vals, ok := v.carriedField(fa); ok {
							for _, s := range vals {
								rec(s, depth+1)
							}
							continue
						}
					}
				}
			}
			out = append(out, r)
		}
	}
	rec(val, 0)
	return out
}

// objOf: the single local object (Alloc of a struct) an address base denotes.
func (v *c14View) objOf(base ssa.Value) *ssa.Alloc {
	ls := v.Leaves(base)
	if len(ls) != 1 {
		return nil
	}
	a, ok := ls[0].(*ssa.Alloc)
	if !ok {
		return nil
	}
	if _, isStruct := a.Type().Underlying().(*types.Pointer).Elem().Underlying().(*types.Struct); !isStruct {
		return nil
	}
	return a
}

// carriedField: fa addresses field f of a struct object created in the view;
// returns every value stored into that field by functions of the view.
func (v *c14View) carriedField(fa *ssa.FieldAddr) ([]ssa.Value, bool) {
	if v.inCarried > 3 {
		return nil, false
	}
	v.inCarried++
	defer func() { v.inCarried-- }()
	obj := v.objOf(fa.X)
	if obj == nil {
		return nil, false
	}
	var vals []ssa.Value
	for _, st := range v.FieldStoresOf(obj, fa.Field) {
		vals = append(vals, st.Val)
	}
	return vals, len(vals) > 0
}

// FieldStoresOf: stores into field `field` of object obj by functions of the view.
func (v *c14View) FieldStoresOf(obj *ssa.Alloc, field int) []*ssa.Store {
	var out []*ssa.Store
	v.Instrs(func(in ssa.Instruction) {
		st, ok := in.(*ssa.Store)
		if !ok {
			return
		}
		fa, ok := st.Addr.(*ssa.FieldAddr)
		if !ok || fa.Field != field {
			return
		}
		if !types.Identical(fa.X.Type(), obj.Type()) {
			return
		}
		if v.objOf(fa.X) == obj {
			out = append(out, st)
		}
	})
	return out
}

// Aliases: every value in the view that denotes val (forward): local aliases,
// the parameter it is passed as to an inlined callee, the call result it is
// returned as from an inlined callee.
func (v *c14View) Aliases(val ssa.Value) map[ssa.Value]bool {
	out := map[ssa.Value]bool{}
	work := []ssa.Value{val}
	for len(work) > 0 {
		x := work[len(work)-1]
		work = work[:len(work)-1]
		for a := range Aliases(x) {
			if out[a] {
				continue
			}
			out[a] = true
			refs := a.Referrers()
			if refs == nil {
				continue
			}
			for _, r := range *refs {
				switch u := r.(type) {
				case *ssa.Call:
					g := StaticCallee(u)
					if g == nil || !v.inlinedStatic(u) {
						continue
					}
					for i, arg := range u.Call.Args {
						if arg == a && i < len(g.Params) && !out[g.Params[i]] {
							work = append(work, g.Params[i])
						}
					}
				case *ssa.Return:
					f := u.Parent()
					if f == v.Root {
						continue
					}
					for i, res := range u.Results {
						if res != a {
							continue
						}
						for _, cx := range v.byFn[f] {
							site, isCall := cx.site.(*ssa.Call)
							if !isCall || cx.virtual {
								continue
							}
							if len(u.Results) == 1 {
								if !out[site] {
									work = append(work, site)
								}
							} else if ex := ResultOf(site, i); ex != nil && !out[ex] {
								work = append(work, ex)
							}
						}
					}
				}
			}
		}
	}
	return out
}

// StrictAliases: the aliases of val that denote nothing but val (phis merging
// it with other values are dropped).
func (v *c14View) StrictAliases(val ssa.Value) map[ssa.Value]bool {
	out := map[ssa.Value]bool{}
	for a := range v.Aliases(val) {
		ls := v.Leaves(a)
		ok := len(ls) > 0
		for _, l := range ls {
			if l != val {
				ok = false
			}
		}
		if ok || a == val {
			out[a] = true
		}
	}
	return out
}

// NilTests / BoolTests over every function of the view.
func (v *c14View) NilTests(vals map[ssa.Value]bool) (nilE, nonNilE []Edge) {
	for _, f := range v.Funcs() {
		n, nn, _ := NilTests(f, vals)
		nilE, nonNilE = append(nilE, n...), append(nonNilE, nn...)
	}
	return
}

func (v *c14View) BoolTests(vals map[ssa.Value]bool) (t, f []Edge) {
	for _, fn := range v.Funcs() {
		a, b := BoolTests(fn, vals)
		t, f = append(t, a...), append(f, b...)
	}
	return
}

// IsLoadOfField: every leaf of val is a load of typeName.field.
func (v *c14View) IsLoadOfField(val ssa.Value, typeName, field string) bool {
	ls := v.Leaves(val)
	if len(ls) == 0 {
		return false
	}
	for _, r := range ls {
		u, ok := r.(*ssa.UnOp)
		if !ok || u.Op != token.MUL {
			return false
		}
		fa, ok := u.X.(*ssa.FieldAddr)
		if !ok || fieldName(fa.X.Type(), fa.Field) != typeName+"."+field {
			return false
		}
	}
	return true
}

// FieldStores / FieldLoads over the view.
func (v *c14View) FieldStores(typeName, field string) []*ssa.Store {
	var out []*ssa.Store
	for _, f := range v.Funcs() {
		out = append(out, c14FieldStores(f, typeName, field)...)
	}
	return out
}

func (v *c14View) FieldLoads(typeName, field string) []*ssa.UnOp {
	var out []*ssa.UnOp
	for _, f := range v.Funcs() {
		out = append(out, c14FieldLoads(f, typeName, field)...)
	}
	return out
}

func (v *c14View) Sends() []*ssa.Send {
	var out []*ssa.Send
	for _, f := range v.Funcs() {
		out = append(out, c14Sends(f)...)
	}
	return out
}

// ---------- function values ----------

// c14FuncTarget resolves a function value used as a callback: a function
// literal, a bound method value (x.m), or a plain function.  recv is the
// receiver bound by a method value (nil otherwise).
func c14FuncTarget(v ssa.Value) (fn *ssa.Function, recv ssa.Value, mc *ssa.MakeClosure) {
	rs := Roots(v)
	if len(rs) != 1 {
		return nil, nil, nil
	}
	switch u := rs[0].(type) {
	case *ssa.Function:
		return u, nil, nil
	case *ssa.MakeClosure:
		f := u.Fn.(*ssa.Function)
		if strings.HasPrefix(f.Synthetic, "bound method wrapper") && len(u.Bindings) == 1 {
			// the wrapper calls the method with the bound receiver
			for _, call := range Calls(f, func(string) bool { return true }) {
				if g := StaticCallee(call); g != nil && g.Signature.Recv() != nil {
					return g, u.Bindings[0], u
				}
			}
			return nil, nil, u
		}
		return f, nil, u
	}
	return nil, nil, nil
}

// c14DeferredCellStores: fv is a captured variable of a function literal that
// is used only as a deferred call in its parent.  The variable then denotes,
// inside the literal, the stores that reach the exits at which the deferred
// call runs (plus stores made by closures).  Returns nil if the literal is not
// of that kind.
func c14DeferredCellStores(fv *ssa.FreeVar, cell *ssa.Alloc) []*ssa.Store {
	lit := fv.Parent()
	par := lit.Parent()
	if par == nil || cell.Parent() != par {
		return nil
	}
	var defers []*ssa.Defer
	okAll := true
	AllInstrs(par, func(in ssa.Instruction) {
		mc, ok := in.(*ssa.MakeClosure)
		if !ok || mc.Fn != lit {
			return
		}
		for _, r := range *mc.Referrers() {
			switch d := r.(type) {
			case *ssa.Defer:
				defers = append(defers, d)
			case *ssa.DebugRef:
			default:
				okAll = false
			}
		}
	})
	if !okAll || len(defers) == 0 {
		return nil
	}
	seen := map[*ssa.Store]bool{}
	var out []*ssa.Store
	AllInstrs(par, func(in ssa.Instruction) {
		r, ok := in.(*ssa.RunDefers)
		if !ok {
			return
		}
		runs := false
		for _, d := range defers {
			if Reachable(d, r) {
				runs = true
			}
		}
		if !runs {
			return
		}
		for _, st := range ReachingStores(cell, r) {
			if st != nil && !seen[st] {
				seen[st] = true
				out = append(out, st)
			}
		}
	})
	for _, st := range c14CellStores(cell) {
		if st.Parent() != par && !seen[st] {
			seen[st] = true
			out = append(out, st)
		}
	}
	if out == nil {
		out = []*ssa.Store{}
	}
	return out
}

// Weights: over the paths of the view from the start points to an exit (loop
// back edges removed), the maximum and minimum total weight of the
// instructions executed.  Calls that are expanded weigh nothing themselves.
func (v *c14View) Weights(starts []c14Pt, weight func(ssa.Instruction) int) (max, min int) {
	back := map[*ssa.Function]map[Edge]bool{}
	backOf := func(f *ssa.Function) map[Edge]bool {
		if m, ok := back[f]; ok {
			return m
		}
		m := map[Edge]bool{}
		for _, l := range Loops(f) {
			for _, e := range l.Backs {
				m[e] = true
			}
		}
		back[f] = m
		return m
	}
	type mm struct{ max, min int }
	type key struct {
		ctx *c14Ctx
		b   *ssa.BasicBlock
		i   int
	}
	memo := map[key]mm{}
	onStack := map[key]bool{}
	var rec func(pt c14Pt) mm
	rec = func(pt c14Pt) mm {
		k := key{pt.ctx, pt.b, pt.i}
		if r, ok := memo[k]; ok {
			return r
		}
		if onStack[k] {
			return mm{}
		}
		onStack[k] = true
		defer delete(onStack, k)
		w := 0
		b := pt.b
		for i := pt.i; i < len(b.Instrs); i++ {
			in := b.Instrs[i]
			switch x := in.(type) {
			case *ssa.Call:
				if kctx := pt.ctx.kids[x]; kctx != nil {
					r := rec(c14Pt{ctx: kctx, b: kctx.fn.Blocks[0]})
					memo[k] = mm{w + r.max, w + r.min}
					return memo[k]
				}
			case *ssa.Return:
				if pt.ctx.parent == nil || pt.ctx.at != nil {
					memo[k] = mm{w, w}
					return memo[k]
				}
				s := pt.ctx.site.(*ssa.Call)
				r := rec(c14Pt{ctx: pt.ctx.parent, b: s.Block(), i: instrIndex(s) + 1})
				memo[k] = mm{w + r.max, w + r.min}
				return memo[k]
			case *ssa.Panic:
				memo[k] = mm{w, w}
				return memo[k]
			}
			w += weight(in)
		}
		best, least, n := 0, 0, 0
		only := v.constBranch(pt.ctx, b)
		for i, s := range b.Succs {
			if backOf(b.Parent())[Edge{b, s}] || (only >= 0 && i != only) {
				continue
			}
			r := rec(c14Pt{ctx: pt.ctx, b: s})
			if r.max < 0 {
				continue // no exit that way (only loop back edges)
			}
			if n == 0 || r.max > best {
				best = r.max
			}
			if n == 0 || r.min < least {
				least = r.min
			}
			n++
		}
		if n == 0 && len(b.Succs) > 0 {
			memo[k] = mm{-1 << 30, 1 << 30}
			return memo[k]
		}
		memo[k] = mm{w + best, w + least}
		return memo[k]
	}
	first := true
	for _, s := range starts {
		r := rec(s)
		if first || r.max > max {
			max = r.max
		}
		if first || r.min < min {
			min = r.min
		}
		first = false
	}
	return
}

// ---------- located instructions (context-sensitive identity) ----------

// c14LI is an instruction as executed in one context of the view.  Needed when a
// helper is shared by several sub-objects (b.items in a batch method serves
// m.current and m.next): cuts and targets then have to tell the contexts apart.
type c14LI struct {
	In  ssa.Instruction
	Ctx *c14Ctx
}

type c14CV struct {
	V   ssa.Value
	Ctx *c14Ctx
}

// Each visits every instruction instance of the view.
func (v *c14View) Each(f func(li c14LI)) {
	for _, cx := range v.ctxs {
		for _, b := range cx.fn.Blocks {
			for _, in := range b.Instrs {
				f(c14LI{in, cx})
			}
		}
	}
}

// CutLI adds located instructions to a cut (kept in a side table of the view).
func (v *c14View) CutLI(cu *cut, lis ...c14LI) *cut {
	if v.liCut == nil {
		v.liCut = map[*cut]map[c14LI]bool{}
	}
	m := v.liCut[cu]
	if m == nil {
		m = map[c14LI]bool{}
		v.liCut[cu] = m
	}
	for _, li := range lis {
		m[li] = true
	}
	return cu
}

func (v *c14View) isLI(li c14LI) func(ssa.Instruction) bool {
	return func(in ssa.Instruction) bool { return in == li.In && v.cur.ctx == li.Ctx }
}

func (v *c14View) afterLI(li c14LI) []c14Pt {
	return []c14Pt{{ctx: li.Ctx, b: li.In.Block(), i: instrIndex(li.In) + 1}}
}

func (v *c14View) MustPassLI(to c14LI, cu *cut) bool {
	r, _ := v.walk(v.entry(), v.isLI(to), cu, false)
	return !r
}

func (v *c14View) ReachLI(from, to c14LI, cu *cut) bool {
	r, _ := v.walk(v.afterLI(from), v.isLI(to), cu, false)
	return r
}

func (v *c14View) EdgeReachLI(e Edge, to c14LI, cu *cut) bool {
	r, _ := v.walk(v.atBlock(e.To), v.isLI(to), cu, false)
	return r
}

// PathIn renders the access path of an address / pointer value as seen in
// context cx, relative to the parameters of the view's root ("p0.current.items").
// Parameters of inlined functions are replaced by the argument of this call.
func (v *c14View) PathIn(val ssa.Value, cx *c14Ctx) string {
	for depth := 0; depth < 12; depth++ {
		switch u := val.(type) {
		case *ssa.FieldAddr:
			st := u.X.Type().Underlying().(*types.Pointer).Elem().Underlying().(*types.Struct)
			return v.PathIn(u.X, cx) + "." + st.Field(u.Field).Name()
		case *ssa.Parameter:
			idx := -1
			for i, p := range cx.fn.Params {
				if p == u {
					idx = i
				}
			}
			if idx < 0 {
				return "?" + u.Name()
			}
			if cx.parent == nil || cx.virtual || cx.site == nil {
				if bs := v.bind[u]; len(bs) == 1 {
					return "?bound"
				}
				return fmt.Sprintf("p%d", idx)
			}
			if idx >= len(cx.site.Common().Args) {
				return "?" + u.Name()
			}
			val, cx = cx.site.Common().Args[idx], cx.parent
			continue
		case *ssa.UnOp:
			if u.Op == token.MUL {
				if cellOf(u) != nil {
					rs := Roots(u)
					if len(rs) == 1 && rs[0] != ssa.Value(u) {
						val = rs[0]
						continue
					}
				}
				if fv, ok := u.X.(*ssa.FreeVar); ok && cx.parent != nil {
					if cell := c14FreeVarAlloc(fv); cell != nil {
						if sts := c14CellStores(cell); len(sts) == 1 {
							val, cx = sts[0].Val, cx.parent
							continue
						}
					}
				}
				return v.PathIn(u.X, cx) + "*"
			}
		case *ssa.Alloc:
			return "new:" + u.Name()
		case *ssa.ChangeType:
			val = u.X
			continue
		}
		break
	}
	return "?"
}

// LeavesIn is Leaves with exact contexts: a parameter of an inlined function
// denotes the argument of this very call; a result of an inlined call the
// returns of that very expansion.
func (v *c14View) LeavesIn(val ssa.Value, cx *c14Ctx) []c14CV {
	var out []c14CV
	seen := map[c14CV]bool{}
	var rec func(x ssa.Value, cx *c14Ctx, depth int)
	rec = func(x ssa.Value, cx *c14Ctx, depth int) {
		for _, r := range Roots(x) {
			k := c14CV{r, cx}
			if seen[k] {
				continue
			}
			seen[k] = true
			if depth > 12 {
				out = append(out, k)
				continue
			}
			switch u := r.(type) {
			case *ssa.Parameter:
				if cx.parent != nil && !cx.virtual && cx.site != nil {
					idx := -1
					for i, p := range cx.fn.Params {
						if p == u {
							idx = i
						}
					}
					if idx >= 0 && idx < len(cx.site.Common().Args) {
						rec(cx.site.Common().Args[idx], cx.parent, depth+1)
						continue
					}
				}
			case *ssa.Call:
				if k := cx.kids[u]; k != nil && !k.virtual && k.fn.Signature.Results().Len() == 1 {
					for _, ret := range Returns(k.fn) {
						rec(ret.Results[0], k, depth+1)
					}
					continue
				}
			case *ssa.Extract:
				if call, ok := u.Tuple.(*ssa.Call); ok {
					if k := cx.kids[call]; k != nil && !k.virtual {
						for _, ret := range Returns(k.fn) {
							if u.Index < len(ret.Results) {
								rec(ret.Results[u.Index], k, depth+1)
							}
						}
						continue
					}
				}
			}
			out = append(out, k)
		}
	}
	rec(val, cx, 0)
	return out
}

// LoadPathsIn: the access paths val may have been loaded from, as seen in cx
// ("" entries for leaves that are not loads of a path).
func (v *c14View) LoadPathsIn(val ssa.Value, cx *c14Ctx) []string {
	var out []string
	for _, l := range v.LeavesIn(val, cx) {
		u, ok := l.V.(*ssa.UnOp)
		if !ok || u.Op != token.MUL {
			out = append(out, "")
			continue
		}
		out = append(out, v.PathIn(u.X, l.Ctx))
	}
	return out
}

// IsLoadOfPathIn: every leaf of val (in cx) is a load of path.
func (v *c14View) IsLoadOfPathIn(val ssa.Value, cx *c14Ctx, path string) bool {
	ps := v.LoadPathsIn(val, cx)
	for _, p := range ps {
		if p != path {
			return false
		}
	}
	return len(ps) > 0
}

// PathStores / PathLoads: the instances that store to / load from path.
func (v *c14View) PathStores(path string) []c14LI {
	var out []c14LI
	v.Each(func(li c14LI) {
		if st, ok := li.In.(*ssa.Store); ok {
			if _, isFA := st.Addr.(*ssa.FieldAddr); isFA && v.PathIn(st.Addr, li.Ctx) == path {
				out = append(out, li)
			}
		}
	})
	return out
}

func (v *c14View) PathLoads(path string) []c14LI {
	var out []c14LI
	v.Each(func(li c14LI) {
		if u, ok := li.In.(*ssa.UnOp); ok && u.Op == token.MUL {
			if _, isFA := u.X.(*ssa.FieldAddr); isFA && v.PathIn(u.X, li.Ctx) == path {
				out = append(out, li)
			}
		}
	})
	return out
}

// CutPredEdge adds to a cut the edge from→to restricted to paths that entered
// `from` coming from pred (needed when the branch condition is a phi, e.g. a
// materialised `a && b`).
func (v *c14View) CutPredEdge(cu *cut, tris ...[3]*ssa.BasicBlock) *cut {
	if v.triCut == nil {
		v.triCut = map[*cut]map[[3]*ssa.BasicBlock]bool{}
	}
	m := v.triCut[cu]
	if m == nil {
		m = map[[3]*ssa.BasicBlock]bool{}
		v.triCut[cu] = m
	}
	for _, t := range tris {
		m[t] = true
	}
	return cu
}

// c14PhiInfeasible: block b ends in `if phi` with phi defined in b, and the value
// arriving from pred is a boolean constant that contradicts successor index si.
func c14PhiInfeasible(pred, b *ssa.BasicBlock, si int) bool {
	if len(b.Instrs) == 0 {
		return false
	}
	ifi, ok := b.Instrs[len(b.Instrs)-1].(*ssa.If)
	if !ok {
		return false
	}
	cond, neg := ifi.Cond, false
	for {
		u, isNot := cond.(*ssa.UnOp)
		if !isNot || u.Op != token.NOT {
			break
		}
		cond, neg = u.X, !neg
	}
	phi, ok := cond.(*ssa.Phi)
	if !ok || phi.Block() != b {
		return false
	}
	for j, p := range b.Preds {
		if p != pred {
			continue
		}
		k, isK := phi.Edges[j].(*ssa.Const)
		if !isK || k.Value == nil || k.Value.Kind() != constant.Bool {
			return false
		}
		val := constant.BoolVal(k.Value) != neg
		return (si == 0) != val
	}
	return false
}

// PhiBoolTests: branch conditions that are phis merging boolean constants with
// values of `vals` (a materialised `x && y` / `x || y`): edges on which such a
// value is known true / false.  Plain edges hold for every way into the block,
// triples (pred, block, succ) only when the block is entered from pred.
func (v *c14View) PhiBoolTests(vals map[ssa.Value]bool) (trueE, falseE []Edge, trueTri, falseTri [][3]*ssa.BasicBlock) {
	for _, f := range v.Funcs() {
		for _, ifi := range Ifs(f) {
			b := ifi.Block()
			cond, neg := ifi.Cond, false
			for {
				u, isNot := cond.(*ssa.UnOp)
				if !isNot || u.Op != token.NOT {
					break
				}
				cond, neg = u.X, !neg
			}
			phi, ok := cond.(*ssa.Phi)
			if !ok || phi.Block() != b {
				continue
			}
			tIdx, fIdx := 0, 1
			if neg {
				tIdx, fIdx = 1, 0
			}
			allFalse, allTrue := true, true
			for _, e := range phi.Edges {
				if k, isK := e.(*ssa.Const); isK && k.Value != nil && k.Value.Kind() == constant.Bool {
					if constant.BoolVal(k.Value) {
						allFalse = false
					} else {
						allTrue = false
					}
				}
			}
			for j, e := range phi.Edges {
				x, xneg := e, false
				for {
					u, isNot := x.(*ssa.UnOp)
					if !isNot || u.Op != token.NOT {
						break
					}
					x, xneg = u.X, !xneg
				}
				if !vals[x] {
					continue
				}
				// phi true from this pred  => e true;  phi false from this pred => e false
				triT := [3]*ssa.BasicBlock{b.Preds[j], b, b.Succs[tIdx]}
				triF := [3]*ssa.BasicBlock{b.Preds[j], b, b.Succs[fIdx]}
				if !xneg {
					trueTri, falseTri = append(trueTri, triT), append(falseTri, triF)
				} else {
					trueTri, falseTri = append(trueTri, triF), append(falseTri, triT)
				}
				// and-phi: the true edge implies every merged value true; or-phi: the false edge implies every value false
				if allFalse {
					ed := Edge{b, b.Succs[tIdx]}
					if !xneg {
						trueE = append(trueE, ed)
					} else {
						falseE = append(falseE, ed)
					}
				}
				if allTrue {
					ed := Edge{b, b.Succs[fIdx]}
					if !xneg {
						falseE = append(falseE, ed)
					} else {
						trueE = append(trueE, ed)
					}
				}
			}
		}
	}
	return
}

// c14NilTestOf: block b ends in `if x == nil` / `if x != nil`; returns x (a phi of
// b resolved for the predecessor the block was entered from) and the index of the
// successor taken when x is nil.
func c14NilTestOf(b, pred *ssa.BasicBlock) (ssa.Value, int) {
	if len(b.Instrs) == 0 {
		return nil, 0
	}
	ifi, ok := b.Instrs[len(b.Instrs)-1].(*ssa.If)
	if !ok {
		return nil, 0
	}
	cond, neg := ifi.Cond, false
	for {
		u, isNot := cond.(*ssa.UnOp)
		if !isNot || u.Op != token.NOT {
			break
		}
		cond, neg = u.X, !neg
	}
	bo, ok := cond.(*ssa.BinOp)
	if !ok || (bo.Op != token.EQL && bo.Op != token.NEQ) {
		return nil, 0
	}
	var x ssa.Value
	if isNilConst(bo.Y) {
		x = bo.X
	} else if isNilConst(bo.X) {
		x = bo.Y
	} else {
		return nil, 0
	}
	if phi, isPhi := x.(*ssa.Phi); isPhi && phi.Block() == b {
		if pred == nil {
			return nil, 0
		}
		found := false
		for j, p := range b.Preds {
			if p == pred {
				x, found = phi.Edges[j], true
			}
		}
		if !found {
			return nil, 0
		}
	}
	nilIdx := 0
	if (bo.Op == token.NEQ) != neg {
		nilIdx = 1
	}
	return x, nilIdx
}
