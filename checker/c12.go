package main

// C12 — files and directories come back identical.
//
// R1 the descriptor describes the stored bytes (writer wiring of the
// directory packer; digest/size provenance of the file descriptor),
// R2 unpack verifies the recorded uncompressed digest,
// R3 reproducible tar headers, R4 duplicates restored after Push.
//
// Unexported helpers are located by role:
//   dir packer       = function of content/file that calls gzip.NewWriter          (today descriptorFromDir)
//   tar writer       = function that calls tar.NewWriter; its walk closure calls WriteHeader (tarDirectory)
//   file describer   = function that calls digest.FromReader                       (descriptorFromFile)
//   gzip extractor   = function that calls gzip.NewReader                          (extractTarGzip)
//   tar extractor    = function that calls tar.NewReader                           (extractTarDirectory)
//   verifying saver  = method that calls internal/ioutil.CopyBuffer                (saveFile)
//   restorer         = function that calls content.Successors                      (restoreDuplicates)

import (
	"fmt"
	"go/constant"
	"go/token"
	"go/types"
	"strings"

	"golang.org/x/tools/go/ssa"
)

func init() {
	register(&propDef{
		ID: "C12",
		Explain: "Decided: (R1) in the directory packer the gzip stream goes to a MultiWriter of the temp file and the digester whose Digest() becomes the descriptor digest, the tar stream to a MultiWriter of " +
			"that gzip writer and the digester whose Digest() becomes the uncompressed-digest annotation, the explicit gzip Close (flush) precedes Stat() and Digest() on every path and its error surfaces, " +
			"the unpack annotation is \"true\", the digest is mapped to the temp file; the file describer takes the digest from the opened file, the size from the FileInfo of the same path, and succeeds only " +
			"behind a successful digest; (R2) the gzip extractor hands the tar extractor a TeeReader into the verifier of the parsed checksum, a nil return is dominated by Verified() whenever a verifier exists, and " +
			"its caller passes Annotations[AnnotationDigest] and a gzip saved through the verifying saver; (R3) owner fields are zeroed unconditionally and times on the TarReproducible edge before WriteHeader, the " +
			"entry name is the slash form of prefix/rel(root,path); (R4) Push restores duplicates on the !ForceCAS edge after a successful push and returns its error, tolerating only ErrNotFound and ErrDuplicateName. " +
			"NOT decided (not applicable to static analysis): tree equality, modes under umask, PAX/long-name handling, symlink targets, option combinations — all properties of runtime values.",
		Run:     runC12,
		Mutants: c12Mutants,
	})
}

const c12Desc = "github.com/opencontainers/image-spec/specs-go/v1.Descriptor"

func c12FnsCalling(fns []*ssa.Function, name string) []*ssa.Function {
	var out []*ssa.Function
	for _, f := range fns {
		if len(CallsTo(f, name)) > 0 {
			out = append(out, f)
		}
	}
	return out
}

func c12ConstStr(p *Prog, name string) (string, bool) {
	k, ok := p.Obj(c11Pkg, name).(*types.Const)
	if !ok {
		return "", false
	}
	s := k.Val().ExactString()
	if len(s) >= 2 && s[0] == '"' {
		s = s[1 : len(s)-1]
	}
	return s, true
}

// c12FieldStores: stores into field `field` of a value of named struct type tname in fn.
func c12FieldStores(fn *ssa.Function, tname, field string) []*ssa.Store {
	var out []*ssa.Store
	AllInstrs(fn, func(in ssa.Instruction) {
		st, ok := in.(*ssa.Store)
		if !ok {
			return
		}
		fa, ok := st.Addr.(*ssa.FieldAddr)
		if !ok {
			return
		}
		t := fa.X.Type()
		if p, ok := t.Underlying().(*types.Pointer); ok {
			t = p.Elem()
		}
		n, ok := t.(*types.Named)
		if !ok || n.Obj().Pkg() == nil || n.Obj().Pkg().Path()+"."+n.Obj().Name() != tname {
			return
		}
		if n.Underlying().(*types.Struct).Field(fa.Field).Name() == field {
			out = append(out, st)
		}
	})
	return out
}

// c12Invoke: v is `invoke recv.method()`; returns recv.
func c12Invoke(v ssa.Value, method string) (ssa.Value, *ssa.Call) {
	call, ok := strip(v).(*ssa.Call)
	if !ok || !call.Call.IsInvoke() || call.Call.Method.Name() != method {
		return nil, nil
	}
	return call.Call.Value, call
}

// c12Tee describes a writer value as a tee: what it finally writes to (sinks),
// the digester whose Hash() is fed alongside, and whether a gzip.Writer sits on top.
// Sinks and Digester are values of the function in which the queried value lives.
type c12Tee struct {
	Gzip     bool
	Sinks    []ssa.Value
	Digester ssa.Value
}

// c12Unwrap understands
//
//	io.MultiWriter(sink…, d.Hash())
//	gzip.NewWriter(<tee>)
//	result #i of an in-package helper whose returns are such a construction over
//	its parameters and which also returns the digester (as result #j).
func c12Unwrap(v ssa.Value, depth int) *c12Tee {
	if depth > 3 {
		return nil
	}
	rs := Roots(v)
	if len(rs) != 1 {
		return nil
	}
	switch r := rs[0].(type) {
	case *ssa.Call:
		switch CalleeName(r) {
		case "compress/gzip.NewWriter":
			if in := c12Unwrap(r.Call.Args[0], depth+1); in != nil && !in.Gzip {
				return &c12Tee{Gzip: true, Sinks: in.Sinks, Digester: in.Digester}
			}
			return nil
		case "io.MultiWriter":
			var els []ssa.Value
			c11SliceElems(r.Call.Args[0], &els)
			t := &c12Tee{}
			for _, e := range els {
				e = strip(e)
				isHash := false
				for _, rt := range Roots(e) {
					if recv, _ := c12Invoke(rt, "Hash"); recv != nil {
						t.Digester = recv
						isHash = true
					}
				}
				if !isHash {
					t.Sinks = append(t.Sinks, e)
				}
			}
			if t.Digester == nil {
				return nil
			}
			return t
		}
	case *ssa.Extract:
		hc, ok := r.Tuple.(*ssa.Call)
		if !ok {
			return nil
		}
		H := StaticCallee(hc)
		if H == nil || !inModule(H) || len(H.Blocks) == 0 {
			return nil
		}
		var out *c12Tee
		for _, ret := range Returns(H) {
			res := ret.Results[r.Index]
			if k, isConst := res.(*ssa.Const); isConst && k.Value == nil {
				continue // nil writer next to an error
			}
			u := c12Unwrap(res, depth+1)
			if u == nil {
				return nil
			}
			// the digester must be handed back too
			j := -1
			for k := range ret.Results {
				if k != r.Index && c11SameRoots(ret.Results[k], u.Digester) {
					j = k
				}
			}
			dg := ResultOf(hc, j)
			if j < 0 || dg == nil {
				return nil
			}
			t := &c12Tee{Gzip: u.Gzip, Digester: dg}
			for _, sk := range u.Sinks {
				mapped := false
				for _, rt := range Roots(sk) {
					if prm, isP := rt.(*ssa.Parameter); isP {
						for k, q := range H.Params {
							if q == prm && k < len(hc.Call.Args) {
								t.Sinks = append(t.Sinks, hc.Call.Args[k])
								mapped = true
							}
						}
					}
				}
				if !mapped {
					return nil
				}
			}
			if out != nil && (out.Gzip != t.Gzip || len(out.Sinks) != len(t.Sinks)) {
				return nil
			}
			out = t
		}
		return out
	}
	return nil
}

// c12MultiWriterElems: if v is io.MultiWriter(a, b, …) returns the stripped elements.
func c12MultiWriterElems(v ssa.Value) ([]ssa.Value, bool) {
	rs := Roots(v)
	if len(rs) != 1 {
		return nil, false
	}
	call, ok := rs[0].(*ssa.Call)
	if !ok || CalleeName(call) != "io.MultiWriter" {
		return nil, false
	}
	var els, out []ssa.Value
	c11SliceElems(call.Call.Args[0], &els)
	for _, e := range els {
		out = append(out, strip(e))
	}
	return out, true
}

func runC12(c *Ctx) {
	fns := c11FuncsOfPkg(c.P, c11Pkg)
	if len(fns) == 0 {
		c.LostAnchor("C12.R1.descriptor-describes-bytes", "package ~/"+c11Pkg)
		return
	}
	c12R1Dir(c, fns)
	c12R1File(c, fns)
	c12R2(c, fns)
	c12R3(c, fns)
	c12R4(c, fns)
	c12R5(c, fns)
	c12R6(c, fns)
	c12R8(c, fns)
	c12R9(c, fns)
	c12R10(c, fns)
	c12R11(c, fns)
}

// ---------- R8: the packed tar stream is complete ----------

// c12R8: what tarDirectory-role code writes is what the descriptor digests, so a
// stream that silently lacks bytes still "verifies".  Necessary conditions on
// the pack side: the header comes from tar.FileInfoHeader of the walked entry's
// FileInfo; the content of a regular file is copied from os.Open of the walked
// path into the same tar writer, after the header, and the errors of Open, the
// copy and WriteHeader surface; the Close of the tar writer (footer, flush) is
// captured into the packer's result.
func c12R8(c *Ctx, fns []*ssa.Function) {
	const R8 = "C12.R8.pack-stream-complete"
	c.Expect(R8, 4)
	var W *ssa.Function
	for _, f := range fns {
		if len(CallsTo(f, "(*archive/tar.Writer).WriteHeader")) > 0 {
			W = f
		}
	}
	ts := c12FnsCalling(fns, "archive/tar.NewWriter")
	if W == nil || len(ts) == 0 {
		c.LostAnchor(R8, "tar writer / walk step of ~/content/file (tar.NewWriter, (*tar.Writer).WriteHeader)")
		return
	}
	T := ts[0]
	for T.Parent() != nil {
		T = T.Parent()
	}
	wn := FnName(T)
	wh := CallsTo(W, "(*archive/tar.Writer).WriteHeader")[0].(*ssa.Call)
	// (1) header from the walked FileInfo
	var hv []ssa.Value
	c12ExpandValue(fns, wh.Call.Args[1], 0, map[ssa.Value]bool{}, &hv)
	okHdr := len(hv) > 0
	nHdr := 0
	for _, v := range hv {
		if k, isK := v.(*ssa.Const); isK && k.IsNil() {
			continue // the header returned next to an error
		}
		nHdr++
		ex, ok := v.(*ssa.Extract)
		var fih *ssa.Call
		if ok && ex.Index == 0 {
			fih, _ = ex.Tuple.(*ssa.Call)
		}
		if fih == nil || CalleeName(fih) != "archive/tar.FileInfoHeader" {
			okHdr = false
			continue
		}
		var iv []ssa.Value
		c12ExpandValue(fns, fih.Call.Args[0], 0, map[ssa.Value]bool{}, &iv)
		for _, i := range iv {
			prm, isP := i.(*ssa.Parameter)
			if !isP || !strings.Contains(prm.Type().String(), "FileInfo") {
				okHdr = false
			}
		}
		if len(iv) == 0 {
			okHdr = false
		}
	}
	okHdr = okHdr && nHdr > 0
	r := ErrFlow(wh, ErrFlowOpts{})
	c.Check(R8, wn+"|header-from-walked-fileinfo", wh.Pos(), okHdr && r.OK, ifelse(okHdr && r.OK, "the header written is tar.FileInfoHeader of the walk's FileInfo; the WriteHeader error surfaces",
		"the tar header is not built from the FileInfo of the walked entry (mode, type, size would not be those of the file), or a failed WriteHeader is ignored: "+r.Detail))
	// (2) content
	isTarDst := func(v ssa.Value) bool {
		for _, rt := range Roots(v) {
			if rt.Type().String() == "*archive/tar.Writer" {
				return true
			}
		}
		return false
	}
	hasCopy := func(f *ssa.Function) bool {
		for _, cp := range CallsTo(f, "io.Copy", "io.CopyBuffer", "io.CopyN") {
			if isTarDst(cp.Common().Args[0]) {
				return true
			}
		}
		return false
	}
	F, links := c11FindUnit(W, hasCopy, 2, map[*ssa.Function]bool{})
	if F == nil {
		c.Violation(R8, wn+"|content-copied-from-walked-file", wh.Pos(), "no copy of the file content into the tar writer is found: regular files are packed empty")
	} else {
		var cp ssa.CallInstruction
		for _, x := range CallsTo(F, "io.Copy", "io.CopyBuffer", "io.CopyN") {
			if isTarDst(x.Common().Args[0]) {
				cp = x
			}
		}
		okSrc := false
		var op ssa.CallInstruction
		for _, o := range CallsTo(F, "os.Open") {
			if f0 := ResultOf(o, 0); f0 != nil && c11DerivesFrom(cp.Common().Args[1], map[ssa.Value]bool{f0: true}) {
				op = o
			}
		}
		if op != nil {
			// the opened path is the walked path: (lifted to the walk step) the value Rel is computed from
			paths := []ssa.Value{op.Common().Args[0]}
			if F != W {
				paths = c11Lift(paths, links)
			}
			for _, rel := range CallsTo(W, "path/filepath.Rel") {
				for _, pv := range paths {
					if c11SameLoc(pv, rel.Common().Args[1]) {
						okSrc = true
					}
				}
			}
			if len(CallsTo(W, "path/filepath.Rel")) == 0 {
				// the name is computed by a helper: the opened path must still be a parameter of the walk step
				for _, pv := range paths {
					for _, rt := range Roots(pv) {
						if prm, isP := rt.(*ssa.Parameter); isP && prm.Parent() == W {
							okSrc = true
						}
					}
				}
			}
		}
		okErr := op != nil && ErrFlow(op, ErrFlowOpts{}).OK && ErrFlow(cp, ErrFlowOpts{}).OK
		for _, l := range links {
			if !ErrFlow(l.Call, ErrFlowOpts{}).OK {
				okErr = false
			}
		}
		// after the header
		at := cp.(ssa.Instruction)
		if F != W && len(links) > 0 {
			at = links[0].Call
		}
		okOrder := MustPass(at, newCut().Instr(wh))
		ok := okSrc && okErr && okOrder
		c.Check(R8, wn+"|content-copied-from-walked-file", cp.Pos(), ok, ifelse(ok, "the content is copied from os.Open(walked path) into the tar writer after the header; open/copy errors surface",
			ifelse(!okSrc, "the bytes copied into the tar stream do not come from the walked file", ifelse(!okOrder, "the content can be written before its header", "an error of opening or copying the file is swallowed: the tarball silently lacks (part of) a file and still verifies against its own digest"))))
	}
	// (3) Close of the tar writer captured
	whyClose := "the tar writer is never closed with its error captured: a failed flush of the last blocks / footer is lost and a truncated tarball is digested and stored"
	okClose := c12CloseErrCaptured(T, isTarDst)
	c.Check(R8, wn+"|tar-close-error-captured", T.Pos(), okClose, ifelse(okClose, "a failing Close of the tar writer becomes the packer's error unless an error is already pending", whyClose))
	// (4) the link target of a symbolic link is read from the walked path
	okLink := false
	for _, v := range hv {
		if ex, ok := v.(*ssa.Extract); ok {
			if fih, ok := ex.Tuple.(*ssa.Call); ok && CalleeName(fih) == "archive/tar.FileInfoHeader" {
				lf := fih.Parent()
				for _, rl := range CallsTo(lf, "os.Readlink") {
					if l0 := ResultOf(rl, 0); l0 != nil && c11DerivesFrom(fih.Call.Args[1], map[ssa.Value]bool{l0: true}) && ErrFlow(rl, ErrFlowOpts{}).OK {
						okLink = true
					}
				}
			}
		}
	}
	c.Check(R8, wn+"|link-target-from-readlink", wh.Pos(), okLink, ifelse(okLink, "FileInfoHeader's link argument is os.Readlink of the walked entry; its error surfaces",
		"the link name put into the header does not come from os.Readlink (symbolic links are packed with an empty / wrong target), or the Readlink error is ignored"))
}

// c12CloseErrCaptured: a Close of the stream denoted by isTarget (a value of T or
// of its literals) becomes T's error when no error is pending: returned
// directly, stored into the result by a deferred literal, or by a closing
// helper handed the stream and a pointer to the result.
func c12CloseErrCaptured(T *ssa.Function, isTarget func(ssa.Value) bool) bool {
	okClose := false
	errIdx := ErrResultIndex(T.Signature)
	if errIdx < 0 {
		return false
	}
	isClose := func(call ssa.CallInstruction) bool {
		cc := call.Common()
		if cc.IsInvoke() {
			return cc.Method.Name() == "Close" && isTarget(cc.Value)
		}
		g := StaticCallee(call)
		return g != nil && g.Name() == "Close" && len(cc.Args) > 0 && g.Signature.Recv() != nil && isTarget(cc.Args[0])
	}
	for _, f := range append([]*ssa.Function{T}, Anons(T)...) {
		for _, cl := range Calls(f, func(string) bool { return true }) {
			if !isClose(cl) {
				continue
			}
			if _, isDefer := cl.(*ssa.Defer); isDefer {
				continue
			}
			if f == T {
				if ErrFlow(cl, ErrFlowOpts{}).OK {
					okClose = true
				}
				continue
			}
			// closure: stores into the captured error result
			for _, fv := range f.FreeVars {
				for _, b := range freeVarBindings(fv) {
					for _, ret := range Returns(T) {
						if cellOf(ret.Results[errIdx]) != nil && ssa.Value(cellOf(ret.Results[errIdx])) == b {
							if ok, _ := c18CloseIntoCell(f, cl.Value(), fv); ok {
								okClose = true
							}
						}
					}
				}
			}
		}
		if f != T {
			continue
		}
		// closing helper handed the stream and a pointer to the result
		for _, call := range Calls(f, func(string) bool { return true }) {
			K := StaticCallee(call)
			if K == nil || K == T || K.Parent() != nil || !inModule(K) || len(K.Blocks) == 0 {
				continue
			}
			for i, a := range call.Common().Args {
				if i >= len(K.Params) || !isTarget(a) {
					continue
				}
				var kc *ssa.Call
				AllInstrs(K, func(in ssa.Instruction) {
					if cv, ok := in.(*ssa.Call); ok && cv.Call.IsInvoke() && cv.Call.Method.Name() == "Close" && c11SameRoots(cv.Call.Value, K.Params[i]) {
						kc = cv
					}
				})
				if kc == nil {
					continue
				}
				for j, b := range call.Common().Args {
					for _, ret := range Returns(T) {
						if j < len(K.Params) && cellOf(ret.Results[errIdx]) != nil && ssa.Value(cellOf(ret.Results[errIdx])) == b {
							if ok, _ := c18CloseIntoCell(K, kc, K.Params[j]); ok {
								okClose = true
							}
						}
					}
				}
			}
		}
	}
	return okClose
}

// ---------- R10: the extraction is complete ----------

// c12R10: what the unpack side must do for the restored tree to be the packed
// one, whatever the stream: the entry loop ends with success only at io.EOF
// (an entry of an unknown kind, or a handled one, never ends the extraction);
// the content of a regular entry is copied from the tar reader into the opened
// file with the copy and Close errors surfacing; a failing creation of a
// directory or link surfaces.
func c12R10(c *Ctx, fns []*ssa.Function) {
	const R10 = "C12.R10.extraction-complete"
	c.Expect(R10, 3)
	var LF *ssa.Function
	var next ssa.CallInstruction
	for _, f := range fns {
		for _, n := range CallsTo(f, "(*archive/tar.Reader).Next") {
			LF, next = f, n
		}
	}
	if LF == nil {
		c.LostAnchor(R10, "the entry loop of the tar extractor in ~/content/file ((*tar.Reader).Next)")
		return
	}
	e := ErrOf(next)
	okLoop, whyLoop := false, ""
	root := LF
	for root.Parent() != nil {
		root = root.Parent()
	}
	if e == nil {
		whyLoop = "the error of (*tar.Reader).Next is discarded"
	} else {
		al := Aliases(e)
		eof := toleratedEdges(LF, al, []string{"io.EOF"})
		var yield ssa.Value
		for _, prm := range LF.Params {
			if _, isFn := prm.Type().Underlying().(*types.Signature); isFn && LF.Parent() != nil {
				yield = prm
			}
		}
		switch {
		case len(eof) == 0:
			whyLoop = "the error of (*tar.Reader).Next is never compared with io.EOF"
		case yield == nil && ErrResultIndex(LF.Signature) >= 0:
			// plain loop: every successful return lies behind err == io.EOF
			atoms := c11SuccessAtoms(LF)
			okLoop = len(atoms) > 0
			for _, a := range atoms {
				if !AtomMustPass(a, newCut().Edges(eof...)) {
					okLoop = false
					whyLoop = "the extractor can return success without the tar reader having reported io.EOF: an entry (of an unhandled kind, or the first handled one) ends the extraction and the rest of the tree is silently not restored"
				}
			}
		case yield != nil:
			// iterator: the producer stops without yielding only at io.EOF; the loop body stops only with an error recorded
			okLoop = true
			var ycalls []ssa.Instruction
			for _, call := range Calls(LF, func(string) bool { return true }) {
				if cv, ok := call.(*ssa.Call); ok && cv.Call.Value == yield {
					ycalls = append(ycalls, cv)
				}
			}
			for _, ret := range Returns(LF) {
				if !MustPass(ret, newCut().Edges(eof...).Instr(ycalls...)) {
					okLoop, whyLoop = false, "the iterator over the entries can end without io.EOF and without yielding the read error"
				}
			}
			found := false
			for _, f := range fns {
				for _, rf := range c11RangeFuncs(f) {
					if rf.PC != LF || rf.Yield == nil {
						continue
					}
					found = true
					_, stop := c11YieldReturns(rf.Yield)
					for _, ret := range stop {
						recorded := false
						for _, in := range ret.Block().Instrs {
							if st, ok := in.(*ssa.Store); ok {
								if _, isFV := st.Addr.(*ssa.FreeVar); isFV && isErrorType(st.Val.Type()) {
									if k, isK := st.Val.(*ssa.Const); !isK || !k.IsNil() {
										recorded = true
									}
								}
							}
						}
						if !recorded {
							okLoop, whyLoop = false, "the loop over the entries is left (break / return nil) without an error: the rest of the tree is silently not restored"
						}
					}
				}
			}
			if !found {
				okLoop, whyLoop = false, "the loop consuming the entry iterator is not found"
			}
		default:
			whyLoop = "the function reading the entries has no error result"
		}
	}
	c.Check(R10, FnName(root)+"|loop-ends-only-at-eof", next.Pos(), okLoop, ifelse(okLoop, "success of the extractor lies behind Next reporting io.EOF; no entry ends the loop silently", whyLoop))

	// the extractor's side of the content: the function opening the entry's file
	var E *ssa.Function
	for _, f := range fns {
		if f.Parent() == nil && len(CallsTo(f, "archive/tar.NewReader")) > 0 {
			E = f
		}
	}
	if E == nil {
		E = root
	}
	reachE := append([]*ssa.Function{E}, c12Reachable(E, fns, 3)...)
	nOpen := 0
	for _, f := range reachE {
		for _, op := range CallsTo(f, "os.OpenFile", "os.Create") {
			f0 := ResultOf(op, 0)
			if f0 == nil {
				continue
			}
			nOpen++
			fset := map[ssa.Value]bool{f0: true}
			isFile := func(v ssa.Value) bool { return c11DerivesFrom(v, fset) }
			var cp ssa.CallInstruction
			for _, x := range CallsTo(f, "io.Copy", "io.CopyBuffer", "io.CopyN", "(*os.File).ReadFrom") {
				if isFile(x.Common().Args[0]) {
					cp = x
				}
			}
			key := FnName(f) + "|content-copied-from-archive"
			if cp == nil {
				c.Violation(R10, key, op.Pos(), "the opened file of a regular entry is never written from the archive")
				continue
			}
			var leaves []ssa.Value
			c12ExpandValue(fns, cp.Common().Args[1], 0, map[ssa.Value]bool{}, &leaves)
			okSrc := len(leaves) > 0
			for _, lf := range leaves {
				if !strings.HasSuffix(lf.Type().String(), "archive/tar.Reader") {
					okSrc = false
				}
			}
			okErr := ErrFlow(cp, ErrFlowOpts{}).OK && ErrFlow(op, ErrFlowOpts{}).OK
			okClose := c12CloseErrCaptured(f, isFile)
			ok := okSrc && okErr && okClose
			c.Check(R10, key, cp.Pos(), ok, ifelse(ok, "the content comes from the tar reader positioned at the entry; open, copy and Close errors surface",
				ifelse(!okSrc, "the bytes written into the entry's file do not come from the tar reader", ifelse(!okErr, "an error of opening the file or of copying the entry's content is swallowed: a short file is restored silently",
					"the error of closing the written file is lost: buffered content that fails to reach the disk goes unnoticed"))))
		}
	}
	if nOpen == 0 {
		c.LostAnchor(R10, "the function opening the file of a regular archive entry (os.OpenFile / os.Create reachable from the tar extractor)")
	}
	// creation of directories and links
	for _, f := range reachE {
		n := map[string]int{}
		for _, call := range CallsTo(f, "os.MkdirAll", "os.Mkdir", "os.Link", "os.Symlink") {
			name := CalleeName(call)
			n[name]++
			label := name
			if n[name] > 1 {
				label = fmt.Sprintf("%s#%d", name, n[name])
			}
			var tol []string
			if name == "os.Symlink" {
				tol = []string{"io/fs.ErrExist", "os.ErrExist"}
			}
			var ok bool
			var why string
			if f.Synthetic != "" && f.Parent() != nil && ErrResultIndex(f.Signature) < 0 {
				ok, why = c12ErrSurfacesFromYield(call, tol)
			} else if len(tol) > 0 {
				ok, why = c12ErrFlowWithPredicates(call, tol)
				if !ok {
					r := ErrFlow(call, ErrFlowOpts{Tolerated: tol})
					ok, why = r.OK, r.Detail
				}
			} else {
				r := ErrFlow(call, ErrFlowOpts{})
				ok, why = r.OK, r.Detail
			}
			if !ok && c12ErrSurfacesPastJoins(call, tol) {
				ok = true
			}
			c.Check(R10, "archive-entry|"+label+"|creation-error-surfaces", call.Pos(), ok, ifelse(ok, "a failure to create the entry becomes the extractor's error", "a failure to create the entry is swallowed ("+why+"): the entry is missing from the restored tree and the push succeeds"))
		}
	}
}

// c12ErrSurfacesPastJoins: ErrFlow explores path-insensitively, so after
// `if err != nil && tolerated(err) { retry }` the later `if err != nil` on the
// merged variable lets it wander down the "nil" side with our non-nil error.
// On a path that starts at a non-nil edge of the error and has not re-executed
// the call, a nil edge of a test of an alias of that error is infeasible: cut it.
func c12ErrSurfacesPastJoins(call ssa.CallInstruction, tolerated []string) bool {
	fn := call.Parent()
	errIdx := ErrResultIndex(fn.Signature)
	e := ErrOf(call)
	if e == nil || errIdx < 0 {
		return false
	}
	al := Aliases(e)
	nilE, nonNil, ifs := NilTests(fn, al)
	if len(ifs) == 0 || len(nonNil) == 0 {
		return false
	}
	ct := newCut().Edges(toleratedEdges(fn, al, tolerated)...).Edges(nilE...).Instr(call.(ssa.Instruction))
	for _, ne := range nonNil {
		if findNilReturnFrom(fn, ne, errIdx, ct, al) != nil {
			return false
		}
	}
	return true
}

// c12SavedTempName: v (used at `at` in g) is Name() of a file that a dominating,
// successful call of a function reaching internal/ioutil.CopyBuffer (the size- and
// digest-verifying copy) was handed; or result #i of an in-package helper whose
// success dominates `at` and whose every non-empty return of #i is such a name.
func c12SavedTempName(g *ssa.Function, v ssa.Value, at ssa.Instruction, depth int) bool {
	rs := Roots(v)
	if len(rs) == 0 || depth > 2 {
		return false
	}
	for _, rt := range rs {
		ok := false
		switch u := rt.(type) {
		case *ssa.Call:
			if CalleeName(u) != "(*os.File).Name" {
				return false
			}
			for _, sv := range Calls(g, func(string) bool { return true }) {
				sf := StaticCallee(sv)
				svc, isCall := sv.(*ssa.Call)
				if sf == nil || !isCall || !inModule(sf) || !c11Reaches(sf, "~/internal/ioutil.CopyBuffer", 2) {
					continue
				}
				for _, a := range svc.Call.Args {
					if c11SameRoots(a, u.Call.Args[0]) {
						if d, _ := c11SuccessDominates(svc, at); d {
							ok = true
						}
					}
				}
			}
		case *ssa.Extract:
			hc, isCall := u.Tuple.(*ssa.Call)
			if !isCall {
				return false
			}
			H := StaticCallee(hc)
			if H == nil || !inModule(H) || len(H.Blocks) == 0 || fnPkgPath(H) != fnPkgPath(g) {
				return false
			}
			if d, _ := c11SuccessDominates(hc, at); !d {
				return false
			}
			ok = true
			n := 0
			for _, ret := range Returns(H) {
				if u.Index >= len(ret.Results) {
					return false
				}
				if k, isStr := constString(ret.Results[u.Index]); isStr && k == "" {
					continue // next to an error
				}
				n++
				if !c12SavedTempName(H, ret.Results[u.Index], ret, depth+1) {
					ok = false
				}
			}
			if n == 0 {
				ok = false
			}
		}
		if !ok {
			return false
		}
	}
	return true
}

// c12R2ParseArmed (mutation sweep, utils.go|bin-op|2): the recorded checksum
// is turned into a verifier when it is PRESENT.  A test of the checksum against
// "" (or of its length against 0) may skip the parse for an empty checksum, but
// the parse must not lie entirely behind "checksum is empty" edges — then a
// recorded digest is never verified and the empty one merely fails to parse.
func c12R2ParseArmed(c *Ctx, R2 string, fns []*ssa.Function) {
	for _, F := range fns {
		for _, p := range CallsTo(F, "digest.Parse") {
			arg := p.Common().Args[0]
			fromParam := false
			for _, r := range Roots(arg) {
				if _, isP := r.(*ssa.Parameter); isP {
					fromParam = true
				}
			}
			if !fromParam {
				continue
			}
			isArg := func(v ssa.Value) bool { return v == arg || c11SameRoots(v, arg) }
			isLenOfArg := func(v ssa.Value) bool {
				call, ok := v.(*ssa.Call)
				if !ok {
					return false
				}
				b, isB := call.Call.Value.(*ssa.Builtin)
				return isB && b.Name() == "len" && len(call.Call.Args) == 1 && isArg(call.Call.Args[0])
			}
			var empty []Edge
			for _, i := range Ifs(F) {
				cond, t, f := ifEdges(i)
				b, ok := cond.(*ssa.BinOp)
				if !ok {
					continue
				}
				for _, pair := range [][2]ssa.Value{{b.X, b.Y}, {b.Y, b.X}} {
					k, isK := pair[1].(*ssa.Const)
					if !isK || k.Value == nil {
						continue
					}
					strEmpty := k.Value.Kind() == constant.String && constant.StringVal(k.Value) == "" && isArg(pair[0])
					lenZero := k.Value.Kind() == constant.Int && constant.Sign(k.Value) == 0 && isLenOfArg(pair[0])
					if !strEmpty && !lenZero {
						continue
					}
					flipped := pair[0] == b.Y // const on the left
					switch {
					case b.Op == token.EQL:
						empty = append(empty, t)
					case b.Op == token.NEQ:
						empty = append(empty, f)
					case lenZero && ((b.Op == token.GTR && !flipped) || (b.Op == token.LSS && flipped)): // len(x) > 0, 0 < len(x)
						empty = append(empty, f)
					case lenZero && ((b.Op == token.LEQ && !flipped) || (b.Op == token.GEQ && flipped)): // len(x) <= 0, 0 >= len(x)
						empty = append(empty, t)
					}
				}
			}
			ok := len(empty) == 0 || !MustPass(p.(ssa.Instruction), newCut().Edges(empty...))
			c.Check(R2, FnName(F)+"|verifier-armed-when-checksum-present", p.Pos(), ok, ifelse(ok, "the checksum is parsed into a verifier on a path where it is not empty",
				"digest.Parse of the recorded checksum is reachable only where the checksum is EMPTY: a recorded uncompressed digest is never verified on unpack"))
		}
	}
}

// ---------- R11: Fetch serves the file the digest was computed from ----------

// c12R11: on the way out of the first store ("copied through any other store")
// the bytes served for a descriptor are those of the path recorded for its
// digest: the file opened by Fetch is the value loaded, under the digest of the
// requested descriptor, from a digest-keyed map the describers / pushers store
// into.  (Opening by name, or by another descriptor field, serves other bytes
// for two blobs with equal names or equal content.)
func c12R11(c *Ctx, fns []*ssa.Function) {
	const R11 = "C12.R11.fetch-serves-recorded-path"
	c.Expect(R11, 1)
	fetch := c.P.Fn(c11Pkg, "Store.Fetch")
	if fetch == nil {
		c.LostAnchor(R11, "(*~/content/file.Store).Fetch")
		return
	}
	// digest-keyed sync.Map fields
	mf := map[string]bool{}
	for _, f := range fns {
		for _, st := range CallsTo(f, "(*sync.Map).Store") {
			a := st.Common().Args
			fa, ok := a[0].(*ssa.FieldAddr)
			if !ok || len(a) < 3 {
				continue
			}
			for _, r := range Roots(a[1]) {
				if strings.HasSuffix(r.Type().String(), "go-digest.Digest") {
					mf[fieldName(fa.X.Type(), fa.Field)] = true
				}
			}
		}
	}
	F, links := c11FindUnit(fetch, func(f *ssa.Function) bool { return len(CallsTo(f, "os.Open", "os.OpenFile")) > 0 }, 2, map[*ssa.Function]bool{})
	if F == nil || len(mf) == 0 {
		c.LostAnchor(R11, "the os.Open of Fetch / a digest-keyed sync.Map field of ~/content/file.Store")
		return
	}
	for _, op := range CallsTo(F, "os.Open", "os.OpenFile") {
		paths := []ssa.Value{op.Common().Args[0]}
		if F != fetch {
			paths = c11Lift(paths, links)
		}
		ok := len(paths) > 0
		for _, pv := range paths {
			good := false
			for _, g := range append([]*ssa.Function{fetch}, c12Reachable(fetch, fns, 1)...) {
				for _, ld := range CallsTo(g, "(*sync.Map).Load") {
					a := ld.Common().Args
					fa, isFA := a[0].(*ssa.FieldAddr)
					v0 := ResultOf(ld, 0)
					if !isFA || !mf[fieldName(fa.X.Type(), fa.Field)] || v0 == nil {
						continue
					}
					keyOK := false
					var leaves []ssa.Value
					c12ExpandValue(fns, a[1], 0, map[ssa.Value]bool{}, &leaves)
					for _, lf := range leaves {
						if strings.HasSuffix(fieldOfFuncValue(lf), "Descriptor.Digest") {
							keyOK = true
						} else {
							keyOK = false
							break
						}
					}
					if !keyOK {
						continue
					}
					rs := Roots(pv)
					all := len(rs) > 0
					for _, r := range rs {
						if !c11DerivesFrom(r, map[ssa.Value]bool{v0: true}) {
							all = false
						}
					}
					if all {
						good = true
					}
				}
			}
			if !good {
				ok = false
			}
		}
		c.Check(R11, FnName(fetch)+"|opens-path-recorded-for-digest", op.Pos(), ok, ifelse(ok, "the file opened is the value loaded from the digest-keyed map under the requested descriptor's Digest",
			"the file Fetch opens is not the path recorded for the requested digest: the bytes served need not be those the descriptor was computed from"))
	}
}

// ---------- R9: pack and unpack agree on the name ----------

// c12R9: entries are packed as <title>/<rel> and unpacked relative to <title>:
// the prefix handed to the tar writer is the very value Add stores as the title
// annotation, and the base name handed to the archive-entry sanitiser on unpack
// is the title annotation of the pushed descriptor.
func c12R9(c *Ctx, fns []*ssa.Function) {
	const R9 = "C12.R9.pack-unpack-name-agreement"
	c.Expect(R9, 3)
	title := ""
	if k, ok := c.P.Obj("github.com/opencontainers/image-spec/specs-go/v1", "AnnotationTitle").(*types.Const); ok {
		title = strings.Trim(k.Val().ExactString(), "\"")
	}
	add := c.P.Fn(c11Pkg, "Store.Add")
	ts := c12FnsCalling(fns, "archive/tar.NewWriter")
	if add == nil || len(ts) == 0 || title == "" {
		c.LostAnchor(R9, "(*~/content/file.Store).Add / the tar writer / ocispec.AnnotationTitle")
		return
	}
	T := ts[0]
	for T.Parent() != nil {
		T = T.Parent()
	}
	// pack side: the title value
	var titleVal ssa.Value
	for _, f := range append([]*ssa.Function{add}, c12Reachable(add, fns, 2)...) {
		AllInstrs(f, func(in ssa.Instruction) {
			if mu, ok := in.(*ssa.MapUpdate); ok {
				if k, isK := constString(mu.Key); isK && k == title {
					titleVal = mu.Value
				}
			}
		})
	}
	okPack := false
	if titleVal != nil {
		// the element joined in front of the Rel result, followed up through captured variables and
		// parameters to the entry points, is the title value
		troots := map[ssa.Value]bool{}
		var tl []ssa.Value
		c12ExpandValue(fns, titleVal, 0, map[ssa.Value]bool{}, &tl)
		for _, tr := range tl {
			troots[tr] = true
		}
		nJoin, bad := 0, false
		for _, f := range append([]*ssa.Function{T}, c12Reachable(T, fns, 2)...) {
			for _, j := range CallsTo(f, "path/filepath.Join") {
				jv := j.Value()
				if jv == nil {
					continue
				}
				rel := map[ssa.Value]bool{}
				for _, r := range CallsTo(f, "path/filepath.Rel") {
					if v := ResultOf(r, 0); v != nil {
						rel[v] = true
					}
				}
				if len(rel) == 0 || !c11DerivesFrom(jv, rel) {
					continue
				}
				var els []ssa.Value
				for _, a := range j.Common().Args {
					c11SliceElems(a, &els)
				}
				for _, e := range els {
					if c11DerivesFrom(e, rel) {
						continue
					}
					nJoin++
					var leaves []ssa.Value
					c12ExpandValue(fns, e, 0, map[ssa.Value]bool{}, &leaves)
					if len(leaves) == 0 {
						bad = true
					}
					for _, lf := range leaves {
						if !troots[lf] {
							bad = true
						}
					}
				}
			}
		}
		okPack = nJoin > 0 && !bad
	}
	c.Check(R9, FnName(add)+"|pack-prefix-is-title", add.Pos(), okPack, ifelse(okPack, "the prefix under which entries are packed is the value Add records as the title annotation",
		"the prefix of the packed entry names is not the title annotation of the descriptor: on unpack the entries are judged \"outside of\" the directory name (or land under another name)"))
	// unpack side: the base name given to the archive-entry sanitiser
	probe := &Ctx{Prop: c.Prop, Tier: c.Tier, P: c.P, Variant: c.Variant}
	c11PkgFns = fns
	roles := c11ResolveRoles(probe, fns)
	okUnpack, n := true, 0
	if roles == nil {
		okUnpack = false
	} else {
		for _, SR := range roles.SR {
			// parameters of the sanitiser that reach the base argument of its Rel computation
			relBase := map[int]bool{}
			relFn, relLinks := c11FindUnit(SR, func(f *ssa.Function) bool { return len(CallsTo(f, "path/filepath.Rel")) > 0 }, 3, map[*ssa.Function]bool{})
			if relFn != nil {
				for _, r := range CallsTo(relFn, "path/filepath.Rel") {
					vals := []ssa.Value{r.Common().Args[0]}
					if relFn != SR {
						vals = c11Lift(vals, relLinks)
					}
					for _, v := range vals {
						var ops []ssa.Value
						c11Operands(v, &ops, map[ssa.Value]bool{}, 0)
						for _, o := range ops {
							for i, q := range SR.Params {
								if o == ssa.Value(q) {
									relBase[i] = true
								}
							}
						}
					}
				}
			}
			// at every call from the unpack loop, one string argument is the title annotation of the descriptor
			isTitle := func(a ssa.Value) bool {
				var leaves []ssa.Value
				c12ExpandValue(fns, a, 0, map[ssa.Value]bool{}, &leaves)
				for _, lf := range leaves {
					lk, isLk := lf.(*ssa.Lookup)
					if !isLk {
						return false
					}
					if k, isK := constString(lk.Index); !isK || k != title || !strings.HasSuffix(fieldOfFuncValue(lk.X), "Descriptor.Annotations") {
						return false
					}
				}
				return len(leaves) > 0
			}
			for _, g := range fns {
				for _, call := range Calls(g, func(string) bool { return true }) {
					if StaticCallee(call) != SR || roles.role[g] != "" {
						continue
					}
					n++
					found := false
					for i, a := range call.Common().Args {
						if i >= len(SR.Params) || (relFn != nil && !relBase[i]) {
							continue
						}
						if b, ok := SR.Params[i].Type().Underlying().(*types.Basic); !ok || b.Kind() != types.String {
							continue
						}
						if isTitle(a) {
							found = true
						}
					}
					if !found {
						okUnpack = false
					}
				}
			}
		}
	}
	if n == 0 {
		okUnpack = false
	}
	c.Check(R9, "unpack|base-name-is-title", token.NoPos, okUnpack, ifelse(okUnpack, "the base name every entry name is judged against on unpack is the title annotation of the pushed descriptor",
		"the base name handed to the archive-entry sanitiser on unpack is not the descriptor's title annotation: entries packed as <title>/<rel> are rejected or land elsewhere"))
	// the marker deciding "unpack this blob": the value the push side compares
	// Annotations[AnnotationUnpack] with is the value the packer writes ("true", checked by R1)
	unpackKey, _ := c12ConstStr(c.P, "AnnotationUnpack")
	nCmp, okCmp, posCmp := 0, true, token.NoPos
	for _, f := range fns {
		AllInstrs(f, func(in ssa.Instruction) {
			b, ok := in.(*ssa.BinOp)
			if !ok || (b.Op != token.EQL && b.Op != token.NEQ) {
				return
			}
			for _, pair := range [][2]ssa.Value{{b.X, b.Y}, {b.Y, b.X}} {
				k, isK := constString(pair[1])
				if !isK {
					continue
				}
				for _, r := range Roots(pair[0]) {
					if ex, isEx := r.(*ssa.Extract); isEx {
						r = ex.Tuple
					}
					lk, isLk := r.(*ssa.Lookup)
					if !isLk {
						continue
					}
					if key, isStr := constString(lk.Index); isStr && key == unpackKey && unpackKey != "" {
						nCmp++
						posCmp = b.Pos()
						if k != "true" {
							okCmp = false
						}
					}
				}
			}
		})
	}
	if nCmp == 0 {
		c.Undecided(R9, "push|unpack-marker-value-agrees", token.NoPos, "no comparison of Annotations[AnnotationUnpack] with a constant is found on the push side: cannot see which blobs are unpacked")
	} else {
		c.Check(R9, "push|unpack-marker-value-agrees", posCmp, okCmp, ifelse(okCmp, "the push side unpacks blobs whose AnnotationUnpack is \"true\", the value the packer writes",
			"the push side compares AnnotationUnpack with another value than the \"true\" the packer writes: packed directories are stored as tarballs (or plain blobs are unpacked)"))
	}
}

// c12Reachable: in-package functions (incl. literals) statically reachable from f within depth.
func c12Reachable(f *ssa.Function, fns []*ssa.Function, depth int) []*ssa.Function {
	seen := map[*ssa.Function]bool{f: true}
	var out []*ssa.Function
	var rec func(g *ssa.Function, d int)
	rec = func(g *ssa.Function, d int) {
		for _, a := range g.AnonFuncs {
			if !seen[a] {
				seen[a] = true
				out = append(out, a)
				rec(a, d)
			}
		}
		if d <= 0 {
			return
		}
		AllInstrs(g, func(in ssa.Instruction) {
			for _, op := range in.Operands(nil) {
				if h, ok := (*op).(*ssa.Function); ok && !seen[h] && len(h.Blocks) > 0 && fnPkgPath(h) == fnPkgPath(f) {
					seen[h] = true
					out = append(out, h)
					rec(h, d-1)
				}
			}
		})
	}
	rec(f, depth)
	return out
}

// ---------- R5: the path sanitisers do not over-reject ----------

// c12R5: a legal entry / blob name may START with two dots ("..data", "...",
// "..2024/x"); only ".." itself and names below "../" point outside.  So the
// only rejecting string tests with a ".." constant are equality with ".." and
// a prefix test with ".." followed by a separator.  A bare ".." prefix /
// Contains / Index test rejects legal names: such a tree does not round-trip.
func c12R5(c *Ctx, fns []*ssa.Function) {
	const R5 = "C12.R5.sanitisers-do-not-over-reject"
	c.Expect(R5, 1) // the two sanitisers may share one predicate helper
	for _, f := range fns {
		c12R5CutForms(c, R5, f)
		n := 0
		for _, call := range Calls(f, func(nm string) bool {
			switch nm {
			case "strings.HasPrefix", "strings.HasSuffix", "strings.Contains", "strings.Index", "strings.LastIndex", "strings.Count", "strings.ContainsAny", "strings.EqualFold":
				return true
			}
			return false
		}) {
			k, ok := constString(call.Common().Args[1])
			if !ok || !strings.Contains(k, "..") {
				continue
			}
			n++
			key := FnName(f) + "|dotdot-test:" + CalleeName(call)
			if n > 1 {
				key += "#" + string(rune('0'+n))
			}
			good := CalleeName(call) == "strings.HasPrefix" && (k == "../" || k == `..\`)
			c.Check(R5, key, call.Pos(), good, ifelse(good, "prefix test with \"..\" followed by a separator: only names below the parent directory are rejected",
				CalleeName(call)+" with the bare constant "+strconvQuote(k)+" also rejects legal names that merely start with (or contain) two dots, e.g. \"..data\" or \"...\": a directory containing such an entry cannot be unpacked / such a named blob cannot be pushed"))
		}
	}
}

// c12R5CutForms: the same predicate written with strings.Cut / strings.CutPrefix.
//
//	first, _, _ := strings.Cut(rel, "/"); first == ".."                       — exact
//	rest, ok := strings.CutPrefix(rel, ".."); ok && (rest == "" || rest[0] == '/')   — exact only with the separator test on rest
func c12R5CutForms(c *Ctx, R5 string, f *ssa.Function) {
	AllInstrs(f, func(in ssa.Instruction) {
		bo, ok := in.(*ssa.BinOp)
		if !ok || (bo.Op != token.EQL && bo.Op != token.NEQ) {
			return
		}
		if k, isK := constString(bo.Y); isK && k == ".." && c11IsFirstComponent(bo.X) {
			c.OK(R5, FnName(f)+"|dotdot-test:first-component", bo.Pos(), "the first path component is compared with \"..\": only \"..\" and names below \"../\" are rejected")
		}
	})
	for _, cp := range CallsTo(f, "strings.CutPrefix") {
		k, isK := constString(cp.Common().Args[1])
		if !isK || !strings.Contains(k, "..") {
			continue
		}
		good := k == "../" || k == `..\`
		if k == ".." {
			if rest := ResultOf(cp, 0); rest != nil {
				ra := Aliases(rest)
				sepTest := false
				AllInstrs(f, func(in ssa.Instruction) {
					switch x := in.(type) {
					case *ssa.BinOp:
						if ix, isIx := x.X.(*ssa.Index); isIx && ra[ix.X] {
							if sep, isSep := constInt(x.Y); isSep && (sep == '/' || sep == '\\') {
								sepTest = true
							}
						}
					case *ssa.Call:
						if CalleeName(x) == "strings.HasPrefix" && ra[x.Call.Args[0]] {
							sepTest = true
						}
					}
				})
				good = sepTest
			}
		}
		c.Check(R5, FnName(f)+"|dotdot-test:strings.CutPrefix", cp.Pos(), good, ifelse(good, "CutPrefix(rel, \"..\") followed by a separator test on the rest: only \"..\" and names below \"../\" are rejected",
			"CutPrefix with the bare constant "+strconvQuote(k)+" and no separator test on the rest also rejects legal names that merely start with two dots"))
	}
}

func strconvQuote(s string) string { return "\"" + s + "\"" }

// ---------- R6: entry modes come from the tar header ----------

// c12ModeFromHeader: the permission argument derives from the entry's header
// (header.FileInfo().Mode(), header.Mode), possibly masked or passed through
// unexported helpers.
func c12ModeFromHeader(v ssa.Value, fns []*ssa.Function, depth int, seen map[ssa.Value]bool) bool {
	if depth > 6 {
		return false
	}
	rs := Roots(v)
	if len(rs) == 0 {
		return false
	}
	for _, r := range rs {
		if seen[r] {
			continue
		}
		seen[r] = true
		ok := false
		switch u := r.(type) {
		case *ssa.Call:
			switch {
			case u.Call.IsInvoke() && (u.Call.Method.Name() == "Mode" || u.Call.Method.Name() == "Perm" || u.Call.Method.Name() == "Type"):
				ok = c12ModeFromHeader(u.Call.Value, fns, depth+1, seen)
			case CalleeName(u) == "(*archive/tar.Header).FileInfo":
				ok = true
			case CalleeName(u) == "(io/fs.FileMode).Perm" || CalleeName(u) == "(io/fs.FileMode).Type":
				ok = c12ModeFromHeader(u.Call.Args[0], fns, depth+1, seen)
			}
		case *ssa.UnOp:
			if fa, isFA := u.X.(*ssa.FieldAddr); isFA && u.Op == token.MUL && c11TaintStruct(fa.X.Type()) == "tar header" {
				ok = true
			}
		case *ssa.Field:
			ok = c11TaintStruct(u.X.Type()) == "tar header"
		case *ssa.BinOp:
			ok = c12ModeFromHeader(u.X, fns, depth+1, seen) || c12ModeFromHeader(u.Y, fns, depth+1, seen)
		case *ssa.Parameter:
			f := u.Parent()
			idx := -1
			for i, q := range f.Params {
				if q == u {
					idx = i
				}
			}
			n := 0
			ok = true
			for _, g := range fns {
				for _, call := range Calls(g, func(string) bool { return true }) {
					if StaticCallee(call) == f && idx >= 0 && idx < len(call.Common().Args) {
						n++
						if !c12ModeFromHeader(call.Common().Args[idx], fns, depth+1, seen) {
							ok = false
						}
					}
				}
			}
			ok = ok && n > 0 && f.Parent() == nil
		}
		if !ok {
			return false
		}
	}
	return true
}

// c12R6: what creates an archive entry (MkdirAll for a directory, OpenFile with
// O_CREATE for a regular file) takes its mode from the entry's header, not from
// a constant — otherwise modes are lost whenever PreservePermissions is off.
func c12R6(c *Ctx, fns []*ssa.Function) {
	const R6 = "C12.R6.entry-mode-from-header"
	c.Expect(R6, 2)
	c.Expect(c12R7, 2)
	c11PkgFns = fns
	probe := &Ctx{Prop: c.Prop, Tier: c.Tier, P: c.P, Variant: c.Variant} // role resolution reports lost anchors under C11; not repeated here
	roles := c11ResolveRoles(probe, fns)
	if roles == nil {
		c.LostAnchor(R6, "path sanitiser roles of ~/content/file (see C11.R2)")
		return
	}
	flow := c11NewFlow(c, roles, fns)
	c12R7LinkSites(c, fns, flow)
	permIdx := map[string]int{"os.MkdirAll": 1, "os.Mkdir": 1, "os.OpenFile": 2, "os.Create": -1} // os.Create: fixed 0666, no way to carry the header mode
	count := map[string]int{}
	for _, s := range Inventory(fns, func(n string) bool { _, ok := permIdx[n]; return ok }) {
		if s.Callee == "os.OpenFile" {
			fl, known := constInt(s.Call.Common().Args[1])
			cr, _ := c11OSConst(c.P, "O_CREATE")
			if known && fl&cr == 0 {
				continue
			}
		}
		site := &c11Site{Fn: s.Fn, Call: s.Call, Name: s.Callee, Leafs: map[int][]c11Leaf{}}
		var ls []c11Leaf
		flow.prov(s.Call.Common().Args[0], s.Call.(ssa.Instruction), 0, map[ssa.Value]bool{}, &ls)
		site.Leafs[0] = ls
		if c11OriginRole(flow, site) != "archive-entry" {
			continue
		}
		key := "archive-entry|" + s.Callee
		count[key]++
		if count[key] > 1 {
			key += "#" + string(rune('0'+count[key]))
		}
		c12R7Site(c, fns, key, s)
		ok := permIdx[s.Callee] >= 0 && c12ModeFromHeader(s.Call.Common().Args[permIdx[s.Callee]], fns, 0, map[ssa.Value]bool{})
		c.Check(R6, key, s.Call.Pos(), ok, ifelse(ok, "the mode of the created entry derives from the tar header [in "+FnName(s.Fn)+"]",
			s.Callee+" [in "+FnName(s.Fn)+"] creates an archive entry with a mode that does not come from the entry's tar header (a constant, or a value also used for non-archive paths): "+
				"directory / file modes of the packed tree are lost on unpack unless PreservePermissions is set"))
	}
}

// ---------- R7: with PreservePermissions every created entry gets its exact mode ----------

const c12R7 = "C12.R7.preserved-modes-exact"

// c12R7Site: behind the creation of an archive entry that carries a mode (a
// directory or a regular file) and with Store.PreservePermissions set, a chmod
// of that entry (os.Chmod on its path, or Chmod on its open handle) with a mode
// taken from the entry's header is executed before the next entry / before the
// creating function returns successfully.  Decided by a path exploration from
// the creation site in which (a) tests of the header's Typeflag are resolved by
// the entry kind the site belongs to, (b) tests of the option (also when carried
// by a local variable / phi) are resolved to "set".  If the creating function
// has no such chmod, its call sites are examined instead (helper / dispatch table).
func c12R7Site(c *Ctx, fns []*ssa.Function, key string, s EffectSite) {
	flags := c12FlagSets(fns, "~/content/file.Store.PreservePermissions")
	skip, why, _ := c12ChmodSkipped(fns, flags, s.Fn, s.Call.(ssa.Instruction), s.Call.Common().Args[0], s.Call.Value(), nil, 0)
	c.Check(c12R7, key, s.Call.Pos(), !skip, ifelse(!skip, "with PreservePermissions set, the entry created here is chmod'ed to its header mode before the next entry",
		"with PreservePermissions set, "+why+": the entry created by "+s.Callee+" [in "+FnName(s.Fn)+"] keeps the mode produced under the umask, so the unpacked tree does not have the packed modes"))
}

// c12R7LinkSites: entries that own no mode (symbolic and hard links) must not be
// chmod'ed: os.Chmod follows the link and changes the TARGET's mode (or fails on
// a dangling link).  From every archive-entry os.Symlink / os.Link site, with the
// entry kind resolved and PreservePermissions set, no chmod of that entry path
// may be reachable before the next entry.
func c12R7LinkSites(c *Ctx, fns []*ssa.Function, flow *c11Flow) {
	flags := c12FlagSets(fns, "~/content/file.Store.PreservePermissions")
	count := map[string]int{}
	for _, s := range Inventory(fns, func(n string) bool { return n == "os.Symlink" || n == "os.Link" }) {
		site := &c11Site{Fn: s.Fn, Call: s.Call, Name: s.Callee, Leafs: map[int][]c11Leaf{}}
		var ls []c11Leaf
		flow.prov(s.Call.Common().Args[1], s.Call.(ssa.Instruction), 0, map[ssa.Value]bool{}, &ls)
		site.Leafs[1] = ls
		if c11OriginRole(flow, site) != "archive-entry" {
			continue
		}
		key := "archive-entry|" + s.Callee
		count[key]++
		if count[key] > 1 {
			key += "#" + string(rune('0'+count[key]))
		}
		_, _, reached := c12ChmodSkipped(fns, flags, s.Fn, s.Call.(ssa.Instruction), s.Call.Common().Args[1], nil, nil, 0)
		c.Check(c12R7, key+"|not-chmodded-through-link", s.Call.Pos(), !reached, ifelse(!reached, "no chmod of the link's path is reachable for this entry kind (a link owns no mode)",
			"with PreservePermissions set, a chmod of the entry path is reached for a link entry created by "+s.Callee+" [in "+FnName(s.Fn)+"]: os.Chmod follows the link, so the mode of the link's TARGET is changed (or the unpack fails on a dangling link)"))
	}
}

func c12TypeflagTest(cond ssa.Value) (k int64, eq bool, ok bool) {
	bo, isBin := cond.(*ssa.BinOp)
	if !isBin || (bo.Op != token.EQL && bo.Op != token.NEQ) {
		return 0, false, false
	}
	isTF := func(v ssa.Value) bool {
		for _, r := range Roots(v) {
			switch u := r.(type) {
			case *ssa.UnOp:
				if fa, isFA := u.X.(*ssa.FieldAddr); isFA && u.Op == token.MUL && fieldName(fa.X.Type(), fa.Field) == "archive/tar.Header.Typeflag" {
					continue
				}
			case *ssa.Field:
				if fieldName(u.X.Type(), u.Field) == "archive/tar.Header.Typeflag" {
					continue
				}
			}
			return false
		}
		return len(Roots(v)) > 0
	}
	if kk, isK := constInt(bo.Y); isK && isTF(bo.X) {
		return kk, bo.Op == token.EQL, true
	}
	if kk, isK := constInt(bo.X); isK && isTF(bo.Y) {
		return kk, bo.Op == token.EQL, true
	}
	return 0, false, false
}

// c12TypeflagMembership: cond is slices.Contains(<constant byte set>, header.Typeflag);
// the set may be a local literal or a package-level variable initialised with a literal.
func c12TypeflagMembership(cond ssa.Value) (map[int64]bool, bool) {
	call, ok := cond.(*ssa.Call)
	if !ok || CalleeName(call) != "slices.Contains" || len(call.Call.Args) != 2 {
		return nil, false
	}
	if _, _, isTF := c12TypeflagTest(&ssa.BinOp{Op: token.EQL, X: call.Call.Args[1], Y: ssa.NewConst(constant.MakeInt64(0), types.Typ[types.Byte])}); !isTF {
		return nil, false
	}
	set := map[int64]bool{}
	collect := func(v ssa.Value) bool {
		var els []ssa.Value
		c11SliceElems(v, &els)
		if len(els) == 0 {
			return false
		}
		for _, e := range els {
			k, isK := constInt(e)
			if !isK {
				return false
			}
			set[k] = true
		}
		return true
	}
	for _, r := range Roots(call.Call.Args[0]) {
		if _, isSlice := r.(*ssa.Slice); isSlice {
			if !collect(r) {
				return nil, false
			}
			continue
		}
		ld, isLoad := r.(*ssa.UnOp)
		if !isLoad || ld.Op != token.MUL {
			return nil, false
		}
		g, isGlobal := ld.X.(*ssa.Global)
		if !isGlobal || g.Pkg == nil {
			return nil, false
		}
		found := false
		if initFn := g.Pkg.Func("init"); initFn != nil {
			AllInstrs(initFn, func(in ssa.Instruction) {
				if st, isStore := in.(*ssa.Store); isStore && st.Addr == ssa.Value(g) {
					if collect(st.Val) {
						found = true
					}
				}
			})
		}
		// never reassigned elsewhere in the package
		for _, m := range g.Pkg.Members {
			if mf, isFn := m.(*ssa.Function); isFn && mf.Name() != "init" {
				AllInstrs(mf, func(in ssa.Instruction) {
					if st, isStore := in.(*ssa.Store); isStore && st.Addr == ssa.Value(g) {
						found = false
					}
				})
			}
		}
		if !found {
			return nil, false
		}
	}
	return set, len(set) > 0
}

// c12HasChmod: fn (or an in-package callee, depth 2) contains a chmod at all —
// a helper that merely never returns successfully must not count as "chmods".
func c12HasChmod(fn *ssa.Function, fns []*ssa.Function, depth int) bool {
	if len(CallsTo(fn, "os.Chmod", "(*os.File).Chmod")) > 0 {
		return true
	}
	if depth >= 2 {
		return false
	}
	for _, call := range Calls(fn, func(string) bool { return true }) {
		if g := StaticCallee(call); g != nil && g != fn && len(g.Blocks) > 0 && fnPkgPath(g) == fnPkgPath(fn) && c12HasChmod(g, fns, depth+1) {
			return true
		}
	}
	return false
}

// c12ChmodSkipped explores fn from just behind instruction `from` (from == nil: from the entry of fn).
// c12KnownBools: boolean values decided for the site under exploration (results of the creating helper).
var c12KnownBools map[ssa.Value]bool

func c12ChmodSkipped(fns []*ssa.Function, flags map[*ssa.Function]map[ssa.Value]bool, fn *ssa.Function, from ssa.Instruction, path ssa.Value, handleTuple ssa.Value, kind *int64, depth int) (skippedOut bool, whyOut string, reachedOut bool) {
	// the entry kind: a Typeflag == k edge dominating the site
	if kind == nil && from != nil {
		for _, i := range Ifs(fn) {
			cond, t, f := ifEdges(i)
			if k, eq, ok := c12TypeflagTest(cond); ok {
				e := t
				if !eq {
					e = f
				}
				if MustPass(from, newCut().Edges(e)) {
					kk := k
					kind = &kk
				}
			}
		}
	}
	flag := flags[fn]
	// chmods of this entry
	chmods := map[ssa.Instruction]bool{}
	for _, call := range Calls(fn, func(n string) bool { return n == "os.Chmod" || n == "(*os.File).Chmod" }) {
		if _, isDefer := call.(*ssa.Defer); isDefer {
			continue
		}
		a := call.Common().Args
		same := false
		if CalleeName(call) == "os.Chmod" {
			same = c11SameRoots(a[0], path)
		} else if handleTuple != nil {
			same = c11DerivesFrom(a[0], map[ssa.Value]bool{handleTuple: true})
		}
		if same && c12ModeFromHeader(a[1], fns, 0, map[ssa.Value]bool{}) {
			chmods[call.(ssa.Instruction)] = true
		}
	}
	reachHelpers := map[ssa.Instruction]bool{} // helper calls inside which a chmod of the entry is reachable (under the same kind / flag)
	reached := false
	// … or a call of an in-package helper that is handed the entry's path and, explored from its entry under the same
	// assumptions, never skips the chmod (restoreMetadata-style helpers)
	if depth < 3 {
		for _, call := range Calls(fn, func(string) bool { return true }) {
			H := StaticCallee(call)
			if _, isDefer := call.(*ssa.Defer); isDefer || H == nil || H == fn || len(H.Blocks) == 0 || fnPkgPath(H) != fnPkgPath(fn) || call == ssa.CallInstruction(nil) {
				continue
			}
			if in, ok := call.(ssa.Instruction); ok && in == from {
				continue
			}
			for i, a := range call.Common().Args {
				if i >= len(H.Params) || !c11SameLoc(a, path) {
					continue
				}
				sk, _, inner := c12ChmodSkipped(fns, flags, H, nil, H.Params[i], nil, kind, depth+1)
				if !sk && c12HasChmod(H, fns, 0) {
					chmods[call.(ssa.Instruction)] = true
				}
				if inner {
					reachHelpers[call.(ssa.Instruction)] = true
				}
			}
		}
	}
	// targets: the next entry (header of the innermost loop around the site) and successful returns
	var loopHead ssa.Instruction
	size := 0
	for _, l := range Loops(fn) {
		if from != nil && l.Contains(from) && (loopHead == nil || len(l.Blocks) < size) {
			loopHead, size = l.Header.Instrs[0], len(l.Blocks)
		}
	}
	okRets := map[ssa.Instruction]bool{}
	isYield := false
	if fn.Parent() != nil {
		for _, rf := range c11RangeFuncs(fn.Parent()) {
			if rf.Yield == fn {
				isYield = true
			}
		}
	}
	if isYield {
		// the body of a range-over-func loop: `return true` is the next entry, `return false` leaves the loop (error / break)
		cont, _ := c11YieldReturns(fn)
		for _, r := range cont {
			okRets[r] = true
		}
	} else if ErrResultIndex(fn.Signature) >= 0 {
		for _, a := range c11SuccessAtoms(fn) {
			okRets[a.Ret] = true
		}
	} else {
		for _, r := range Returns(fn) {
			okRets[r] = true
		}
	}
	type state struct{ b, pred *ssa.BasicBlock }
	visited := map[state]bool{}
	skipped := false
	var walk func(b, pred *ssa.BasicBlock, idx int, phis map[*ssa.Phi]ssa.Value)
	resolve := func(v ssa.Value, phis map[*ssa.Phi]ssa.Value) (val bool, known bool) {
		for i := 0; i < 4; i++ {
			if p, isPhi := v.(*ssa.Phi); isPhi {
				if r, ok := phis[p]; ok {
					v = r
					continue
				}
			}
			break
		}
		if flag[v] {
			return true, true
		}
		if kb, ok := c12KnownBools[v]; ok {
			return kb, true
		}
		if k, isConst := v.(*ssa.Const); isConst && k.Value != nil && k.Value.Kind() == constant.Bool {
			return constant.BoolVal(k.Value), true
		}
		rs := Roots(v)
		if len(rs) > 0 {
			all := true
			for _, r := range rs {
				if !flag[r] {
					all = false
				}
			}
			if all {
				return true, true
			}
		}
		return false, false
	}
	var hitRets []*ssa.Return // the successful returns reached without the chmod (all of them: the walk does not stop at the first)
	walk = func(b, pred *ssa.BasicBlock, idx int, phis map[*ssa.Phi]ssa.Value) {
		if idx == 0 {
			st := state{b, pred}
			if visited[st] {
				return
			}
			visited[st] = true
			if pred != nil {
				np := map[*ssa.Phi]ssa.Value{}
				for k, v := range phis {
					np[k] = v
				}
				for _, in := range b.Instrs {
					p, isPhi := in.(*ssa.Phi)
					if !isPhi {
						break
					}
					for i, pb := range b.Preds {
						if pb == pred {
							np[p] = p.Edges[i]
						}
					}
				}
				phis = np
			}
		}
		for i := idx; i < len(b.Instrs); i++ {
			in := b.Instrs[i]
			if in == loopHead && idx == 0 && i == 0 {
				skipped = true // the next entry is reached
				return
			}
			if reachHelpers[in] && kind != nil {
				reached = true
			}
			if chmods[in] {
				if kind != nil {
					reached = true // (judged only where the entry kind is known)
				}
				return
			}
			if r, isRet := in.(*ssa.Return); isRet {
				if okRets[r] {
					skipped = true
					hitRets = append(hitRets, r)
				}
				return
			}
			if ifi, isIf := in.(*ssa.If); isIf {
				cond, t, f := ifEdges(ifi)
				takeT, takeF := true, true
				if k, eq, ok := c12TypeflagTest(cond); ok && kind != nil {
					holds := (k == *kind) == eq
					takeT, takeF = holds, !holds
				} else if set, ok := c12TypeflagMembership(cond); ok && kind != nil {
					takeT, takeF = set[*kind], !set[*kind]
				} else if v, known := resolve(cond, phis); known {
					takeT, takeF = v, !v
				}
				if takeT {
					walk(t.To, b, 0, phis)
				}
				if takeF {
					walk(f.To, b, 0, phis)
				}
				return
			}
		}
		for _, sc := range b.Succs {
			walk(sc, b, 0, phis)
		}
	}
	if from != nil {
		walk(from.Block(), nil, instrIndex(from)+1, map[*ssa.Phi]ssa.Value{})
	} else {
		walk(fn.Blocks[0], nil, 0, map[*ssa.Phi]ssa.Value{})
	}
	if !skipped {
		return false, "", reached
	}
	if len(chmods) > 0 {
		return true, "a path from the creation reaches the next entry / a successful return without the chmod to the header mode", reached
	}
	// no chmod of this entry here: the creating function is a helper — look at its call sites
	if depth >= 3 {
		return true, "no chmod of the created entry to its header mode is found", reached
	}
	pidx := -1
	if rs := Roots(path); len(rs) == 1 {
		if prm, ok := rs[0].(*ssa.Parameter); ok && prm.Parent() == fn {
			for i, q := range fn.Params {
				if q == prm {
					pidx = i
				}
			}
		}
	}
	if pidx < 0 {
		return true, "no chmod of the created entry to its header mode is found", reached
	}
	type site struct {
		g    *ssa.Function
		call ssa.CallInstruction
		kind *int64
	}
	var sites []site
	for _, g := range fns {
		for _, call := range Calls(g, func(string) bool { return true }) {
			if StaticCallee(call) == fn && pidx < len(call.Common().Args) {
				sites = append(sites, site{g, call, kind})
			}
		}
	}
	if len(sites) == 0 && fn.Parent() != nil {
		// a function literal kept in a dispatch table keyed by the entry kind
		var k *int64
		AllInstrs(fn.Parent(), func(in ssa.Instruction) {
			mu, ok := in.(*ssa.MapUpdate)
			if !ok {
				return
			}
			isFn := mu.Value == ssa.Value(fn)
			if mc, isMC := mu.Value.(*ssa.MakeClosure); isMC && mc.Fn == ssa.Value(fn) {
				isFn = true
			}
			if kk, isK := constInt(mu.Key); isFn && isK {
				k = &kk
			}
		})
		for _, g := range append([]*ssa.Function{fn.Parent()}, Anons(fn.Parent())...) {
			for _, call := range Calls(g, func(string) bool { return true }) {
				cc := call.Common()
				if cc.IsInvoke() || StaticCallee(call) != nil {
					continue
				}
				if sig, ok := cc.Value.Type().Underlying().(*types.Signature); ok && types.Identical(sig, fn.Signature) && pidx < len(cc.Args) {
					if kind != nil {
						k = kind
					}
					sites = append(sites, site{g, call, k})
				}
			}
		}
	}
	if len(sites) == 0 {
		return true, "no chmod of the created entry to its header mode is found", reached
	}
	skippedUp, whyUp := false, ""
	for _, st := range sites {
		if _, isDefer := st.call.(*ssa.Defer); isDefer {
			return true, "the creating helper is called deferred", reached
		}
		// a boolean the helper returns next to this entry's creation ("created", "handled") is a constant for this site:
		// the caller's tests of that result are decided
		saved := c12KnownBools
		kb := map[ssa.Value]bool{}
		for k, v := range saved {
			kb[k] = v
		}
		if cv := st.call.Value(); cv != nil && cv.Referrers() != nil && len(hitRets) > 0 {
			for _, ref := range *cv.Referrers() {
				ex, isEx := ref.(*ssa.Extract)
				if !isEx {
					continue
				}
				var val *bool
				same := true
				for _, r := range hitRets {
					if ex.Index >= len(r.Results) {
						same = false
						continue
					}
					k, isK := r.Results[ex.Index].(*ssa.Const)
					if !isK || k.Value == nil || k.Value.Kind() != constant.Bool {
						same = false
						continue
					}
					b := constant.BoolVal(k.Value)
					if val != nil && *val != b {
						same = false
					}
					val = &b
				}
				if same && val != nil {
					kb[ex] = *val
				}
			}
		}
		c12KnownBools = kb
		sk, why, r2 := c12ChmodSkipped(fns, flags, st.g, st.call.(ssa.Instruction), st.call.Common().Args[pidx], nil, st.kind, depth+1)
		c12KnownBools = saved
		if r2 {
			reached = true
		}
		if sk {
			skippedUp, whyUp = true, why
		}
	}
	return skippedUp, whyUp, reached
}

// ---------- R1: directory packer ----------

func c12R1Dir(c *Ctx, fns []*ssa.Function) {
	const R1 = "C12.R1.descriptor-describes-bytes"
	c.Expect(R1, 12)
	// directory packer: fills in Descriptor.Digest and holds a *gzip.Writer (made by gzip.NewWriter directly
	// or by an in-package helper that wires writer and digester together)
	var ds []*ssa.Function
	gzOf := map[*ssa.Function]ssa.Value{}
	for _, f := range fns {
		if f.Parent() != nil || len(c12FieldStores(f, c12Desc, "Digest")) == 0 {
			continue
		}
		AllInstrs(f, func(in ssa.Instruction) {
			v, ok := in.(ssa.Value)
			if !ok || gzOf[f] != nil || v.Type().String() != "*compress/gzip.Writer" {
				return
			}
			switch in.(type) {
			case *ssa.Call, *ssa.Extract:
				if u := c12Unwrap(v, 0); u != nil && u.Gzip {
					gzOf[f] = v
				} else if call, isCall := in.(*ssa.Call); isCall && CalleeName(call) == "compress/gzip.NewWriter" {
					gzOf[f] = v
				}
			}
		})
		if gzOf[f] != nil {
			ds = append(ds, f)
		}
	}
	if len(ds) == 0 {
		c.LostAnchor(R1, "directory packer: function of ~/content/file that fills in Descriptor.Digest and writes through a gzip.Writer")
		return
	}
	annDigest, ok1 := c12ConstStr(c.P, "AnnotationDigest")
	annUnpack, ok2 := c12ConstStr(c.P, "AnnotationUnpack")
	if !ok1 || !ok2 {
		c.LostAnchor(R1, "constants ~/content/file.AnnotationDigest / AnnotationUnpack")
		return
	}
	for _, D := range ds {
		dn := FnName(D)
		gzw := gzOf[D]
		// (a) gzip sink
		var file, gzDigester ssa.Value
		if u := c12Unwrap(gzw, 0); u != nil && u.Gzip {
			gzDigester = u.Digester
			for _, e := range u.Sinks {
				for _, r := range Roots(e) {
					if strings.HasSuffix(r.Type().String(), "*os.File") {
						file = e
					}
				}
			}
		}
		okSink := file != nil && gzDigester != nil
		c.Check(R1, dn+"|gzip-sink-is-file-and-digester", D.Pos(), okSink,
			ifelse(okSink, "gzip.NewWriter writes to io.MultiWriter(temp file, digester.Hash())", "the compressed stream is not teed into both the temp file and a digester: the descriptor digest cannot be the digest of the stored bytes"))
		if !okSink {
			continue
		}
		isDigestOf := func(v ssa.Value, dg ssa.Value) *ssa.Call {
			rs := Roots(v)
			if len(rs) != 1 {
				return nil
			}
			recv, call := c12Invoke(rs[0], "Digest")
			if recv == nil || !c11SameRoots(recv, dg) {
				return nil
			}
			return call
		}
		// explicit flushes of the gzip writer
		var closes []ssa.CallInstruction
		for _, cl := range CallsTo(D, "(*compress/gzip.Writer).Close") {
			if _, isDefer := cl.(*ssa.Defer); isDefer {
				continue
			}
			if c11DerivesFrom(cl.Common().Args[0], map[ssa.Value]bool{gzw: true}) {
				closes = append(closes, cl)
			}
		}
		// … or gzw.Close as a step of a table of steps run by a first-error loop: flushed once the table is exhausted
		var closeDone []Edge
		var stepCalls []*ssa.Call
		for _, sl := range c11StepLoops(D) {
			for _, st := range sl.Steps {
				if recv := c11BoundMethodStep(st, "Close"); recv != nil && strings.HasSuffix(recv.Type().String(), "compress/gzip.Writer") && c11DerivesFrom(recv, map[ssa.Value]bool{gzw: true}) {
					closeDone = append(closeDone, sl.Done)
					stepCalls = append(stepCalls, sl.Call)
				}
			}
		}
		// (b) descriptor digest
		dst := c12FieldStores(D, c12Desc, "Digest")
		okDg := len(dst) > 0
		var dgCalls []*ssa.Call
		for _, s := range dst {
			call := isDigestOf(s.Val, gzDigester)
			if call == nil {
				okDg = false
			} else {
				dgCalls = append(dgCalls, call)
			}
		}
		c.Check(R1, dn+"|descriptor-digest-is-gzip-digest", D.Pos(), okDg,
			ifelse(okDg, "Descriptor.Digest is Digest() of the digester fed by the gzip stream", "Descriptor.Digest is not the digest of the compressed bytes written to the temp file: Fetch returns bytes that do not match the descriptor"))
		okFlushD := len(closes)+len(closeDone) > 0 && len(dgCalls) > 0
		for _, call := range dgCalls {
			if !MustPass(call, newCut().Calls(closes).Edges(closeDone...)) {
				okFlushD = false
			}
		}
		c.Check(R1, dn+"|digest-after-flush", D.Pos(), okFlushD,
			ifelse(okFlushD, "gzip Close() (flush) precedes Digest() on every path", "the gzip digest is taken before the gzip writer is closed: the trailer is missing from the digest"))
		for _, cl := range closes {
			r := ErrFlow(cl, ErrFlowOpts{})
			c.Check(R1, dn+"|flush-error-surfaces", cl.Pos(), r.OK, ifelse(r.OK, r.How, "a failed gzip flush is ignored: "+r.Detail))
		}
		for _, sc := range stepCalls {
			r := ErrFlow(sc, ErrFlowOpts{})
			c.Check(R1, dn+"|flush-error-surfaces", sc.Pos(), r.OK, ifelse(r.OK, r.How+" (step of a first-error loop)", "a failed step of the flush table (gzip Close) is ignored: "+r.Detail))
		}
		// (c) size
		sst := c12FieldStores(D, c12Desc, "Size")
		okSize := len(sst) > 0 && len(closes)+len(closeDone) > 0
		for _, s := range sst {
			rs := Roots(s.Val)
			if len(rs) != 1 {
				okSize = false
				continue
			}
			recv, _ := c12Invoke(rs[0], "Size")
			var stat *ssa.Call
			if recv != nil {
				for _, r := range Roots(recv) {
					if ex, ok := r.(*ssa.Extract); ok && ex.Index == 0 {
						if call, ok := ex.Tuple.(*ssa.Call); ok && CalleeName(call) == "(*os.File).Stat" && c11SameRoots(call.Call.Args[0], file) {
							stat = call
						}
					}
				}
			}
			if stat == nil || !MustPass(stat, newCut().Calls(closes).Edges(closeDone...)) {
				okSize = false
			}
		}
		c.Check(R1, dn+"|size-is-stat-after-flush", D.Pos(), okSize,
			ifelse(okSize, "Descriptor.Size is Stat().Size() of the temp file, taken after the gzip Close()", "Descriptor.Size is not the size of the flushed temp file (Stat before the flush, or of another file)"))
		// (d) tar sink
		var tarCall ssa.CallInstruction
		var tarDigester ssa.Value
		okTar := false
		for _, call := range Calls(D, func(string) bool { return true }) {
			g := StaticCallee(call)
			if g == nil || len(CallsTo(g, "archive/tar.NewWriter")) == 0 {
				continue
			}
			tarCall = call
			for _, a := range call.Common().Args {
				if !types.IsInterface(a.Type()) {
					continue
				}
				u := c12Unwrap(a, 0)
				if u == nil || u.Gzip {
					continue
				}
				hasGz := false
				for _, e := range u.Sinks {
					if c11SameRoots(e, gzw) {
						hasGz = true
					}
				}
				tarDigester = u.Digester
				okTar = hasGz && tarDigester != nil && !c11SameRoots(tarDigester, gzDigester)
			}
		}
		pos := D.Pos()
		if tarCall != nil {
			pos = tarCall.Pos()
		}
		c.Check(R1, dn+"|tar-sink-is-gzip-and-digester", pos, okTar,
			ifelse(okTar, "the tar stream goes to io.MultiWriter(gzip writer, second digester.Hash())", "the tar stream is not teed into the gzip writer and a separate digester: the uncompressed digest cannot be verified on unpack"))
		if tarCall != nil {
			r := ErrFlow(tarCall, ErrFlowOpts{})
			c.Check(R1, dn+"|tar-error-surfaces", tarCall.Pos(), r.OK, ifelse(r.OK, r.How, "a failed tar walk still yields a descriptor: "+r.Detail))
		}
		// (e) annotations
		var annMaps []ssa.Value
		for _, s := range c12FieldStores(D, c12Desc, "Annotations") {
			annMaps = append(annMaps, s.Val)
		}
		okAD, okAU := false, false
		AllInstrs(D, func(in ssa.Instruction) {
			mu, ok := in.(*ssa.MapUpdate)
			if !ok {
				return
			}
			inDesc := false
			for _, m := range annMaps {
				if c11SameRoots(m, mu.Map) {
					inDesc = true
				}
			}
			k, isConst := constString(mu.Key)
			if !inDesc || !isConst {
				return
			}
			switch k {
			case annDigest:
				okAD = false
				if okTar {
					for _, r := range Roots(mu.Value) {
						if sc, ok := r.(*ssa.Call); ok && CalleeName(sc) == "(digest.Digest).String" {
							if call := isDigestOf(sc.Call.Args[0], tarDigester); call != nil && tarCall != nil && MustPass(call, newCut().Instr(tarCall.(ssa.Instruction))) {
								okAD = true
							}
						}
					}
				}
			case annUnpack:
				v, isStr := constString(mu.Value)
				okAU = isStr && v == "true"
			}
		})
		c.Check(R1, dn+"|annotation-digest-is-tar-digest", D.Pos(), okAD,
			ifelse(okAD, "Annotations[AnnotationDigest] is Digest().String() of the digester fed by the tar stream, taken after the tar walk", "the uncompressed-digest annotation is not the digest of the tar stream (or is taken before the walk): unpack verification fails or verifies nothing"))
		c.Check(R1, dn+"|annotation-unpack-true", D.Pos(), okAU,
			ifelse(okAU, "Annotations[AnnotationUnpack] = \"true\"", "the descriptor of a packed directory is not marked for unpacking: the directory comes back as a tarball"))
		// (f) digest -> temp file
		okMap := false
		for _, st := range CallsTo(D, "(*sync.Map).Store") {
			a := st.Common().Args
			fa, ok := a[0].(*ssa.FieldAddr)
			if !ok || fieldName(fa.X.Type(), fa.Field) != "~/content/file.Store.digestToPath" {
				continue
			}
			keyOK := false
			keyVals := []ssa.Value{a[1]}
			// desc.Digest of a local Descriptor: the value stored into that field
			for _, r := range Roots(a[1]) {
				if ld, ok := r.(*ssa.UnOp); ok && ld.Op == token.MUL {
					if kfa, ok := ld.X.(*ssa.FieldAddr); ok {
						for _, st := range c12FieldStores(D, c12Desc, "Digest") {
							if sfa := st.Addr.(*ssa.FieldAddr); sfa.Field == kfa.Field && c11SameRoots(sfa.X, kfa.X) {
								keyVals = append(keyVals, st.Val)
							}
						}
					}
				}
			}
			for _, call := range dgCalls {
				for _, kv := range keyVals {
					if c11DerivesFrom(kv, map[ssa.Value]bool{call: true}) {
						keyOK = true
					}
				}
			}
			valOK := false
			for _, r := range Roots(a[2]) {
				if nc, ok := r.(*ssa.Call); ok && CalleeName(nc) == "(*os.File).Name" && c11SameRoots(nc.Call.Args[0], file) {
					valOK = true
				}
			}
			okMap = keyOK && valOK
		}
		c.Check(R1, dn+"|digest-maps-to-temp-file", D.Pos(), okMap,
			ifelse(okMap, "digestToPath[gzip digest] = name of the temp file", "the gzip digest is not mapped to the temp file that holds the bytes: Fetch of the descriptor fails or returns other bytes"))
	}
}

// ---------- R1: file describer ----------

func c12R1File(c *Ctx, fns []*ssa.Function) {
	const R1 = "C12.R1.descriptor-describes-bytes"
	// file describer: fills in Descriptor.Digest from a file it opens itself (os.Open) — with digest.FromReader, or by
	// copying the file into the Hash() of a digester whose Digest() it then takes — and is not the directory packer
	var fds []*ssa.Function
	for _, f := range fns {
		if f.Parent() != nil || len(c12FieldStores(f, c12Desc, "Digest")) == 0 || len(CallsTo(f, "os.Open")) == 0 {
			continue
		}
		isPacker := false
		AllInstrs(f, func(in ssa.Instruction) {
			if v, ok := in.(ssa.Value); ok && v.Type().String() == "*compress/gzip.Writer" {
				isPacker = true
			}
		})
		if !isPacker {
			fds = append(fds, f)
		}
	}
	if len(fds) == 0 {
		c.LostAnchor(R1, "file describer: function of ~/content/file that opens a file and fills in Descriptor.Digest")
		return
	}
	for _, F := range fds {
		fn := FnName(F)
		// the digest value, the reader it was computed from, and the call whose success means "digest complete"
		var dres, src ssa.Value
		var hashing *ssa.Call
		how := ""
		if frs := CallsTo(F, "digest.FromReader"); len(frs) > 0 {
			hashing = frs[0].(*ssa.Call)
			dres, src, how = ResultOf(hashing, 0), hashing.Call.Args[0], "digest.FromReader(os.Open(path))"
		} else {
			// io.Copy / io.CopyBuffer(d.Hash(), file) … d.Digest()
			for _, cp := range CallsTo(F, "io.Copy", "io.CopyBuffer", "io.CopyN") {
				cv, ok := cp.(*ssa.Call)
				if !ok {
					continue
				}
				var dg ssa.Value
				for _, r := range Roots(cv.Call.Args[0]) {
					if recv, _ := c12Invoke(r, "Hash"); recv != nil {
						dg = recv
					}
				}
				if dg == nil {
					continue
				}
				for _, st := range c12FieldStores(F, c12Desc, "Digest") {
					rs := Roots(st.Val)
					if len(rs) != 1 {
						continue
					}
					if recv, dcall := c12Invoke(rs[0], "Digest"); recv != nil && c11SameRoots(recv, dg) && MustPass(dcall, newCut().Instr(cv)) {
						hashing, dres, src, how = cv, rs[0], cv.Call.Args[1], "Digest() of a digester fed by a copy of os.Open(path)"
					}
				}
			}
		}
		if hashing == nil {
			c.Violation(R1, fn+"|digest-of-opened-file", F.Pos(), "Descriptor.Digest is not computed from the opened file (neither digest.FromReader nor a digester fed by a copy of the file)")
			continue
		}
		fr := hashing
		// digest from the opened file
		var pathArg ssa.Value
		for _, call := range CallsTo(F, "os.Open") {
			if f0 := ResultOf(call, 0); f0 != nil && c11DerivesFrom(src, map[ssa.Value]bool{f0: true}) {
				pathArg = call.Common().Args[0]
			}
		}
		dst := c12FieldStores(F, c12Desc, "Digest")
		okDg := pathArg != nil && dres != nil && len(dst) > 0
		for _, s := range dst {
			if !SameValue(s.Val, dres) {
				okDg = false
			}
		}
		c.Check(R1, fn+"|digest-of-opened-file", fr.Pos(), okDg,
			ifelse(okDg, "Descriptor.Digest is "+how, "Descriptor.Digest is not computed from the opened file"))
		// success only behind a successful digest
		okSucc := false
		if e := ErrOf(fr); e != nil {
			ne, _, _ := NilTests(F, Aliases(e))
			atoms := c11SuccessAtoms(F)
			okSucc = len(ne) > 0 && len(atoms) > 0 && c11AllAtomsPass(atoms, func() *cut { return newCut().Edges(ne...) })
		}
		c.Check(R1, fn+"|success-implies-digest-ok", fr.Pos(), okSucc,
			ifelse(okSucc, "every successful return lies behind the err==nil edge of the hashing of the file", "a read error while digesting still yields a descriptor (with an empty/partial digest)"))
		// size from the FileInfo of the same path (taken here, or by the caller and handed over as FileInfo or as size)
		sst := c12FieldStores(F, c12Desc, "Size")
		okSize := len(sst) > 0 && pathArg != nil
		for _, s := range sst {
			if !okSize || !c12SizeOfPath(s.Val, F, pathArg, fns, false, 0) {
				okSize = false
			}
		}
		c.Check(R1, fn+"|size-of-same-path", F.Pos(), okSize,
			ifelse(okSize, "Descriptor.Size is Size() of the FileInfo obtained by os.Stat of the very path that is opened", "Descriptor.Size does not come from the FileInfo of the path that is digested"))
		// digest -> path
		okMap := false
		for _, st := range CallsTo(F, "(*sync.Map).Store") {
			a := st.Common().Args
			fa, ok := a[0].(*ssa.FieldAddr)
			if !ok || fieldName(fa.X.Type(), fa.Field) != "~/content/file.Store.digestToPath" {
				continue
			}
			okMap = dres != nil && pathArg != nil && c11DerivesFrom(a[1], map[ssa.Value]bool{dres: true}) && c11SameRoots(a[2], pathArg)
		}
		c.Check(R1, fn+"|digest-maps-to-path", F.Pos(), okMap,
			ifelse(okMap, "digestToPath[digest] = the path that was digested", "the digest is not mapped to the file it was computed from"))
	}
}

// c12SizeOfPath: v is Size() of the FileInfo obtained by os.Stat/Lstat of
// `path` (or Stat of an open file); the FileInfo (info=true) or the size may be
// a parameter, then every caller must supply such a value for the path it passes.
func c12SizeOfPath(v ssa.Value, F *ssa.Function, path ssa.Value, fns []*ssa.Function, info bool, depth int) bool {
	rs := Roots(v)
	if len(rs) != 1 || depth > 3 {
		return false
	}
	switch u := rs[0].(type) {
	case *ssa.Parameter:
		if u.Parent() != F || F.Parent() != nil {
			return false
		}
		pr := Roots(path)
		if len(pr) != 1 {
			return false
		}
		pp, ok := pr[0].(*ssa.Parameter)
		if !ok || pp.Parent() != F {
			return false
		}
		vi, pi := -1, -1
		for i, q := range F.Params {
			if q == u {
				vi = i
			}
			if q == pp {
				pi = i
			}
		}
		n := 0
		for _, g := range fns {
			for _, call := range Calls(g, func(string) bool { return true }) {
				if StaticCallee(call) != F {
					continue
				}
				n++
				args := call.Common().Args
				if vi < 0 || pi < 0 || !c12SizeOfPath(args[vi], g, args[pi], fns, info, depth+1) {
					return false
				}
			}
		}
		return n > 0
	case *ssa.Call:
		if !info {
			recv, _ := c12Invoke(u, "Size")
			return recv != nil && c12SizeOfPath(recv, F, path, fns, true, depth)
		}
	case *ssa.Extract:
		if !info || u.Index != 0 {
			return false
		}
		st, ok := u.Tuple.(*ssa.Call)
		if !ok {
			return false
		}
		switch CalleeName(st) {
		case "os.Stat", "os.Lstat":
			return c11SameRoots(st.Call.Args[0], path)
		case "(*os.File).Stat":
			return true
		}
	}
	return false
}

// ---------- R2 ----------

func c12ParamIndexReaching(fn *ssa.Function, callee string, argIdx int) int {
	for _, call := range CallsTo(fn, callee) {
		for _, r := range Roots(call.Common().Args[argIdx]) {
			if p, ok := r.(*ssa.Parameter); ok {
				for i, q := range fn.Params {
					if q == p {
						return i
					}
				}
			}
		}
	}
	return -1
}

func c12R2(c *Ctx, fns []*ssa.Function) {
	const R2 = "C12.R2.unpack-verifies"
	c.Expect(R2, 5)
	c12R2ParseArmed(c, R2, fns)
	es := c12FnsCalling(fns, "compress/gzip.NewReader")
	if len(es) == 0 {
		c.LostAnchor(R2, "gzip extractor: function of ~/content/file calling gzip.NewReader")
		return
	}
	annDigest, okc := c12ConstStr(c.P, "AnnotationDigest")
	if !okc {
		c.LostAnchor(R2, "constant ~/content/file.AnnotationDigest")
		return
	}
	for _, E := range es {
		en := FnName(E)
		var xcall *ssa.Call
		for _, call := range Calls(E, func(string) bool { return true }) {
			if g := StaticCallee(call); g != nil && inModule(g) && len(g.Blocks) > 0 && c11Reaches(g, "archive/tar.NewReader", 2) {
				xcall, _ = call.(*ssa.Call)
			}
		}
		if xcall == nil {
			c.LostAnchor(R2, en+": call of the tar extractor (function calling tar.NewReader)")
			continue
		}
		gzr := ResultOf(CallsTo(E, "compress/gzip.NewReader")[0], 0)
		parses := CallsTo(E, "digest.Parse")
		vers := CallsTo(E, "(digest.Digest).Verifier")
		chkIdx := -1
		inline := len(parses) > 0 && len(vers) > 0
		if !inline && gzr != nil {
			// the parse / verifier / tee wiring may live in a helper that returns (reader, verifier)
			for _, call := range Calls(E, func(string) bool { return true }) {
				H := StaticCallee(call)
				hc, isCall := call.(*ssa.Call)
				if H == nil || !isCall || fnPkgPath(H) != fnPkgPath(E) || len(CallsTo(H, "digest.Parse")) == 0 || len(CallsTo(H, "(digest.Digest).Verifier")) == 0 {
					continue
				}
				chkIdx = c12R2ViaHelper(c, R2, E, xcall, gzr, hc, H)
			}
		}
		if !inline && chkIdx == -1 {
			c.Violation(R2, en+"|reader-tees-into-verifier", xcall.Pos(), "the checksum is not parsed into a verifier: the uncompressed digest recorded at pack time is never checked")
			continue
		}
		if inline {
			chkIdx = c12ParamIndexReaching(E, "digest.Parse", 0)
			verifier := vers[0].(*ssa.Call)
			okV := false
			for _, p := range parses {
				if d := ResultOf(p, 0); d != nil && c11DerivesFrom(verifier.Call.Args[0], map[ssa.Value]bool{d: true}) {
					for _, r := range Roots(p.Common().Args[0]) {
						if _, isP := r.(*ssa.Parameter); isP {
							okV = true
						}
					}
				}
			}
			// reader argument of the tar extractor
			var reader ssa.Value
			for _, a := range xcall.Call.Args {
				if types.IsInterface(a.Type()) {
					reader = a
				}
			}
			var tee *ssa.Call
			okR := okV && reader != nil
			if reader != nil {
				for _, r := range Roots(reader) {
					if call, ok := r.(*ssa.Call); ok && CalleeName(call) == "io.TeeReader" {
						if c11DerivesFrom(call.Call.Args[0], map[ssa.Value]bool{gzr: true}) && c11DerivesFrom(call.Call.Args[1], map[ssa.Value]bool{verifier: true}) {
							tee = call
							continue
						}
						okR = false
					} else if !c11DerivesFrom(r, map[ssa.Value]bool{gzr: true}) {
						okR = false
					}
				}
			}
			if tee == nil {
				okR = false
			}
			// once the checksum parsed, the only reader that reaches the extractor is the tee
			if okR {
				for _, p := range parses {
					if e := ErrOf(p); e != nil {
						ne, _, _ := NilTests(E, Aliases(e))
						if len(ne) == 0 {
							okR = false
						}
						for _, edge := range ne {
							if reach(edge.To, 0, xcall, newCut().Instr(tee)) {
								okR = false
							}
							// and the value selected on that path is the tee (phi edges from the tee's block)
							if phi, ok := reader.(*ssa.Phi); ok {
								for i, pred := range phi.Block().Preds {
									if reach(edge.To, 0, pred.Instrs[len(pred.Instrs)-1], nil) || pred == edge.To {
										okEdge := false
										for _, r := range Roots(phi.Edges[i]) {
											if r == ssa.Value(tee) {
												okEdge = true
											}
										}
										if !okEdge && tee.Block().Dominates(pred) {
											okR = false
										}
									}
								}
							}
						}
					}
				}
			}
			c.Check(R2, en+"|reader-tees-into-verifier", xcall.Pos(), okR,
				ifelse(okR, "when the checksum parses, the tar extractor reads through io.TeeReader(gzip reader, verifier)", "the bytes the tar extractor consumes are not fed to the verifier of the recorded digest: a tampered tar stream is unpacked without notice"))
			r := ErrFlow(xcall, ErrFlowOpts{})
			c.Check(R2, en+"|extract-error-surfaces", xcall.Pos(), r.OK, ifelse(r.OK, r.How, r.Detail))
			// nil return dominated by Verified() when a verifier exists
			var verT, noVer []Edge
			var verRecvs []ssa.Value
			var fnRecvs [][2]ssa.Value // (function value consulted, the bound Verified it must be on the parse-success path)
			for _, i := range Ifs(E) {
				cond, t, _ := ifEdges(i)
				recv, _ := c12Invoke(cond, "Verified")
				if recv == nil {
					// `verified := func() bool { return true }; … verified = verifier.Verified; if !verified()`:
					// a function value that is either the bound method Verified of the verifier or a constant-true stand-in
					if dc, ok := cond.(*ssa.Call); ok && !dc.Call.IsInvoke() && StaticCallee(dc) == nil {
						var bound ssa.Value
						okFn := true
						for _, rt := range Roots(dc.Call.Value) {
							mc, isMC := rt.(*ssa.MakeClosure)
							var g *ssa.Function
							if isMC {
								g = mc.Fn.(*ssa.Function)
							} else if fnv, isFn := rt.(*ssa.Function); isFn {
								g = fnv
							}
							switch {
							case g == nil:
								okFn = false
							case isMC && strings.HasPrefix(g.Synthetic, "bound method") && strings.HasPrefix(g.Name(), "Verified") && len(mc.Bindings) == 1 && c11SameRoots(mc.Bindings[0], verifier):
								bound = mc
							default:
								// stand-in: every return is the constant true
								for _, ret := range Returns(g) {
									if len(ret.Results) != 1 {
										okFn = false
										continue
									}
									k, isConst := ret.Results[0].(*ssa.Const)
									if !isConst || k.Value == nil || !constant.BoolVal(k.Value) {
										okFn = false
									}
								}
							}
						}
						if okFn && bound != nil {
							verT = append(verT, t)
							fnRecvs = append(fnRecvs, [2]ssa.Value{dc.Call.Value, bound})
						}
					}
					continue
				}
				// the value consulted at the end is the very verifier the tee feeds
				// (through the phi); a value that can only be nil is not a verifier
				okRecv, hasVer := true, false
				for _, rt := range Roots(recv) {
					if k, isConst := rt.(*ssa.Const); isConst && k.Value == nil {
						continue
					}
					if rt != ssa.Value(verifier) {
						okRecv = false
					} else {
						hasVer = true
					}
				}
				if okRecv && hasVer {
					verRecvs = append(verRecvs, recv)
					verT = append(verT, t)
					ne, _, _ := NilTests(E, map[ssa.Value]bool{recv: true})
					noVer = append(noVer, ne...)
				}
			}
			atoms := c11SuccessAtoms(E)
			okVer := len(verT) > 0 && len(atoms) > 0 && c11AllAtomsPass(atoms, func() *cut { return newCut().Edges(verT...).Edges(noVer...) })
			// the no-verifier edge is legitimate only when the checksum was absent or
			// unparsable: behind the parse-success edge a nil return needs Verified()
			if okVer {
				for _, p := range parses {
					e := ErrOf(p)
					if e == nil {
						okVer = false
						continue
					}
					ne, _, _ := NilTests(E, Aliases(e))
					for _, edge := range ne {
						for _, rv := range verRecvs {
							if !c12NonNilBehind(rv, edge, verifier, 0) {
								okVer = false
							}
						}
						for _, fr := range fnRecvs {
							if !c12NonNilBehind(fr[0], edge, fr[1], 0) {
								okVer = false
							}
						}
					}
				}
			}
			c.Check(R2, en+"|success-dominated-by-verified", E.Pos(), okVer,
				ifelse(okVer, "every nil return passes the Verified()==true edge or the no-verifier edge", "the extractor can return nil on the checksum-parsed path without Verified()==true of the verifier that the TeeReader feeds (the value tested at the end is not that verifier, or the test is bypassed): a directory whose tar digest mismatches is accepted"))
		}
		// callers
		gzIdx := c12ParamIndexReaching(E, "os.Open", 0)
		n := 0
		for _, g := range fns {
			for _, call := range Calls(g, func(string) bool { return true }) {
				if StaticCallee(call) != E {
					continue
				}
				n++
				gn := FnName(g)
				args := call.Common().Args
				okChk := false
				if chkIdx >= 0 {
					for _, rt := range Roots(args[chkIdx]) {
						if lk, ok := rt.(*ssa.Lookup); ok {
							if k, isStr := constString(lk.Index); isStr && k == annDigest && strings.HasSuffix(fieldOfFuncValue(lk.X), "Descriptor.Annotations") {
								okChk = true
							}
						}
					}
				}
				c.Check(R2, gn+"|passes-recorded-digest", call.Pos(), okChk,
					ifelse(okChk, "the checksum handed to the extractor is expected.Annotations[AnnotationDigest]", "the extractor is not given the descriptor's uncompressed-digest annotation: nothing is verified on unpack"))
				okSave := gzIdx >= 0 && c12SavedTempName(g, args[gzIdx], call.(ssa.Instruction), 0)
				c.Check(R2, gn+"|gzip-saved-through-verifying-copy", call.Pos(), okSave,
					ifelse(okSave, "the gzip file given to the extractor was written by the verifying saver (CopyBuffer checks size and digest) and the save succeeded", "the gzip that is unpacked was not saved through the size/digest-verifying copy, or the extraction runs although the save failed"))
			}
		}
		if n == 0 {
			c.LostAnchor(R2, "caller of the gzip extractor "+en)
		}
	}
}

// c12R2ViaHelper: the gzip extractor E obtains (reader, verifier) from a helper
// H(reader, checksum).  H is summarised per Return: it yields either
// (the reader unchanged, nil) — only where the checksum did not parse — or
// (TeeReader(reader, V), V) with V the verifier of the parsed checksum; E must
// hand H's reader result to the tar extractor and consult H's verifier result.
// Returns the index of E's parameter that carries the checksum (-2 if unknown).
func c12R2ViaHelper(c *Ctx, R2 string, E *ssa.Function, xcall *ssa.Call, gzr ssa.Value, hcall *ssa.Call, H *ssa.Function) int {
	en := FnName(E)
	res := H.Signature.Results()
	rIdx, vIdx := -1, -1
	for i := 0; i < res.Len(); i++ {
		t := res.At(i).Type()
		if n, ok := t.(*types.Named); ok && n.Obj().Name() == "Verifier" {
			vIdx = i
		} else if types.IsInterface(t) {
			rIdx = i
		}
	}
	parses := CallsTo(H, "digest.Parse")
	verifier := CallsTo(H, "(digest.Digest).Verifier")[0].(*ssa.Call)
	hChk := c12ParamIndexReaching(H, "digest.Parse", 0)
	okH := rIdx >= 0 && vIdx >= 0 && hChk >= 0
	var hReader *ssa.Parameter
	for _, prm := range H.Params {
		if types.IsInterface(prm.Type()) {
			hReader = prm
		}
	}
	if hReader == nil {
		okH = false
	}
	var tee *ssa.Call
	if okH {
		okH = false
		for _, p := range parses {
			if d := ResultOf(p, 0); d != nil && c11DerivesFrom(verifier.Call.Args[0], map[ssa.Value]bool{d: true}) {
				okH = true
			}
		}
		for _, t := range CallsTo(H, "io.TeeReader") {
			tc := t.(*ssa.Call)
			if c11DerivesFrom(tc.Call.Args[0], map[ssa.Value]bool{hReader: true}) && c11DerivesFrom(tc.Call.Args[1], map[ssa.Value]bool{verifier: true}) {
				tee = tc
			}
		}
		if tee == nil {
			okH = false
		}
	}
	if okH {
		var parseOK []Edge
		for _, p := range parses {
			if e := ErrOf(p); e != nil {
				ne, _, _ := NilTests(H, Aliases(e))
				parseOK = append(parseOK, ne...)
			}
		}
		if len(parseOK) == 0 {
			okH = false
		}
		for _, ret := range Returns(H) {
			rv, rr := ret.Results[vIdx], ret.Results[rIdx]
			for _, rt := range Roots(rv) {
				if k, isConst := rt.(*ssa.Const); !(isConst && k.Value == nil) && rt != ssa.Value(verifier) {
					okH = false
				}
			}
			for _, rt := range Roots(rr) {
				if rt != ssa.Value(tee) && !c11DerivesFrom(rt, map[ssa.Value]bool{hReader: true}) {
					okH = false
				}
			}
			for _, pe := range parseOK {
				if ret.Block() != pe.To && !reach(pe.To, 0, ret, nil) {
					continue
				}
				// behind the parse-success edge the pair is (tee, verifier)
				if !c12NonNilBehind(rv, pe, verifier, 0) || !c12NonNilBehind(rr, pe, tee, 0) {
					okH = false
				}
			}
		}
	}
	// E's side
	var reader, hArgReader ssa.Value
	for _, a := range xcall.Call.Args {
		if types.IsInterface(a.Type()) {
			reader = a
		}
	}
	if hReader != nil {
		for i, prm := range H.Params {
			if prm == hReader && i < len(hcall.Call.Args) {
				hArgReader = hcall.Call.Args[i]
			}
		}
	}
	isRes := func(v ssa.Value, idx int) bool {
		rs := Roots(v)
		if len(rs) != 1 {
			return false
		}
		ex, ok := rs[0].(*ssa.Extract)
		return ok && ex.Tuple == ssa.Value(hcall) && ex.Index == idx
	}
	okR := okH && reader != nil && isRes(reader, rIdx) && hArgReader != nil && c11DerivesFrom(hArgReader, map[ssa.Value]bool{gzr: true}) && MustPass(xcall, newCut().Instr(hcall))
	c.Check(R2, en+"|reader-tees-into-verifier", xcall.Pos(), okR,
		ifelse(okR, "the tar extractor reads the reader returned by "+FnName(H)+", which is io.TeeReader(gzip reader, verifier) whenever the checksum parses",
			"the bytes the tar extractor consumes are not fed to the verifier of the recorded digest: a tampered tar stream is unpacked without notice"))
	r := ErrFlow(xcall, ErrFlowOpts{})
	c.Check(R2, en+"|extract-error-surfaces", xcall.Pos(), r.OK, ifelse(r.OK, r.How, r.Detail))
	var verT, noVer []Edge
	for _, i := range Ifs(E) {
		cond, t, _ := ifEdges(i)
		recv, _ := c12Invoke(cond, "Verified")
		if recv == nil || !isRes(recv, vIdx) {
			continue
		}
		verT = append(verT, t)
		ne, _, _ := NilTests(E, Aliases(Roots(recv)[0]))
		noVer = append(noVer, ne...)
	}
	atoms := c11SuccessAtoms(E)
	okVer := okH && len(verT) > 0 && len(atoms) > 0 && c11AllAtomsPass(atoms, func() *cut { return newCut().Edges(verT...).Edges(noVer...) })
	c.Check(R2, en+"|success-dominated-by-verified", E.Pos(), okVer,
		ifelse(okVer, "every nil return passes the Verified()==true edge of the verifier returned by "+FnName(H)+" or its nil edge (nil only where the checksum did not parse)",
			"the extractor can return nil on the checksum-parsed path without Verified()==true of the verifier that the TeeReader feeds: a directory whose tar digest mismatches is accepted"))
	// which parameter of E carries the checksum
	if hChk >= 0 && hChk < len(hcall.Call.Args) {
		for _, rt := range Roots(hcall.Call.Args[hChk]) {
			if prm, ok := rt.(*ssa.Parameter); ok {
				for i, q := range E.Params {
					if q == prm {
						return i
					}
				}
			}
		}
	}
	return -2
}

// c12NonNilBehind: on every path that takes edge `from` (the checksum parsed),
// the value v denotes `want` (never the nil alternative of a phi / the zero
// value of a cell).
func c12NonNilBehind(v ssa.Value, from Edge, want ssa.Value, depth int) bool {
	if depth > 4 {
		return false
	}
	v = strip(v)
	if v == want {
		return true
	}
	behind := func(b *ssa.BasicBlock) bool {
		return b == from.To || reach(from.To, 0, b.Instrs[len(b.Instrs)-1], nil)
	}
	switch u := v.(type) {
	case *ssa.Phi:
		for i, e := range u.Edges {
			pred := u.Block().Preds[i]
			if !behind(pred) {
				continue // this alternative is not selected on the parse-success path
			}
			if !c12NonNilBehind(e, from, want, depth+1) {
				return false
			}
		}
		return true
	case *ssa.UnOp:
		if a := cellOf(u); a != nil {
			var sts []ssa.Instruction
			for _, st := range storesTo(a) {
				if strip(st.Val) == want {
					sts = append(sts, st)
				}
			}
			return len(sts) > 0 && !reach(from.To, 0, u, newCut().Instr(sts...))
		}
	}
	return false
}

// ---------- R3 ----------

func c12IsZero(v ssa.Value) bool {
	k, ok := v.(*ssa.Const)
	if !ok {
		// `var zero T` used as a value: a load of a local that is never stored to
		if ld, isLoad := v.(*ssa.UnOp); isLoad && ld.Op == token.MUL {
			if a, isAlloc := ld.X.(*ssa.Alloc); isAlloc {
				for _, ref := range *a.Referrers() {
					switch ref.(type) {
					case *ssa.UnOp, *ssa.DebugRef:
					default:
						return false
					}
				}
				return true
			}
		}
		return false
	}
	if k.Value == nil {
		return true
	}
	if i, ok := constInt(k); ok {
		return i == 0
	}
	if s, ok := constString(k); ok {
		return s == ""
	}
	return false
}

// c12FlagSets: for every function of the package, the values that denote the
// option Store.<field>: loads of the field, parameters that receive such a
// value at a static call, and loads of variables captured by a closure that
// hold such a parameter (fixpoint over the package).
func c12FlagSets(fns []*ssa.Function, field string) map[*ssa.Function]map[ssa.Value]bool {
	sets := map[*ssa.Function]map[ssa.Value]bool{}
	add := func(f *ssa.Function, v ssa.Value) bool {
		if sets[f] == nil {
			sets[f] = map[ssa.Value]bool{}
		}
		changed := false
		for a := range Aliases(v) {
			if !sets[f][a] {
				sets[f][a] = true
				changed = true
			}
		}
		return changed
	}
	for _, f := range fns {
		for v := range c11FieldReads(f, field) {
			add(f, v)
		}
	}
	for round := 0; round < 6; round++ {
		changed := false
		for _, f := range fns {
			cur := sets[f]
			if len(cur) == 0 {
				continue
			}
			is := func(v ssa.Value) bool {
				rs := Roots(v)
				if len(rs) == 0 {
					return false
				}
				for _, r := range rs {
					if !cur[r] {
						return false
					}
				}
				return true
			}
			AllInstrs(f, func(in ssa.Instruction) {
				switch u := in.(type) {
				case ssa.CallInstruction:
					g := StaticCallee(u)
					if g == nil || len(g.Blocks) == 0 {
						return
					}
					for i, a := range u.Common().Args {
						if i < len(g.Params) && (cur[a] || is(a)) && add(g, g.Params[i]) {
							changed = true
						}
					}
				case *ssa.Store:
					// a flag kept in a cell that a closure captures
					cell, ok := u.Addr.(*ssa.Alloc)
					if !ok || !(cur[u.Val] || is(u.Val)) {
						return
					}
					for _, ref := range *cell.Referrers() {
						mc, ok := ref.(*ssa.MakeClosure)
						if !ok {
							continue
						}
						g := mc.Fn.(*ssa.Function)
						for i, bnd := range mc.Bindings {
							if bnd != ssa.Value(cell) {
								continue
							}
							for _, r2 := range *g.FreeVars[i].Referrers() {
								if ld, ok := r2.(*ssa.UnOp); ok && ld.Op == token.MUL && add(g, ld) {
									changed = true
								}
							}
						}
					}
				}
			})
		}
		// a struct field that only ever receives the flag carries it (closure state turned into a struct)
		type fkey struct {
			t types.Type
			i int
		}
		all := map[fkey]bool{}
		any := map[fkey]bool{}
		for _, f := range fns {
			cur := sets[f]
			AllInstrs(f, func(in ssa.Instruction) {
				st, ok := in.(*ssa.Store)
				if !ok {
					return
				}
				fa, ok := st.Addr.(*ssa.FieldAddr)
				if !ok {
					return
				}
				var k fkey
				found := false
				for kk := range all {
					if kk.i == fa.Field && types.Identical(kk.t, fa.X.Type()) {
						k, found = kk, true
					}
				}
				if !found {
					k = fkey{fa.X.Type(), fa.Field}
					all[k] = true
				}
				isFlag := cur[st.Val]
				if !isFlag {
					rs := Roots(st.Val)
					isFlag = len(rs) > 0
					for _, r := range rs {
						if !cur[r] {
							isFlag = false
						}
					}
				}
				if isFlag {
					any[k] = true
				} else {
					all[k] = false
				}
			})
		}
		for _, f := range fns {
			AllInstrs(f, func(in ssa.Instruction) {
				ld, ok := in.(*ssa.UnOp)
				if !ok || ld.Op != token.MUL {
					return
				}
				fa, ok := ld.X.(*ssa.FieldAddr)
				if !ok {
					return
				}
				for k := range any {
					if all[k] && k.i == fa.Field && types.Identical(k.t, fa.X.Type()) && add(f, ld) {
						changed = true
					}
				}
			})
		}
		if !changed {
			break
		}
	}
	return sets
}

// c12ExpandValue resolves a value across helper boundaries: a parameter of an
// unexported function becomes the arguments at its call sites, the result of
// an in-package helper becomes the values it returns.
func c12ExpandValue(fns []*ssa.Function, v ssa.Value, depth int, seen map[ssa.Value]bool, out *[]ssa.Value) {
	for _, r := range Roots(v) {
		if seen[r] || depth > 4 {
			*out = append(*out, r)
			continue
		}
		seen[r] = true
		switch u := r.(type) {
		case *ssa.Parameter:
			f := u.Parent()
			idx := -1
			for i, q := range f.Params {
				if q == u {
					idx = i
				}
			}
			n := 0
			if f.Parent() == nil && (f.Object() == nil || !f.Object().Exported()) {
				for _, g := range fns {
					for _, call := range Calls(g, func(string) bool { return true }) {
						if StaticCallee(call) == f && idx >= 0 && idx < len(call.Common().Args) {
							n++
							c12ExpandValue(fns, call.Common().Args[idx], depth+1, seen, out)
						}
					}
				}
			}
			if n == 0 {
				*out = append(*out, r)
			}
		case *ssa.Extract:
			call, ok := u.Tuple.(*ssa.Call)
			g := (*ssa.Function)(nil)
			if ok {
				g = StaticCallee(call)
			}
			if g == nil || !inModule(g) || len(g.Blocks) == 0 {
				*out = append(*out, r)
				continue
			}
			for _, ret := range Returns(g) {
				if s, isStr := constString(ret.Results[u.Index]); isStr && s == "" {
					continue // the value returned next to an error
				}
				c12ExpandValue(fns, ret.Results[u.Index], depth+1, seen, out)
			}
		case *ssa.Call:
			g := StaticCallee(u)
			if g != nil && inModule(g) && len(g.Blocks) > 0 && g.Signature.Results().Len() == 1 {
				for _, ret := range Returns(g) {
					c12ExpandValue(fns, ret.Results[0], depth+1, seen, out)
				}
				continue
			}
			*out = append(*out, r)
		case *ssa.UnOp:
			n := 0
			if u.Op == token.MUL {
				switch x := u.X.(type) {
				case *ssa.FreeVar: // a variable captured by a literal / yield closure: what the parent stored into it
					for _, b := range freeVarBindings(x) {
						if a, ok := b.(*ssa.Alloc); ok {
							for _, st := range storesTo(a) {
								n++
								c12ExpandValue(fns, st.Val, depth+1, seen, out)
							}
						}
					}
				case *ssa.FieldAddr: // a field of an unexported carrier struct: what is stored into that field anywhere
					if c11CarrierStruct(x.X.Type()) {
						fname := fieldName(x.X.Type(), x.Field)
						for _, g := range fns {
							AllInstrs(g, func(in ssa.Instruction) {
								if st, ok := in.(*ssa.Store); ok {
									if fa, ok := st.Addr.(*ssa.FieldAddr); ok && fa.Field == x.Field && fieldName(fa.X.Type(), fa.Field) == fname {
										n++
										c12ExpandValue(fns, st.Val, depth+1, seen, out)
									}
								}
							})
						}
					}
				}
			}
			if n == 0 {
				*out = append(*out, r)
			}
		default:
			*out = append(*out, r)
		}
	}
}

func c12R3(c *Ctx, fns []*ssa.Function) {
	const R3 = "C12.R3.reproducible-headers"
	c.Expect(R3, 8)
	var W *ssa.Function
	for _, f := range fns {
		if len(CallsTo(f, "(*archive/tar.Writer).WriteHeader")) > 0 {
			W = f
		}
	}
	if W == nil {
		c.LostAnchor(R3, "tar walk step: function of ~/content/file calling (*tar.Writer).WriteHeader")
		return
	}
	// obligations are keyed by the tar writer (the function calling tar.NewWriter), whatever closure or
	// helper the header code lives in
	T := W
	for T.Parent() != nil {
		T = T.Parent()
	}
	if ts := c12FnsCalling(fns, "archive/tar.NewWriter"); len(ts) > 0 {
		T = ts[0]
		for T.Parent() != nil {
			T = T.Parent()
		}
	}
	wn := FnName(T)
	wh := CallsTo(W, "(*archive/tar.Writer).WriteHeader")[0].(*ssa.Call)
	// X: the function in which the header is filled in; hdr: the header there; done: the points at
	// which the header is complete (WriteHeader itself, or the successful returns of a builder helper)
	X, hdr := W, wh.Call.Args[1]
	done := []ssa.Instruction{wh}
	where := "WriteHeader"
	if rs := Roots(hdr); len(rs) == 1 {
		if ex, ok := rs[0].(*ssa.Extract); ok && ex.Index == 0 {
			if bc, ok := ex.Tuple.(*ssa.Call); ok {
				if B := StaticCallee(bc); B != nil && fnPkgPath(B) == fnPkgPath(W) && len(B.Blocks) > 0 {
					if d, _ := c11SuccessDominates(bc, wh); d {
						var rets []ssa.Instruction
						var hv ssa.Value
						same := true
						for _, a := range c11SuccessAtoms(B) {
							rets = append(rets, a.Ret)
							v := a.Ret.Results[0]
							if hv != nil && !c11SameRoots(hv, v) {
								same = false
							}
							hv = v
						}
						if same && hv != nil {
							X, hdr, done, where = B, hv, rets, "the successful return of "+FnName(B)+" (whose result goes to WriteHeader)"
						}
					}
				}
			}
		}
	}
	stores := func(field string) []*ssa.Store {
		var out []*ssa.Store
		for _, s := range c12FieldStores(X, "archive/tar.Header", field) {
			if c11SameRoots(s.Addr.(*ssa.FieldAddr).X, hdr) {
				out = append(out, s)
			}
		}
		return out
	}
	// zeroPoints: instructions whose execution means "field cleared": a direct zero store, or the header of a
	// range loop over a literal table of field addresses (&h.A, &h.B, …) whose body clears *elem on every iteration
	zeroPoints := func(field string) []ssa.Instruction {
		var out []ssa.Instruction
		for _, s := range stores(field) {
			if c12IsZero(s.Val) {
				out = append(out, s)
			}
		}
		for _, l := range Loops(X) {
			ranged, _, body, _, ok := l.RangeIndex()
			if !ok {
				continue
			}
			var els []ssa.Value
			if rs := Roots(ranged); len(rs) == 1 {
				c11SliceElems(rs[0], &els)
			}
			covers := false
			for _, e := range els {
				fa, ok := e.(*ssa.FieldAddr)
				if !ok || !c11SameRoots(fa.X, hdr) {
					continue
				}
				if st, ok := fa.X.Type().Underlying().(*types.Pointer); ok {
					if str, ok := st.Elem().Underlying().(*types.Struct); ok && str.Field(fa.Field).Name() == field {
						covers = true
					}
				}
			}
			if !covers {
				continue
			}
			var clr ssa.Instruction
			AllInstrs(X, func(in ssa.Instruction) {
				st, ok := in.(*ssa.Store)
				if !ok || !l.Contains(st) || !c12IsZero(st.Val) {
					return
				}
				for _, r := range Roots(st.Addr) {
					if ld, ok := r.(*ssa.UnOp); ok && ld.Op == token.MUL {
						if ia, ok := ld.X.(*ssa.IndexAddr); ok && c11SameRoots(ia.X, ranged) {
							clr = st
						}
					}
				}
			})
			if clr != nil && !reach(body.To, 0, l.Header.Instrs[0], newCut().Instr(clr)) {
				out = append(out, l.Header.Instrs[0])
			}
		}
		return out
	}
	allDone := func(cutOf func() *cut) bool {
		for _, d := range done {
			if !MustPass(d, cutOf()) {
				return false
			}
		}
		return len(done) > 0
	}
	for _, f := range []string{"Uid", "Gid", "Uname", "Gname"} {
		var zs []ssa.Instruction
		ok := true
		for _, s := range stores(f) {
			if c12IsZero(s.Val) {
				zs = append(zs, s)
				continue
			}
			for _, d := range done {
				if Reachable(s, d) {
					ok = false
				}
			}
		}
		ok = ok && len(zs) > 0 && allDone(func() *cut { return newCut().Instr(zs...) })
		c.Check(R3, wn+"|zeroed:"+f, wh.Pos(), ok, ifelse(ok, "header."+f+" is cleared on every path to "+where, "header."+f+" of the packing user leaks into the tarball: two equal trees packed by different users give different descriptors"))
	}
	// the reproducibility switch, followed from Store.TarReproducible through parameters and captured variables
	flag := c12FlagSets(fns, "~/content/file.Store.TarReproducible")[X]
	if len(flag) == 0 {
		c.LostAnchor(R3, "Store.TarReproducible does not reach the function that fills in the tar header ("+FnName(X)+")")
	} else {
		onT, onF := BoolTests(X, flag)
		for _, f := range []string{"ModTime", "AccessTime", "ChangeTime"} {
			zs := zeroPoints(f)
			ok := len(onT) > 0 && len(zs) > 0 && allDone(func() *cut { return newCut().Instr(zs...).Edges(onF...) })
			for _, e := range onT {
				for _, d := range done {
					if reach(e.To, 0, d, newCut().Instr(zs...)) {
						ok = false
					}
				}
			}
			c.Check(R3, wn+"|zeroed-when-reproducible:"+f, wh.Pos(), ok, ifelse(ok, "header."+f+" is cleared on the TarReproducible edge before "+where, "with TarReproducible set, header."+f+" still reaches the tarball: equal trees give different descriptors depending on timestamps"))
		}
	}
	// entry name: ToSlash(Join(prefix, Rel(root, path))), possibly computed by a helper and handed over
	okName := false
	for _, s := range stores("Name") {
		var vals []ssa.Value
		c12ExpandValue(fns, s.Val, 0, map[ssa.Value]bool{}, &vals)
		good := len(vals) > 0
		for _, v := range vals {
			ts, ok := v.(*ssa.Call)
			if !ok || CalleeName(ts) != "path/filepath.ToSlash" {
				good = false
				continue
			}
			F := ts.Parent()
			rel := map[ssa.Value]bool{}
			for _, r := range CallsTo(F, "path/filepath.Rel") {
				if rv := ResultOf(r, 0); rv != nil {
					rel[rv] = true
				}
			}
			joined := false
			for _, j := range CallsTo(F, "path/filepath.Join") {
				jv := j.Value()
				if jv == nil || !c11DerivesFrom(ts.Call.Args[0], map[ssa.Value]bool{jv: true}) || !c11DerivesFrom(jv, rel) {
					continue
				}
				var ops []ssa.Value
				c11Operands(jv, &ops, map[ssa.Value]bool{}, 0)
				for _, o := range ops {
					switch u := o.(type) {
					case *ssa.Parameter:
						joined = true // the prefix (the Rel operands are parameters too; a second, non-Rel operand is required below)
					case *ssa.UnOp:
						if _, isFV := u.X.(*ssa.FreeVar); isFV {
							joined = true
						}
					}
				}
				// Join must have an operand besides the Rel result
				var els []ssa.Value
				for _, a := range j.Common().Args {
					c11SliceElems(a, &els)
				}
				other := false
				for _, e := range els {
					if !c11DerivesFrom(e, rel) {
						other = true
					}
				}
				joined = joined && other
			}
			if !joined {
				good = false
			}
		}
		okName = good && allDone(func() *cut { return newCut().Instr(s) })
	}
	c.Check(R3, wn+"|name-is-slash-prefix-rel", wh.Pos(), okName, ifelse(okName, "header.Name = ToSlash(Join(prefix, Rel(root, path))) on every path to "+where,
		"the entry name is not the slash-joined prefix/rel(root,path): entries are not found under the directory's name on unpack (or differ per OS)"))
}

// ---------- R4 ----------

func c12R4(c *Ctx, fns []*ssa.Function) {
	const R4 = "C12.R4.duplicates-restored"
	c.Expect(R4, 6)
	push := c.P.Fn(c11Pkg, "Store.Push")
	if push == nil {
		c.LostAnchor(R4, "(*~/content/file.Store).Push")
		return
	}
	var RD *ssa.Function
	for _, f := range c12FnsCalling(fns, "~/content.Successors") {
		if f.Parent() == nil {
			RD = f
		}
	}
	if RD == nil {
		c.LostAnchor(R4, "restorer: function of ~/content/file calling content.Successors")
		return
	}
	pn, rn := FnName(push), FnName(RD)
	// callees of the restorer, its closures and (one level) its in-package helpers: the per-successor
	// step may be an immediately-invoked closure or an extracted method
	rdCallees := map[*ssa.Function]bool{}
	var collect func(f *ssa.Function, depth int)
	collect = func(f *ssa.Function, depth int) {
		for _, h := range append([]*ssa.Function{f}, Anons(f)...) {
			for _, call := range Calls(h, func(string) bool { return true }) {
				g := StaticCallee(call)
				if g == nil || rdCallees[g] {
					continue
				}
				rdCallees[g] = true
				if depth > 0 && g != push && fnPkgPath(g) == pkgPath(c11Pkg) && g.Object() != nil && !g.Object().Exported() {
					collect(g, depth-1)
				}
			}
		}
	}
	collect(RD, 1)
	var rdCalls, pushCalls []ssa.CallInstruction
	for _, call := range Calls(push, func(string) bool { return true }) {
		g := StaticCallee(call)
		switch {
		case g == RD:
			rdCalls = append(rdCalls, call)
		case g != nil && g != push && rdCallees[g] && fnPkgPath(g) == pkgPath(c11Pkg) && ErrResultIndex(g.Signature) >= 0 && len(g.Params) > 2:
			pushCalls = append(pushCalls, call)
		}
	}
	if len(rdCalls) == 0 {
		c.Violation(R4, pn+"|restores-duplicates", push.Pos(), "Push no longer calls the restorer: of two blobs with equal bytes and different names only one materialises")
		return
	}
	if len(pushCalls) == 0 {
		c.LostAnchor(R4, pn+": the push helper shared with the restorer")
		return
	}
	var pushNil, pushNonNil []Edge
	for _, p := range pushCalls {
		if e := ErrOf(p); e != nil {
			n, nn, _ := NilTests(push, Aliases(e))
			pushNil, pushNonNil = append(pushNil, n...), append(pushNonNil, nn...)
		}
	}
	// `switch err := push(); { case errors.Is(err, errSkip): return nil; case err != nil: … }`: errors.Is(err, X)==true implies err != nil
	for _, p := range pushCalls {
		if e := ErrOf(p); e != nil {
			al := Aliases(e)
			t, _, _ := CallTests(push, "errors.Is", func(call *ssa.Call) bool { return al[call.Call.Args[0]] })
			pushNonNil = append(pushNonNil, t...)
		}
	}
	forceT, _ := BoolTests(push, c11FieldReads(push, "~/content/file.Store.ForceCAS"))
	atoms := c11SuccessAtoms(push)
	ok := len(atoms) > 0 && c11AllAtomsPass(atoms, func() *cut { return newCut().Calls(rdCalls).Edges(forceT...).Edges(pushNonNil...) })
	c.Check(R4, pn+"|restores-duplicates", rdCalls[0].Pos(), ok,
		ifelse(ok, "every successful return runs the restorer, or is on the ForceCAS edge, or on the tolerated-skip edge of a failed push", "a successful Push with ForceCAS unset can return without restoring same-content successors under their other names"))
	for _, rc := range rdCalls {
		okAfter := len(pushNil) > 0 && MustPass(rc.(ssa.Instruction), newCut().Edges(pushNil...))
		c.Check(R4, pn+"|restore-after-successful-push", rc.Pos(), okAfter, ifelse(okAfter, "the restorer runs behind the err==nil edge of the push", "the restorer runs although the push failed (or before it)"))
		r := ErrFlow(rc, ErrFlowOpts{})
		c.Check(R4, pn+"|restore-error-returned", rc.Pos(), r.OK, ifelse(r.OK, r.How, "a failed restore is reported as a successful Push: "+r.Detail))
	}
	// tolerated sentinels inside the restorer
	n := 0
	var rdCallsAll []ssa.CallInstruction
	for _, f := range append([]*ssa.Function{RD}, Anons(RD)...) {
		rdCallsAll = append(rdCallsAll, Calls(f, func(string) bool { return true })...)
	}
	for _, call := range rdCallsAll {
		g := StaticCallee(call)
		if g == nil || ErrResultIndex(g.Signature) < 0 || fnPkgPath(g) != pkgPath(c11Pkg) || (call.Parent() != RD && g.Parent() == call.Parent()) {
			continue
		}
		// the per-successor step: a closure of the restorer or an in-package helper that reaches the push helper
		isStep := false
		for _, pc := range pushCalls {
			ph := StaticCallee(pc)
			if g == ph || reachesCall(g, 1, func(_ string, cc ssa.CallInstruction) bool { return StaticCallee(cc) == ph }) {
				isStep = true
			}
		}
		if !isStep {
			continue
		}
		n++
		tol := []string{"~/errdef.ErrNotFound", "~/content/file.ErrDuplicateName"}
		r := ErrFlow(call, ErrFlowOpts{Tolerated: tol})
		if !r.OK && call.Parent() == RD {
			// the tolerance test may be a boolean helper (isBenign(err)) instead of inline errors.Is tests
			if ok, how := c12ErrFlowWithPredicates(call, tol); ok {
				r.OK, r.How = true, how
			}
		}
		if !r.OK && ErrResultIndex(call.Parent().Signature) >= 0 {
			// the tolerance may be a helper that returns nil exactly for the tolerated sentinels and its argument otherwise
			if ok, how := c12ToleranceFilterSurfaces(call, tol); ok {
				r.OK, r.How = true, how
			}
		}
		if call.Parent() != RD && ErrResultIndex(call.Parent().Signature) < 0 {
			// inside the yield closure of a range-over-func loop
			r.OK, r.Detail = c12ErrSurfacesFromYield(call, tol)
			r.How = r.Detail
		}
		c.Check(R4, rn+"|tolerates-only-notfound-and-duplicate", call.Pos(), r.OK, ifelse(r.OK, r.How, "the restorer swallows an error other than ErrNotFound / ErrDuplicateName: a duplicate that could not be written is silently missing: "+r.Detail))
	}
	if n == 0 {
		c.Undecided(R4, rn+"|tolerates-only-notfound-and-duplicate", RD.Pos(), "no call in the restorer reaches the push helper; shape not recognised")
	}
	c12R4EveryNamedSuccessor(c, R4, RD, rdCallees, pushCalls)
}

// c12R4EveryNamedSuccessor: in the restorer's loop over the successors, a
// successor is skipped (next iteration reached without the restore step) only
// on conditions that depend on nothing but its NAME (title annotation empty,
// name already exists).  Same content under a different name must still be
// materialised, so a skip depending on the digest, a counter, a set of already
// restored contents … loses files.
// c12IterBody describes "the body executed once per element of a collection":
// a natural range loop, or the synthesized yield closure of a range-over-func
// loop (for x := range slices.Values(xs) / slices.All(xs)).
type c12IterBody struct {
	Fn      *ssa.Function     // function holding the body (the enclosing function, or the yield closure)
	Entry   *ssa.BasicBlock   // first block of the body
	Next    []ssa.Instruction // reaching one of these means "next element" (loop header / `return true`)
	Exit    []Edge            // natural loop: the "collection exhausted" exit edge
	In      func(*ssa.BasicBlock) bool
	IsYield bool
}

// c12IterBodyOver finds the per-element body of the iteration over coll in fn.
func c12IterBodyOver(fn *ssa.Function, coll ssa.Value) *c12IterBody {
	for _, l := range Loops(fn) {
		if r, _, body, _, ok := l.RangeIndex(); ok && c11SameRoots(r, coll) {
			ll := l
			_, _, _, exhausted, _ := l.RangeIndex()
			return &c12IterBody{Fn: fn, Entry: body.To, Next: []ssa.Instruction{l.Header.Instrs[0]}, Exit: []Edge{exhausted}, In: func(b *ssa.BasicBlock) bool { return ll.Blocks[b] && b != ll.Header }}
		}
	}
	// range-over-func: seq := slices.Values(coll) / slices.All(coll); seq(yield)
	for _, call := range Calls(fn, func(string) bool { return true }) {
		cc := call.Common()
		if cc.IsInvoke() || StaticCallee(call) != nil || len(cc.Args) != 1 {
			continue
		}
		mc, ok := cc.Args[0].(*ssa.MakeClosure)
		if !ok {
			continue
		}
		fromColl := false
		for _, r := range Roots(cc.Value) {
			if pc, ok := r.(*ssa.Call); ok {
				switch CalleeName(pc) {
				case "slices.Values", "slices.All", "slices.Backward", "maps.Values", "maps.Keys", "maps.All":
					if len(pc.Call.Args) == 1 && c11SameRoots(pc.Call.Args[0], coll) {
						fromColl = true
					}
				}
			}
		}
		if !fromColl {
			continue
		}
		Y := mc.Fn.(*ssa.Function)
		var next []ssa.Instruction
		for _, ret := range Returns(Y) {
			if len(ret.Results) == 1 {
				if k, isConst := ret.Results[0].(*ssa.Const); isConst && k.Value != nil && constant.BoolVal(k.Value) {
					next = append(next, ret)
				}
			}
		}
		if len(Y.Blocks) == 0 || len(next) == 0 {
			continue
		}
		return &c12IterBody{Fn: Y, Entry: Y.Blocks[0], Next: next, In: func(*ssa.BasicBlock) bool { return true }, IsYield: true}
	}
	return nil
}

// c12IsRangeFuncBookkeeping: a test of the synthesized jump$N state of a yield closure.
func c12IsRangeFuncBookkeeping(cond ssa.Value) bool {
	var leaves []ssa.Value
	c11Operands(cond, &leaves, map[ssa.Value]bool{}, 0)
	found := false
	for _, lf := range leaves {
		switch u := lf.(type) {
		case *ssa.Const:
		case *ssa.UnOp:
			fv, ok := u.X.(*ssa.FreeVar)
			if !ok || !strings.HasPrefix(fv.Name(), "jump$") {
				return false
			}
			found = true
		default:
			return false
		}
	}
	return found
}

func c12R4EveryNamedSuccessor(c *Ctx, R4 string, RD *ssa.Function, rdCallees map[*ssa.Function]bool, pushCalls []ssa.CallInstruction) {
	rn := FnName(RD)
	key := rn + "|every-named-successor-restored"
	var succ ssa.Value
	for _, sc := range CallsTo(RD, "~/content.Successors") {
		succ = ResultOf(sc, 0)
	}
	var it *c12IterBody
	if succ != nil {
		it = c12IterBodyOver(RD, succ)
	}
	if it == nil {
		c.Undecided(R4, key, RD.Pos(), "no loop (range, or range over slices.Values/All) over the result of content.Successors in the restorer; shape not recognised")
		return
	}
	F := it.Fn
	pushHelpers := map[*ssa.Function]bool{}
	for _, p := range pushCalls {
		pushHelpers[StaticCallee(p)] = true
	}
	var steps []ssa.Instruction
	for _, call := range Calls(F, func(string) bool { return true }) {
		g := StaticCallee(call)
		if g == nil || !it.In(call.(ssa.Instruction).Block()) {
			continue
		}
		if _, isDefer := call.(*ssa.Defer); isDefer {
			continue
		}
		direct := pushHelpers[g]
		viaHelper := fnPkgPath(g) == fnPkgPath(RD) && reachesCall(g, 1, func(_ string, cc ssa.CallInstruction) bool { return pushHelpers[StaticCallee(cc)] })
		if direct || viaHelper {
			steps = append(steps, call.(ssa.Instruction))
		}
	}
	if len(steps) == 0 {
		c.Violation(R4, key, blockPos(it.Entry), "the loop over the successors never reaches the push helper: no duplicate is restored")
		return
	}
	cutS := newCut().Instr(steps...)
	reachesNext := func(b *ssa.BasicBlock) bool {
		for _, n := range it.Next {
			if reach(b, 0, n, cutS) {
				return true
			}
		}
		return false
	}
	title := ""
	if k, ok := c.P.Obj("github.com/opencontainers/image-spec/specs-go/v1", "AnnotationTitle").(*types.Const); ok {
		title = strings.Trim(k.Val().ExactString(), "\"")
	}
	isStore := func(v ssa.Value) bool { // the restorer's receiver, directly or as captured by the yield closure
		if RD.Signature.Recv() == nil || len(RD.Params) == 0 {
			return false
		}
		if v == ssa.Value(RD.Params[0]) {
			return true
		}
		if ld, ok := v.(*ssa.UnOp); ok && ld.Op == token.MUL {
			if fv, ok := ld.X.(*ssa.FreeVar); ok {
				for _, bnd := range freeVarBindings(fv) {
					if a, ok := bnd.(*ssa.Alloc); ok {
						for _, st := range storesTo(a) {
							if st.Val == ssa.Value(RD.Params[0]) {
								return true
							}
						}
					}
				}
			}
		}
		return false
	}
	nameOnly := func(cond ssa.Value) (bool, string, bool) {
		switch strip(cond).(type) {
		case *ssa.BinOp, *ssa.Call, *ssa.UnOp, *ssa.Lookup, *ssa.Extract, *ssa.Field:
		default:
			return false, describe(cond), false
		}
		var leaves []ssa.Value
		c11Operands(cond, &leaves, map[ssa.Value]bool{}, 0)
		for _, lf := range leaves {
			switch u := lf.(type) {
			case *ssa.Const:
				continue
			case *ssa.Lookup:
				if k, ok := constString(u.Index); ok && title != "" && k == title && strings.HasSuffix(fieldOfFuncValue(u.X), "Descriptor.Annotations") {
					continue // the successor's title annotation
				}
			}
			if isStore(lf) {
				continue
			}
			return false, describe(lf), true
		}
		return true, "", true
	}
	ok := true
	for _, b := range F.Blocks {
		if !it.In(b) || len(b.Instrs) == 0 {
			continue
		}
		ifi, isIf := b.Instrs[len(b.Instrs)-1].(*ssa.If)
		if !isIf {
			continue
		}
		onSkipPath := (b == it.Entry || reach(it.Entry, 0, b.Instrs[0], cutS)) && reachesNext(b)
		if !onSkipPath {
			continue
		}
		stepBefore := false
		for _, in := range b.Instrs {
			if cutS.instrs[in] {
				stepBefore = true
			}
		}
		if stepBefore {
			continue
		}
		if it.IsYield && c12IsRangeFuncBookkeeping(ifi.Cond) {
			continue
		}
		good, what, shape := nameOnly(ifi.Cond)
		switch {
		case good:
		case !shape:
			ok = false
			c.Undecided(R4, key, ifi.Pos(), "a condition on a path that skips the restore step has an unrecognised shape: "+what)
		default:
			ok = false
			c.Violation(R4, key, blockPos(b), "a successor with a name can be skipped (next iteration reached without the restore step) on a condition that depends on "+what+
				", not only on its name: further files with the same content but other names are never materialised")
		}
	}
	if ok {
		c.OK(R4, key, blockPos(it.Entry), "every path through the loop body that skips the restore step is decided only by the successor's title (empty / already exists)")
	}
	// the loop runs to its end: it is left early only with a (non-tolerated) error — a tolerated error, or anything else,
	// may skip ONE successor but must not end the restoration of the others with a nil result
	endKey := rn + "|loop-runs-to-the-end"
	okEnd := true
	if !it.IsYield {
		for _, a := range c11SuccessAtoms(F) {
			ab, ai := a.anchor()
			if reach(it.Entry, 0, ab.Instrs[ai], newCut().Edges(it.Exit...)) {
				okEnd = false
			}
		}
	} else {
		// range-over-func body: stopping (return false) needs a non-nil error recorded in the enclosing function's result
		_, stop := c11YieldReturns(F)
		var errStores []ssa.Instruction
		AllInstrs(F, func(in ssa.Instruction) {
			if st, isStore := in.(*ssa.Store); isStore {
				if _, isFV := st.Addr.(*ssa.FreeVar); isFV && isErrorType(st.Val.Type()) && ErrNilStatus(st.Val, 0) != IsNil {
					errStores = append(errStores, st)
				}
			}
		})
		for _, ret := range stop {
			if !ReachableFromEntry(ret) {
				continue
			}
			if len(errStores) == 0 || !MustPass(ret, newCut().Instr(errStores...)) {
				okEnd = false
			}
		}
	}
	c.Check(R4, endKey, blockPos(it.Entry), okEnd, ifelse(okEnd, "the loop over the successors is left early only with an error",
		"the loop over the successors can be left early with a nil result (return nil / break inside the loop): the remaining same-content successors are never materialised although Push reports success"))
}

// c12PredicateTolerates: for an in-module helper P(err) bool, the result
// polarities pol for which "P(err) == pol" implies that err is one of the
// tolerated sentinels (errors.Is / ==).
func c12PredicateTolerates(P *ssa.Function, argIdx int, tolerated []string) map[bool]bool {
	out := map[bool]bool{}
	if argIdx >= len(P.Params) || len(P.Blocks) == 0 {
		return out
	}
	al := Aliases(P.Params[argIdx])
	tolE := toleratedEdges(P, al, tolerated)
	tolSet := map[string]bool{}
	for _, t := range tolerated {
		tolSet[t] = true
	}
	isTolTest := func(v ssa.Value) bool {
		call, ok := v.(*ssa.Call)
		return ok && CalleeName(call) == "errors.Is" && len(call.Call.Args) == 2 && al[call.Call.Args[0]] && tolSet[sentinelName(call.Call.Args[1])]
	}
	for _, pol := range []bool{true, false} {
		ok, any := true, false
		for _, a := range RetAtoms(P, 0) {
			if k, isConst := a.Val.(*ssa.Const); isConst && k.Value != nil {
				if constant.BoolVal(k.Value) != pol {
					continue
				}
			} else if pol && isTolTest(a.Val) {
				any = true
				continue // returns the tolerance test itself
			}
			any = true
			if !pol || len(tolE) == 0 || !AtomMustPass(a, newCut().Edges(tolE...)) {
				ok = false
			}
		}
		if ok && any {
			out[pol] = true
		}
	}
	return out
}

// c12TableTolerates: pc is slices.ContainsFunc(table, func(x error) bool { return errors.Is(e, x) })
// or slices.Contains(table, e) with e the error under test and table a literal
// (local or package-level, never reassigned) whose elements are all tolerated sentinels.
func c12TableTolerates(pc *ssa.Call, al map[ssa.Value]bool, tolerated []string) bool {
	nm := CalleeName(pc)
	if (nm != "slices.ContainsFunc" && nm != "slices.Contains") || len(pc.Call.Args) != 2 {
		return false
	}
	tol := map[string]bool{}
	for _, t := range tolerated {
		tol[t] = true
	}
	elemsOK := func(v ssa.Value) bool {
		var els []ssa.Value
		c11SliceElems(v, &els)
		if len(els) == 0 {
			return false
		}
		for _, e := range els {
			if !tol[sentinelName(e)] {
				return false
			}
		}
		return true
	}
	okTable := false
	for _, r := range Roots(pc.Call.Args[0]) {
		if _, isSlice := r.(*ssa.Slice); isSlice {
			if !elemsOK(r) {
				return false
			}
			okTable = true
			continue
		}
		ld, isLoad := r.(*ssa.UnOp)
		if !isLoad || ld.Op != token.MUL {
			return false
		}
		g, isGlobal := ld.X.(*ssa.Global)
		if !isGlobal || g.Pkg == nil {
			return false
		}
		found := false
		if initFn := g.Pkg.Func("init"); initFn != nil {
			AllInstrs(initFn, func(in ssa.Instruction) {
				if st, isStore := in.(*ssa.Store); isStore && st.Addr == ssa.Value(g) && elemsOK(st.Val) {
					found = true
				}
			})
		}
		for _, m := range g.Pkg.Members {
			if mf, isFn := m.(*ssa.Function); isFn && mf.Name() != "init" {
				for _, f := range append([]*ssa.Function{mf}, Anons(mf)...) {
					AllInstrs(f, func(in ssa.Instruction) {
						if st, isStore := in.(*ssa.Store); isStore && st.Addr == ssa.Value(g) {
							found = false
						}
					})
				}
			}
		}
		if !found {
			return false
		}
		okTable = true
	}
	if !okTable {
		return false
	}
	if nm == "slices.Contains" {
		return al[pc.Call.Args[1]]
	}
	// the predicate: errors.Is(e, x) with x its parameter and e the error under test (captured)
	for _, r := range Roots(pc.Call.Args[1]) {
		mc, ok := r.(*ssa.MakeClosure)
		if !ok {
			return false
		}
		g := mc.Fn.(*ssa.Function)
		if len(g.Params) != 1 {
			return false
		}
		for _, ret := range Returns(g) {
			rs := Roots(ret.Results[0])
			if len(rs) != 1 {
				return false
			}
			is, ok := rs[0].(*ssa.Call)
			if !ok || CalleeName(is) != "errors.Is" || len(is.Call.Args) != 2 || !c11SameRoots(is.Call.Args[1], g.Params[0]) {
				return false
			}
			if !c11DerivesFrom(is.Call.Args[0], al) {
				// the captured variable holding e
				okCap := false
				if ld, isLoad := is.Call.Args[0].(*ssa.UnOp); isLoad {
					if fv, isFV := ld.X.(*ssa.FreeVar); isFV {
						for _, b := range freeVarBindings(fv) {
							if a, isAlloc := b.(*ssa.Alloc); isAlloc {
								for _, st := range storesTo(a) {
									if al[st.Val] {
										okCap = true
									}
								}
							}
						}
					}
				}
				if !okCap {
					return false
				}
			}
		}
	}
	return true
}

// c12ErrFlowWithPredicates: like ErrFlow with tolerated sentinels, where the
// tolerance may be decided by a boolean helper taking the error.
func c12ErrFlowWithPredicates(call ssa.CallInstruction, tolerated []string) (bool, string) {
	fn := call.Parent()
	errIdx := ErrResultIndex(fn.Signature)
	e := ErrOf(call)
	if e == nil || errIdx < 0 {
		return false, ""
	}
	al := Aliases(e)
	_, nonNil, _ := NilTests(fn, al)
	if len(nonNil) == 0 {
		return false, ""
	}
	cutT := newCut().Edges(toleratedEdges(fn, al, tolerated)...)
	cutT.Instr(call.(ssa.Instruction))
	helper := ""
	for _, i := range Ifs(fn) {
		cond, t, f := ifEdges(i)
		pc, ok := cond.(*ssa.Call)
		if !ok {
			continue
		}
		if c12TableTolerates(pc, al, tolerated) {
			// slices.ContainsFunc(<table of sentinels>, func(s error) bool { return errors.Is(err, s) }) / slices.Contains(table, err)
			cutT.Edges(t)
			helper = CalleeName(pc) + " over a table of sentinels"
			continue
		}
		P := StaticCallee(pc)
		if P == nil || !inModule(P) || P.Signature.Results().Len() != 1 {
			continue
		}
		for k, a := range pc.Call.Args {
			if !al[a] {
				continue
			}
			pols := c12PredicateTolerates(P, k, tolerated)
			if pols[true] {
				cutT.Edges(t)
				helper = FnName(P)
			}
			if pols[false] {
				cutT.Edges(f)
				helper = FnName(P)
			}
		}
	}
	if helper == "" {
		return false, ""
	}
	for _, ne := range nonNil {
		if bad := findNilReturnFrom(fn, ne, errIdx, cutT, al); bad != nil {
			return false, ""
		}
	}
	return true, "tested; every failure path returns a non-nil error (tolerated, as decided by " + helper + ": " + strings.Join(tolerated, ", ") + ")"
}

// c12ToleranceFilterSurfaces: the error of call is handed to a pass-through
// filter T (`c11PassThroughFilter`) whose nil returns lie behind "argument is
// nil" or errors.Is(argument, <tolerated>) edges only; the filtered value (or,
// behind its non-nil test, the original error) is what every failure path
// returns.  That is the inline `if err != nil && !errors.Is(err, X) { return err }`.
func c12ToleranceFilterSurfaces(call ssa.CallInstruction, tolerated []string) (bool, string) {
	fn := call.Parent()
	errIdx := ErrResultIndex(fn.Signature)
	e := ErrOf(call)
	if e == nil || errIdx < 0 {
		return false, ""
	}
	al := Aliases(e)
	for _, fc := range c11FilterCalls(fn, al) {
		T := StaticCallee(fc)
		pi := c11PassThroughFilter(T)
		pal := Aliases(T.Params[pi])
		nilE, _, _ := NilTests(T, pal)
		okT := true
		ct := newCut().Edges(nilE...).Edges(toleratedEdges(T, pal, tolerated)...)
		for _, a := range RetAtoms(T, 0) {
			isNil := false
			if k, isK := a.Val.(*ssa.Const); isK && k.IsNil() {
				isNil = true
			}
			if _, z := a.Val.(zeroMarker); z {
				isNil = true
			}
			if isNil && !AtomMustPass(a, ct) {
				okT = false
			}
		}
		if !okT {
			continue
		}
		r := ssa.Value(fc)
		ral := Aliases(r)
		both := map[ssa.Value]bool{}
		for v := range al {
			both[v] = true
		}
		for v := range ral {
			both[v] = true
		}
		_, nonNil, ifs := NilTests(fn, ral)
		if len(ifs) == 0 {
			for _, a := range RetAtoms(fn, errIdx) {
				if ral[a.Val] || ral[strip(a.Val)] {
					return true, "handed to " + FnName(T) + " (nil only for " + strings.Join(tolerated, ", ") + ") and the result returned"
				}
			}
			continue
		}
		ok := len(nonNil) > 0
		for _, ne := range nonNil {
			if findNilReturnFrom(fn, ne, errIdx, newCut().Instr(fc), both) != nil {
				ok = false
			}
		}
		if ok {
			return true, "handed to " + FnName(T) + " (nil only for " + strings.Join(tolerated, ", ") + "); a non-nil result returns the error"
		}
	}
	return false, ""
}

// c12ErrSurfacesFromYield: inside the yield closure of a range-over-func loop an
// error "returns" from the enclosing function by being stored into the captured
// result variable and stopping the iteration (return false).  Every non-nil,
// non-tolerated path must do that.
func c12ErrSurfacesFromYield(call ssa.CallInstruction, tolerated []string) (bool, string) {
	Y := call.Parent()
	e := ErrOf(call)
	if e == nil {
		return false, "error result is discarded"
	}
	al := Aliases(e)
	_, nonNil, _ := NilTests(Y, al)
	if len(nonNil) == 0 {
		return false, "error value is never tested against nil"
	}
	cutT := newCut().Edges(toleratedEdges(Y, al, tolerated)...)
	var stores []ssa.Instruction
	AllInstrs(Y, func(in ssa.Instruction) {
		if st, ok := in.(*ssa.Store); ok {
			if _, isFV := st.Addr.(*ssa.FreeVar); isFV && c11DerivesFrom(st.Val, al) {
				stores = append(stores, st)
			}
		}
	})
	cutS := newCut().Edges(toleratedEdges(Y, al, tolerated)...).Instr(stores...)
	_ = cutT
	for _, ne := range nonNil {
		for _, ret := range Returns(Y) {
			if reach(ne.To, 0, ret, cutS) {
				return false, "after the error is found non-nil (and not a tolerated sentinel) the loop body can finish without recording it in the enclosing function's result"
			}
		}
	}
	for _, st := range stores {
		for _, ret := range Returns(Y) {
			if reach(st.Block(), instrIndex(st)+1, ret, nil) {
				if k, isConst := ret.Results[0].(*ssa.Const); !isConst || k.Value == nil || constant.BoolVal(k.Value) {
					return false, "the error is recorded but the iteration is not stopped"
				}
			}
		}
	}
	if len(stores) == 0 {
		return false, "the error is never recorded in the enclosing function's result"
	}
	return true, "recorded in the enclosing function's result and the iteration stopped; tolerated: " + strings.Join(tolerated, ", ")
}

var c12Mutants = []Mutant{
	// generic error-discipline rule (errdiscipline.go): the Close of a writer must surface
	{Name: "ed-gzip-writer-close-discarded", File: "content/file/file.go",
		Old:    "\t\tcloseErr := gzw.Close()\n\t\tif err == nil {\n\t\t\terr = closeErr\n\t\t}",
		New:    "\t\tgzw.Close()",
		Expect: "C12.ED.error-surfaces"},
	// shared engine (errflow.go clobberedByDeferredStore): a deferred Close handler that assigns the named result unconditionally
	{Name: "gz-close-clobbers-tar-error", File: "content/file/file.go",
		Old:    "\t\tcloseErr := gz.Close()\n\t\tif err == nil {\n\t\t\terr = closeErr\n\t\t}",
		New:    "\t\terr = gz.Close()",
		Expect: "C12.R1.descriptor-describes-bytes"},
	// R1
	{Name: "descriptor-digest-of-tar-stream", File: "content/file/file.go",
		Old: "\tgzDigest := gzDigester.Digest()", New: "\tgzDigest := tarDigester.Digest()",
		Expect: "C12.R1.descriptor-describes-bytes|(*~/content/file.Store).descriptorFromDir|descriptor-digest-is-gzip-digest"},
	{Name: "gzip-digester-not-fed", File: "content/file/file.go",
		Old: "\tgzw := gzip.NewWriter(io.MultiWriter(gz, gzDigester.Hash()))", New: "\tgzw := gzip.NewWriter(gz)",
		Expect: "C12.R1.descriptor-describes-bytes|(*~/content/file.Store).descriptorFromDir|gzip-sink-is-file-and-digester"},
	{Name: "explicit-flush-removed", File: "content/file/file.go",
		Old:    "\tif err := gzw.Close(); err != nil {\n\t\treturn ocispec.Descriptor{}, err\n\t}\n\tif err := gz.Sync(); err != nil {",
		New:    "\tif err := gz.Sync(); err != nil {",
		Expect: "C12.R1.descriptor-describes-bytes|(*~/content/file.Store).descriptorFromDir|"},
	{Name: "flush-error-ignored", File: "content/file/file.go",
		Old:    "\tif err := gzw.Close(); err != nil {\n\t\treturn ocispec.Descriptor{}, err\n\t}\n\tif err := gz.Sync(); err != nil {",
		New:    "\tgzw.Close()\n\tif err := gz.Sync(); err != nil {",
		Expect: "C12.R1.descriptor-describes-bytes|(*~/content/file.Store).descriptorFromDir|flush-error-surfaces"},
	{Name: "annotation-digest-of-gzip", File: "content/file/file.go",
		Old: "\t\t\tAnnotationDigest: tarDigester.Digest().String(),", New: "\t\t\tAnnotationDigest: gzDigest.String(),",
		Expect: "C12.R1.descriptor-describes-bytes|(*~/content/file.Store).descriptorFromDir|annotation-digest-is-tar-digest"},
	{Name: "tar-digester-bypassed", File: "content/file/file.go",
		Old: "\ttw := io.MultiWriter(gzw, tarDigester.Hash())", New: "\tvar tw io.Writer = gzw",
		Expect: "C12.R1.descriptor-describes-bytes|(*~/content/file.Store).descriptorFromDir|tar-sink-is-gzip-and-digester"},
	{Name: "unpack-annotation-false", File: "content/file/file.go",
		Old: "\t\t\tAnnotationUnpack: \"true\",", New: "\t\t\tAnnotationUnpack: \"True\",",
		Expect: "C12.R1.descriptor-describes-bytes|(*~/content/file.Store).descriptorFromDir|annotation-unpack-true"},
	{Name: "file-digest-error-dropped", File: "content/file/file.go",
		Old:    "\tdgst, err := digest.FromReader(fp)\n\tif err != nil {\n\t\treturn ocispec.Descriptor{}, err\n\t}\n",
		New:    "\tdgst, _ := digest.FromReader(fp)\n",
		Expect: "C12.R1.descriptor-describes-bytes|(*~/content/file.Store).descriptorFromFile|success-implies-digest-ok"},
	{Name: "file-size-of-other-path", File: "content/file/file.go",
		Old:    "\t\tdesc, err = s.descriptorFromFile(fi, mediaType, path)",
		New:    "\t\tdesc, err = s.descriptorFromFile(fi, mediaType, s.absPath(name))",
		Expect: "C12.R1.descriptor-describes-bytes|(*~/content/file.Store).descriptorFromFile|size-of-same-path"},
	// R2
	{Name: "verified-result-dead", File: "content/file/utils.go",
		Old: "\tif verifier != nil && !verifier.Verified() {", New: "\tif verifier != nil && !verifier.Verified() && checksum == \"\" {",
		Expect: "C12.R2.unpack-verifies|~/content/file.extractTarGzip|success-dominated-by-verified"},
	{Name: "tee-dropped", File: "content/file/utils.go",
		Old: "\t\t\tr = io.TeeReader(r, verifier)", New: "\t\t\t_ = io.TeeReader(r, verifier)",
		Expect: "C12.R2.unpack-verifies|~/content/file.extractTarGzip|reader-tees-into-verifier"},
	{Name: "checksum-not-passed", File: "content/file/file.go",
		Old: "\tchecksum := expected.Annotations[AnnotationDigest]", New: "\tchecksum := expected.Annotations[AnnotationUnpack]",
		Expect: "C12.R2.unpack-verifies|(*~/content/file.Store).pushDir|passes-recorded-digest"},
	{Name: "gzip-saved-unverified", File: "content/file/file.go",
		Old:    "\tif err := s.saveFile(gz, expected, content); err != nil {",
		New:    "\tif _, err := io.Copy(gz, content); err != nil {",
		Expect: "C12.R2.unpack-verifies|(*~/content/file.Store).pushDir|gzip-saved-through-verifying-copy"},
	{Name: "outer-verifier-shadowed", File: "content/file/utils.go",
		Old: "\t\t\tverifier = digest.Verifier()", New: "\t\t\tverifier := digest.Verifier()",
		Expect: "C12.R2.unpack-verifies|~/content/file.extractTarGzip|success-dominated-by-verified"},
	{Name: "verified-skipped-for-parsed-checksum", File: "content/file/utils.go",
		Old: "\tif verifier != nil && !verifier.Verified() {", New: "\tif verifier != nil && len(checksum) < 10 && !verifier.Verified() {",
		Expect: "C12.R2.unpack-verifies|~/content/file.extractTarGzip|success-dominated-by-verified"},
	// R5 / R6
	{Name: "bare-dotdot-prefix-rejects-legal-names", File: "content/file/utils.go",
		Old: "\tif cleanPath == \"..\" || strings.HasPrefix(cleanPath, \"../\") {", New: "\tif strings.HasPrefix(cleanPath, \"..\") {",
		Expect: "C12.R5.sanitisers-do-not-over-reject|~/content/file.resolveRelToBase|dotdot-test:strings.HasPrefix"},
	{Name: "write-path-rejects-any-dotdot-substring", File: "content/file/file.go",
		Old: "\t\tif strings.HasPrefix(rel, \"../\") || rel == \"..\" {", New: "\t\tif strings.HasPrefix(rel, \"../\") || strings.Contains(rel, \"..\") {",
		Expect: "C12.R5.sanitisers-do-not-over-reject|(*~/content/file.Store).resolveWritePath|dotdot-test:strings.Contains"},
	{Name: "dir-entry-mode-constant", File: "content/file/utils.go",
		Old: "\t\t\terr = os.MkdirAll(filePath, header.FileInfo().Mode())", New: "\t\t\terr = ensureDir(filePath)",
		Expect: "C12.R6.entry-mode-from-header|archive-entry|os.MkdirAll"},
	{Name: "file-entry-mode-constant", File: "content/file/utils.go",
		Old: "\t\t\terr = writeFile(filePath, tr, header.FileInfo().Mode(), buf)", New: "\t\t\terr = writeFile(filePath, tr, 0666, buf)",
		Expect: "C12.R6.entry-mode-from-header|archive-entry|os.OpenFile"},
	{Name: "empty-files-created-with-os-create", File: "content/file/utils.go",
		Old:    "\t\t\terr = writeFile(filePath, tr, header.FileInfo().Mode(), buf)",
		New:    "\t\t\tif header.Size == 0 {\n\t\t\t\tvar f *os.File\n\t\t\t\tif f, err = os.Create(filePath); err == nil {\n\t\t\t\t\terr = f.Close()\n\t\t\t\t}\n\t\t\t} else {\n\t\t\t\terr = writeFile(filePath, tr, header.FileInfo().Mode(), buf)\n\t\t\t}",
		Expect: "C12.R6.entry-mode-from-header|archive-entry|os.Create"},
	// R8 / R9 (all three keep the repository's tests green)
	{Name: "pack-copy-error-ignored", File: "content/file/utils.go",
		Old:    "\t\t\tif _, err := io.CopyBuffer(tw, fp, buf); err != nil {\n\t\t\t\treturn fmt.Errorf(\"failed to copy to %s: %w\", path, err)\n\t\t\t}",
		New:    "\t\t\tio.CopyBuffer(tw, fp, buf)",
		Expect: "C12.R8.pack-stream-complete|~/content/file.tarDirectory|content-copied-from-walked-file"},
	{Name: "tar-close-error-ignored", File: "content/file/utils.go",
		Old:    "\t\tcloseErr := tw.Close()\n\t\tif err == nil {\n\t\t\terr = closeErr\n\t\t}",
		New:    "\t\ttw.Close()",
		Expect: "C12.R8.pack-stream-complete|~/content/file.tarDirectory|tar-close-error-captured"},
	{Name: "pack-prefix-from-directory-name", File: "content/file/file.go",
		Old: "tarDirectory(ctx, dir, name, tw,", New: "tarDirectory(ctx, dir, filepath.Base(dir), tw,",
		Expect: "C12.R9.pack-unpack-name-agreement|(*~/content/file.Store).Add|pack-prefix-is-title"},
	{Name: "unpack-base-from-target-path", File: "content/file/file.go",
		Old: "extractTarGzip(target, name, gzPath,", New: "extractTarGzip(target, filepath.Base(target), gzPath,",
		Expect: "C12.R9.pack-unpack-name-agreement|unpack|base-name-is-title"},
	{Name: "readlink-error-ignored", File: "content/file/utils.go",
		Old: "\t\t\tif link, err = os.Readlink(path); err != nil {\n\t\t\t\treturn err\n\t\t\t}", New: "\t\t\tlink, _ = os.Readlink(path)",
		Expect: "C12.R8.pack-stream-complete|~/content/file.tarDirectory|link-target-from-readlink"},
	// R10 (all keep the repository's tests green)
	{Name: "unknown-entry-kind-ends-extraction", File: "content/file/utils.go",
		Old: "\t\tdefault:\n\t\t\tcontinue // Non-regular files are skipped", New: "\t\tdefault:\n\t\t\treturn nil // Non-regular files are skipped",
		Expect: "C12.R10.extraction-complete|~/content/file.extractTarDirectory|loop-ends-only-at-eof"},
	{Name: "unpacked-file-close-error-ignored", File: "content/file/utils.go",
		Old: "\t\tcloseErr := file.Close()\n\t\tif err == nil {\n\t\t\terr = closeErr\n\t\t}", New: "\t\tfile.Close()",
		Expect: "C12.R10.extraction-complete|~/content/file.writeFile|content-copied-from-archive"},
	{Name: "unpacked-copy-error-ignored", File: "content/file/utils.go",
		Old: "\t_, err = io.CopyBuffer(file, r, buf)\n\treturn err", New: "\tio.CopyBuffer(file, r, buf)\n\treturn nil",
		Expect: "C12.R10.extraction-complete|~/content/file.writeFile|content-copied-from-archive"},
	{Name: "unpacked-mkdir-error-ignored", File: "content/file/utils.go",
		Old: "\t\t\terr = os.MkdirAll(filePath, header.FileInfo().Mode())", New: "\t\t\t_ = os.MkdirAll(filePath, header.FileInfo().Mode())",
		Expect: "C12.R10.extraction-complete|archive-entry|os.MkdirAll|creation-error-surfaces"},
	{Name: "unpack-marker-compared-with-other-value", File: "content/file/file.go",
		Old: "needUnpack == \"true\" && !s.SkipUnpack", New: "needUnpack == \"True\" && !s.SkipUnpack",
		Expect: "C12.R9.pack-unpack-name-agreement|push|unpack-marker-value-agrees"},
	// R2 (mutation sweep survivor content/file/utils.go|bin-op|2; keeps the whole test suite green)
	{Name: "verifier-only-for-empty-checksum", File: "content/file/utils.go",
		Old: "\tif checksum != \"\" {", New: "\tif checksum == \"\" {",
		Expect: "C12.R2.unpack-verifies|~/content/file.extractTarGzip|verifier-armed-when-checksum-present"},
	// R11
	{Name: "fetch-looks-up-by-name", File: "content/file/file.go",
		Old:    "\tval, exists := s.digestToPath.Load(target.Digest)\n\tif exists {\n\t\tpath := val.(string)\n\n\t\tfp, err := os.Open(path)",
		New:    "\tval, exists := s.digestToPath.Load(target.Digest)\n\tif exists {\n\t\tpath := val.(string)\n\t\tif name != \"\" {\n\t\t\tpath = s.absPath(name)\n\t\t}\n\n\t\tfp, err := os.Open(path)",
		Expect: "C12.R11.fetch-serves-recorded-path|(*~/content/file.Store).Fetch|opens-path-recorded-for-digest"},
	// R7
	{Name: "preserved-mode-only-for-files", File: "content/file/utils.go",
		Old: "\t\tif preservePermissions && (header.Typeflag == tar.TypeReg || header.Typeflag == tar.TypeDir) {", New: "\t\tif preservePermissions && header.Typeflag == tar.TypeReg {",
		Expect: "C12.R7.preserved-modes-exact|archive-entry|os.MkdirAll"},
	{Name: "preserved-mode-flag-inverted", File: "content/file/utils.go",
		Old: "\t\tif preservePermissions && (header.Typeflag == tar.TypeReg || header.Typeflag == tar.TypeDir) {", New: "\t\tif !preservePermissions && (header.Typeflag == tar.TypeReg || header.Typeflag == tar.TypeDir) {",
		Expect: "C12.R7.preserved-modes-exact|archive-entry|os."},
	// R3
	{Name: "uid-not-zeroed", File: "content/file/utils.go",
		Old: "\t\theader.Uid = 0\n", New: "",
		Expect: "C12.R3.reproducible-headers|~/content/file.tarDirectory|zeroed:Uid"},
	{Name: "modtime-kept", File: "content/file/utils.go",
		Old: "\t\t\theader.ModTime = time.Time{}\n", New: "",
		Expect: "C12.R3.reproducible-headers|~/content/file.tarDirectory|zeroed-when-reproducible:ModTime"},
	{Name: "times-zeroing-inverted", File: "content/file/utils.go",
		Old: "\t\tif removeTimes {", New: "\t\tif !removeTimes {",
		Expect: "C12.R3.reproducible-headers|~/content/file.tarDirectory|zeroed-when-reproducible"},
	{Name: "name-not-slashed", File: "content/file/utils.go",
		Old: "\t\tname = filepath.ToSlash(name)\n", New: "",
		Expect: "C12.R3.reproducible-headers|~/content/file.tarDirectory|name-is-slash-prefix-rel"},
	// R4
	{Name: "restore-error-dropped", File: "content/file/file.go",
		Old:    "\t\tif err := s.restoreDuplicates(ctx, expected); err != nil {\n\t\t\treturn fmt.Errorf(\"failed to restore duplicated file: %w\", err)\n\t\t}\n",
		New:    "\t\t_ = s.restoreDuplicates(ctx, expected)\n",
		Expect: "C12.R4.duplicates-restored|(*~/content/file.Store).Push|restore-error-returned"},
	{Name: "restore-on-forcecas-only", File: "content/file/file.go",
		Old: "\tif !s.ForceCAS {", New: "\tif s.ForceCAS {",
		Expect: "C12.R4.duplicates-restored|(*~/content/file.Store).Push|restores-duplicates"},
	{Name: "restorer-skips-by-content", File: "content/file/file.go",
		Old:    "\t\tif name == \"\" || s.nameExists(name) {\n\t\t\tcontinue\n\t\t}\n\t\tif err := func() error {",
		New:    "\t\tif name == \"\" || s.nameExists(name) || successor.Size == 0 {\n\t\t\tcontinue\n\t\t}\n\t\tif err := func() error {",
		Expect: "C12.R4.duplicates-restored|(*~/content/file.Store).restoreDuplicates|every-named-successor-restored"},
	{Name: "restorer-stops-at-first-missing-blob", File: "content/file/file.go",
		Old:    "\t\t\tcase errors.Is(err, errdef.ErrNotFound):\n\t\t\t\t// allow pushing manifests before blobs\n",
		New:    "\t\t\tcase errors.Is(err, errdef.ErrNotFound):\n\t\t\t\t// allow pushing manifests before blobs\n\t\t\t\treturn nil\n",
		Expect: "C12.R4.duplicates-restored|(*~/content/file.Store).restoreDuplicates|loop-runs-to-the-end"},
	{Name: "symlinks-chmodded-too", File: "content/file/utils.go",
		Old: "\t\tif preservePermissions && (header.Typeflag == tar.TypeReg || header.Typeflag == tar.TypeDir) {", New: "\t\tif preservePermissions {",
		Expect: "C12.R7.preserved-modes-exact|archive-entry|os.Symlink|not-chmodded-through-link"},
	{Name: "restorer-tolerates-everything", File: "content/file/file.go",
		Old: "\t\t\tdefault:\n\t\t\t\treturn err\n", New: "\t\t\tdefault:\n\t\t\t\tcontinue\n",
		Expect: "C12.R4.duplicates-restored|(*~/content/file.Store).restoreDuplicates|tolerates-only-notfound-and-duplicate"},
}
