package main

// E1/E2: loader and anchor resolution.
//
// The program under analysis is loaded from the repository's current working
// tree on every run (nothing is cached between runs).  Anchors (functions,
// methods, fields, types) are resolved through go/types objects; an anchor
// that does not resolve is reported as UNRESOLVED-ANCHOR by the caller and
// fails the check (fail closed).

import (
	"fmt"
	"go/ast"
	"go/token"
	"go/types"
	"os"
	"sort"
	"strings"

	"golang.org/x/tools/go/callgraph"
	"golang.org/x/tools/go/callgraph/cha"
	"golang.org/x/tools/go/callgraph/vta"
	"golang.org/x/tools/go/packages"
	"golang.org/x/tools/go/ssa"
	"golang.org/x/tools/go/ssa/ssautil"
)

// Mod is the module path of the repository under analysis.
const Mod = "oras.land/oras-go/v2"

// Prog is the loaded, type-checked program in SSA form.
type Prog struct {
	Dir    string
	GOOS   string
	GOARCH string
	Fset   *token.FileSet
	Pkgs   map[string]*packages.Package
	SSA    *ssa.Program
	SPkgs  map[string]*ssa.Package
	All    map[*ssa.Function]bool // every function incl. anonymous and instantiations
	cg     *callgraph.Graph
	chaCG  *callgraph.Graph

	NPkgs, NFuncs, NBlocks, NCalls int
}

// Load loads ./... of dir for the given GOOS/GOARCH ("" = host).
func Load(dir, goos, goarch string) (*Prog, error) {
	env := os.Environ()
	// never let a workspace file or a network fetch into the build
	filtered := env[:0:0]
	for _, e := range env {
		if strings.HasPrefix(e, "GOWORK=") || strings.HasPrefix(e, "GOFLAGS=") ||
			strings.HasPrefix(e, "GOOS=") || strings.HasPrefix(e, "GOARCH=") {
			continue
		}
		filtered = append(filtered, e)
	}
	filtered = append(filtered, "GOWORK=off", "GOFLAGS=-mod=mod", "GOPROXY=off", "GOSUMDB=off", "GOTOOLCHAIN=local", "CGO_ENABLED=0")
	if goos != "" {
		filtered = append(filtered, "GOOS="+goos)
	}
	if goarch != "" {
		filtered = append(filtered, "GOARCH="+goarch)
	}
	cfg := &packages.Config{Mode: packages.LoadAllSyntax, Dir: dir, Tests: false, Env: filtered}
	pkgs, err := packages.Load(cfg, "./...")
	if err != nil {
		return nil, fmt.Errorf("packages.Load: %w", err)
	}
	if len(pkgs) == 0 {
		return nil, fmt.Errorf("no packages loaded from %s", dir)
	}
	var errs []string
	packages.Visit(pkgs, nil, func(p *packages.Package) {
		for _, e := range p.Errors {
			errs = append(errs, e.Error())
		}
	})
	if len(errs) > 0 {
		return nil, fmt.Errorf("type-check/load errors (the tree does not build):\n  %s", strings.Join(errs, "\n  "))
	}
	sp, spkgs := ssautil.AllPackages(pkgs, ssa.InstantiateGenerics)
	sp.Build()
	p := &Prog{Dir: dir, GOOS: goos, GOARCH: goarch, Fset: pkgs[0].Fset, SSA: sp,
		Pkgs: map[string]*packages.Package{}, SPkgs: map[string]*ssa.Package{}}
	packages.Visit(pkgs, nil, func(pk *packages.Package) { p.Pkgs[pk.PkgPath] = pk })
	for i, pk := range pkgs {
		if spkgs[i] == nil {
			return nil, fmt.Errorf("no SSA for package %s", pk.PkgPath)
		}
		p.SPkgs[pk.PkgPath] = spkgs[i]
	}
	for _, sp := range sp.AllPackages() {
		if _, ok := p.SPkgs[sp.Pkg.Path()]; !ok {
			p.SPkgs[sp.Pkg.Path()] = sp
		}
	}
	p.All = ssautil.AllFunctions(sp)
	for f := range p.All {
		if f.Pkg != nil && strings.HasPrefix(f.Pkg.Pkg.Path(), Mod) || (f.Pkg == nil && f.Origin() != nil && f.Origin().Pkg != nil && strings.HasPrefix(f.Origin().Pkg.Pkg.Path(), Mod)) {
			p.NFuncs++
			for _, b := range f.Blocks {
				p.NBlocks++
				for _, in := range b.Instrs {
					if _, ok := in.(ssa.CallInstruction); ok {
						p.NCalls++
					}
				}
			}
		}
	}
	for path := range p.Pkgs {
		if strings.HasPrefix(path, Mod) {
			p.NPkgs++
		}
	}
	if p.NPkgs == 0 {
		return nil, fmt.Errorf("no packages of %s were loaded", Mod)
	}
	return p, nil
}

// pkgPath expands a module-relative package path ("" or "." = root).
func pkgPath(rel string) string {
	if rel == "" || rel == "." || rel == "~" {
		return Mod
	}
	rel = strings.TrimPrefix(rel, "~/")
	switch strings.SplitN(rel, "/", 2)[0] {
	case "content", "registry", "internal", "errdef":
		return Mod + "/" + rel
	}
	return rel
}

// TypesPkg returns the types.Package for a (module-relative or absolute) path.
func (p *Prog) TypesPkg(rel string) *types.Package {
	if pk, ok := p.Pkgs[pkgPath(rel)]; ok {
		return pk.Types
	}
	if sp, ok := p.SPkgs[pkgPath(rel)]; ok {
		return sp.Pkg
	}
	return nil
}

// Obj looks up a package-level object.
func (p *Prog) Obj(rel, name string) types.Object {
	tp := p.TypesPkg(rel)
	if tp == nil {
		return nil
	}
	return tp.Scope().Lookup(name)
}

// Named returns the named type rel.name, or nil.
func (p *Prog) Named(rel, name string) *types.Named {
	o := p.Obj(rel, name)
	if o == nil {
		return nil
	}
	tn, ok := o.(*types.TypeName)
	if !ok {
		return nil
	}
	n, _ := tn.Type().(*types.Named)
	return n
}

// Fn resolves a function or method:  Fn("content/oci", "Store.Push"),
// Fn("", "copyGraph").  Generic functions resolve to the generic origin (use
// Instances for concrete bodies).  Returns nil if not found.
func (p *Prog) Fn(rel, name string) *ssa.Function {
	name = strings.TrimPrefix(strings.TrimPrefix(name, "(*"), "(")
	name = strings.Replace(name, ").", ".", 1)
	if i := strings.Index(name, "."); i >= 0 {
		tname, mname := name[:i], name[i+1:]
		n := p.Named(rel, tname)
		if n == nil {
			return nil
		}
		for i := 0; i < n.NumMethods(); i++ {
			m := n.Method(i)
			if m.Name() == mname {
				return p.SSA.FuncValue(m)
			}
		}
		// promoted / embedded: search the pointer method set
		ms := types.NewMethodSet(types.NewPointer(n))
		for i := 0; i < ms.Len(); i++ {
			if ms.At(i).Obj().Name() == mname {
				if f, ok := ms.At(i).Obj().(*types.Func); ok {
					return p.SSA.FuncValue(f)
				}
			}
		}
		return nil
	}
	o := p.Obj(rel, name)
	f, ok := o.(*types.Func)
	if !ok {
		return nil
	}
	return p.SSA.FuncValue(f)
}

// Instances returns the concrete bodies of fn: fn itself when it is not
// generic, otherwise every instantiation present in the program.
func (p *Prog) Instances(fn *ssa.Function) []*ssa.Function {
	if fn == nil {
		return nil
	}
	if fn.TypeParams().Len() == 0 || len(fn.TypeArgs()) > 0 {
		if len(fn.Blocks) > 0 && fn.TypeParams().Len() == 0 {
			return []*ssa.Function{fn}
		}
	}
	var out []*ssa.Function
	for f := range p.All {
		if f.Origin() == fn && len(f.Blocks) > 0 {
			out = append(out, f)
		}
	}
	sort.Slice(out, func(i, j int) bool { return out[i].String() < out[j].String() })
	if len(out) == 0 && len(fn.Blocks) > 0 {
		out = append(out, fn)
	}
	return out
}

// FuncsOfPkg returns all source functions (incl. methods and anonymous
// functions, excl. synthetic wrappers) declared in the package.
func (p *Prog) FuncsOfPkg(rel string) []*ssa.Function {
	path := pkgPath(rel)
	var out []*ssa.Function
	for f := range p.All {
		if f.Synthetic != "" && !strings.HasPrefix(f.Synthetic, "instance of") && f.Parent() == nil {
			// wrappers, thunks, bound methods, package initialisers.  Nested
			// synthetic functions (the yield closures go/ssa synthesises for
			// range-over-func loops) are source code and are kept.
			continue
		}
		if len(f.Blocks) == 0 {
			continue
		}
		if fnPkgPath(f) == path {
			out = append(out, f)
		}
	}
	sort.Slice(out, func(i, j int) bool {
		if out[i].String() != out[j].String() {
			return out[i].String() < out[j].String()
		}
		return out[i].Pos() < out[j].Pos()
	})
	return out
}

func fnPkgPath(f *ssa.Function) string {
	for f.Parent() != nil {
		f = f.Parent()
	}
	if f.Pkg != nil {
		return f.Pkg.Pkg.Path()
	}
	if o := f.Origin(); o != nil && o.Pkg != nil {
		return o.Pkg.Pkg.Path()
	}
	if f.Object() != nil && f.Object().Pkg() != nil {
		return f.Object().Pkg().Path()
	}
	return ""
}

// Anons returns all anonymous functions nested (transitively) in fn.
func Anons(fn *ssa.Function) []*ssa.Function {
	var out []*ssa.Function
	var rec func(f *ssa.Function)
	rec = func(f *ssa.Function) {
		for _, a := range f.AnonFuncs {
			out = append(out, a)
			rec(a)
		}
	}
	rec(fn)
	return out
}

// CG returns the VTA call graph (built over CHA), lazily.
func (p *Prog) CG() *callgraph.Graph {
	if p.cg == nil {
		p.chaCG = cha.CallGraph(p.SSA)
		p.cg = vta.CallGraph(p.All, p.chaCG)
	}
	return p.cg
}

// CHA returns the class-hierarchy call graph.
func (p *Prog) CHA() *callgraph.Graph {
	p.CG()
	return p.chaCG
}

// Pos renders a position relative to the repository root.
func (p *Prog) Pos(pos token.Pos) string {
	if !pos.IsValid() {
		return "-"
	}
	ps := p.Fset.Position(pos)
	f := strings.TrimPrefix(ps.Filename, p.Dir+"/")
	return fmt.Sprintf("%s:%d", f, ps.Line)
}

// FnName renders a function name with the module prefix shortened to "~".
func FnName(f *ssa.Function) string {
	if f == nil {
		return "<nil>"
	}
	return short(f.String())
}

func short(s string) string {
	s = strings.ReplaceAll(s, Mod+"/", "~/")
	s = strings.ReplaceAll(s, Mod+".", "~.")
	s = strings.ReplaceAll(s, Mod, "~")
	s = strings.ReplaceAll(s, "github.com/opencontainers/image-spec/specs-go/v1", "ocispec")
	s = strings.ReplaceAll(s, "github.com/opencontainers/go-digest", "digest")
	return s
}

// FileOf returns the AST file and package containing pos.
func (p *Prog) FileOf(pos token.Pos) (*ast.File, *packages.Package) {
	for _, pk := range p.Pkgs {
		for _, f := range pk.Syntax {
			if f.Pos() <= pos && pos <= f.End() {
				return f, pk
			}
		}
	}
	return nil, nil
}

// FuncDecl returns the AST declaration of a named function/method.
func (p *Prog) FuncDecl(rel, name string) (*ast.FuncDecl, *packages.Package) {
	pk := p.Pkgs[pkgPath(rel)]
	if pk == nil {
		return nil, nil
	}
	recv := ""
	if i := strings.Index(name, "."); i >= 0 {
		recv, name = name[:i], name[i+1:]
	}
	for _, f := range pk.Syntax {
		for _, d := range f.Decls {
			fd, ok := d.(*ast.FuncDecl)
			if !ok || fd.Name.Name != name {
				continue
			}
			if recv == "" && fd.Recv == nil {
				return fd, pk
			}
			if recv != "" && fd.Recv != nil && len(fd.Recv.List) == 1 {
				t := fd.Recv.List[0].Type
				if s, ok := t.(*ast.StarExpr); ok {
					t = s.X
				}
				if ix, ok := t.(*ast.IndexExpr); ok {
					t = ix.X
				}
				if id, ok := t.(*ast.Ident); ok && id.Name == recv {
					return fd, pk
				}
			}
		}
	}
	return nil, nil
}
